import Darling.Props.C10Spec
import Darling.Props.C06Derive
/-
  C10, positional form, part 2 — the *container* options and the whole declaration.

  Container options.  One vocabulary `ContKw`, read through a `Dialect`: `Core` alone, an
  element-level derive (`OuterFrom` + `supports`, `Options.outerTraitStep t`), or `FromMetaOptions`
  (`Options.fromMetaStep`); the last two hand every item that is not their own to `Core`
  (`Options.coreStep` through `liftCore`).
    * `contKw dl` / `contRead dl o` / `contReadErr dl o`      one item, whatever its position
    * `firstEff` / `lastEff dl o pre sl`      the first / last earlier item that writes slot `sl`
    * `contRepeat`, `contPush`, `contVerdict dl o pre mi`     what item `mi` contributes after `pre`
    * `coreStateP dl o r0 pre`, `outerStateP t o pre`, `fromMetaStateP o r0 pre`   the options in force
    * `coreStep_specD` (hence `coreStep_spec`), `outerTraitStep_spec`, `fromMetaStep_spec`
                                              one step of the code = the positional verdict
    * `…Items_spec`, `…Attrs_spec`            through `parse_attr` / `parse_attributes`
    * `ContWellFormed dl o ms`, `cont_verdicts_nil_iff_wf`, `core_/outer_/fromMeta_decl_accepts_iff_wf`
  What the code does, as the specification says it: `default`, `map`/`and_then`,
  `allow_unknown_fields`, `from_word`, `from_none` may be given once (the first read wins, a repeat is
  `Duplicate field` — spanned at the *path* for `from_word`/`from_none`); `rename_all`, `attributes`,
  `forward_attrs`, `supports` may be repeated, the last read wins; `bound` is read and dropped;
  `from_ident` has no reader at all and also *is* a container default — so `default` after `from_ident`
  is a duplicate while `from_ident` after `default` silently replaces it (the one order-dependent rule).

  The whole declaration.  `FieldDeclOk`, `VariantDeclOk`, `BodyFieldOk` (magic and forwarded fields,
  with `forwardedFromField_ok_iff` for the `with` option of `attrs`/`data`), the body loops
  (`parseFields_spec`, `parseVariants_fromMeta_spec`, `parseVariants_outer_errs`), the validation rules
  (`flattenErrs_nil_iff` — for a struct body and, since the repair of the library, for the field list of every
  variant —, `fromMetaValidate_struct_nil_iff`, `fromMetaValidate_enum_nil_iff`) and
    * `deriveFromMeta_ok_iff`, `deriveOuter_ok_iff`, `derive_ok_iff`, `derive_rejects_iff`:
      under `C06.DeclSafe d`, the derive emits an impl ⟺ `FromMetaDeclOk o d` / `OuterDeclOk t o sim d`,
      and reports diagnostics otherwise.
-/
open Options Wrappers Scalars SynTypes

namespace C10

/-! ## container options: one item, whatever its position -/

/-- who reads the container attributes: `Core` alone, an element-level derive (`OuterFrom`, plus
    `supports` for `FromDeriveInput` / `FromVariant`), or `FromMetaOptions` -/
inductive Dialect where
  | core
  | outer (t : Trait)
  | fromMeta

inductive ContKw where
  | default | renameAll | map | andThen | bound | allowUnknown            -- `Core`
  | attributes | forwardAttrs | fromIdent | supportsDI | supportsV         -- `OuterFrom`, `supports`
  | fromWord | fromNone                                                    -- `FromMetaOptions`
  deriving DecidableEq, Repr

def ContKw.name : ContKw → String
  | .default => "default" | .renameAll => "rename_all" | .map => "map" | .andThen => "and_then"
  | .bound => "bound" | .allowUnknown => "allow_unknown_fields" | .attributes => "attributes"
  | .forwardAttrs => "forward_attrs" | .fromIdent => "from_ident" | .supportsDI => "supports"
  | .supportsV => "supports" | .fromWord => "from_word" | .fromNone => "from_none"

/-- the options of `Core` (same tests, same order as `Core::parse_nested`) -/
def coreKw (mi : Meta) : Option ContKw :=
  if mi.path'.isIdent "default" then some .default
  else if mi.path'.isIdent "rename_all" then some .renameAll
  else if mi.path'.isIdent "map" then some .map
  else if mi.path'.isIdent "and_then" then some .andThen
  else if mi.path'.isIdent "bound" then some .bound
  else if mi.path'.isIdent "allow_unknown_fields" then some .allowUnknown
  else none

/-- which option an item spells for a given reader (the reader's own options first, then `Core`'s) -/
def contKw : Dialect → Meta → Option ContKw
  | .core, mi => coreKw mi
  | .outer t, mi =>
      if mi.path'.isIdent "supports" && t == .fromDeriveInput then some .supportsDI
      else if mi.path'.isIdent "supports" && t == .fromVariant then some .supportsV
      else if mi.path'.isIdent "attributes" then some .attributes
      else if mi.path'.isIdent "forward_attrs" then some .forwardAttrs
      else if mi.path'.isIdent "from_ident" then some .fromIdent
      else coreKw mi
  | .fromMeta, mi =>
      if mi.path'.isIdent "from_word" then some .fromWord
      else if mi.path'.isIdent "from_none" then some .fromNone
      else coreKw mi

/-- what an option's reader hands back -/
inductive ContVal where
  | default (v : DefaultExpr)
  | renameAll (v : RenameRule)
  | post (f : String)
  | bound
  | allowUnknown (v : Option Bool)
  | attributes (v : List String)
  | forwardAttrs (v : Option FwdFilter)
  | fromIdent (sp : Span)
  | supportsDI (v : Option DISS)
  | supportsV (v : Option DataShape)
  | fromWord (c : String) (sp : Span)
  | fromNone (c : String)

/-- the span remembered with `from_word`: the value expression of `from_word = …`, else the item -/
def fromWordSpan (mi : Meta) : Span :=
  match mi with
  | .nameValue _ e _ _ => e.span
  | m => m.span

/-- the reader of option `k` applied to the item.  `from_ident` has none: whatever follows the word
    is ignored. -/
def contReadR (o : Oracle) (k : ContKw) (mi : Meta) : Outcome ContVal :=
  match k with
  | .default => (defaultFromMeta o mi).map .default
  | .renameAll => (readRenameRule mi).map .renameAll
  | .map => (readPath o mi).map .post
  | .andThen => (readPath o mi).map .post
  | .bound => (readOptWherePreds o mi).map (fun _ => .bound)
  | .allowUnknown => (readOptBool mi).map .allowUnknown
  | .attributes => (readPathList mi).map .attributes
  | .forwardAttrs => (readOptFwd mi).map .forwardAttrs
  | .fromIdent => .ok (.fromIdent mi.path'.span)
  | .supportsDI => (readOptDISS mi).map .supportsDI
  | .supportsV => (readOptDataShape mi).map .supportsV
  | .fromWord => (readCallable mi).map (fun c => .fromWord c (fromWordSpan mi))
  | .fromNone => (readCallable mi).map .fromNone

def contRead (dl : Dialect) (o : Oracle) (mi : Meta) : Option ContVal :=
  match contKw dl mi with
  | some k => (match contReadR o k mi with | .ok v => some v | _ => none)
  | none => none

def contReadErr (dl : Dialect) (o : Oracle) (mi : Meta) : Option Err :=
  match contKw dl mi with
  | some k => (match contReadR o k mi with | .err e => some e | _ => none)
  | none => none

/-- the storage an option writes: `map` and `and_then` share one -/
def ContKw.slot : ContKw → ContKw
  | .andThen => .map
  | k => k

/-- the slot an item writes: known option, successful read -/
def contWrites (dl : Dialect) (o : Oracle) (mi : Meta) : Option ContKw :=
  match contKw dl mi with
  | some k => if (contRead dl o mi).isSome then some k.slot else none
  | none => none

/-! ## an item among the items before it -/

/-- the first / the last earlier item that writes a slot -/
def firstEff (dl : Dialect) (o : Oracle) (pre : List Meta) (sl : ContKw) : Option Meta :=
  pre.find? (fun m => contWrites dl o m == some sl)
def lastEff (dl : Dialect) (o : Oracle) (pre : List Meta) (sl : ContKw) : Option Meta :=
  pre.reverse.find? (fun m => contWrites dl o m == some sl)

/-- `Error::duplicate_field_path(path).with_span(path)` — `FromMetaOptions` spans the *path* -/
def dupErrAtPath (mi : Meta) : Err := (Err.new (.duplicateField mi.path'.toStr)).withSpan mi.path'.span

/-- is a container default already in force?  `default` read earlier, **or `from_ident` seen** -/
def dfltHeld (dl : Dialect) (o : Oracle) (pre : List Meta) : Bool :=
  (firstEff dl o pre .default).isSome || (lastEff dl o pre .fromIdent).isSome

/-- the complaint (if any) about a repeat.  Only `default`, `map`/`and_then`,
    `allow_unknown_fields`, `from_word`, `from_none` may not be repeated; `rename_all`, `bound`,
    `attributes`, `forward_attrs`, `from_ident`, `supports` may. -/
def contRepeat (dl : Dialect) (o : Oracle) (pre : List Meta) (k : ContKw) (mi : Meta) : Option Err :=
  match k with
  | .default => if dfltHeld dl o pre then some (dupErr mi) else none
  | .map => (firstEff dl o pre .map).map fun holder =>
      if contKw dl holder = some .andThen then exclusiveErr "map" "and_then" mi else dupErr mi
  | .andThen => (firstEff dl o pre .map).map fun holder =>
      if contKw dl holder = some .map then exclusiveErr "and_then" "map" mi else dupErr mi
  | .allowUnknown => if (firstEff dl o pre .allowUnknown).isSome then some (dupErr mi) else none
  | .fromWord => if (firstEff dl o pre .fromWord).isSome then some (dupErrAtPath mi) else none
  | .fromNone => if (firstEff dl o pre .fromNone).isSome then some (dupErrAtPath mi) else none
  | _ => none

/-- the one error (if any) item `mi` pushes, given the items `pre` before it -/
def contPush (dl : Dialect) (o : Oracle) (pre : List Meta) (mi : Meta) : Option Err :=
  match contKw dl mi with
  | none => some (unknownErr mi)
  | some k =>
      match contRepeat dl o pre k mi with
      | some e => some e
      | none =>
          match contRead dl o mi with
          | some _ => none
          | none => contReadErr dl o mi

/-- **the verdict on one container item** -/
def contVerdict (dl : Dialect) (o : Oracle) (pre : List Meta) (mi : Meta) : List Err := (contPush dl o pre mi).toList

/-- the container default in force: `Default::default()` spanned at the last `from_ident` if there
    is one, else the first `default` read -/
def contDflt (dl : Dialect) (o : Oracle) (pre : List Meta) : Option DefaultExpr :=
  match lastEff dl o pre .fromIdent with
  | some m => some (.trait_ m.path'.span)
  | none => match (firstEff dl o pre .default).bind (contRead dl o) with
      | some (.default v) => some v
      | _ => none

/-- `Core` after `pre`, starting from rename rule `r0`: first `default` / transformer /
    `allow_unknown_fields`, **last** `rename_all` -/
def coreStateP (dl : Dialect) (o : Oracle) (r0 : RenameRule) (pre : List Meta) : CoreOpts :=
  { dflt := contDflt dl o pre
    renameRule := match (lastEff dl o pre .renameAll).bind (contRead dl o) with | some (.renameAll v) => v | _ => r0
    post := match firstEff dl o pre .map with
      | some m => (match contRead dl o m with
          | some (.post f) => some ⟨if contKw dl m = some .map then "map" else "and_then", f⟩
          | _ => none)
      | none => none
    allowUnknown := match (firstEff dl o pre .allowUnknown).bind (contRead dl o) with
      | some (.allowUnknown v) => v | _ => none }

/-- `OuterFrom` (+ `supports`) after `pre`: the **last** `attributes` / `forward_attrs` / `supports` -/
def outerStateP (t : Trait) (o : Oracle) (pre : List Meta) : OuterOpts :=
  { core := coreStateP (.outer t) o .none pre
    attrNames := match (lastEff (.outer t) o pre .attributes).bind (contRead (.outer t) o) with
      | some (.attributes v) => v | _ => []
    forward := match (lastEff (.outer t) o pre .forwardAttrs).bind (contRead (.outer t) o) with
      | some (.forwardAttrs v) => v | _ => none
    fromIdent := (lastEff (.outer t) o pre .fromIdent).isSome
    supports := match (lastEff (.outer t) o pre .supportsDI).bind (contRead (.outer t) o) with
      | some (.supportsDI v) => v | _ => none
    vsupports := match (lastEff (.outer t) o pre .supportsV).bind (contRead (.outer t) o) with
      | some (.supportsV v) => v | _ => none }

/-- `FromMetaOptions` after `pre`: the first `from_word` / `from_none` -/
def fromMetaStateP (o : Oracle) (r0 : RenameRule) (pre : List Meta) : FromMetaOpts :=
  { core := coreStateP .fromMeta o r0 pre
    fromWord := match (firstEff .fromMeta o pre .fromWord).bind (contRead .fromMeta o) with
      | some (.fromWord c sp) => some (c, sp) | _ => none
    fromNone := match (firstEff .fromMeta o pre .fromNone).bind (contRead .fromMeta o) with
      | some (.fromNone c) => some c | _ => none }


theorem getIdent_of_coreKw (mi : Meta) (k : ContKw) (h : coreKw mi = some k) : mi.path'.getIdent = some k.name := by
  unfold coreKw at h
  simp only [Path.isIdent, beq_iff_eq] at h
  repeat' split at h
  all_goals first | (cases h; assumption) | cases h

theorem toStr_of_getIdent (p : Path) (n : String) (h : p.getIdent = some n) : p.toStr = n := by
  unfold Path.getIdent at h
  split at h
  · rename_i s hg hs hp
    cases h
    simp only [Path.toStr, hs]
    rfl
  · cases h

/-- for an item spelled as a plain identifier, `Duplicate field` names that identifier -/
theorem dupErr_of_getIdent (mi : Meta) (n : String) (h : mi.path'.getIdent = some n) :
    (Err.new (.duplicateField n)).withSpan mi.span = dupErr mi := by
  simp [dupErr, toStr_of_getIdent _ _ h]

theorem coreStep_unknown (o : Oracle) (s : CoreOpts) (mi : Meta) (h : coreKw mi = none) :
    coreStep o s mi = .err s (unknownErr mi) := by
  unfold coreKw at h
  repeat' split at h
  all_goals first | cases h | skip
  simp [coreStep, *]

theorem coreStep_default (o : Oracle) (s : CoreOpts) (mi : Meta) (h : coreKw mi = some .default) :
    coreStep o s mi =
      if s.dflt.isSome then .err s (dupErr mi) else
      withRead s (defaultFromMeta o mi) fun v => .ok { s with dflt := some v } := by
  have hg := getIdent_of_coreKw mi _ h
  rw [← dupErr_of_getIdent mi _ hg]
  simp [coreStep, Path.isIdent, hg, ContKw.name]

theorem coreStep_renameAll (o : Oracle) (s : CoreOpts) (mi : Meta) (h : coreKw mi = some .renameAll) :
    coreStep o s mi = withRead s (readRenameRule mi) fun v => .ok { s with renameRule := v } := by
  have hg := getIdent_of_coreKw mi _ h
  simp [coreStep, Path.isIdent, hg, ContKw.name]

theorem coreStep_map (o : Oracle) (s : CoreOpts) (mi : Meta) (h : coreKw mi = some .map) :
    coreStep o s mi =
      match s.post with
      | some pt => .err s (if "map" == pt.transformer then dupErr mi else exclusiveErr "map" pt.transformer mi)
      | none => withRead s (readPath o mi) fun f => .ok { s with post := some ⟨"map", f⟩ } := by
  have hg := getIdent_of_coreKw mi _ h
  rw [← dupErr_of_getIdent mi _ hg]
  simp [coreStep, Path.isIdent, hg, ContKw.name]
  cases s.post <;> simp
  split <;> rfl

theorem coreStep_andThen (o : Oracle) (s : CoreOpts) (mi : Meta) (h : coreKw mi = some .andThen) :
    coreStep o s mi =
      match s.post with
      | some pt => .err s (if "and_then" == pt.transformer then dupErr mi else exclusiveErr "and_then" pt.transformer mi)
      | none => withRead s (readPath o mi) fun f => .ok { s with post := some ⟨"and_then", f⟩ } := by
  have hg := getIdent_of_coreKw mi _ h
  rw [← dupErr_of_getIdent mi _ hg]
  simp [coreStep, Path.isIdent, hg, ContKw.name]
  cases s.post <;> simp
  split <;> rfl

theorem coreStep_bound (o : Oracle) (s : CoreOpts) (mi : Meta) (h : coreKw mi = some .bound) :
    coreStep o s mi = withRead s (readOptWherePreds o mi) fun _ => .ok s := by
  have hg := getIdent_of_coreKw mi _ h
  simp [coreStep, Path.isIdent, hg, ContKw.name]

theorem coreStep_allowUnknown (o : Oracle) (s : CoreOpts) (mi : Meta) (h : coreKw mi = some .allowUnknown) :
    coreStep o s mi =
      if s.allowUnknown.isSome then .err s (dupErr mi) else
      withRead s (readOptBool mi) fun v => .ok { s with allowUnknown := v } := by
  have hg := getIdent_of_coreKw mi _ h
  rw [← dupErr_of_getIdent mi _ hg]
  simp [coreStep, Path.isIdent, hg, ContKw.name]


theorem contReadR_returns (o : Oracle) (k : ContKw) (mi : Meta) : (contReadR o k mi).Returns := by
  cases k <;> simp only [contReadR]
  · exact (C06.defaultFromMeta_returns o mi).map _
  · exact (C06.readRenameRule_returns mi).map _
  · exact (C06.readPath_returns o mi).map _
  · exact (C06.readPath_returns o mi).map _
  · exact (C06.readOptWherePreds_returns o mi).map _
  · exact (C06.readOptBool_returns mi).map _
  · exact (C06.readPathList_returns mi).map _
  · exact (C06.readOptFwd_returns mi).map _
  · exact Outcome.returns_ok _
  · exact (C06.readOptDISS_returns mi).map _
  · exact (C06.readOptDataShape_returns mi).map _
  · exact (C06.readCallable_returns mi).map _
  · exact (C06.readCallable_returns mi).map _

/-! ### first / last effective occurrence -/

theorem firstEff_snoc (dl : Dialect) (o : Oracle) (pre : List Meta) (mi : Meta) (sl : ContKw) :
    firstEff dl o (pre ++ [mi]) sl = (firstEff dl o pre sl).or (if contWrites dl o mi = some sl then some mi else none) := by
  simp only [firstEff, List.find?_append, List.find?_cons, List.find?_nil]
  congr 1
  by_cases h : contWrites dl o mi = some sl
  · simp [h]
  · have : (contWrites dl o mi == some sl) = false := by simpa using h
    simp [h, this]

theorem lastEff_snoc (dl : Dialect) (o : Oracle) (pre : List Meta) (mi : Meta) (sl : ContKw) :
    lastEff dl o (pre ++ [mi]) sl = if contWrites dl o mi = some sl then some mi else lastEff dl o pre sl := by
  simp only [lastEff, List.reverse_append, List.reverse_cons, List.reverse_nil, List.nil_append, List.cons_append,
    List.find?_cons]
  by_cases h : contWrites dl o mi = some sl
  · simp [h]
  · have : (contWrites dl o mi == some sl) = false := by simpa using h
    simp [h, this]

theorem firstEff_writes (dl : Dialect) (o : Oracle) (pre : List Meta) (sl : ContKw) (m : Meta)
    (h : firstEff dl o pre sl = some m) : contWrites dl o m = some sl := by
  have := List.find?_some h
  simpa using this

theorem lastEff_writes (dl : Dialect) (o : Oracle) (pre : List Meta) (sl : ContKw) (m : Meta)
    (h : lastEff dl o pre sl = some m) : contWrites dl o m = some sl := by
  have := List.find?_some h
  simpa using this

theorem contWrites_eq_some (dl : Dialect) (o : Oracle) (m : Meta) (sl : ContKw) (h : contWrites dl o m = some sl) :
    ∃ k v, contKw dl m = some k ∧ k.slot = sl ∧ contRead dl o m = some v ∧ contReadR o k m = .ok v := by
  unfold contWrites at h
  cases hk : contKw dl m with
  | none => rw [hk] at h; cases h
  | some k =>
      rw [hk] at h
      simp only [] at h
      cases hr : contRead dl o m with
      | none => rw [hr] at h; cases h
      | some v =>
          rw [hr] at h
          simp only [Option.isSome_some, if_true, Option.some.injEq] at h
          refine ⟨k, v, rfl, h, rfl, ?_⟩
          unfold contRead at hr
          rw [hk] at hr
          simp only [] at hr
          split at hr
          · cases hr; assumption
          · cases hr

theorem contRead_of_ok (dl : Dialect) (o : Oracle) (mi : Meta) (k : ContKw) (v : ContVal) (hk : contKw dl mi = some k)
    (hr : contReadR o k mi = .ok v) : contRead dl o mi = some v ∧ contWrites dl o mi = some k.slot := by
  have h1 : contRead dl o mi = some v := by simp [contRead, hk, hr]
  exact ⟨h1, by simp [contWrites, hk, h1]⟩

theorem contRead_of_err (dl : Dialect) (o : Oracle) (mi : Meta) (k : ContKw) (e : Err) (hk : contKw dl mi = some k)
    (hr : contReadR o k mi = .err e) :
    contRead dl o mi = none ∧ contReadErr dl o mi = some e ∧ contWrites dl o mi = none := by
  have h1 : contRead dl o mi = none := by simp [contRead, hk, hr]
  exact ⟨h1, by simp [contReadErr, hk, hr], by simp [contWrites, hk, h1]⟩

theorem held_cdefault (dl : Dialect) (o : Oracle) (pre : List Meta) (m : Meta) (h : firstEff dl o pre .default = some m) :
    ∃ x, contRead dl o m = some (.default x) := by
  obtain ⟨k, v, hk, hsl, hrd, hR⟩ := contWrites_eq_some dl o m _ (firstEff_writes dl o pre _ m h)
  cases k <;> simp only [ContKw.slot, reduceCtorEq] at hsl
  obtain ⟨a, ha, rfl⟩ := map_eq_ok hR
  exact ⟨a, hrd⟩

theorem held_cpost (dl : Dialect) (o : Oracle) (pre : List Meta) (m : Meta) (h : firstEff dl o pre .map = some m) :
    ∃ f, (contKw dl m = some .map ∨ contKw dl m = some .andThen) ∧ contRead dl o m = some (.post f) := by
  obtain ⟨k, v, hk, hsl, hrd, hR⟩ := contWrites_eq_some dl o m _ (firstEff_writes dl o pre _ m h)
  cases k <;> simp only [ContKw.slot, reduceCtorEq] at hsl
  · obtain ⟨a, ha, rfl⟩ := map_eq_ok hR
    exact ⟨a, .inl hk, hrd⟩
  · obtain ⟨a, ha, rfl⟩ := map_eq_ok hR
    exact ⟨a, .inr hk, hrd⟩

theorem held_callowUnknown (dl : Dialect) (o : Oracle) (pre : List Meta) (m : Meta)
    (h : firstEff dl o pre .allowUnknown = some m) : ∃ x, contRead dl o m = some (.allowUnknown (some x)) := by
  obtain ⟨k, v, hk, hsl, hrd, hR⟩ := contWrites_eq_some dl o m _ (firstEff_writes dl o pre _ m h)
  cases k <;> simp only [ContKw.slot, reduceCtorEq] at hsl
  obtain ⟨a, ha, rfl⟩ := map_eq_ok hR
  obtain ⟨x, rfl⟩ := readOptBool_some m a ha
  exact ⟨x, hrd⟩

theorem held_cfromWord (dl : Dialect) (o : Oracle) (pre : List Meta) (m : Meta)
    (h : firstEff dl o pre .fromWord = some m) : ∃ c sp, contRead dl o m = some (.fromWord c sp) := by
  obtain ⟨k, v, hk, hsl, hrd, hR⟩ := contWrites_eq_some dl o m _ (firstEff_writes dl o pre _ m h)
  cases k <;> simp only [ContKw.slot, reduceCtorEq] at hsl
  obtain ⟨a, ha, rfl⟩ := map_eq_ok hR
  exact ⟨a, _, hrd⟩

theorem held_cfromNone (dl : Dialect) (o : Oracle) (pre : List Meta) (m : Meta)
    (h : firstEff dl o pre .fromNone = some m) : ∃ c, contRead dl o m = some (.fromNone c) := by
  obtain ⟨k, v, hk, hsl, hrd, hR⟩ := contWrites_eq_some dl o m _ (firstEff_writes dl o pre _ m h)
  cases k <;> simp only [ContKw.slot, reduceCtorEq] at hsl
  obtain ⟨a, ha, rfl⟩ := map_eq_ok hR
  exact ⟨a, hrd⟩

/-! ### the `Core` state, field by field -/

theorem cstate_dflt_isSome (dl : Dialect) (o : Oracle) (r0 : RenameRule) (pre : List Meta) :
    (coreStateP dl o r0 pre).dflt.isSome = dfltHeld dl o pre := by
  simp only [coreStateP, contDflt, dfltHeld]
  cases hl : lastEff dl o pre .fromIdent with
  | some m => simp
  | none =>
      cases hf : firstEff dl o pre .default with
      | none => simp
      | some m => obtain ⟨x, hr⟩ := held_cdefault dl o pre m hf; simp [hr]

theorem cstate_allowUnknown_isSome (dl : Dialect) (o : Oracle) (r0 : RenameRule) (pre : List Meta) :
    (coreStateP dl o r0 pre).allowUnknown.isSome = (firstEff dl o pre .allowUnknown).isSome := by
  cases h : firstEff dl o pre .allowUnknown with
  | none => simp [coreStateP, h]
  | some m => obtain ⟨x, hr⟩ := held_callowUnknown dl o pre m h; simp [coreStateP, h, hr]

/-- an item that writes nothing leaves `Core` as it is -/
theorem coreStateP_snoc_inert (dl : Dialect) (o : Oracle) (r0 : RenameRule) (pre : List Meta) (mi : Meta)
    (h : contWrites dl o mi = none) : coreStateP dl o r0 (pre ++ [mi]) = coreStateP dl o r0 pre := by
  simp [coreStateP, contDflt, firstEff_snoc, lastEff_snoc, h]


/-! ### `Core::parse_nested` is the positional verdict (in every dialect) -/

theorem cstep_default (dl : Dialect) (o : Oracle) (r0 : RenameRule) (pre : List Meta) (mi : Meta)
    (hk : contKw dl mi = some .default) (hc : coreKw mi = some .default) :
    coreStep o (coreStateP dl o r0 pre) mi = stepOf (coreStateP dl o r0 (pre ++ [mi])) (contPush dl o pre mi) := by
  rw [coreStep_default o _ mi hc, cstate_dflt_isSome]
  cases hR : contReadR o .default mi with
  | ok v =>
      obtain ⟨h1, h2⟩ := contRead_of_ok dl o mi _ v hk hR
      obtain ⟨a, ha, rfl⟩ := map_eq_ok hR
      cases hh : dfltHeld dl o pre with
      | true =>
          have hst : coreStateP dl o r0 (pre ++ [mi]) = coreStateP dl o r0 pre := by
            simp only [dfltHeld, Bool.or_eq_true] at hh
            cases hl : lastEff dl o pre .fromIdent with
            | some m => simp [coreStateP, contDflt, firstEff_snoc, lastEff_snoc, h2, ContKw.slot, hl]
            | none =>
                rw [hl] at hh
                simp only [Option.isSome_none, Bool.false_eq_true, or_false] at hh
                obtain ⟨m, hm⟩ := Option.isSome_iff_exists.mp hh
                simp [coreStateP, contDflt, firstEff_snoc, lastEff_snoc, h2, ContKw.slot, hl, hm]
          rw [hst]
          simp [contPush, hk, contRepeat, hh, stepOf]
      | false =>
          have hst : coreStateP dl o r0 (pre ++ [mi]) = { coreStateP dl o r0 pre with dflt := some a } := by
            simp only [dfltHeld, Bool.or_eq_false_iff, Option.isSome_eq_false_iff, Option.isNone_iff_eq_none] at hh
            simp [coreStateP, contDflt, firstEff_snoc, lastEff_snoc, h2, ContKw.slot, hh.1, hh.2, h1]
          rw [hst]
          simp [withRead, ha, contPush, hk, contRepeat, hh, h1, stepOf]
  | err e =>
      obtain ⟨h1, h2, h3⟩ := contRead_of_err dl o mi _ e hk hR
      rw [coreStateP_snoc_inert dl o r0 pre mi h3]
      cases hh : dfltHeld dl o pre <;>
        simp [withRead, map_eq_err hR, contPush, hk, contRepeat, hh, h1, h2, stepOf]
  | panic p => exact absurd hR (contReadR_returns o _ mi p)

theorem cstep_renameAll (dl : Dialect) (o : Oracle) (r0 : RenameRule) (pre : List Meta) (mi : Meta)
    (hk : contKw dl mi = some .renameAll) (hc : coreKw mi = some .renameAll) :
    coreStep o (coreStateP dl o r0 pre) mi = stepOf (coreStateP dl o r0 (pre ++ [mi])) (contPush dl o pre mi) := by
  rw [coreStep_renameAll o _ mi hc]
  cases hR : contReadR o .renameAll mi with
  | ok v =>
      obtain ⟨h1, h2⟩ := contRead_of_ok dl o mi _ v hk hR
      obtain ⟨a, ha, rfl⟩ := map_eq_ok hR
      have hst : coreStateP dl o r0 (pre ++ [mi]) = { coreStateP dl o r0 pre with renameRule := a } := by
        simp [coreStateP, contDflt, firstEff_snoc, lastEff_snoc, h2, ContKw.slot, h1]
      rw [hst]
      simp [withRead, ha, contPush, hk, contRepeat, h1, stepOf]
  | err e =>
      obtain ⟨h1, h2, h3⟩ := contRead_of_err dl o mi _ e hk hR
      rw [coreStateP_snoc_inert dl o r0 pre mi h3]
      simp [withRead, map_eq_err hR, contPush, hk, contRepeat, h1, h2, stepOf]
  | panic p => exact absurd hR (contReadR_returns o _ mi p)

theorem cstep_bound (dl : Dialect) (o : Oracle) (r0 : RenameRule) (pre : List Meta) (mi : Meta)
    (hk : contKw dl mi = some .bound) (hc : coreKw mi = some .bound) :
    coreStep o (coreStateP dl o r0 pre) mi = stepOf (coreStateP dl o r0 (pre ++ [mi])) (contPush dl o pre mi) := by
  rw [coreStep_bound o _ mi hc]
  cases hR : contReadR o .bound mi with
  | ok v =>
      obtain ⟨h1, h2⟩ := contRead_of_ok dl o mi _ v hk hR
      obtain ⟨a, ha, rfl⟩ := map_eq_ok hR
      have hst : coreStateP dl o r0 (pre ++ [mi]) = coreStateP dl o r0 pre := by
        simp [coreStateP, contDflt, firstEff_snoc, lastEff_snoc, h2, ContKw.slot]
      rw [hst]
      simp [withRead, ha, contPush, hk, contRepeat, h1, stepOf]
  | err e =>
      obtain ⟨h1, h2, h3⟩ := contRead_of_err dl o mi _ e hk hR
      rw [coreStateP_snoc_inert dl o r0 pre mi h3]
      simp [withRead, map_eq_err hR, contPush, hk, contRepeat, h1, h2, stepOf]
  | panic p => exact absurd hR (contReadR_returns o _ mi p)

theorem cstep_allowUnknown (dl : Dialect) (o : Oracle) (r0 : RenameRule) (pre : List Meta) (mi : Meta)
    (hk : contKw dl mi = some .allowUnknown) (hc : coreKw mi = some .allowUnknown) :
    coreStep o (coreStateP dl o r0 pre) mi = stepOf (coreStateP dl o r0 (pre ++ [mi])) (contPush dl o pre mi) := by
  rw [coreStep_allowUnknown o _ mi hc, cstate_allowUnknown_isSome]
  cases hR : contReadR o .allowUnknown mi with
  | ok v =>
      obtain ⟨h1, h2⟩ := contRead_of_ok dl o mi _ v hk hR
      obtain ⟨a, ha, rfl⟩ := map_eq_ok hR
      cases he : firstEff dl o pre .allowUnknown with
      | some m =>
          have hst : coreStateP dl o r0 (pre ++ [mi]) = coreStateP dl o r0 pre := by
            simp [coreStateP, contDflt, firstEff_snoc, lastEff_snoc, h2, ContKw.slot, he]
          rw [hst]
          simp [contPush, hk, contRepeat, he, stepOf]
      | none =>
          have hst : coreStateP dl o r0 (pre ++ [mi]) = { coreStateP dl o r0 pre with allowUnknown := a } := by
            simp [coreStateP, contDflt, firstEff_snoc, lastEff_snoc, h2, ContKw.slot, he, h1]
          rw [hst]
          simp [withRead, ha, contPush, hk, contRepeat, he, h1, stepOf]
  | err e =>
      obtain ⟨h1, h2, h3⟩ := contRead_of_err dl o mi _ e hk hR
      rw [coreStateP_snoc_inert dl o r0 pre mi h3]
      cases he : firstEff dl o pre .allowUnknown <;>
        simp [withRead, map_eq_err hR, contPush, hk, contRepeat, he, h1, h2, stepOf]
  | panic p => exact absurd hR (contReadR_returns o _ mi p)


theorem cstep_map (dl : Dialect) (o : Oracle) (r0 : RenameRule) (pre : List Meta) (mi : Meta)
    (hk : contKw dl mi = some .map) (hc : coreKw mi = some .map) :
    coreStep o (coreStateP dl o r0 pre) mi = stepOf (coreStateP dl o r0 (pre ++ [mi])) (contPush dl o pre mi) := by
  rw [coreStep_map o _ mi hc]
  cases he : firstEff dl o pre .map with
  | some holder =>
      obtain ⟨f, hkw, hrd⟩ := held_cpost dl o pre holder he
      have hp : (coreStateP dl o r0 pre).post = some ⟨if contKw dl holder = some .map then "map" else "and_then", f⟩ := by
        simp [coreStateP, he, hrd]
      have hst : coreStateP dl o r0 (pre ++ [mi]) = coreStateP dl o r0 pre := by
        cases hR : contReadR o .map mi with
        | ok v =>
            obtain ⟨h1, h2⟩ := contRead_of_ok dl o mi _ v hk hR
            simp [coreStateP, contDflt, firstEff_snoc, lastEff_snoc, h2, ContKw.slot, he]
        | err e => exact coreStateP_snoc_inert dl o r0 pre mi (contRead_of_err dl o mi _ e hk hR).2.2
        | panic p => exact absurd hR (contReadR_returns o _ mi p)
      rw [hst, hp]
      rcases hkw with hkw | hkw <;> simp [hkw, contPush, hk, contRepeat, he, stepOf]
  | none =>
      have hp : (coreStateP dl o r0 pre).post = none := by simp [coreStateP, he]
      rw [hp]
      cases hR : contReadR o .map mi with
      | ok v =>
          obtain ⟨h1, h2⟩ := contRead_of_ok dl o mi _ v hk hR
          obtain ⟨a, ha, rfl⟩ := map_eq_ok hR
          have hst : coreStateP dl o r0 (pre ++ [mi]) = { coreStateP dl o r0 pre with post := some ⟨"map", a⟩ } := by
            simp [coreStateP, contDflt, firstEff_snoc, lastEff_snoc, h2, ContKw.slot, he, h1, hk]
          rw [hst]
          simp [withRead, ha, contPush, hk, contRepeat, he, h1, stepOf]
      | err e =>
          obtain ⟨h1, h2, h3⟩ := contRead_of_err dl o mi _ e hk hR
          rw [coreStateP_snoc_inert dl o r0 pre mi h3]
          simp [withRead, map_eq_err hR, contPush, hk, contRepeat, he, h1, h2, stepOf]
      | panic p => exact absurd hR (contReadR_returns o _ mi p)

theorem cstep_andThen (dl : Dialect) (o : Oracle) (r0 : RenameRule) (pre : List Meta) (mi : Meta)
    (hk : contKw dl mi = some .andThen) (hc : coreKw mi = some .andThen) :
    coreStep o (coreStateP dl o r0 pre) mi = stepOf (coreStateP dl o r0 (pre ++ [mi])) (contPush dl o pre mi) := by
  rw [coreStep_andThen o _ mi hc]
  cases he : firstEff dl o pre .map with
  | some holder =>
      obtain ⟨f, hkw, hrd⟩ := held_cpost dl o pre holder he
      have hp : (coreStateP dl o r0 pre).post = some ⟨if contKw dl holder = some .map then "map" else "and_then", f⟩ := by
        simp [coreStateP, he, hrd]
      have hst : coreStateP dl o r0 (pre ++ [mi]) = coreStateP dl o r0 pre := by
        cases hR : contReadR o .andThen mi with
        | ok v =>
            obtain ⟨h1, h2⟩ := contRead_of_ok dl o mi _ v hk hR
            simp [coreStateP, contDflt, firstEff_snoc, lastEff_snoc, h2, ContKw.slot, he]
        | err e => exact coreStateP_snoc_inert dl o r0 pre mi (contRead_of_err dl o mi _ e hk hR).2.2
        | panic p => exact absurd hR (contReadR_returns o _ mi p)
      rw [hst, hp]
      rcases hkw with hkw | hkw <;> simp [hkw, contPush, hk, contRepeat, he, stepOf]
  | none =>
      have hp : (coreStateP dl o r0 pre).post = none := by simp [coreStateP, he]
      rw [hp]
      cases hR : contReadR o .andThen mi with
      | ok v =>
          obtain ⟨h1, h2⟩ := contRead_of_ok dl o mi _ v hk hR
          obtain ⟨a, ha, rfl⟩ := map_eq_ok hR
          have hst : coreStateP dl o r0 (pre ++ [mi]) = { coreStateP dl o r0 pre with post := some ⟨"and_then", a⟩ } := by
            simp [coreStateP, contDflt, firstEff_snoc, lastEff_snoc, h2, ContKw.slot, he, h1, hk]
          rw [hst]
          simp [withRead, ha, contPush, hk, contRepeat, he, h1, stepOf]
      | err e =>
          obtain ⟨h1, h2, h3⟩ := contRead_of_err dl o mi _ e hk hR
          rw [coreStateP_snoc_inert dl o r0 pre mi h3]
          simp [withRead, map_eq_err hR, contPush, hk, contRepeat, he, h1, h2, stepOf]
      | panic p => exact absurd hR (contReadR_returns o _ mi p)

/-- the slot written by an item that the dialect hands to `Core` is one of `Core`'s -/
theorem coreKw_cases (mi : Meta) (k : ContKw) (h : coreKw mi = some k) :
    k = .default ∨ k = .renameAll ∨ k = .map ∨ k = .andThen ∨ k = .bound ∨ k = .allowUnknown := by
  unfold coreKw at h
  repeat' split at h
  all_goals first | (cases h; simp) | cases h

/-- **one step of `Core::parse_nested`** on an item that the dialect hands to `Core` (it is not one
    of the reader's own options) **is the positional verdict** -/
theorem coreStep_specD (dl : Dialect) (o : Oracle) (r0 : RenameRule) (pre : List Meta) (mi : Meta)
    (hc : contKw dl mi = coreKw mi) :
    coreStep o (coreStateP dl o r0 pre) mi = stepOf (coreStateP dl o r0 (pre ++ [mi])) (contPush dl o pre mi) := by
  cases hk : coreKw mi with
  | none =>
      rw [hk] at hc
      rw [coreStep_unknown o _ mi hk, coreStateP_snoc_inert dl o r0 pre mi (by simp [contWrites, hc])]
      simp [contPush, hc, stepOf]
  | some k =>
      rw [hk] at hc
      rcases coreKw_cases mi k hk with rfl | rfl | rfl | rfl | rfl | rfl
      · exact cstep_default dl o r0 pre mi hc hk
      · exact cstep_renameAll dl o r0 pre mi hc hk
      · exact cstep_map dl o r0 pre mi hc hk
      · exact cstep_andThen dl o r0 pre mi hc hk
      · exact cstep_bound dl o r0 pre mi hc hk
      · exact cstep_allowUnknown dl o r0 pre mi hc hk

/-- `Core` read on its own -/
theorem coreStep_spec (o : Oracle) (r0 : RenameRule) (pre : List Meta) (mi : Meta) :
    coreStep o (coreStateP .core o r0 pre) mi = stepOf (coreStateP .core o r0 (pre ++ [mi])) (contPush .core o pre mi) :=
  coreStep_specD .core o r0 pre mi rfl

theorem liftCore_stepOf {σ : Type} (s : σ) (get : σ → CoreOpts) (set : σ → CoreOpts → σ) (c : CoreOpts) (e : Option Err) :
    liftCore s get set (stepOf c e) = stepOf (set s c) e := by
  cases e <;> rfl



/-! ### `FromMetaOptions::parse_nested` and `OuterFrom::parse_nested` (+ `supports`), one option at a time -/

theorem fromWordSpan_eq (mi : Meta) :
    (match mi with
      | .nameValue _ e _ _ => e.span
      | m => m.span) = fromWordSpan mi := by
  cases mi <;> rfl

theorem not_coreKw (mi : Meta) (k : ContKw) (h : coreKw mi = some k)
    (hk : k ≠ .default ∧ k ≠ .renameAll ∧ k ≠ .map ∧ k ≠ .andThen ∧ k ≠ .bound ∧ k ≠ .allowUnknown) : False := by
  rcases coreKw_cases mi k h with rfl | rfl | rfl | rfl | rfl | rfl <;> simp at hk

theorem fromMetaStep_fromWord (o : Oracle) (s : FromMetaOpts) (mi : Meta) (h : contKw .fromMeta mi = some .fromWord) :
    fromMetaStep o s mi =
      if s.fromWord.isSome then .err s (dupErrAtPath mi) else
      withRead s (readCallable mi) fun v => .ok { s with fromWord := some (v, fromWordSpan mi) } := by
  unfold contKw at h
  simp only [] at h
  repeat' split at h
  all_goals first | cases h | skip
  · simp [fromMetaStep, dupErrAtPath, *]
    cases mi <;> rfl
  · exact (not_coreKw mi _ h (by simp)).elim

theorem fromMetaStep_fromNone (o : Oracle) (s : FromMetaOpts) (mi : Meta) (h : contKw .fromMeta mi = some .fromNone) :
    fromMetaStep o s mi =
      if s.fromNone.isSome then .err s (dupErrAtPath mi) else
      withRead s (readCallable mi) fun v => .ok { s with fromNone := some v } := by
  unfold contKw at h
  simp only [] at h
  repeat' split at h
  all_goals first | cases h | skip
  · simp [fromMetaStep, dupErrAtPath, *]
  · exact (not_coreKw mi _ h (by simp)).elim

/-- anything else goes to `Core` -/
theorem fromMetaStep_core (o : Oracle) (s : FromMetaOpts) (mi : Meta)
    (h1 : contKw .fromMeta mi ≠ some .fromWord) (h2 : contKw .fromMeta mi ≠ some .fromNone) :
    contKw .fromMeta mi = coreKw mi ∧
    fromMetaStep o s mi = liftCore s (·.core) (fun s c => { s with core := c }) (coreStep o s.core mi) := by
  unfold contKw at h1 h2 ⊢
  simp only [] at h1 h2 ⊢
  by_cases a : mi.path'.isIdent "from_word" = true
  · simp [a] at h1
  · by_cases b : mi.path'.isIdent "from_none" = true
    · simp [a, b] at h2
    · simp [fromMetaStep, a, b]


theorem outerStep_supportsDI (t : Trait) (o : Oracle) (s : OuterOpts) (mi : Meta) (h : contKw (.outer t) mi = some .supportsDI) :
    outerTraitStep t o s mi = withRead s (readOptDISS mi) fun v => .ok { s with supports := v } := by
  unfold contKw at h
  simp only [] at h
  repeat' split at h
  all_goals first | cases h | skip
  · simp [outerTraitStep, *]
  · exact (not_coreKw mi _ h (by simp)).elim

theorem outerStep_supportsV (t : Trait) (o : Oracle) (s : OuterOpts) (mi : Meta) (h : contKw (.outer t) mi = some .supportsV) :
    outerTraitStep t o s mi = withRead s (readOptDataShape mi) fun v => .ok { s with vsupports := v } := by
  unfold contKw at h
  simp only [] at h
  repeat' split at h
  all_goals first | cases h | skip
  · simp [outerTraitStep, *]
  · exact (not_coreKw mi _ h (by simp)).elim

theorem outerStep_attributes (t : Trait) (o : Oracle) (s : OuterOpts) (mi : Meta) (h : contKw (.outer t) mi = some .attributes) :
    outerTraitStep t o s mi = withRead s (readPathList mi) fun v => .ok { s with attrNames := v } := by
  unfold contKw at h
  simp only [] at h
  repeat' split at h
  all_goals first | cases h | skip
  · simp [outerTraitStep, outerStep, *]
  · exact (not_coreKw mi _ h (by simp)).elim

theorem outerStep_forwardAttrs (t : Trait) (o : Oracle) (s : OuterOpts) (mi : Meta) (h : contKw (.outer t) mi = some .forwardAttrs) :
    outerTraitStep t o s mi = withRead s (readOptFwd mi) fun v => .ok { s with forward := v } := by
  unfold contKw at h
  simp only [] at h
  repeat' split at h
  all_goals first | cases h | skip
  · simp [outerTraitStep, outerStep, *]
  · exact (not_coreKw mi _ h (by simp)).elim

theorem outerStep_fromIdent (t : Trait) (o : Oracle) (s : OuterOpts) (mi : Meta) (h : contKw (.outer t) mi = some .fromIdent) :
    outerTraitStep t o s mi
      = .ok { s with core := { s.core with dflt := some (.trait_ mi.path'.span) }, fromIdent := true } := by
  unfold contKw at h
  simp only [] at h
  repeat' split at h
  all_goals first | cases h | skip
  · simp [outerTraitStep, outerStep, *]
  · exact (not_coreKw mi _ h (by simp)).elim

theorem outerStep_core (t : Trait) (o : Oracle) (s : OuterOpts) (mi : Meta)
    (h1 : contKw (.outer t) mi ≠ some .supportsDI) (h2 : contKw (.outer t) mi ≠ some .supportsV)
    (h3 : contKw (.outer t) mi ≠ some .attributes) (h4 : contKw (.outer t) mi ≠ some .forwardAttrs)
    (h5 : contKw (.outer t) mi ≠ some .fromIdent) :
    contKw (.outer t) mi = coreKw mi ∧
    outerTraitStep t o s mi = liftCore s (·.core) (fun s c => { s with core := c }) (coreStep o s.core mi) := by
  unfold contKw at h1 h2 h3 h4 h5 ⊢
  simp only [] at h1 h2 h3 h4 h5 ⊢
  by_cases a : (mi.path'.isIdent "supports" && t == .fromDeriveInput) = true
  · simp [a] at h1
  · by_cases b : (mi.path'.isIdent "supports" && t == .fromVariant) = true
    · simp [a, b] at h2
    · by_cases c : mi.path'.isIdent "attributes" = true
      · simp [a, b, c] at h3
      · by_cases d : mi.path'.isIdent "forward_attrs" = true
        · simp [a, b, c, d] at h4
        · by_cases e : mi.path'.isIdent "from_ident" = true
          · simp [a, b, c, d, e] at h5
          · simp [outerTraitStep, outerStep, a, b, c, d, e]


/-- an item handed to `Core` writes one of `Core`'s slots (or nothing) -/
theorem contWrites_of_core (dl : Dialect) (o : Oracle) (mi : Meta) (hc : contKw dl mi = coreKw mi) (sl : ContKw)
    (h : contWrites dl o mi = some sl) :
    sl = .default ∨ sl = .renameAll ∨ sl = .map ∨ sl = .bound ∨ sl = .allowUnknown := by
  obtain ⟨k, v, hk, hsl, _, _⟩ := contWrites_eq_some dl o mi sl h
  rw [hc] at hk
  rcases coreKw_cases mi k hk with rfl | rfl | rfl | rfl | rfl | rfl <;> simp [ContKw.slot] at hsl <;> simp [← hsl]

theorem firstEff_snoc_ne (dl : Dialect) (o : Oracle) (pre : List Meta) (mi : Meta) (sl : ContKw)
    (h : contWrites dl o mi ≠ some sl) : firstEff dl o (pre ++ [mi]) sl = firstEff dl o pre sl := by
  rw [firstEff_snoc]; simp [h]

theorem lastEff_snoc_ne (dl : Dialect) (o : Oracle) (pre : List Meta) (mi : Meta) (sl : ContKw)
    (h : contWrites dl o mi ≠ some sl) : lastEff dl o (pre ++ [mi]) sl = lastEff dl o pre sl := by
  rw [lastEff_snoc]; simp [h]

/-- **one step of `FromMetaOptions::parse_nested` is the positional verdict** -/
theorem fromMetaStep_spec (o : Oracle) (r0 : RenameRule) (pre : List Meta) (mi : Meta) :
    fromMetaStep o (fromMetaStateP o r0 pre) mi
      = stepOf (fromMetaStateP o r0 (pre ++ [mi])) (contPush .fromMeta o pre mi) := by
  by_cases hw : contKw .fromMeta mi = some .fromWord
  · rw [fromMetaStep_fromWord o _ mi hw]
    have hs : (fromMetaStateP o r0 pre).fromWord.isSome = (firstEff .fromMeta o pre .fromWord).isSome := by
      cases he : firstEff .fromMeta o pre .fromWord with
      | none => simp [fromMetaStateP, he]
      | some m => obtain ⟨c, sp, hr⟩ := held_cfromWord _ o pre m he; simp [fromMetaStateP, he, hr]
    rw [hs]
    cases hR : contReadR o .fromWord mi with
    | ok v =>
        obtain ⟨h1, h2⟩ := contRead_of_ok .fromMeta o mi _ v hw hR
        obtain ⟨a, ha, rfl⟩ := map_eq_ok hR
        cases he : firstEff .fromMeta o pre .fromWord with
        | some m =>
            have hst : fromMetaStateP o r0 (pre ++ [mi]) = fromMetaStateP o r0 pre := by
              simp [fromMetaStateP, coreStateP, contDflt, firstEff_snoc, lastEff_snoc, h2, ContKw.slot, he]
            rw [hst]
            simp [contPush, hw, contRepeat, he, stepOf]
        | none =>
            have hst : fromMetaStateP o r0 (pre ++ [mi])
                = { fromMetaStateP o r0 pre with fromWord := some (a, fromWordSpan mi) } := by
              simp [fromMetaStateP, coreStateP, contDflt, firstEff_snoc, lastEff_snoc, h2, ContKw.slot, he, h1]
            rw [hst]
            simp [withRead, ha, contPush, hw, contRepeat, he, h1, stepOf]
    | err e =>
        obtain ⟨h1, h2, h3⟩ := contRead_of_err .fromMeta o mi _ e hw hR
        have hst : fromMetaStateP o r0 (pre ++ [mi]) = fromMetaStateP o r0 pre := by
          simp [fromMetaStateP, coreStateP, contDflt, firstEff_snoc, lastEff_snoc, h3]
        rw [hst]
        cases he : firstEff .fromMeta o pre .fromWord <;>
          simp [withRead, map_eq_err hR, contPush, hw, contRepeat, he, h1, h2, stepOf]
    | panic p => exact absurd hR (contReadR_returns o _ mi p)
  · by_cases hn : contKw .fromMeta mi = some .fromNone
    · rw [fromMetaStep_fromNone o _ mi hn]
      have hs : (fromMetaStateP o r0 pre).fromNone.isSome = (firstEff .fromMeta o pre .fromNone).isSome := by
        cases he : firstEff .fromMeta o pre .fromNone with
        | none => simp [fromMetaStateP, he]
        | some m => obtain ⟨c, hr⟩ := held_cfromNone _ o pre m he; simp [fromMetaStateP, he, hr]
      rw [hs]
      cases hR : contReadR o .fromNone mi with
      | ok v =>
          obtain ⟨h1, h2⟩ := contRead_of_ok .fromMeta o mi _ v hn hR
          obtain ⟨a, ha, rfl⟩ := map_eq_ok hR
          cases he : firstEff .fromMeta o pre .fromNone with
          | some m =>
              have hst : fromMetaStateP o r0 (pre ++ [mi]) = fromMetaStateP o r0 pre := by
                simp [fromMetaStateP, coreStateP, contDflt, firstEff_snoc, lastEff_snoc, h2, ContKw.slot, he]
              rw [hst]
              simp [contPush, hn, contRepeat, he, stepOf]
          | none =>
              have hst : fromMetaStateP o r0 (pre ++ [mi]) = { fromMetaStateP o r0 pre with fromNone := some a } := by
                simp [fromMetaStateP, coreStateP, contDflt, firstEff_snoc, lastEff_snoc, h2, ContKw.slot, he, h1]
              rw [hst]
              simp [withRead, ha, contPush, hn, contRepeat, he, h1, stepOf]
      | err e =>
          obtain ⟨h1, h2, h3⟩ := contRead_of_err .fromMeta o mi _ e hn hR
          have hst : fromMetaStateP o r0 (pre ++ [mi]) = fromMetaStateP o r0 pre := by
            simp [fromMetaStateP, coreStateP, contDflt, firstEff_snoc, lastEff_snoc, h3]
          rw [hst]
          cases he : firstEff .fromMeta o pre .fromNone <;>
            simp [withRead, map_eq_err hR, contPush, hn, contRepeat, he, h1, h2, stepOf]
      | panic p => exact absurd hR (contReadR_returns o _ mi p)
    · obtain ⟨hc, hstep⟩ := fromMetaStep_core o (fromMetaStateP o r0 pre) mi hw hn
      rw [hstep]
      have : (fromMetaStateP o r0 pre).core = coreStateP .fromMeta o r0 pre := rfl
      rw [this, coreStep_specD .fromMeta o r0 pre mi hc, liftCore_stepOf]
      have hne : ∀ sl, sl = ContKw.fromWord ∨ sl = ContKw.fromNone → contWrites .fromMeta o mi ≠ some sl := by
        intro sl hsl h
        rcases contWrites_of_core .fromMeta o mi hc sl h with rfl | rfl | rfl | rfl | rfl <;> simp at hsl
      have hst : { fromMetaStateP o r0 pre with core := coreStateP .fromMeta o r0 (pre ++ [mi]) }
          = fromMetaStateP o r0 (pre ++ [mi]) := by
        simp only [fromMetaStateP, firstEff_snoc_ne _ o pre mi _ (hne _ (.inl rfl)),
          firstEff_snoc_ne _ o pre mi _ (hne _ (.inr rfl))]
      rw [hst]


/-- an option of `OuterFrom` that may be repeated and whose last successful value is kept -/
theorem outer_lastwins (t : Trait) (o : Oracle) (pre : List Meta) (mi : Meta) (k : ContKw)
    (hk : contKw (.outer t) mi = some k) (hrep : ∀ pre', contRepeat (.outer t) o pre' k mi = none) (e : Err)
    (hR : contReadR o k mi = .err e) :
    outerStateP t o (pre ++ [mi]) = outerStateP t o pre ∧ contPush (.outer t) o pre mi = some e := by
  obtain ⟨h1, h2, h3⟩ := contRead_of_err (.outer t) o mi _ e hk hR
  refine ⟨?_, by simp [contPush, hk, hrep, h1, h2]⟩
  simp [outerStateP, coreStateP, contDflt, firstEff_snoc, lastEff_snoc, h3]

/-- **one step of an element-level derive's `parse_nested` is the positional verdict** -/
theorem outerTraitStep_spec (t : Trait) (o : Oracle) (pre : List Meta) (mi : Meta) :
    outerTraitStep t o (outerStateP t o pre) mi
      = stepOf (outerStateP t o (pre ++ [mi])) (contPush (.outer t) o pre mi) := by
  by_cases h1 : contKw (.outer t) mi = some .supportsDI
  · rw [outerStep_supportsDI t o _ mi h1]
    cases hR : contReadR o .supportsDI mi with
    | ok v =>
        obtain ⟨hr, hw⟩ := contRead_of_ok (.outer t) o mi _ v h1 hR
        obtain ⟨a, ha, rfl⟩ := map_eq_ok hR
        have hst : outerStateP t o (pre ++ [mi]) = { outerStateP t o pre with supports := a } := by
          simp [outerStateP, coreStateP, contDflt, firstEff_snoc, lastEff_snoc, hw, ContKw.slot, hr]
        rw [hst]; simp [withRead, ha, contPush, h1, contRepeat, hr, stepOf]
    | err e =>
        obtain ⟨hs, hp⟩ := outer_lastwins t o pre mi _ h1 (fun _ => rfl) e hR
        rw [hs, hp]; simp [withRead, map_eq_err hR, stepOf]
    | panic p => exact absurd hR (contReadR_returns o _ mi p)
  by_cases h2 : contKw (.outer t) mi = some .supportsV
  · rw [outerStep_supportsV t o _ mi h2]
    cases hR : contReadR o .supportsV mi with
    | ok v =>
        obtain ⟨hr, hw⟩ := contRead_of_ok (.outer t) o mi _ v h2 hR
        obtain ⟨a, ha, rfl⟩ := map_eq_ok hR
        have hst : outerStateP t o (pre ++ [mi]) = { outerStateP t o pre with vsupports := a } := by
          simp [outerStateP, coreStateP, contDflt, firstEff_snoc, lastEff_snoc, hw, ContKw.slot, hr]
        rw [hst]; simp [withRead, ha, contPush, h2, contRepeat, hr, stepOf]
    | err e =>
        obtain ⟨hs, hp⟩ := outer_lastwins t o pre mi _ h2 (fun _ => rfl) e hR
        rw [hs, hp]; simp [withRead, map_eq_err hR, stepOf]
    | panic p => exact absurd hR (contReadR_returns o _ mi p)
  by_cases h3 : contKw (.outer t) mi = some .attributes
  · rw [outerStep_attributes t o _ mi h3]
    cases hR : contReadR o .attributes mi with
    | ok v =>
        obtain ⟨hr, hw⟩ := contRead_of_ok (.outer t) o mi _ v h3 hR
        obtain ⟨a, ha, rfl⟩ := map_eq_ok hR
        have hst : outerStateP t o (pre ++ [mi]) = { outerStateP t o pre with attrNames := a } := by
          simp [outerStateP, coreStateP, contDflt, firstEff_snoc, lastEff_snoc, hw, ContKw.slot, hr]
        rw [hst]; simp [withRead, ha, contPush, h3, contRepeat, hr, stepOf]
    | err e =>
        obtain ⟨hs, hp⟩ := outer_lastwins t o pre mi _ h3 (fun _ => rfl) e hR
        rw [hs, hp]; simp [withRead, map_eq_err hR, stepOf]
    | panic p => exact absurd hR (contReadR_returns o _ mi p)
  by_cases h4 : contKw (.outer t) mi = some .forwardAttrs
  · rw [outerStep_forwardAttrs t o _ mi h4]
    cases hR : contReadR o .forwardAttrs mi with
    | ok v =>
        obtain ⟨hr, hw⟩ := contRead_of_ok (.outer t) o mi _ v h4 hR
        obtain ⟨a, ha, rfl⟩ := map_eq_ok hR
        have hst : outerStateP t o (pre ++ [mi]) = { outerStateP t o pre with forward := a } := by
          simp [outerStateP, coreStateP, contDflt, firstEff_snoc, lastEff_snoc, hw, ContKw.slot, hr]
        rw [hst]; simp [withRead, ha, contPush, h4, contRepeat, hr, stepOf]
    | err e =>
        obtain ⟨hs, hp⟩ := outer_lastwins t o pre mi _ h4 (fun _ => rfl) e hR
        rw [hs, hp]; simp [withRead, map_eq_err hR, stepOf]
    | panic p => exact absurd hR (contReadR_returns o _ mi p)
  by_cases h5 : contKw (.outer t) mi = some .fromIdent
  · rw [outerStep_fromIdent t o _ mi h5]
    obtain ⟨hr, hw⟩ := contRead_of_ok (.outer t) o mi .fromIdent (.fromIdent mi.path'.span) h5 rfl
    have hst : outerStateP t o (pre ++ [mi])
        = { outerStateP t o pre with
            core := { (outerStateP t o pre).core with dflt := some (.trait_ mi.path'.span) }, fromIdent := true } := by
      simp [outerStateP, coreStateP, contDflt, firstEff_snoc, lastEff_snoc, hw, ContKw.slot]
    rw [hst]; simp [contPush, h5, contRepeat, hr, stepOf]
  · obtain ⟨hc, hstep⟩ := outerStep_core t o (outerStateP t o pre) mi h1 h2 h3 h4 h5
    rw [hstep]
    have : (outerStateP t o pre).core = coreStateP (.outer t) o .none pre := rfl
    rw [this, coreStep_specD (.outer t) o .none pre mi hc, liftCore_stepOf]
    have hne : ∀ sl, sl = ContKw.attributes ∨ sl = ContKw.forwardAttrs ∨ sl = ContKw.fromIdent ∨ sl = ContKw.supportsDI
        ∨ sl = ContKw.supportsV → contWrites (.outer t) o mi ≠ some sl := by
      intro sl hsl h
      rcases contWrites_of_core (.outer t) o mi hc sl h with rfl | rfl | rfl | rfl | rfl <;> simp at hsl
    have hst : { outerStateP t o pre with core := coreStateP (.outer t) o .none (pre ++ [mi]) }
        = outerStateP t o (pre ++ [mi]) := by
      simp only [outerStateP, lastEff_snoc_ne _ o pre mi _ (hne _ (.inl rfl)),
        lastEff_snoc_ne _ o pre mi _ (hne _ (.inr (.inl rfl))), lastEff_snoc_ne _ o pre mi _ (hne _ (.inr (.inr (.inl rfl)))),
        lastEff_snoc_ne _ o pre mi _ (hne _ (.inr (.inr (.inr (.inl rfl))))),
        lastEff_snoc_ne _ o pre mi _ (hne _ (.inr (.inr (.inr (.inr rfl)))))]
    rw [hst]


/-! ## container options: the theorems -/

theorem coreStateP_nil (dl : Dialect) (o : Oracle) (r0 : RenameRule) : coreStateP dl o r0 [] = { renameRule := r0 } := rfl
theorem outerStateP_nil (t : Trait) (o : Oracle) : outerStateP t o [] = {} := rfl
theorem fromMetaStateP_nil (o : Oracle) (r0 : RenameRule) : fromMetaStateP o r0 [] = { core := { renameRule := r0 } } := rfl

def contVerdicts (dl : Dialect) (o : Oracle) (pre : List Meta) (items : List NestedMeta) : List Err :=
  verdicts (contPush dl o) pre items

/-- the chains over the items of one attribute -/
theorem coreItems_spec (o : Oracle) (r0 : RenameRule) (pre : List Meta) (errs0 : List Err) (items : List NestedMeta) :
    parseAttrItems (coreStep o) (coreStateP .core o r0 pre) errs0 items
      = .ok (coreStateP .core o r0 (pre ++ metasOf items), errs0 ++ contVerdicts .core o pre items) :=
  parseAttrItems_spec (coreStep o) (coreStateP .core o r0) (contPush .core o) (coreStep_spec o r0) items pre errs0

theorem outerItems_spec (t : Trait) (o : Oracle) (pre : List Meta) (errs0 : List Err) (items : List NestedMeta) :
    parseAttrItems (outerTraitStep t o) (outerStateP t o pre) errs0 items
      = .ok (outerStateP t o (pre ++ metasOf items), errs0 ++ contVerdicts (.outer t) o pre items) :=
  parseAttrItems_spec (outerTraitStep t o) (outerStateP t o) (contPush (.outer t) o) (outerTraitStep_spec t o) items pre errs0

theorem fromMetaItems_spec (o : Oracle) (r0 : RenameRule) (pre : List Meta) (errs0 : List Err) (items : List NestedMeta) :
    parseAttrItems (fromMetaStep o) (fromMetaStateP o r0 pre) errs0 items
      = .ok (fromMetaStateP o r0 (pre ++ metasOf items), errs0 ++ contVerdicts .fromMeta o pre items) :=
  parseAttrItems_spec (fromMetaStep o) (fromMetaStateP o r0) (contPush .fromMeta o) (fromMetaStep_spec o r0) items pre errs0

/-- all the attributes of the declaration -/
theorem coreAttrs_spec (o : Oracle) (r0 : RenameRule) (pre : List Meta) (errs0 : List Err) (attrs : List Attr) :
    parseAttributes (coreStep o) (coreStateP .core o r0 pre) errs0 attrs
      = .ok (coreStateP .core o r0 (pre ++ attrsMetas attrs), errs0 ++ attrVerdicts (contPush .core o) pre attrs) :=
  parseAttributes_spec (coreStep o) (coreStateP .core o r0) (contPush .core o) (coreStep_spec o r0) attrs pre errs0

theorem outerAttrs_spec (t : Trait) (o : Oracle) (pre : List Meta) (errs0 : List Err) (attrs : List Attr) :
    parseAttributes (outerTraitStep t o) (outerStateP t o pre) errs0 attrs
      = .ok (outerStateP t o (pre ++ attrsMetas attrs), errs0 ++ attrVerdicts (contPush (.outer t) o) pre attrs) :=
  parseAttributes_spec (outerTraitStep t o) (outerStateP t o) (contPush (.outer t) o) (outerTraitStep_spec t o) attrs pre errs0

theorem fromMetaAttrs_spec (o : Oracle) (r0 : RenameRule) (pre : List Meta) (errs0 : List Err) (attrs : List Attr) :
    parseAttributes (fromMetaStep o) (fromMetaStateP o r0 pre) errs0 attrs
      = .ok (fromMetaStateP o r0 (pre ++ attrsMetas attrs), errs0 ++ attrVerdicts (contPush .fromMeta o) pre attrs) :=
  parseAttributes_spec (fromMetaStep o) (fromMetaStateP o r0) (contPush .fromMeta o) (fromMetaStep_spec o r0) attrs pre errs0

/-- `finish_with` over `parse_attributes`, for any chain with a positional description -/
theorem decl_accepts_generic {σ : Type} (step : σ → Meta → StepR σ) (state : List Meta → σ)
    (push : List Meta → Meta → Option Err)
    (h : ∀ pre mi, step (state pre) mi = stepOf (state (pre ++ [mi])) (push pre mi)) (attrs : List Attr) :
    ((∃ s, finishWith (parseAttributes step (state []) [] attrs) = .ok s) ↔
      (∀ a ∈ attrs, AttrListOk a) ∧ verdicts push [] (attrsItems attrs) = []) ∧
    (∀ s, finishWith (parseAttributes step (state []) [] attrs) = .ok s → s = state (attrsMetas attrs)) := by
  have hh := parseAttributes_spec step state push h attrs [] []
  simp only [List.nil_append] at hh
  rw [hh]
  refine ⟨?_, ?_⟩
  · rw [finishWith_ok_iff, attrVerdicts_nil_iff]
  · intro s hs
    match hv : attrVerdicts push [] attrs with
    | [] => rw [hv] at hs; simp only [finishWith] at hs; cases hs; rfl
    | [x] => rw [hv] at hs; simp [finishWith, Err.bundleErr, Err.multiple] at hs
    | x :: y :: r => rw [hv] at hs; simp [finishWith, Err.bundleErr, Err.multiple] at hs

/-- a chain's result, positionally: the state of all items, or the bundle of all verdicts -/
theorem finish_generic {σ : Type} (step : σ → Meta → StepR σ) (state : List Meta → σ)
    (push : List Meta → Meta → Option Err)
    (h : ∀ pre mi, step (state pre) mi = stepOf (state (pre ++ [mi])) (push pre mi)) (attrs : List Attr) :
    finishWith (parseAttributes step (state []) [] attrs)
      = match attrVerdicts push [] attrs with
        | [] => .ok (state (attrsMetas attrs))
        | errs => Err.bundleErr errs := by
  have hh := parseAttributes_spec step state push h attrs [] []
  simp only [List.nil_append] at hh
  rw [hh]
  match attrVerdicts push [] attrs with
  | [] => rfl
  | _ :: _ => rfl

/-! ## container options: well-formedness (almost) without reference to order -/

/-- the options that may be given only once -/
def ContKw.once : ContKw → Bool
  | .default | .map | .andThen | .allowUnknown | .fromWord | .fromNone => true
  | _ => false

/-- the once-only slot an item addresses, if any -/
def onceSlotOf (dl : Dialect) (mi : Meta) : Option ContKw :=
  match contKw dl mi with
  | some k => if k.once then some k.slot else none
  | none => none

/-- **a well-formed container option list**: every item is a known option (of this reader) with a
    well-formed value; no once-only slot is addressed twice (`default`, `map`/`and_then` together,
    `allow_unknown_fields`, `from_word`, `from_none`); and — the one rule that *does* depend on
    order — no `default` comes after a `from_ident`. -/
structure ContWellFormed (dl : Dialect) (o : Oracle) (ms : List Meta) : Prop where
  readable : ∀ m ∈ ms, (contRead dl o m).isSome = true
  once : (ms.filterMap (onceSlotOf dl)).Nodup
  defaultFirst : ms.Pairwise (fun a b => ¬ (contKw dl a = some .fromIdent ∧ contKw dl b = some .default))

theorem contVerdict_nil_iff (dl : Dialect) (o : Oracle) (pre : List Meta) (mi : Meta) :
    contVerdict dl o pre mi = [] ↔
      ∃ k v, contKw dl mi = some k ∧ contRead dl o mi = some v ∧ contRepeat dl o pre k mi = none := by
  unfold contVerdict contPush
  cases hk : contKw dl mi with
  | none => simp
  | some k =>
      cases hrep : contRepeat dl o pre k mi with
      | some e => simp [hrep]
      | none =>
          cases hr : contRead dl o mi with
          | some v => simp [hrep]
          | none =>
              simp only [hrep]
              cases hR : contReadR o k mi with
              | ok v => simp [contRead, hk, hR] at hr
              | err e => simp [contReadErr, hk, hR]
              | panic p => exact absurd hR (contReadR_returns o _ mi p)

theorem cwrites_eq (dl : Dialect) (o : Oracle) (m : Meta) (h : (contRead dl o m).isSome = true) :
    contWrites dl o m = (contKw dl m).map ContKw.slot := by
  unfold contWrites
  cases hk : contKw dl m with
  | none => rfl
  | some k => simp [h]

theorem firstEff_eq_none_iff (dl : Dialect) (o : Oracle) (pre : List Meta) (sl : ContKw) :
    firstEff dl o pre sl = none ↔ ∀ m ∈ pre, contWrites dl o m ≠ some sl := by
  simp [firstEff, List.find?_eq_none]

theorem lastEff_eq_none_iff (dl : Dialect) (o : Oracle) (pre : List Meta) (sl : ContKw) :
    lastEff dl o pre sl = none ↔ ∀ m ∈ pre, contWrites dl o m ≠ some sl := by
  simp [lastEff, List.find?_eq_none]

theorem onceSlotOf_eq (dl : Dialect) (m : Meta) (k : ContKw) (hk : k.once = true) :
    onceSlotOf dl m = some k.slot ↔ (contKw dl m).map ContKw.slot = some k.slot := by
  unfold onceSlotOf
  cases contKw dl m with
  | none => simp
  | some k' => cases k' <;> cases k <;> simp [ContKw.once, ContKw.slot] at hk ⊢

theorem onceSlotOf_some (dl : Dialect) (m : Meta) (k : ContKw) (sl : ContKw) (hk : contKw dl m = some k)
    (h : onceSlotOf dl m = some sl) : k.once = true ∧ sl = k.slot := by
  unfold onceSlotOf at h
  rw [hk] at h
  simp only [] at h
  split at h
  · cases h; exact ⟨by assumption, rfl⟩
  · cases h


/-- positional-to-global, once and for all: a prefix-closed predicate that grows by one item
    exactly when that item's verdict is empty holds of a list iff every verdict is empty -/
theorem wf_iff_generic (verdict : List Meta → Meta → List Err) (WF : List Meta → Prop)
    (hpre : ∀ a b, WF (a ++ b) → WF a)
    (hsnoc : ∀ pre x, WF pre → (verdict pre x = [] ↔ WF (pre ++ [x]))) (ms : List Meta) :
    ∀ pre, WF pre → ((∀ a m b, ms = a ++ m :: b → verdict (pre ++ a) m = []) ↔ WF (pre ++ ms)) := by
  induction ms with
  | nil => intro pre wf; simp [wf]
  | cons x r ih =>
      intro pre wf
      constructor
      · intro h
        have h1 : verdict pre x = [] := by simpa using h [] x r rfl
        have wf1 := (hsnoc pre x wf).mp h1
        have := (ih (pre ++ [x]) wf1).mp (by
          intro a m b hab
          have := h (x :: a) m b (by rw [hab]; rfl)
          simpa using this)
        simpa using this
      · intro wf' a m b hab
        have wf1 : WF (pre ++ [x]) := by
          apply hpre (pre ++ [x]) r
          simpa using wf'
        cases a with
        | nil =>
            simp only [List.nil_append, List.cons.injEq] at hab
            obtain ⟨rfl, rfl⟩ := hab
            simpa using (hsnoc pre x wf).mpr wf1
        | cons y a' =>
            simp only [List.cons_append, List.cons.injEq] at hab
            obtain ⟨rfl, rfl⟩ := hab
            have := (ih (pre ++ [x]) wf1).mpr (by simpa using wf') a' m b rfl
            simpa using this

theorem ContWellFormed.nil (dl : Dialect) (o : Oracle) : ContWellFormed dl o [] :=
  ⟨(by intro m hm; cases hm), (by simp), (by simp)⟩

theorem ContWellFormed.prefix (dl : Dialect) (o : Oracle) (a b : List Meta) (wf : ContWellFormed dl o (a ++ b)) :
    ContWellFormed dl o a := by
  refine ⟨fun m hm => wf.readable m (List.mem_append_left _ hm), ?_, ?_⟩
  · have := wf.once
    rw [List.filterMap_append, List.nodup_append] at this
    exact this.1
  · have := wf.defaultFirst
    rw [List.pairwise_append] at this
    exact this.1

/-- what "not a repeat" says in a list whose items are all readable -/
theorem contRepeat_none_iff (dl : Dialect) (o : Oracle) (pre : List Meta)
    (hread : ∀ m ∈ pre, (contRead dl o m).isSome = true) (k : ContKw) (mi : Meta) :
    contRepeat dl o pre k mi = none ↔
      (k.once = true → ∀ m ∈ pre, onceSlotOf dl m ≠ some k.slot) ∧
      (k = .default → ∀ m ∈ pre, contKw dl m ≠ some .fromIdent) := by
  have hw : ∀ sl, (∀ m ∈ pre, contWrites dl o m ≠ some sl) ↔ ∀ m ∈ pre, (contKw dl m).map ContKw.slot ≠ some sl := by
    intro sl
    constructor <;> intro h m hm <;> have := h m hm <;> rw [cwrites_eq dl o m (hread m hm)] at * <;> exact this
  have hfi : (∀ m ∈ pre, (contKw dl m).map ContKw.slot ≠ some .fromIdent) ↔ ∀ m ∈ pre, contKw dl m ≠ some .fromIdent := by
    constructor <;> intro h m hm <;> have := h m hm
    · intro e; rw [e] at this; exact this rfl
    · cases hk : contKw dl m with
      | none => simp
      | some k' => rw [hk] at this; cases k' <;> simp [ContKw.slot] at this ⊢
  have hfirst : ∀ k' : ContKw, k'.once = true →
      (firstEff dl o pre k'.slot = none ↔ ∀ m ∈ pre, onceSlotOf dl m ≠ some k'.slot) := by
    intro k' hk'
    rw [firstEff_eq_none_iff, hw]
    constructor <;> intro h m hm <;> have := h m hm
    · exact fun e => this ((onceSlotOf_eq dl m k' hk').mp e)
    · exact fun e => this ((onceSlotOf_eq dl m k' hk').mpr e)
  cases k
  case default =>
      have h1 := hfirst .default rfl
      have h2 : lastEff dl o pre .fromIdent = none ↔ ∀ m ∈ pre, contKw dl m ≠ some .fromIdent := by
        rw [lastEff_eq_none_iff, hw, hfi]
      simp only [ContKw.slot] at h1
      simp only [contRepeat, dfltHeld, ContKw.once, ContKw.slot, true_implies, ← h1, ← h2]
      simp
  case map =>
      have h1 := hfirst .map rfl
      simp only [ContKw.slot] at h1
      simp only [contRepeat, ContKw.once, ContKw.slot, true_implies, ← h1, reduceCtorEq, false_implies, and_true]
      simp
  case andThen =>
      have h1 := hfirst .andThen rfl
      simp only [ContKw.slot] at h1
      simp only [contRepeat, ContKw.once, ContKw.slot, true_implies, ← h1, reduceCtorEq, false_implies, and_true]
      simp
  case allowUnknown =>
      have h1 := hfirst .allowUnknown rfl
      simp only [ContKw.slot] at h1
      simp only [contRepeat, ContKw.once, ContKw.slot, true_implies, ← h1, reduceCtorEq, false_implies, and_true]
      simp
  case fromWord =>
      have h1 := hfirst .fromWord rfl
      simp only [ContKw.slot] at h1
      simp only [contRepeat, ContKw.once, ContKw.slot, true_implies, ← h1, reduceCtorEq, false_implies, and_true]
      simp
  case fromNone =>
      have h1 := hfirst .fromNone rfl
      simp only [ContKw.slot] at h1
      simp only [contRepeat, ContKw.once, ContKw.slot, true_implies, ← h1, reduceCtorEq, false_implies, and_true]
      simp
  all_goals simp [contRepeat, ContKw.once]


theorem contRead_kw (dl : Dialect) (o : Oracle) (m : Meta) (v : ContVal) (h : contRead dl o m = some v) :
    ∃ k, contKw dl m = some k := by
  unfold contRead at h
  cases hk : contKw dl m with
  | none => rw [hk] at h; cases h
  | some k => exact ⟨k, rfl⟩

/-- **one more container item keeps the list well-formed exactly when its verdict is empty** -/
theorem cwf_snoc (dl : Dialect) (o : Oracle) (pre : List Meta) (x : Meta) (wf : ContWellFormed dl o pre) :
    contVerdict dl o pre x = [] ↔ ContWellFormed dl o (pre ++ [x]) := by
  rw [contVerdict_nil_iff]
  constructor
  · rintro ⟨k, v, hk, hr, hrep⟩
    obtain ⟨h1, h2⟩ := (contRepeat_none_iff dl o pre wf.readable k x).mp hrep
    refine ⟨?_, ?_, ?_⟩
    · intro m hm
      rcases List.mem_append.mp hm with hm | hm
      · exact wf.readable m hm
      · simp only [List.mem_singleton] at hm; subst hm; simp [hr]
    · rw [List.filterMap_append, List.nodup_append]
      refine ⟨wf.once, ?_, ?_⟩
      · cases hx : onceSlotOf dl x <;> simp [hx]
      · intro a ha b hb
        simp only [List.filterMap_cons, List.filterMap_nil] at hb
        cases hx : onceSlotOf dl x with
        | none => rw [hx] at hb; cases hb
        | some sl =>
            rw [hx] at hb
            simp only [List.mem_singleton] at hb
            subst hb
            obtain ⟨hon, rfl⟩ := onceSlotOf_some dl x k _ hk hx
            obtain ⟨m, hm, hma⟩ := List.mem_filterMap.mp ha
            intro e
            subst e
            exact h1 hon m hm hma
    · rw [List.pairwise_append]
      refine ⟨wf.defaultFirst, by simp, ?_⟩
      intro a ha b hb
      simp only [List.mem_singleton] at hb
      subst hb
      rintro ⟨hfa, hdb⟩
      rw [hk] at hdb
      cases hdb
      exact h2 rfl a ha hfa
  · intro wf'
    have hx : x ∈ pre ++ [x] := by simp
    obtain ⟨v, hr⟩ := Option.isSome_iff_exists.mp (wf'.readable x hx)
    obtain ⟨k, hk⟩ := contRead_kw dl o x v hr
    refine ⟨k, v, hk, hr, (contRepeat_none_iff dl o pre wf.readable k x).mpr ⟨?_, ?_⟩⟩
    · intro hon m hm hms
      have := wf'.once
      rw [List.filterMap_append, List.nodup_append] at this
      have hxs : onceSlotOf dl x = some k.slot := by simp [onceSlotOf, hk, hon]
      exact this.2.2 k.slot (List.mem_filterMap.mpr ⟨m, hm, hms⟩) k.slot
        (by simp [hxs]) rfl
    · rintro rfl m hm hfi
      have := wf'.defaultFirst
      rw [List.pairwise_append] at this
      exact this.2.2 m hm x (by simp) ⟨hfi, hk⟩

/-- **every verdict is empty ⟺ the container option list is well-formed** -/
theorem cont_verdicts_nil_iff_wf (dl : Dialect) (o : Oracle) (ms : List Meta) :
    (∀ a m b, ms = a ++ m :: b → contVerdict dl o a m = []) ↔ ContWellFormed dl o ms := by
  simpa using wf_iff_generic (contVerdict dl o) (ContWellFormed dl o) (ContWellFormed.prefix dl o)
    (fun pre x wf => cwf_snoc dl o pre x wf) ms [] (ContWellFormed.nil dl o)

/-- the container attributes of a declaration are in order: every `#[darling ..]` attribute is a
    list that parses, none holds a bare literal, all their items together are well-formed -/
def ContainerOk (dl : Dialect) (o : Oracle) (attrs : List Attr) : Prop :=
  (∀ a ∈ attrs, AttrListOk a) ∧ AllItems (attrsItems attrs) ∧ ContWellFormed dl o (attrsMetas attrs)

theorem verdicts_nil_iff_ContainerOk (dl : Dialect) (o : Oracle) (attrs : List Attr) :
    ((∀ a ∈ attrs, AttrListOk a) ∧ verdicts (contPush dl o) [] (attrsItems attrs) = []) ↔ ContainerOk dl o attrs := by
  unfold ContainerOk
  rw [verdicts_nil_iff_items, attrsMetas_eq, ← cont_verdicts_nil_iff_wf]
  simp [contVerdict]

/-- **the container options of a `FromMeta` declaration** (started from rename rule `r0`) -/
theorem fromMeta_decl_accepts_iff_wf (o : Oracle) (r0 : RenameRule) (attrs : List Attr) :
    ((∃ s, finishWith (parseAttributes (fromMetaStep o) { core := { renameRule := r0 } } [] attrs) = .ok s) ↔
      ContainerOk .fromMeta o attrs) ∧
    (∀ s, finishWith (parseAttributes (fromMetaStep o) { core := { renameRule := r0 } } [] attrs) = .ok s →
      s = fromMetaStateP o r0 (attrsMetas attrs)) := by
  have h := decl_accepts_generic (fromMetaStep o) (fromMetaStateP o r0) (contPush .fromMeta o) (fromMetaStep_spec o r0) attrs
  rw [fromMetaStateP_nil] at h
  exact ⟨h.1.trans (verdicts_nil_iff_ContainerOk .fromMeta o attrs), h.2⟩

/-- **the container options of an element-level declaration** -/
theorem outer_decl_accepts_iff_wf (t : Trait) (o : Oracle) (attrs : List Attr) :
    ((∃ s, finishWith (parseAttributes (outerTraitStep t o) {} [] attrs) = .ok s) ↔ ContainerOk (.outer t) o attrs) ∧
    (∀ s, finishWith (parseAttributes (outerTraitStep t o) {} [] attrs) = .ok s → s = outerStateP t o (attrsMetas attrs)) := by
  have h := decl_accepts_generic (outerTraitStep t o) (outerStateP t o) (contPush (.outer t) o) (outerTraitStep_spec t o) attrs
  rw [outerStateP_nil] at h
  exact ⟨h.1.trans (verdicts_nil_iff_ContainerOk (.outer t) o attrs), h.2⟩

/-- **`Core` read on its own** -/
theorem core_decl_accepts_iff_wf (o : Oracle) (r0 : RenameRule) (attrs : List Attr) :
    ((∃ s, finishWith (parseAttributes (coreStep o) { renameRule := r0 } [] attrs) = .ok s) ↔ ContainerOk .core o attrs) ∧
    (∀ s, finishWith (parseAttributes (coreStep o) { renameRule := r0 } [] attrs) = .ok s →
      s = coreStateP .core o r0 (attrsMetas attrs)) := by
  have h := decl_accepts_generic (coreStep o) (coreStateP .core o r0) (contPush .core o) (coreStep_spec o r0) attrs
  rw [coreStateP_nil] at h
  exact ⟨h.1.trans (verdicts_nil_iff_ContainerOk .core o attrs), h.2⟩

/-- one attribute's list -/
theorem cont_accepts_iff_wf_items (dl : Dialect) (o : Oracle) (items : List NestedMeta) :
    contVerdicts dl o [] items = [] ↔ AllItems items ∧ ContWellFormed dl o (metasOf items) := by
  unfold contVerdicts
  rw [verdicts_nil_iff_items, ← cont_verdicts_nil_iff_wf]
  simp [contVerdict]


/-! ## the whole declaration -/

/-! ### one field, one variant -/

/-- the options of a field declaration are in order -/
def FieldDeclOk (o : Oracle) (f : FieldD) : Prop :=
  (∀ a ∈ f.attrs, AttrListOk a) ∧ AllItems (attrsItems f.attrs) ∧ FieldWellFormed o (attrsMetas f.attrs)

/-- the field says `flatten` -/
def declaresFlatten (f : FieldD) : Bool := (attrsMetas f.attrs).any (fun m => fieldKw m == some .flatten)

theorem applyToField_ok (r : RenameRule) (id : String) (h : (r.applyToField id).Returns) : ∃ n, r.applyToField id = .ok n := by
  cases hr : r.applyToField id with
  | ok n => exact ⟨n, rfl⟩
  | panic m => exact absurd hr (h m)
  | err e =>
      exfalso
      cases r <;> simp [RenameRule.applyToField] at hr
      unfold RenameRule.lowerFirst at hr
      split at hr
      · cases hr
      · split at hr <;> cases hr

theorem applyToVariant_ok (r : RenameRule) (id : String) (h : (r.applyToVariant id).Returns) : ∃ n, r.applyToVariant id = .ok n := by
  cases hr : r.applyToVariant id with
  | ok n => exact ⟨n, rfl⟩
  | panic m => exact absurd hr (h m)
  | err e =>
      exfalso
      cases r <;> simp [RenameRule.applyToVariant] at hr
      unfold RenameRule.lowerFirst at hr
      split at hr
      · cases hr
      · split at hr <;> cases hr

theorem resolveField_ok (core : CoreOpts) (ident : String) (ty : Ty) (s : FieldOpts) (h : C06.RenameOk core.renameRule ident) :
    ∃ rf, resolveField core ident ty s = .ok rf ∧ rf.flatten = s.flatten.isSome := by
  unfold resolveField
  cases hn : s.attrName with
  | some n => exact ⟨_, rfl, rfl⟩
  | none =>
      obtain ⟨n, hn'⟩ := applyToField_ok _ _ h.1
      simp only [hn', Outcome.bind]
      exact ⟨_, rfl, rfl⟩

/-- **a field declaration is read successfully exactly when its options are in order**; the field
    is then a `flatten` field iff it says so -/
theorem fieldFromDecl_ok_iff (o : Oracle) (core : CoreOpts) (f : FieldD) (hs : C06.FieldSafe f) :
    ((∃ rf, fieldFromDecl o core f = .ok rf) ↔ FieldDeclOk o f) ∧
    (∀ rf, fieldFromDecl o core f = .ok rf → rf.flatten = declaresFlatten f) := by
  have hacc := field_decl_accepts_iff_wf o f.attrs
  have hst := (field_decl_accepts_iff o f.attrs).2
  unfold fieldFromDecl
  cases hf : finishWith (parseAttributes (fieldStep o) {} [] f.attrs) with
  | ok s =>
      obtain ⟨rf, hrf, hfl⟩ := resolveField_ok core (f.ident.getD "__unnamed") f.ty s (hs core.renameRule)
      have hok : FieldDeclOk o f := hacc.mp ⟨s, hf⟩
      refine ⟨⟨fun _ => hok, fun _ => ⟨rf, hrf⟩⟩, ?_⟩
      intro rf' hrf'
      simp only [] at hrf'
      rw [hrf] at hrf'; cases hrf'
      rw [hfl, hst s hf, state_flatten_isSome]
      have := wf_flatten_present o _ hok.2.2
      unfold declaresFlatten
      rw [Bool.eq_iff_iff, this]
      simp
  | err e =>
      refine ⟨⟨fun ⟨rf, h⟩ => (by cases h), fun hok => ?_⟩, fun rf h => (by cases h)⟩
      obtain ⟨s, hs'⟩ := hacc.mpr hok
      rw [hf] at hs'; cases hs'
  | panic m => exact absurd hf (C06.field_options_return o f.attrs m)


/-- the options of a variant declaration and of all its fields are in order -/
def VariantDeclOk (o : Oracle) (v : VariantD) : Prop :=
  ((∀ a ∈ v.attrs, AttrListOk a) ∧ AllItems (attrsItems v.attrs)
    ∧ VariantWellFormed (v.style == .unit) (attrsMetas v.attrs)) ∧
  ∀ f ∈ v.fields, FieldDeclOk o f

/-- the variant says `word` (with whatever value) -/
def declaresWord (v : VariantD) : Bool := (attrsMetas v.attrs).any (fun m => variantKw m == some .word)

theorem variantFields_ok_iff (o : Oracle) (core : CoreOpts) :
    ∀ (fs : List FieldD), (∀ f ∈ fs, C06.FieldSafe f) →
      ((∃ rfs, variantFields o core fs = .ok rfs) ↔ ∀ f ∈ fs, FieldDeclOk o f) ∧
      (∀ rfs, variantFields o core fs = .ok rfs → rfs.length = fs.length)
  | [], _ => ⟨⟨fun _ f hf => (by cases hf), fun _ => ⟨[], rfl⟩⟩, fun rfs h => (by simp only [variantFields] at h; cases h; rfl)⟩
  | f :: rest, hs => by
      have ih := variantFields_ok_iff o core rest (fun g hg => hs g (List.mem_cons_of_mem _ hg))
      have hf := fieldFromDecl_ok_iff o core f (hs f (List.mem_cons_self ..))
      simp only [variantFields]
      cases hr : fieldFromDecl o core f with
      | ok rf =>
          have hfok : FieldDeclOk o f := hf.1.mp ⟨rf, hr⟩
          simp only []
          cases hrest : variantFields o core rest with
          | ok rfs =>
              have hrok := ih.1.mp ⟨rfs, hrest⟩
              refine ⟨⟨fun _ g hg => ?_, fun _ => ⟨_, rfl⟩⟩, ?_⟩
              · rcases List.mem_cons.mp hg with rfl | hg
                · exact hfok
                · exact hrok g hg
              · intro rfs' h
                simp only [Outcome.map] at h; cases h
                simp [ih.2 rfs hrest]
          | err e =>
              refine ⟨⟨fun ⟨_, h⟩ => (by cases h), fun h => ?_⟩, fun _ h => (by cases h)⟩
              obtain ⟨rfs, hrfs⟩ := ih.1.mpr (fun g hg => h g (List.mem_cons_of_mem _ hg))
              rw [hrest] at hrfs; cases hrfs
          | panic m =>
              refine ⟨⟨fun ⟨_, h⟩ => (by cases h), fun h => ?_⟩, fun _ h => (by cases h)⟩
              obtain ⟨rfs, hrfs⟩ := ih.1.mpr (fun g hg => h g (List.mem_cons_of_mem _ hg))
              rw [hrest] at hrfs; cases hrfs
      | err e =>
          refine ⟨⟨fun ⟨_, h⟩ => (by cases h), fun h => ?_⟩, fun _ h => (by cases h)⟩
          obtain ⟨rf, hrf⟩ := hf.1.mpr (h f (List.mem_cons_self ..))
          rw [hr] at hrf; cases hrf
      | panic m =>
          refine ⟨⟨fun ⟨_, h⟩ => (by cases h), fun h => ?_⟩, fun _ h => (by cases h)⟩
          obtain ⟨rf, hrf⟩ := hf.1.mpr (h f (List.mem_cons_self ..))
          rw [hr] at hrf; cases hrf

theorem vwf_word_present (isUnit : Bool) (ms : List Meta) (wf : VariantWellFormed isUnit ms) :
    (vEffective isUnit ms .word).isSome = true ↔ ∃ m ∈ ms, variantKw m = some .word := by
  simp only [vEffective, List.find?_isSome, beq_iff_eq]
  constructor
  · rintro ⟨m, hm, h⟩; exact ⟨m, hm, by rw [← vwf_writes isUnit ms wf m hm]; exact h⟩
  · rintro ⟨m, hm, h⟩; exact ⟨m, hm, by rw [vwf_writes isUnit ms wf m hm]; exact h⟩

/-- **a variant declaration is read successfully exactly when its options and those of its fields
    are in order**; what validation later looks at is what the declaration says -/
theorem variantFromDecl_ok_iff (o : Oracle) (core : CoreOpts) (v : VariantD) (hs : C06.VariantSafe v) :
    ((∃ rv, variantFromDecl o core v = .ok rv) ↔ VariantDeclOk o v) ∧
    (∀ rv, variantFromDecl o core v = .ok rv →
      rv.style = v.style ∧ rv.fields.length = v.fields.length ∧ rv.word.isSome = declaresWord v) := by
  have hacc := variant_decl_accepts_iff_wf (v.style == .unit) v.attrs
  have hst := (variant_decl_accepts_iff (v.style == .unit) v.attrs).2
  have hfs := variantFields_ok_iff o core v.fields hs.2
  unfold variantFromDecl VariantDeclOk
  cases hf : finishWith (parseAttributes (variantStep (v.style == .unit)) {} [] v.attrs) with
  | ok s =>
      have hok := hacc.mp ⟨s, hf⟩
      simp only []
      cases hfields : variantFields o core v.fields with
      | ok rfs =>
          have hfok := hfs.1.mp ⟨rfs, hfields⟩
          have hw : s.word.isSome = declaresWord v := by
            rw [hst s hf, vstate_word_isSome]
            have := vwf_word_present _ _ hok.2.2
            unfold declaresWord
            rw [Bool.eq_iff_iff, this]
            simp
          cases hname : s.attrName with
          | some n =>
              simp only [Outcome.bind]
              refine ⟨⟨fun _ => ⟨hok, hfok⟩, fun _ => ⟨_, rfl⟩⟩, ?_⟩
              intro rv hrv
              cases hrv
              exact ⟨rfl, hfs.2 rfs hfields, hw⟩
          | none =>
              obtain ⟨n, hn⟩ := applyToVariant_ok _ _ (hs.1 core.renameRule).2
              simp only [hn, Outcome.bind]
              refine ⟨⟨fun _ => ⟨hok, hfok⟩, fun _ => ⟨_, rfl⟩⟩, ?_⟩
              intro rv hrv
              cases hrv
              exact ⟨rfl, hfs.2 rfs hfields, hw⟩
      | err e =>
          refine ⟨⟨fun ⟨_, h⟩ => (by cases h), fun h => ?_⟩, fun _ h => (by cases h)⟩
          obtain ⟨rfs, hrfs⟩ := hfs.1.mpr h.2
          rw [hfields] at hrfs; cases hrfs
      | panic m =>
          refine ⟨⟨fun ⟨_, h⟩ => (by cases h), fun h => ?_⟩, fun _ h => (by cases h)⟩
          obtain ⟨rfs, hrfs⟩ := hfs.1.mpr h.2
          rw [hfields] at hrfs; cases hrfs
  | err e =>
      refine ⟨⟨fun ⟨_, h⟩ => (by cases h), fun h => ?_⟩, fun _ h => (by cases h)⟩
      obtain ⟨s, hs'⟩ := hacc.mpr h.1
      rw [hf] at hs'; cases hs'
  | panic m => exact absurd hf (C06.variant_options_return _ v.attrs m)


/-- the `flatten` flags of a variant's fields are what the declaration says -/
theorem variantFields_flags (o : Oracle) (core : CoreOpts) :
    ∀ (fs : List FieldD), (∀ f ∈ fs, C06.FieldSafe f) → ∀ rfs, variantFields o core fs = .ok rfs →
      rfs.map (·.flatten) = fs.map declaresFlatten
  | [], _, rfs, h => by simp only [variantFields] at h; cases h; rfl
  | f :: rest, hs, rfs, h => by
      simp only [variantFields] at h
      cases hr : fieldFromDecl o core f with
      | ok rf =>
          rw [hr] at h
          simp only [] at h
          cases hrest : variantFields o core rest with
          | ok r =>
              rw [hrest] at h
              simp only [Outcome.map, Outcome.ok.injEq] at h
              subst h
              have e1 := (fieldFromDecl_ok_iff o core f (hs f (List.mem_cons_self ..))).2 rf hr
              have e2 := variantFields_flags o core rest (fun g hg => hs g (List.mem_cons_of_mem _ hg)) r hrest
              simp [e1, e2]
          | err e => rw [hrest] at h; cases h
          | panic m => rw [hrest] at h; cases h
      | err e => rw [hr] at h; cases h
      | panic m => rw [hr] at h; cases h

theorem variantFromDecl_flags (o : Oracle) (core : CoreOpts) (v : VariantD) (hs : C06.VariantSafe v) (rv : RVariant)
    (h : variantFromDecl o core v = .ok rv) : rv.fields.map (·.flatten) = v.fields.map declaresFlatten := by
  unfold variantFromDecl at h
  cases hf : finishWith (parseAttributes (variantStep (v.style == .unit)) {} [] v.attrs) with
  | ok s =>
      rw [hf] at h
      simp only [] at h
      cases hfields : variantFields o core v.fields with
      | ok rfs =>
          rw [hfields] at h
          simp only [] at h
          have hfl := variantFields_flags o core v.fields hs.2 rfs hfields
          cases hname : s.attrName with
          | some n => rw [hname] at h; simp only [Outcome.bind] at h; cases h; exact hfl
          | none =>
              rw [hname] at h
              obtain ⟨n, hn⟩ := applyToVariant_ok _ _ (hs.1 core.renameRule).2
              simp only [hn, Outcome.bind] at h
              cases h; exact hfl
      | err e => rw [hfields] at h; cases h
      | panic m => rw [hfields] at h; cases h
  | err e => rw [hf] at h; cases h
  | panic m => rw [hf] at h; cases h


/-! ### the body loops -/

/-- a field the derive reads itself (`ident`, `attrs`, `vis`, … — by trait) rather than as an option target -/
def isMagic (t : Trait) (f : FieldD) : Bool :=
  match f.ident with
  | some id => (magicNames t).contains id
  | none => false

/-- the magic fields `attrs` / `data`, which take a `#[darling(with = …)]` of their own -/
def isForwarded (t : Trait) (f : FieldD) : Bool :=
  isMagic t f && (f.ident.getD "" == "attrs" || f.ident.getD "" == "data")

def isAttrsField (t : Trait) (f : FieldD) : Bool := isMagic t f && f.ident.getD "" == "attrs"

/-- what the body loop asks of one field -/
def BodyFieldOk (t : Trait) (o : Oracle) (sim : String → Option (Nat × String)) (f : FieldD) : Prop :=
  if isForwarded t f then ∃ fw, forwardedFromField o sim f = .ok fw
  else if isMagic t f then True
  else FieldDeclOk o f

theorem parseFieldStep_eq (t : Trait) (o : Oracle) (sim : String → Option (Nat × String)) (core : CoreOpts)
    (st : BodySt) (f : FieldD) :
    parseFieldStep t o sim core st f =
      if isMagic t f then
        if f.ident.getD "" == "attrs" || f.ident.getD "" == "data" then
          match forwardedFromField o sim f with
          | .ok fw => .ok (if f.ident.getD "" == "attrs"
                then { st with attrsField := some fw, magic := st.magic ++ [f.ident.getD ""] }
                else { st with dataField := some fw, magic := st.magic ++ [f.ident.getD ""] })
          | .err e => .ok { st with errs := st.errs ++ [e] }
          | .panic m => .error m
        else .ok { st with magic := st.magic ++ [f.ident.getD ""] }
      else
        match fieldFromDecl o core f with
        | .ok rf => .ok { st with fields := st.fields ++ [rf] }
        | .err e => .ok { st with errs := st.errs ++ [e] }
        | .panic m => .error m := rfl

theorem parseFieldStep_spec (t : Trait) (o : Oracle) (sim : String → Option (Nat × String)) (core : CoreOpts)
    (st : BodySt) (f : FieldD) (hs : C06.FieldSafe f) :
    ∃ st', parseFieldStep t o sim core st f = .ok st' ∧ st'.variants = st.variants ∧
      (st'.errs = [] ↔ st.errs = [] ∧ BodyFieldOk t o sim f) ∧
      (st'.errs = [] → st'.fields.map (·.flatten)
          = st.fields.map (·.flatten) ++ (if isMagic t f then [] else [declaresFlatten f])) ∧
      (st'.errs = [] → st'.attrsField.isSome = (st.attrsField.isSome || isAttrsField t f)) := by
  rw [parseFieldStep_eq]
  by_cases hm : isMagic t f = true
  · simp only [hm, if_true]
    by_cases hfw : (f.ident.getD "" == "attrs" || f.ident.getD "" == "data") = true
    · simp only [hfw, if_true]
      have hret := C06.forwardedFromField_returns o sim f
      cases hr : forwardedFromField o sim f with
      | ok fw =>
          by_cases ha : (f.ident.getD "" == "attrs") = true
          · refine ⟨_, rfl, ?_, ?_, ?_, ?_⟩ <;> simp [ha, BodyFieldOk, isForwarded, isAttrsField, hm, hr]
          · refine ⟨_, rfl, ?_, ?_, ?_, ?_⟩ <;> simp [ha, BodyFieldOk, isForwarded, isAttrsField, hm, hr]
      | err e =>
          refine ⟨_, rfl, ?_, ?_, ?_, ?_⟩ <;> simp [BodyFieldOk, isForwarded, hm, hfw, hr]
      | panic m => exact absurd hr (hret m)
    · simp only [hfw]
      have ha : (f.ident.getD "" == "attrs") = false := by
        cases h : (f.ident.getD "" == "attrs") with
        | false => rfl
        | true => simp [h] at hfw
      have hd : (f.ident.getD "" == "data") = false := by
        cases h : (f.ident.getD "" == "data") with
        | false => rfl
        | true => simp [h] at hfw
      refine ⟨_, rfl, ?_, ?_, ?_, ?_⟩ <;> simp [BodyFieldOk, isForwarded, isAttrsField, hm, ha, hd]
  · simp only [hm]
    have hf := fieldFromDecl_ok_iff o core f hs
    have hret := C06.fieldFromDecl_returns o core f (hs core.renameRule)
    have hm' : isMagic t f = false := by simpa using hm
    cases hr : fieldFromDecl o core f with
    | ok rf =>
        have hok : FieldDeclOk o f := hf.1.mp ⟨rf, hr⟩
        have hfl := hf.2 rf hr
        refine ⟨_, rfl, ?_, ?_, ?_, ?_⟩ <;> simp [BodyFieldOk, isForwarded, isAttrsField, hm', hok, hfl]
    | err e =>
        have hnok : ¬ FieldDeclOk o f := fun h => by
          obtain ⟨rf, hrf⟩ := hf.1.mpr h
          rw [hr] at hrf; cases hrf
        refine ⟨_, rfl, ?_, ?_, ?_, ?_⟩ <;> simp [BodyFieldOk, isForwarded, hm', hnok]
    | panic m => exact absurd hr (hret m)


/-- the loop over the fields of a struct body: it never stops early; it ends without an error
    exactly when every field is in order; the fields it keeps are the non-magic ones, in order -/
theorem parseFields_spec (t : Trait) (o : Oracle) (sim : String → Option (Nat × String)) (core : CoreOpts) :
    ∀ (fs : List FieldD) (st : BodySt), (∀ f ∈ fs, C06.FieldSafe f) →
    ∃ st', parseFields t o sim core st fs = .ok st' ∧ st'.variants = st.variants ∧
      (st'.errs = [] ↔ st.errs = [] ∧ ∀ f ∈ fs, BodyFieldOk t o sim f) ∧
      (st'.errs = [] → st'.fields.map (·.flatten)
          = st.fields.map (·.flatten) ++ (fs.filter (fun f => !isMagic t f)).map declaresFlatten) ∧
      (st'.errs = [] → st'.attrsField.isSome = (st.attrsField.isSome || fs.any (isAttrsField t)))
  | [], st, _ => ⟨st, rfl, rfl, by simp, by simp, by simp⟩
  | f :: rest, st, hs => by
      obtain ⟨st1, h1, hv1, he1, hf1, ha1⟩ := parseFieldStep_spec t o sim core st f (hs f (List.mem_cons_self ..))
      obtain ⟨st2, h2, hv2, he2, hf2, ha2⟩ :=
        parseFields_spec t o sim core rest st1 (fun g hg => hs g (List.mem_cons_of_mem _ hg))
      refine ⟨st2, by simp only [parseFields, h1]; exact h2, by rw [hv2, hv1], ?_, ?_, ?_⟩
      · rw [he2, he1]
        simp only [List.mem_cons, forall_eq_or_imp]
        constructor
        · rintro ⟨⟨a, b⟩, c⟩; exact ⟨a, b, c⟩
        · rintro ⟨a, b, c⟩; exact ⟨⟨a, b⟩, c⟩
      · intro h
        have h1e : st1.errs = [] := (he2.mp h).1
        rw [hf2 h, hf1 h1e]
        by_cases hm : isMagic t f = true <;> simp [hm]
      · intro h
        have h1e : st1.errs = [] := (he2.mp h).1
        rw [ha2 h, ha1 h1e]
        simp [Bool.or_assoc]

/-- what body validation looks at in a variant -/
def RVariant.summary (rv : RVariant) : Style × Nat × Bool × List Bool :=
  (rv.style, rv.fields.length, rv.word.isSome, rv.fields.map (·.flatten))
def VariantD.summary (v : VariantD) : Style × Nat × Bool × List Bool :=
  (v.style, v.fields.length, declaresWord v, v.fields.map declaresFlatten)

/-- the loop over the variants of an enum body, for `FromMeta` -/
theorem parseVariants_fromMeta_spec (o : Oracle) (core : CoreOpts) :
    ∀ (vs : List VariantD) (st : BodySt), (∀ v ∈ vs, C06.VariantSafe v) →
    ∃ st', parseVariants .fromMeta o core st vs = .ok st' ∧ st'.fields = st.fields ∧
      (st'.errs = [] ↔ st.errs = [] ∧ ∀ v ∈ vs, VariantDeclOk o v) ∧
      (st'.errs = [] → st'.variants.map RVariant.summary = st.variants.map RVariant.summary ++ vs.map VariantD.summary)
  | [], st, _ => ⟨st, rfl, rfl, by simp, by simp⟩
  | v :: rest, st, hs => by
      have hv := variantFromDecl_ok_iff o core v (hs v (List.mem_cons_self ..))
      have hret := C06.variantFromDecl_returns o core v (hs v (List.mem_cons_self ..))
      have hrest : ∀ w ∈ rest, C06.VariantSafe w := fun w hw => hs w (List.mem_cons_of_mem _ hw)
      simp only [parseVariants, beq_self_eq_true, if_true]
      cases hr : variantFromDecl o core v with
      | ok rv =>
          have hok : VariantDeclOk o v := hv.1.mp ⟨rv, hr⟩
          obtain ⟨e1, e2, e3⟩ := hv.2 rv hr
          have e4 := variantFromDecl_flags o core v (hs v (List.mem_cons_self ..)) rv hr
          obtain ⟨st2, h2, hf2, he2, hs2⟩ := parseVariants_fromMeta_spec o core rest { st with variants := st.variants ++ [rv] } hrest
          refine ⟨st2, h2, hf2, ?_, ?_⟩
          · rw [he2]; simp [hok]
          · intro h
            rw [hs2 h]
            simp [RVariant.summary, VariantD.summary, e1, e2, e3, e4]
      | err e =>
          have hnok : ¬ VariantDeclOk o v := fun h => by
            obtain ⟨rv, hrv⟩ := hv.1.mpr h
            rw [hr] at hrv; cases hrv
          obtain ⟨st2, h2, hf2, he2, hs2⟩ := parseVariants_fromMeta_spec o core rest { st with errs := st.errs ++ [e] } hrest
          refine ⟨st2, h2, hf2, ?_, ?_⟩
          · rw [he2]; simp [hnok]
          · intro h; rw [he2] at h; simp at h
      | panic m => exact absurd hr (hret m)

/-- … and for every other derive: each variant is refused -/
theorem parseVariants_outer_errs (t : Trait) (ht : t ≠ .fromMeta) (o : Oracle) (core : CoreOpts) :
    ∀ (vs : List VariantD) (st : BodySt), ∃ st', parseVariants t o core st vs = .ok st' ∧
      (st'.errs = [] ↔ st.errs = [] ∧ vs = [])
  | [], st => ⟨st, rfl, by simp⟩
  | v :: rest, st => by
      have hb : (t == Trait.fromMeta) = false := by cases t <;> first | exact absurd rfl ht | rfl
      simp only [parseVariants, hb]
      obtain ⟨st2, h2, he2⟩ := parseVariants_outer_errs t ht o core rest
        { st with errs := st.errs ++ [(Err.unsupportedFormat "enum variant").withSpan v.span] }
      exact ⟨st2, h2, by rw [he2]; simp⟩


/-! ### body validation -/

theorem len_filter_map {α : Type} (f : α → Bool) (l : List α) : (l.filter f).length = ((l.map f).filter id).length := by
  induction l with
  | nil => rfl
  | cons x r ih => by_cases h : f x = true <;> simp [h, ih]

/-- more than one `flatten` field is the only thing `Core::validate_body` complains about -/
theorem flattenErrs_nil_iff (fields : List RField) : flattenErrs fields = [] ↔ (fields.filter (·.flatten)).length ≤ 1 := by
  unfold flattenErrs
  by_cases h : (fields.filter (·.flatten)).length > 1
  · simp only [h, if_true]
    constructor
    · intro hn
      have : (fields.filter (·.flatten)).length = 0 := by
        have := congrArg List.length hn
        simpa using this
      omega
    · intro; omega
  · simp only [h]; simp; omega

theorem flattenErrs_nil_of_flags {α : Type} (fields : List RField) (l : List α) (g : α → Bool)
    (h : fields.map (·.flatten) = l.map g) : flattenErrs fields = [] ↔ (l.filter g).length ≤ 1 := by
  rw [flattenErrs_nil_iff, len_filter_map, h, ← len_filter_map]

/-- the final `match errors { [] => Ok(..), _ => Err(multiple) }` -/
theorem bundleErr_not_ok {α : Type} (errs : List Err) (hne : errs ≠ []) (a : α) : (Err.bundleErr errs : Outcome α) ≠ .ok a := by
  obtain ⟨e, he⟩ := C06.bundle_is_diagnostics (σ := α) errs hne
  rw [he]; intro h; cases h


/-- the container says `from_word` -/
def declaresFromWord (attrs : List Attr) : Bool :=
  (attrsMetas attrs).any (fun m => contKw .fromMeta m == some .fromWord)

theorem fmstate_fromWord_isSome (o : Oracle) (r0 : RenameRule) (pre : List Meta) :
    (fromMetaStateP o r0 pre).fromWord.isSome = (firstEff .fromMeta o pre .fromWord).isSome := by
  cases he : firstEff .fromMeta o pre .fromWord with
  | none => simp [fromMetaStateP, he]
  | some m => obtain ⟨c, sp, hr⟩ := held_cfromWord _ o pre m he; simp [fromMetaStateP, he, hr]

theorem cwf_fromWord_present (o : Oracle) (attrs : List Attr) (r0 : RenameRule)
    (wf : ContWellFormed .fromMeta o (attrsMetas attrs)) :
    (fromMetaStateP o r0 (attrsMetas attrs)).fromWord.isSome = declaresFromWord attrs := by
  rw [fmstate_fromWord_isSome, Bool.eq_iff_iff]
  simp only [firstEff, List.find?_isSome, beq_iff_eq, declaresFromWord, List.any_eq_true]
  constructor
  · rintro ⟨m, hm, h⟩
    rw [cwrites_eq _ o m (wf.readable m hm)] at h
    refine ⟨m, hm, ?_⟩
    cases hk : contKw .fromMeta m with
    | none => rw [hk] at h; cases h
    | some k => rw [hk] at h; cases k <;> simp [ContKw.slot] at h ⊢
  · rintro ⟨m, hm, h⟩
    refine ⟨m, hm, ?_⟩
    rw [cwrites_eq _ o m (wf.readable m hm), h]; rfl

/-- `FromMetaOptions::validate_body` on a struct -/
theorem fromMetaValidate_struct_nil_iff (sp : Span) (style : Style) (n : Nat) (fm : FromMetaOpts) (st : BodySt)
    (vsp : List (String × Span)) :
    fromMetaValidate sp (some style) n fm st vsp = [] ↔
      flattenErrs st.fields = [] ∧ (style = .tuple → n = 1) ∧
      (fm.fromWord.isSome = true → style ≠ .unit ∧ ¬ (style = .tuple ∧ n = 1)) := by
  unfold fromMetaValidate
  simp only [List.append_eq_nil_iff]
  cases hfw : fm.fromWord with
  | none => cases style <;> simp
  | some w => obtain ⟨c, s⟩ := w; cases style <;> simp <;> (by_cases hn : n = 1 <;> simp [hn])

theorem isMagic_fromMeta (f : FieldD) : isMagic .fromMeta f = false := by
  unfold isMagic
  cases f.ident <;> simp [magicNames]

theorem bodyFieldOk_fromMeta (o : Oracle) (sim : String → Option (Nat × String)) (f : FieldD) :
    BodyFieldOk .fromMeta o sim f ↔ FieldDeclOk o f := by
  simp [BodyFieldOk, isForwarded, isMagic_fromMeta]

/-- the last step of both derives: an impl exactly when nothing was recorded -/
theorem final_match_ok_iff {α : Type} (E : List Err) (a : α) :
    (∃ r, (match E with
        | [] => Outcome.ok a
        | errs => Err.bundleErr errs : Outcome α) = .ok r) ↔ E = [] := by
  cases E with
  | nil => simp
  | cons x r =>
      simp only [reduceCtorEq, iff_false, not_exists]
      intro r' h
      exact bundleErr_not_ok (x :: r) (by simp) r' h

/-- **`derive(FromMeta)` on a struct** -/
theorem deriveFromMeta_struct_ok_iff (o : Oracle) (sp : DeclSpans) (d : DeclD) (style : Style) (fs : List FieldD)
    (hb : d.body = .struct style fs) (hs : ∀ f ∈ fs, C06.FieldSafe f) :
    (∃ r, deriveFromMeta o sp d = .ok r) ↔
      ContainerOk .fromMeta o d.attrs ∧ (∀ f ∈ fs, FieldDeclOk o f) ∧
      (fs.filter declaresFlatten).length ≤ 1 ∧
      (style = .tuple → fs.length = 1) ∧
      (declaresFromWord d.attrs = true → style ≠ .unit ∧ ¬ (style = .tuple ∧ fs.length = 1)) := by
  have hc := fromMeta_decl_accepts_iff_wf o .none d.attrs
  unfold deriveFromMeta
  rw [hb]
  simp only []
  cases hfin : finishWith (parseAttributes (fromMetaStep o) {} [] d.attrs) with
  | err e =>
      simp only [reduceCtorEq, exists_false, false_iff]
      rintro ⟨hcont, _⟩
      obtain ⟨s, hs'⟩ := hc.1.mpr hcont
      rw [show ({ core := { renameRule := RenameRule.none } } : FromMetaOpts) = {} from rfl, hfin] at hs'
      cases hs'
  | panic m => exact absurd hfin (C06.fromMeta_options_return o {} d.attrs m)
  | ok fm =>
      have hcont : ContainerOk .fromMeta o d.attrs := hc.1.mp ⟨fm, hfin⟩
      have hfm : fm = fromMetaStateP o .none (attrsMetas d.attrs) := hc.2 fm hfin
      obtain ⟨st, hst, _, he, hfl, _⟩ := parseFields_spec .fromMeta o (fun _ => none) fm.core fs {} hs
      simp only [hst]
      refine Iff.trans (b := st.errs ++ fromMetaValidate sp.ident (some style)
        (if (some style).isSome = true then st.fields.length else fs.length) fm st sp.variantIdents = []) ?_ ?_
      · generalize st.errs ++ fromMetaValidate sp.ident (some style)
          (if (some style).isSome = true then st.fields.length else fs.length) fm st sp.variantIdents = E
        cases E with
        | nil => simp
        | cons x r =>
            simp only [reduceCtorEq, iff_false, not_exists]
            intro r' h
            exact bundleErr_not_ok (x :: r) (by simp) r' h
      simp only [List.append_eq_nil_iff, Option.isSome_some, if_true]
      have hflags : st.errs = [] → st.fields.map (·.flatten) = fs.map declaresFlatten := by
        intro h
        have := hfl h
        have hall : fs.filter (fun _ => true) = fs := List.filter_eq_self.mpr (fun _ _ => rfl)
        simpa [isMagic_fromMeta, hall] using this
      have hfw : fm.fromWord.isSome = declaresFromWord d.attrs := by
        rw [hfm]; exact cwf_fromWord_present o d.attrs .none hcont.2.2
      by_cases herr : st.errs = []
      · have hfields : ∀ f ∈ fs, FieldDeclOk o f := fun f hf =>
          (bodyFieldOk_fromMeta o _ f).mp ((he.mp herr).2 f hf)
        have hlen : st.fields.length = fs.length := by
          have := congrArg List.length (hflags herr)
          simpa using this
        rw [fromMetaValidate_struct_nil_iff, flattenErrs_nil_of_flags st.fields fs declaresFlatten (hflags herr), hlen, hfw]
        simp only [herr, hcont, true_and]
        constructor
        · rintro ⟨a, b, c⟩; exact ⟨hfields, a, b, c⟩
        · rintro ⟨_, a, b, c⟩; exact ⟨a, b, c⟩
      · have hnf : ¬ ∀ f ∈ fs, FieldDeclOk o f := fun h =>
          herr (he.mpr ⟨rfl, fun f hf => (bodyFieldOk_fromMeta o _ f).mpr (h f hf)⟩)
        simp [herr, hnf]


theorem len_filter_comp {α β : Type} (f : α → β) (p : β → Bool) (l : List α) :
    (l.filter (fun x => p (f x))).length = ((l.map f).filter p).length := by
  induction l with
  | nil => rfl
  | cons x r ih => by_cases h : p (f x) = true <;> simp [h, ih]

theorem filterMap_word_length (vs : List RVariant) :
    (vs.filterMap (·.word)).length = (vs.filter (fun v => v.word.isSome)).length := by
  induction vs with
  | nil => rfl
  | cons v r ih => cases hw : v.word <;> simp [hw, ih]

/-- `FromMetaOptions::validate_body` on an enum -/
theorem fromMetaValidate_enum_nil_iff (sp : Span) (n : Nat) (fm : FromMetaOpts) (st : BodySt) (vsp : List (String × Span)) :
    fromMetaValidate sp none n fm st vsp = [] ↔
      (∀ v ∈ st.variants, (v.fields.filter (·.flatten)).length ≤ 1) ∧
      (∀ v ∈ st.variants, v.style = .tuple → v.fields.length = 1) ∧
      (fm.fromWord.isSome = true → (st.variants.filter (fun v => v.word.isSome)).length = 0) ∧
      (st.variants.filter (fun v => v.word.isSome)).length ≤ 1 := by
  unfold fromMetaValidate
  simp only [List.append_eq_nil_iff]
  have hlen := filterMap_word_length st.variants
  generalize st.variants.filterMap (·.word) = words at hlen ⊢
  rw [and_assoc, and_assoc]
  refine and_congr ?_ (and_congr ?_ (and_congr ?_ ?_))
  · simp only [List.flatMap_eq_nil_iff, flattenErrs_nil_iff]
  · simp only [List.filterMap_eq_nil_iff]
    constructor
    · intro h v hv ht
      have := h v hv
      by_cases hl : v.fields.length = 1
      · exact hl
      · simp [ht, hl] at this
    · intro h v hv
      by_cases ht : v.style = .tuple
      · simp [ht, h v hv ht]
      · simp [ht]
  · cases words with
    | nil => simp at hlen; simp [← hlen]
    | cons w r =>
        have : (st.variants.filter (fun v => v.word.isSome)).length ≠ 0 := by simp at hlen; omega
        cases hfw : fm.fromWord with
        | none => simp
        | some x => obtain ⟨c, s⟩ := x; simp [this]
  · by_cases h : words.length > 1
    · simp only [h, if_true]
      constructor
      · intro hn
        have hw0 : words = [] := by simpa using hn
        simp [hw0] at h
      · intro hle; exfalso; omega
    · simp only [h]; simp; omega


/-- **`derive(FromMeta)` on an enum** -/
theorem deriveFromMeta_enum_ok_iff (o : Oracle) (sp : DeclSpans) (d : DeclD) (vs : List VariantD)
    (hb : d.body = .enum vs) (hs : ∀ v ∈ vs, C06.VariantSafe v) :
    (∃ r, deriveFromMeta o sp d = .ok r) ↔
      ContainerOk .fromMeta o d.attrs ∧ (∀ v ∈ vs, VariantDeclOk o v) ∧
      (∀ v ∈ vs, (v.fields.filter declaresFlatten).length ≤ 1) ∧
      (∀ v ∈ vs, v.style = .tuple → v.fields.length = 1) ∧
      (declaresFromWord d.attrs = true → (vs.filter declaresWord).length = 0) ∧
      (vs.filter declaresWord).length ≤ 1 := by
  have hc := fromMeta_decl_accepts_iff_wf o .snake d.attrs
  unfold deriveFromMeta
  rw [hb]
  simp only []
  cases hfin : finishWith (parseAttributes (fromMetaStep o) { core := { renameRule := .snake } } [] d.attrs) with
  | err e =>
      simp only [reduceCtorEq, exists_false, false_iff]
      rintro ⟨hcont, _⟩
      obtain ⟨s, hs'⟩ := hc.1.mpr hcont
      rw [hfin] at hs'
      cases hs'
  | panic m => exact absurd hfin (C06.fromMeta_options_return o _ d.attrs m)
  | ok fm =>
      have hcont : ContainerOk .fromMeta o d.attrs := hc.1.mp ⟨fm, hfin⟩
      have hfm : fm = fromMetaStateP o .snake (attrsMetas d.attrs) := hc.2 fm hfin
      obtain ⟨st, hst, _, he, hsum⟩ := parseVariants_fromMeta_spec o fm.core vs {} hs
      simp only [hst]
      refine Iff.trans (b := st.errs ++ fromMetaValidate sp.ident none
        (if (none : Option Style).isSome = true then st.fields.length else 0) fm st sp.variantIdents = []) ?_ ?_
      · generalize st.errs ++ fromMetaValidate sp.ident none
          (if (none : Option Style).isSome = true then st.fields.length else 0) fm st sp.variantIdents = E
        cases E with
        | nil => simp
        | cons x r =>
            simp only [reduceCtorEq, iff_false, not_exists]
            intro r' h
            exact bundleErr_not_ok (x :: r) (by simp) r' h
      simp only [List.append_eq_nil_iff]
      have hfw : fm.fromWord.isSome = declaresFromWord d.attrs := by
        rw [hfm]; exact cwf_fromWord_present o d.attrs .snake hcont.2.2
      by_cases herr : st.errs = []
      · have hvars : ∀ v ∈ vs, VariantDeclOk o v := (he.mp herr).2
        have hS : st.variants.map RVariant.summary = vs.map VariantD.summary := by simpa using hsum herr
        have h1 : (∀ v ∈ st.variants, v.style = .tuple → v.fields.length = 1) ↔
            (∀ v ∈ vs, v.style = .tuple → v.fields.length = 1) := by
          have a : (∀ v ∈ st.variants, v.style = .tuple → v.fields.length = 1) ↔
              ∀ s ∈ st.variants.map RVariant.summary, s.1 = .tuple → s.2.1 = 1 := by
            simp [RVariant.summary]
          have b : (∀ v ∈ vs, v.style = .tuple → v.fields.length = 1) ↔
              ∀ s ∈ vs.map VariantD.summary, s.1 = .tuple → s.2.1 = 1 := by
            simp [VariantD.summary]
          rw [a, b, hS]
        have h2 : (st.variants.filter (fun v => v.word.isSome)).length = (vs.filter declaresWord).length := by
          have a := len_filter_comp RVariant.summary (fun s => s.2.2.1) st.variants
          have b := len_filter_comp VariantD.summary (fun s => s.2.2.1) vs
          simp only [RVariant.summary, VariantD.summary] at a b
          rw [a, b, hS]
        have h0 : (∀ v ∈ st.variants, (v.fields.filter (·.flatten)).length ≤ 1) ↔
            (∀ v ∈ vs, (v.fields.filter declaresFlatten).length ≤ 1) := by
          have a : (∀ v ∈ st.variants, (v.fields.filter (·.flatten)).length ≤ 1) ↔
              ∀ s ∈ st.variants.map RVariant.summary, (s.2.2.2.filter id).length ≤ 1 := by
            simp [RVariant.summary, ← len_filter_map]
          have b : (∀ v ∈ vs, (v.fields.filter declaresFlatten).length ≤ 1) ↔
              ∀ s ∈ vs.map VariantD.summary, (s.2.2.2.filter id).length ≤ 1 := by
            simp [VariantD.summary, ← len_filter_map]
          rw [a, b, hS]
        rw [fromMetaValidate_enum_nil_iff, h0, h1, h2, hfw]
        simp only [herr, hcont, true_and]
        constructor
        · rintro ⟨z, a, b, c⟩; exact ⟨hvars, z, a, b, c⟩
        · rintro ⟨_, z, a, b, c⟩; exact ⟨z, a, b, c⟩
      · have hnf : ¬ ∀ v ∈ vs, VariantDeclOk o v := fun h => herr (he.mpr ⟨rfl, h⟩)
        simp [herr, hnf]


/-- the declaration's options of `FromMeta`, its body and the body rules are in order -/
def FromMetaDeclOk (o : Oracle) (d : DeclD) : Prop :=
  match d.body with
  | .union => False
  | .struct style fs =>
      ContainerOk .fromMeta o d.attrs ∧ (∀ f ∈ fs, FieldDeclOk o f) ∧
      (fs.filter declaresFlatten).length ≤ 1 ∧
      (style = .tuple → fs.length = 1) ∧
      (declaresFromWord d.attrs = true → style ≠ .unit ∧ ¬ (style = .tuple ∧ fs.length = 1))
  | .enum vs =>
      ContainerOk .fromMeta o d.attrs ∧ (∀ v ∈ vs, VariantDeclOk o v) ∧
      (∀ v ∈ vs, (v.fields.filter declaresFlatten).length ≤ 1) ∧
      (∀ v ∈ vs, v.style = .tuple → v.fields.length = 1) ∧
      (declaresFromWord d.attrs = true → (vs.filter declaresWord).length = 0) ∧
      (vs.filter declaresWord).length ≤ 1

/-- **`derive(FromMeta)` emits an impl exactly for the well-formed declarations** -/
theorem deriveFromMeta_ok_iff (o : Oracle) (sp : DeclSpans) (d : DeclD) (hs : C06.DeclSafe d) :
    (∃ r, deriveFromMeta o sp d = .ok r) ↔ FromMetaDeclOk o d := by
  unfold C06.DeclSafe at hs
  unfold FromMetaDeclOk
  cases hb : d.body with
  | union =>
      simp only [iff_false, not_exists]
      intro r h
      simp [deriveFromMeta, hb] at h
  | struct style fs => rw [hb] at hs; exact deriveFromMeta_struct_ok_iff o sp d style fs hb hs
  | enum vs => rw [hb] at hs; exact deriveFromMeta_enum_ok_iff o sp d vs hb hs

/-! ### the element-level derives -/

/-- the container says `forward_attrs` -/
def declaresForwardAttrs (t : Trait) (attrs : List Attr) : Bool :=
  (attrsMetas attrs).any (fun m => contKw (.outer t) m == some .forwardAttrs)

theorem readOptFwd_some (m : Meta) (v : Option FwdFilter) (h : readOptFwd m = .ok v) : ∃ x, v = some x :=
  optionOf_ok_some _ m v h

theorem cwf_forward_present (t : Trait) (o : Oracle) (attrs : List Attr)
    (wf : ContWellFormed (.outer t) o (attrsMetas attrs)) :
    (outerStateP t o (attrsMetas attrs)).forward.isSome = declaresForwardAttrs t attrs := by
  have h1 : (outerStateP t o (attrsMetas attrs)).forward.isSome
      = (lastEff (.outer t) o (attrsMetas attrs) .forwardAttrs).isSome := by
    cases he : lastEff (.outer t) o (attrsMetas attrs) .forwardAttrs with
    | none => simp [outerStateP, he]
    | some m =>
        obtain ⟨k, v, hk, hsl, hrd, hR⟩ := contWrites_eq_some _ o m _ (lastEff_writes _ o _ _ m he)
        cases k <;> simp only [ContKw.slot, reduceCtorEq] at hsl
        obtain ⟨a, ha, rfl⟩ := map_eq_ok hR
        obtain ⟨x, rfl⟩ := readOptFwd_some m a ha
        simp [outerStateP, he, hrd]
  rw [h1, Bool.eq_iff_iff]
  simp only [lastEff, List.find?_isSome, List.mem_reverse, beq_iff_eq, declaresForwardAttrs, List.any_eq_true]
  constructor
  · rintro ⟨m, hm, h⟩
    rw [cwrites_eq _ o m (wf.readable m hm)] at h
    refine ⟨m, hm, ?_⟩
    cases hk : contKw (.outer t) m with
    | none => rw [hk] at h; cases h
    | some k => rw [hk] at h; cases k <;> simp [ContKw.slot] at h ⊢
  · rintro ⟨m, hm, h⟩
    refine ⟨m, hm, ?_⟩
    rw [cwrites_eq _ o m (wf.readable m hm), h]; rfl

/-- **an element-level derive on a struct** -/
theorem deriveOuter_struct_ok_iff (t : Trait) (o : Oracle) (sim : String → Option (Nat × String)) (sp : DeclSpans)
    (d : DeclD) (style : Style) (fs : List FieldD) (hb : d.body = .struct style fs) (hs : ∀ f ∈ fs, C06.FieldSafe f) :
    (∃ r, deriveOuter t o sim sp d = .ok r) ↔
      ContainerOk (.outer t) o d.attrs ∧ (∀ f ∈ fs, BodyFieldOk t o sim f) ∧
      ((fs.filter (fun f => !isMagic t f)).filter declaresFlatten).length ≤ 1 ∧
      (fs.any (isAttrsField t) = true → declaresForwardAttrs t d.attrs = true) ∧
      (t = .fromAttributes → (style = .tuple ∧ fs.length = 1) ∨
        (outerStateP t o (attrsMetas d.attrs)).attrNames ≠ []) := by
  have hc := outer_decl_accepts_iff_wf t o d.attrs
  unfold deriveOuter
  rw [hb]
  simp only []
  cases hfin : finishWith (parseAttributes (outerTraitStep t o) {} [] d.attrs) with
  | err e =>
      simp only [reduceCtorEq, exists_false, false_iff]
      rintro ⟨hcont, _⟩
      obtain ⟨s, hs'⟩ := hc.1.mpr hcont
      rw [hfin] at hs'
      cases hs'
  | panic m => exact absurd hfin (C06.outer_options_return t o {} d.attrs m)
  | ok oo =>
      have hcont : ContainerOk (.outer t) o d.attrs := hc.1.mp ⟨oo, hfin⟩
      have hoo : oo = outerStateP t o (attrsMetas d.attrs) := hc.2 oo hfin
      obtain ⟨st, hst, _, he, hfl, hat⟩ := parseFields_spec t o sim oo.core fs {} hs
      simp only [hst]
      have hfwd : oo.forward.isSome = declaresForwardAttrs t d.attrs := by
        rw [hoo]; exact cwf_forward_present t o d.attrs hcont.2.2
      -- the error list, and the last test
      generalize hE : st.errs ++ (flattenErrs st.fields ++ _) = E
      have hEnil : E = [] ↔ st.errs = [] ∧ flattenErrs st.fields = [] ∧
          (st.attrsField.isSome = true → oo.forward.isSome = true) := by
        rw [← hE]
        simp only [List.append_eq_nil_iff]
        cases st.attrsField with
        | none => simp
        | some a => cases oo.forward <;> simp
      refine Iff.trans (b := E = [] ∧
        (t == Trait.fromAttributes && !(style == Style.tuple && fs.length == 1) && oo.attrNames.isEmpty) = false) ?_ ?_
      · clear hE hEnil
        cases E with
        | nil =>
            simp only [true_and]
            cases (t == Trait.fromAttributes && !(style == Style.tuple && fs.length == 1) && oo.attrNames.isEmpty) <;> simp
        | cons x r =>
            simp only [reduceCtorEq, false_and, iff_false, not_exists]
            intro r' h
            exact bundleErr_not_ok (x :: r) (by simp) r' h
      have hlast : (t == Trait.fromAttributes && !(style == Style.tuple && fs.length == 1) && oo.attrNames.isEmpty) = false ↔
          (t = .fromAttributes → (style = .tuple ∧ fs.length = 1) ∨ oo.attrNames ≠ []) := by
        cases t <;> cases style <;> by_cases hl : fs.length = 1 <;> cases oo.attrNames <;> simp [hl]
      rw [hlast, hEnil, hfwd, ← hoo]
      by_cases herr : st.errs = []
      · have hfields : ∀ f ∈ fs, BodyFieldOk t o sim f := (he.mp herr).2
        have hflags : st.fields.map (·.flatten) = (fs.filter (fun f => !isMagic t f)).map declaresFlatten := by
          simpa using hfl herr
        have hattrs : st.attrsField.isSome = fs.any (isAttrsField t) := by simpa using hat herr
        rw [flattenErrs_nil_of_flags st.fields _ declaresFlatten hflags, hattrs]
        simp only [herr, hcont, true_and]
        constructor
        · rintro ⟨⟨a, b⟩, c⟩; exact ⟨hfields, a, b, c⟩
        · rintro ⟨_, a, b, c⟩; exact ⟨⟨a, b⟩, c⟩
      · have hnf : ¬ ∀ f ∈ fs, BodyFieldOk t o sim f := fun h => herr (he.mpr ⟨rfl, h⟩)
        simp [herr, hnf]


/-- an element-level derive refuses every enum (and every union) -/
theorem deriveOuter_enum_not_ok (t : Trait) (ht : t ≠ .fromMeta) (o : Oracle) (sim : String → Option (Nat × String))
    (sp : DeclSpans) (d : DeclD) (vs : List VariantD) (hb : d.body = .enum vs) :
    ¬ ∃ r, deriveOuter t o sim sp d = .ok r := by
  rintro ⟨r, h⟩
  unfold deriveOuter at h
  rw [hb] at h
  cases vs with
  | nil => simp at h
  | cons v vs =>
      simp only [] at h
      cases hfin : finishWith (parseAttributes (outerTraitStep t o) {} [] d.attrs) with
      | err e => rw [hfin] at h; cases h
      | panic m => rw [hfin] at h; cases h
      | ok oo =>
          rw [hfin] at h
          simp only [] at h
          obtain ⟨st, hst, he⟩ := parseVariants_outer_errs t ht o oo.core (v :: vs) {}
          rw [hst] at h
          simp only [] at h
          have hne : st.errs ≠ [] := fun e => by simpa using (he.mp e).2
          generalize hE : st.errs ++ (flattenErrs st.fields ++ _) = E at h
          cases E with
          | nil => simp at hE; exact hne hE.1
          | cons x r' => exact bundleErr_not_ok (x :: r') (by simp) r h

/-- the declaration's options of an element-level derive, its body and the body rules are in order -/
def OuterDeclOk (t : Trait) (o : Oracle) (sim : String → Option (Nat × String)) (d : DeclD) : Prop :=
  match d.body with
  | .struct style fs =>
      ContainerOk (.outer t) o d.attrs ∧ (∀ f ∈ fs, BodyFieldOk t o sim f) ∧
      ((fs.filter (fun f => !isMagic t f)).filter declaresFlatten).length ≤ 1 ∧
      (fs.any (isAttrsField t) = true → declaresForwardAttrs t d.attrs = true) ∧
      (t = .fromAttributes → (style = .tuple ∧ fs.length = 1) ∨
        (outerStateP t o (attrsMetas d.attrs)).attrNames ≠ [])
  | _ => False

/-- **an element-level derive emits an impl exactly for the well-formed struct declarations** -/
theorem deriveOuter_ok_iff (t : Trait) (ht : t ≠ .fromMeta) (o : Oracle) (sim : String → Option (Nat × String))
    (sp : DeclSpans) (d : DeclD) (hs : C06.DeclSafe d) :
    (∃ r, deriveOuter t o sim sp d = .ok r) ↔ OuterDeclOk t o sim d := by
  unfold C06.DeclSafe at hs
  unfold OuterDeclOk
  cases hb : d.body with
  | union =>
      simp only [iff_false, not_exists]
      intro r h
      simp [deriveOuter, hb] at h
  | struct style fs => rw [hb] at hs; exact deriveOuter_struct_ok_iff t o sim sp d style fs hb hs
  | enum vs =>
      simp only [iff_false]
      exact deriveOuter_enum_not_ok t ht o sim sp d vs hb

/-- **C10: the derive emits an impl exactly for the well-formed declarations** (identifiers safe
    for the rename rules, see `C06.DeclSafe`) -/
theorem derive_ok_iff (t : Trait) (o : Oracle) (sim : String → Option (Nat × String)) (sp : DeclSpans) (d : DeclD)
    (hs : C06.DeclSafe d) :
    (∃ r, Options.derive t o sim sp d = .ok r) ↔
      if t = .fromMeta then FromMetaDeclOk o d else OuterDeclOk t o sim d := by
  unfold Options.derive
  by_cases ht : t = .fromMeta
  · subst ht
    simp only [beq_self_eq_true, if_true]
    exact deriveFromMeta_ok_iff o sp d hs
  · have hb : (t == Trait.fromMeta) = false := by cases t <;> first | exact absurd rfl ht | rfl
    simp only [hb, ht, if_false]
    exact deriveOuter_ok_iff t ht o sim sp d hs

/-- … and otherwise it reports: a rejected declaration gets diagnostics, never a panic, never silence -/
theorem derive_rejects_iff (t : Trait) (o : Oracle) (sim : String → Option (Nat × String)) (sp : DeclSpans) (d : DeclD)
    (hs : C06.DeclSafe d) :
    (∃ e, Options.derive t o sim sp d = .err e) ↔
      ¬ (if t = .fromMeta then FromMetaDeclOk o d else OuterDeclOk t o sim d) := by
  rw [← derive_ok_iff t o sim sp d hs]
  have hret := C06.derive_returns t o sim sp d hs
  cases h : Options.derive t o sim sp d with
  | ok r => simp
  | err e => simp
  | panic m => exact absurd h (hret m)


/-! ### the magic fields `attrs` / `data`: `#[darling(with = …)]` only -/

/-- the item reads as `with = <path>` -/
def fwdReads (o : Oracle) (mi : Meta) : Bool :=
  mi.path'.isIdent "with" && (match readOptPath o mi with | .ok _ => true | _ => false)

def fwdEffective (o : Oracle) (pre : List Meta) : Option Meta := pre.find? (fwdReads o)

/-- `Error::unknown_field_with_alts(path, &["with"])` -/
def fwdUnknownErr (sim : String → Option (Nat × String)) (mi : Meta) : Err :=
  (Err.new (.unknownField mi.path'.toStr (sim mi.path'.toStr))).withSpan mi.span

def fwdPush (o : Oracle) (sim : String → Option (Nat × String)) (pre : List Meta) (mi : Meta) : Option Err :=
  if mi.path'.isIdent "with" then
    if (fwdEffective o pre).isSome then some (dupErr mi)
    else match readOptPath o mi with
      | .err e => some e
      | _ => none
  else some (fwdUnknownErr sim mi)

def fwdVerdict (o : Oracle) (sim : String → Option (Nat × String)) (pre : List Meta) (mi : Meta) : List Err :=
  (fwdPush o sim pre mi).toList

def fwdState (o : Oracle) (pre : List Meta) : Option String :=
  match fwdEffective o pre with
  | some m => (match readOptPath o m with | .ok v => v | _ => none)
  | none => none

theorem fwdEffective_snoc (o : Oracle) (pre : List Meta) (mi : Meta) :
    fwdEffective o (pre ++ [mi]) = (fwdEffective o pre).or (if fwdReads o mi then some mi else none) := by
  simp only [fwdEffective, List.find?_append, List.find?_cons, List.find?_nil]
  congr 1
  cases fwdReads o mi <;> simp

theorem fwdState_isSome (o : Oracle) (pre : List Meta) : (fwdState o pre).isSome = (fwdEffective o pre).isSome := by
  unfold fwdState
  cases he : fwdEffective o pre with
  | none => rfl
  | some m =>
      have := List.find?_some he
      simp only [fwdReads, Bool.and_eq_true] at this
      cases hr : readOptPath o m with
      | ok v => obtain ⟨x, rfl⟩ := optionOf_ok_some _ m v hr; simp [hr]
      | err e => rw [hr] at this; simp at this
      | panic p => rw [hr] at this; simp at this

/-- **one step of `ForwardedField::parse_nested` is the positional verdict** -/
theorem forwardedStep_spec (o : Oracle) (sim : String → Option (Nat × String)) (pre : List Meta) (mi : Meta) :
    forwardedStep o sim (fwdState o pre) mi = stepOf (fwdState o (pre ++ [mi])) (fwdPush o sim pre mi) := by
  unfold forwardedStep fwdPush
  by_cases hw : mi.path'.isIdent "with" = true
  · simp only [hw, if_true, fwdState_isSome]
    cases he : fwdEffective o pre with
    | some m =>
        have hst : fwdState o (pre ++ [mi]) = fwdState o pre := by simp [fwdState, fwdEffective_snoc, he]
        rw [hst]; simp [stepOf]
    | none =>
        cases hr : readOptPath o mi with
        | ok v =>
            have hrd : fwdReads o mi = true := by simp [fwdReads, hw, hr]
            have hst : fwdState o (pre ++ [mi]) = v := by simp [fwdState, fwdEffective_snoc, he, hrd, hr]
            rw [hst]; simp [withRead, stepOf]
        | err e =>
            have hrd : fwdReads o mi = false := by simp [fwdReads, hr]
            have hst : fwdState o (pre ++ [mi]) = fwdState o pre := by simp [fwdState, fwdEffective_snoc, he, hrd]
            rw [hst]; simp [withRead, stepOf]
        | panic p => exact absurd hr (C06.readOptPath_returns o mi p)
  · have hrd : fwdReads o mi = false := by simp [fwdReads, hw]
    have hst : fwdState o (pre ++ [mi]) = fwdState o pre := by simp [fwdState, fwdEffective_snoc, hrd]
    rw [hst]
    simp [hw, stepOf, fwdUnknownErr]

/-- **a well-formed option list of a forwarded field**: nothing, or one readable `with = <path>` -/
structure FwdWellFormed (o : Oracle) (ms : List Meta) : Prop where
  readable : ∀ m ∈ ms, fwdReads o m = true
  once : ms.length ≤ 1

theorem fwd_snoc (o : Oracle) (sim : String → Option (Nat × String)) (pre : List Meta) (x : Meta)
    (wf : FwdWellFormed o pre) : fwdVerdict o sim pre x = [] ↔ FwdWellFormed o (pre ++ [x]) := by
  unfold fwdVerdict fwdPush
  by_cases hw : x.path'.isIdent "with" = true
  · simp only [hw, if_true]
    cases pre with
    | nil =>
        have he : fwdEffective o [] = none := rfl
        simp only [he, Option.isSome_none, Bool.false_eq_true, if_false]
        cases hr : readOptPath o x with
        | ok v =>
            simp only [Option.toList_none, true_iff]
            exact ⟨by intro m hm; simp at hm; subst hm; simp [fwdReads, hw, hr], by simp⟩
        | err e =>
            simp only [Option.toList_some, reduceCtorEq, false_iff]
            intro h
            have := h.readable x (by simp)
            simp [fwdReads, hr] at this
        | panic p => exact absurd hr (C06.readOptPath_returns o x p)
    | cons y r =>
        have hy : fwdReads o y = true := wf.readable y (by simp)
        have he : (fwdEffective o (y :: r)).isSome = true := by simp [fwdEffective, hy]
        simp only [he, if_true, Option.toList_some, reduceCtorEq, false_iff]
        intro h
        have := h.once
        simp at this
  · simp only [hw, Bool.false_eq_true, if_false, Option.toList_some, reduceCtorEq, false_iff]
    intro h
    have := h.readable x (by simp)
    simp [fwdReads, hw] at this

theorem FwdWellFormed.prefix (o : Oracle) (a b : List Meta) (wf : FwdWellFormed o (a ++ b)) : FwdWellFormed o a :=
  ⟨fun m hm => wf.readable m (List.mem_append_left _ hm), by have := wf.once; simp at this; omega⟩

theorem fwd_verdicts_nil_iff_wf (o : Oracle) (sim : String → Option (Nat × String)) (ms : List Meta) :
    (∀ a m b, ms = a ++ m :: b → fwdVerdict o sim a m = []) ↔ FwdWellFormed o ms := by
  simpa using wf_iff_generic (fwdVerdict o sim) (FwdWellFormed o) (FwdWellFormed.prefix o)
    (fun pre x wf => fwd_snoc o sim pre x wf) ms [] ⟨(by intro m hm; cases hm), (by simp)⟩

/-- **a forwarded field is read successfully exactly when** it is named and its options are in order -/
theorem forwardedFromField_ok_iff (o : Oracle) (sim : String → Option (Nat × String)) (f : FieldD) :
    (∃ fw, forwardedFromField o sim f = .ok fw) ↔
      f.ident.isSome = true ∧ (∀ a ∈ f.attrs, AttrListOk a) ∧ AllItems (attrsItems f.attrs)
        ∧ FwdWellFormed o (attrsMetas f.attrs) := by
  have h := (decl_accepts_generic (forwardedStep o sim) (fwdState o) (fwdPush o sim) (forwardedStep_spec o sim) f.attrs).1
  have hnil : fwdState o [] = none := rfl
  rw [hnil, verdicts_nil_iff_items] at h
  have h' : (∃ s, finishWith (parseAttributes (forwardedStep o sim) none [] f.attrs) = .ok s) ↔
      (∀ a ∈ f.attrs, AttrListOk a) ∧ AllItems (attrsItems f.attrs) ∧ FwdWellFormed o (attrsMetas f.attrs) := by
    rw [h, attrsMetas_eq, ← fwd_verdicts_nil_iff_wf o sim]
    simp [fwdVerdict]
  unfold forwardedFromField
  cases hid : f.ident with
  | none => simp
  | some id =>
      simp only [Option.isSome_some, true_and]
      rw [← h']
      cases hf : finishWith (parseAttributes (forwardedStep o sim) none [] f.attrs) with
      | ok w => simp
      | err e => simp
      | panic p => simp


/-! ## sanity: concrete declarations -/
namespace Ex2
open Ex

def fld (id : String) (items : List NestedMeta) : FieldD :=
  { ident := some id, ty := .bool, tyToks := "bool", vis := "", attrs := if items.isEmpty then [] else [attrOf items] }
def tfld (items : List NestedMeta) : FieldD :=
  { ident := none, ty := .bool, tyToks := "bool", vis := "", attrs := if items.isEmpty then [] else [attrOf items] }
def vnt (id : String) (style : Style) (fields : List FieldD) (items : List NestedMeta) : VariantD :=
  { ident := id, style := style, fields := fields, attrs := if items.isEmpty then [] else [attrOf items],
    discriminant := none }
def decl (cont : List NestedMeta) (body : BodyD) : DeclD :=
  { ident := "S", attrs := if cont.isEmpty then [] else [attrOf cont], body := body }

def renameAllSnake : Meta := nv "rename_all" "snake_case" 0 26
def renameAllKebab : Meta := nv "rename_all" "kebab-case" 28 54
def fromWordF : Meta := nvp "from_word" "f" 0 13
def fromWordG : Meta := nvp "from_word" "g" 15 28
def defaultW : Meta := word "default" 0 7
def fromIdentW : Meta := word "from_ident" 9 19
def forwardAttrsW : Meta := word "forward_attrs" 0 13
def attributesL : Meta :=
  .list { global := false, segs := ["attributes"], plain := true, toks := "attributes", span := ⟨0, 10⟩ }
    [.item (word "my" 11 13)] none (some ⟨11, 13⟩) "attributes(my)" ⟨0, 14⟩

/-- `#[darling(rename_all = "snake_case")] struct S { #[darling(rename = "x")] a: bool, b: bool }` -/
def good : DeclD := decl [.item renameAllSnake] (.struct .named [fld "a" [.item renameX], fld "b" []])

theorem good_safe : C06.DeclSafe good := by
  intro f hf
  simp only [List.mem_cons, List.not_mem_nil, or_false] at hf
  rcases hf with rfl | rfl
  · exact C06.ident_a_safe
  · exact C06.ident_b_safe
end Ex2
open Ex Ex2

/-! container options, item by item -/
/-- `default, from_ident` is accepted (and `from_ident` silently replaces the default); `from_ident,
    default` is a "duplicate" -/
example : contVerdict (.outer .fromDeriveInput) {} [defaultW] fromIdentW = []
    ∧ contVerdict (.outer .fromDeriveInput) {} [fromIdentW] defaultW = [dupErr defaultW] := ⟨rfl, rfl⟩
example : (outerStateP .fromDeriveInput {} [defaultW, fromIdentW]).core.dflt = some (.trait_ ⟨9, 19⟩) := rfl
/-- `rename_all` may be repeated: the last one wins, nothing is reported -/
example : contVerdict .fromMeta {} [renameAllSnake] renameAllKebab = []
    ∧ (fromMetaStateP {} .none [renameAllSnake, renameAllKebab]).core.renameRule = .kebab := ⟨rfl, rfl⟩
/-- a second `from_word` is a duplicate spanned at its *path* (`15..24`), not at the item (`15..28`) -/
example : contVerdict .fromMeta {} [fromWordF] fromWordG = [dupErrAtPath fromWordG]
    ∧ (dupErrAtPath fromWordG).span = some ⟨15, 24⟩ ∧ (dupErr fromWordG).span = some ⟨15, 28⟩ := ⟨rfl, rfl, rfl⟩
/-- `from_word` is not an option of the element-level derives, `from_ident` not one of `FromMeta` -/
example : contVerdict (.outer .fromField) {} [] fromWordF = [unknownErr fromWordF]
    ∧ contVerdict .fromMeta {} [] fromIdentW = [unknownErr fromIdentW] := ⟨rfl, rfl⟩
example : ContWellFormed (.outer .fromDeriveInput) {} [defaultW, fromIdentW] :=
  (cwf_snoc _ {} [defaultW] fromIdentW ((cwf_snoc _ {} [] defaultW (ContWellFormed.nil _ _)).mp rfl)).mp rfl
example : ¬ ContWellFormed (.outer .fromDeriveInput) {} [fromIdentW, defaultW] := fun wf => by
  have := wf.defaultFirst
  simp only [List.pairwise_cons, List.mem_singleton, forall_eq] at this
  exact this.1 ⟨rfl, rfl⟩

/-! an accepted declaration … -/
example : ∃ r, Options.derive .fromMeta {} (fun _ => none) {} good = .ok r := ⟨_, rfl⟩
example : FromMetaDeclOk {} good := (deriveFromMeta_ok_iff {} {} good good_safe).mp ⟨_, rfl⟩

/-! … and one rejected for each body rule -/
/-- two `flatten` fields -/
example : ∃ e, deriveFromMeta {} {} (decl [] (.struct .named [fld "a" [.item flatten1], fld "b" [.item flatten1]])) = .err e :=
  ⟨_, rfl⟩
/-- a tuple struct with two fields -/
example : deriveFromMeta {} {} (decl [] (.struct .tuple [tfld [], tfld []]))
    = .err ((Err.custom "FromMeta can only be derived for tuple structs with exactly one field").withSpan default) := rfl
/-- `from_word` on a unit struct, on a newtype struct -/
example : ∃ e, deriveFromMeta {} {} (decl [.item fromWordF] (.struct .unit [])) = .err e := ⟨_, rfl⟩
example : ∃ e, deriveFromMeta {} {} (decl [.item fromWordF] (.struct .tuple [tfld []])) = .err e := ⟨_, rfl⟩
/-- a tuple variant with two fields -/
example : ∃ e, deriveFromMeta {} {} (decl [] (.enum [vnt "A" .tuple [tfld [], tfld []] []])) = .err e := ⟨_, rfl⟩
/-- two `word` variants; `word` together with `from_word` -/
example : ∃ e, deriveFromMeta {} {} (decl [] (.enum [vnt "A" .unit [] [.item word1], vnt "B" .unit [] [.item word1]])) = .err e :=
  ⟨_, rfl⟩
example : ∃ e, deriveFromMeta {} {} (decl [.item fromWordF] (.enum [vnt "A" .unit [] [.item word1]])) = .err e := ⟨_, rfl⟩
/-- a union -/
example : deriveFromMeta {} {} (decl [] .union) = .err (Err.custom "Unions are not supported") := rfl
/-- two `flatten` fields *inside a variant*: one diagnostic per offender, as for a struct body -/
example : deriveFromMeta {} {} (decl [] (.enum [vnt "B" .named [fld "x" [.item flatten1], fld "y" [.item flatten1]] []]))
    = .err (.multi
        [(Err.custom "`#[darling(flatten)]` can only be applied to one field").withSpan ⟨0, 7⟩,
         (Err.custom "`#[darling(flatten)]` can only be applied to one field").withSpan ⟨0, 7⟩] [] none) := rfl
/-- … while one `flatten` field in each of two variants is fine -/
def twoVariants : DeclD :=
  decl [] (.enum [vnt "A" .named [fld "a" [.item flatten1], fld "b" []] [], vnt "B" .named [fld "b" [.item flatten1]] []])
example : ∃ r, deriveFromMeta {} {} twoVariants = .ok r := ⟨_, rfl⟩
theorem ident_A_safe : C06.IdentSafe "A" := by
  intro rule
  cases rule <;> constructor <;> first | exact Outcome.returns_ok _ | exact C06.returns_of_eq_ok rfl
theorem ident_B_safe : C06.IdentSafe "B" := by
  intro rule
  cases rule <;> constructor <;> first | exact Outcome.returns_ok _ | exact C06.returns_of_eq_ok rfl
theorem twoVariants_safe : C06.DeclSafe twoVariants := by
  intro v hv
  simp only [List.mem_cons, List.not_mem_nil, or_false] at hv
  rcases hv with rfl | rfl
  · refine ⟨ident_A_safe, ?_⟩
    intro f hf
    simp only [vnt, List.mem_cons, List.not_mem_nil, or_false] at hf
    rcases hf with rfl | rfl
    · exact C06.ident_a_safe
    · exact C06.ident_b_safe
  · refine ⟨ident_B_safe, ?_⟩
    intro f hf
    simp only [vnt, List.mem_cons, List.not_mem_nil, or_false] at hf
    subst hf
    exact C06.ident_b_safe
example : FromMetaDeclOk {} twoVariants := (deriveFromMeta_ok_iff {} {} twoVariants twoVariants_safe).mp ⟨_, rfl⟩
example : ¬ FromMetaDeclOk {}
    (decl [] (.enum [vnt "B" .named [fld "x" [.item flatten1], fld "y" [.item flatten1]] []])) := by
  intro h
  have := h.2.2.1 _ (List.mem_cons_self ..)
  exact absurd this (by decide)

/-- element-level derives: an enum; an `attrs` field without `forward_attrs`; `FromAttributes`
    without `attributes(..)` -/
example : ∃ e, deriveOuter .fromField {} (fun _ => none) {} (decl [] (.enum [vnt "A" .unit [] []])) = .err e := ⟨_, rfl⟩
example : ∃ e, deriveOuter .fromDeriveInput {} (fun _ => none) {} (decl [] (.struct .named [fld "attrs" []])) = .err e :=
  ⟨_, rfl⟩
example : ∃ r, deriveOuter .fromDeriveInput {} (fun _ => none) {} (decl [.item forwardAttrsW] (.struct .named [fld "attrs" []]))
    = .ok r := ⟨_, rfl⟩
example : deriveOuter .fromAttributes {} (fun _ => none) {} (decl [] (.struct .named [fld "a" []]))
    = .err (Err.custom "FromAttributes without attributes collects nothing") := rfl
example : ∃ r, deriveOuter .fromAttributes {} (fun _ => none) {} (decl [.item attributesL] (.struct .named [fld "a" []]))
    = .ok r := ⟨_, rfl⟩
/-- the order-dependent rule, end to end -/
example : (∃ r, deriveOuter .fromDeriveInput {} (fun _ => none) {} (decl [.item defaultW, .item fromIdentW] (.struct .named [fld "a" []])) = .ok r)
    ∧ deriveOuter .fromDeriveInput {} (fun _ => none) {} (decl [.item fromIdentW, .item defaultW] (.struct .named [fld "a" []]))
        = .err (dupErr defaultW) := ⟨⟨_, rfl⟩, rfl⟩

/-- the characterisation used in the rejecting direction -/
example : ¬ FromMetaDeclOk {} (decl [] (.struct .tuple [tfld [], tfld []])) := by
  intro h
  have h' : (∀ f ∈ [tfld [], tfld []], FieldDeclOk {} f) → ([tfld [], tfld []].filter declaresFlatten).length ≤ 1 →
      (Style.tuple = Style.tuple → [tfld [], tfld []].length = 1) → False := fun _ _ h3 => by
    have := h3 rfl
    simp at this
  exact h' h.2.1 h.2.2.1 h.2.2.2.1

end C10
