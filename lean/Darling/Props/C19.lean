import Darling.Usage
import Darling.Spec.C19
/-
  C19 — Generic-parameter usage analysis is exact and drives exactly the needed bounds.
  For every type (any depth, every constructor of the mirror), every query set, both purposes.
-/
open Usage Spec.C19

namespace C19

theorem mem_identHits (S : List String) (i p : String) : p ∈ identHits S i ↔ p ∈ S ∧ unraw p = unraw i := by
  simp [identHits, List.mem_filter]

theorem mem_ltHits (L : List String) (l p : String) : p ∈ ltHits L l ↔ p ∈ L ∧ p = l := by
  simp [ltHits, List.mem_filter]

/-- some name in `l` is the same identifier as `p` (raw and plain spellings identified) -/
def Hit (p : String) (l : List String) : Prop := ∃ i, i ∈ l ∧ unraw p = unraw i

theorem hit_nil (p : String) : Hit p [] ↔ False := by simp [Hit]

theorem hit_singleton (p i : String) : Hit p [i] ↔ unraw p = unraw i := by simp [Hit]

theorem hit_append (p : String) (a b : List String) : Hit p (a ++ b) ↔ Hit p a ∨ Hit p b := by
  simp only [Hit, List.mem_append]
  constructor
  · rintro ⟨i, h | h, e⟩
    · exact .inl ⟨i, h, e⟩
    · exact .inr ⟨i, h, e⟩
  · rintro (⟨i, h, e⟩ | ⟨i, h, e⟩)
    · exact ⟨i, .inl h, e⟩
    · exact ⟨i, .inr h, e⟩

/-! ### type parameters -/

mutual
theorem ty_exact (d : Bool) (S : List String) (p : String) : (t : SType) →
    (p ∈ tyParams d S t ↔ p ∈ S ∧ Hit p (occ d t))
  | .path q pa => by
      simp only [tyParams, occ, List.mem_append, hit_append]
      rw [path_exact d S p pa]
      cases d
      · simp [hit_nil]
      · simp only [if_true]; rw [opt_exact true S p q]; constructor
        · rintro (⟨h1, h2⟩ | ⟨h1, h2⟩)
          · exact ⟨h1, Or.inl h2⟩
          · exact ⟨h1, Or.inr h2⟩
        · rintro ⟨h1, h2 | h2⟩
          · exact Or.inl ⟨h1, h2⟩
          · exact Or.inr ⟨h1, h2⟩
  | .ref _ e => by simp only [tyParams, occ]; exact ty_exact d S p e
  | .ptr e => by simp only [tyParams, occ]; exact ty_exact d S p e
  | .slice e => by simp only [tyParams, occ]; exact ty_exact d S p e
  | .array e => by simp only [tyParams, occ]; exact ty_exact d S p e
  | .tuple es => by simp only [tyParams, occ]; exact tys_exact d S p es
  | .bareFn ins out => by
      simp only [tyParams, occ, List.mem_append, hit_append]
      rw [tys_exact d S p ins, opt_exact d S p out]
      constructor
      · rintro (⟨h1, h2⟩ | ⟨h1, h2⟩)
        · exact ⟨h1, Or.inl h2⟩
        · exact ⟨h1, Or.inr h2⟩
      · rintro ⟨h1, h2 | h2⟩
        · exact Or.inl ⟨h1, h2⟩
        · exact Or.inr ⟨h1, h2⟩
  | .paren e => by simp only [tyParams, occ]; exact ty_exact d S p e
  | .group e => by simp only [tyParams, occ]; exact ty_exact d S p e
  | .traitObject bs => by simp only [tyParams, occ]; exact bounds_exact d S p bs
  | .implTrait bs => by simp only [tyParams, occ]; exact bounds_exact d S p bs
  | .opaque => by simp [tyParams, occ, hit_nil]
theorem opt_exact (d : Bool) (S : List String) (p : String) : (t : Option SType) →
    (p ∈ optTyParams d S t ↔ p ∈ S ∧ Hit p (occOpt d t))
  | none => by simp [optTyParams, occOpt, hit_nil]
  | some t => by simp only [optTyParams, occOpt]; exact ty_exact d S p t
theorem tys_exact (d : Bool) (S : List String) (p : String) : (ts : List SType) →
    (p ∈ tysParams d S ts ↔ p ∈ S ∧ Hit p (occList d ts))
  | [] => by simp [tysParams, occList, hit_nil]
  | t :: ts => by
      simp only [tysParams, occList, List.mem_append, hit_append]
      rw [ty_exact d S p t, tys_exact d S p ts]
      constructor
      · rintro (⟨h1, h2⟩ | ⟨h1, h2⟩)
        · exact ⟨h1, Or.inl h2⟩
        · exact ⟨h1, Or.inr h2⟩
      · rintro ⟨h1, h2 | h2⟩
        · exact Or.inl ⟨h1, h2⟩
        · exact Or.inr ⟨h1, h2⟩
theorem path_exact (d : Bool) (S : List String) (p : String) : (pa : SPath) →
    (p ∈ pathParams d S pa ↔ p ∈ S ∧ Hit p (occPath d pa))
  | .mk global segs => by
      simp only [pathParams, occPath, List.mem_append, hit_append]
      rw [segs_exact d S p segs]
      cases segs with
      | nil => simp [hit_nil]
      | cons s rest =>
          obtain ⟨ident, args⟩ := s
          cases global
          · simp only [Bool.false_eq_true, if_false, mem_identHits, hit_singleton]
            constructor
            · rintro (⟨h1, h2⟩ | ⟨h1, h2⟩)
              · exact ⟨h1, Or.inl h2⟩
              · exact ⟨h1, Or.inr h2⟩
            · rintro ⟨h1, h2 | h2⟩
              · exact Or.inl ⟨h1, h2⟩
              · exact Or.inr ⟨h1, h2⟩
          · simp [hit_nil]
theorem segs_exact (d : Bool) (S : List String) (p : String) : (ss : List SSeg) →
    (p ∈ segsParams d S ss ↔ p ∈ S ∧ Hit p (occSegs d ss))
  | [] => by simp [segsParams, occSegs, hit_nil]
  | .mk _ args :: rest => by
      simp only [segsParams, occSegs, List.mem_append, hit_append]
      rw [args_exact d S p args, segs_exact d S p rest]
      constructor
      · rintro (⟨h1, h2⟩ | ⟨h1, h2⟩)
        · exact ⟨h1, Or.inl h2⟩
        · exact ⟨h1, Or.inr h2⟩
      · rintro ⟨h1, h2 | h2⟩
        · exact Or.inl ⟨h1, h2⟩
        · exact Or.inr ⟨h1, h2⟩
theorem args_exact (d : Bool) (S : List String) (p : String) : (a : SArgs) →
    (p ∈ argsParams d S a ↔ p ∈ S ∧ Hit p (occArgs d a))
  | .none => by simp [argsParams, occArgs, hit_nil]
  | .angle as => by simp only [argsParams, occArgs]; exact gargs_exact d S p as
  | .paren ins out => by
      simp only [argsParams, occArgs, List.mem_append, hit_append]
      rw [tys_exact d S p ins, opt_exact d S p out]
      constructor
      · rintro (⟨h1, h2⟩ | ⟨h1, h2⟩)
        · exact ⟨h1, Or.inl h2⟩
        · exact ⟨h1, Or.inr h2⟩
      · rintro ⟨h1, h2 | h2⟩
        · exact Or.inl ⟨h1, h2⟩
        · exact Or.inr ⟨h1, h2⟩
theorem gargs_exact (d : Bool) (S : List String) (p : String) : (as : List SGArg) →
    (p ∈ gargsParams d S as ↔ p ∈ S ∧ Hit p (occGArgs d as))
  | [] => by simp [gargsParams, occGArgs, hit_nil]
  | a :: as => by
      simp only [gargsParams, occGArgs, List.mem_append, hit_append]
      rw [garg_exact d S p a, gargs_exact d S p as]
      constructor
      · rintro (⟨h1, h2⟩ | ⟨h1, h2⟩)
        · exact ⟨h1, Or.inl h2⟩
        · exact ⟨h1, Or.inr h2⟩
      · rintro ⟨h1, h2 | h2⟩
        · exact Or.inl ⟨h1, h2⟩
        · exact Or.inr ⟨h1, h2⟩
theorem garg_exact (d : Bool) (S : List String) (p : String) : (a : SGArg) →
    (p ∈ gargParams d S a ↔ p ∈ S ∧ Hit p (occGArg d a))
  | .ty t => by simp only [gargParams, occGArg]; exact ty_exact d S p t
  | .assocTy t => by simp only [gargParams, occGArg]; exact ty_exact d S p t
  | .constraint bs => by simp only [gargParams, occGArg]; exact bounds_exact d S p bs
  | .lifetime _ => by simp [gargParams, occGArg, hit_nil]
  | .other => by simp [gargParams, occGArg, hit_nil]
theorem bounds_exact (d : Bool) (S : List String) (p : String) : (bs : List SBound) →
    (p ∈ boundsParams d S bs ↔ p ∈ S ∧ Hit p (occBounds d bs))
  | [] => by simp [boundsParams, occBounds, hit_nil]
  | b :: bs => by
      simp only [boundsParams, occBounds, List.mem_append, hit_append]
      rw [bound_exact d S p b, bounds_exact d S p bs]
      constructor
      · rintro (⟨h1, h2⟩ | ⟨h1, h2⟩)
        · exact ⟨h1, Or.inl h2⟩
        · exact ⟨h1, Or.inr h2⟩
      · rintro ⟨h1, h2 | h2⟩
        · exact Or.inl ⟨h1, h2⟩
        · exact Or.inr ⟨h1, h2⟩
theorem bound_exact (d : Bool) (S : List String) (p : String) : (b : SBound) →
    (p ∈ boundParams d S b ↔ p ∈ S ∧ Hit p (occBound d b))
  | .trait _ pa => by simp only [boundParams, occBound]; exact path_exact d S p pa
  | .lifetime _ => by simp [boundParams, occBound, hit_nil]
end

/-- **exactness** (the headline): the analysis returns exactly those members of the queried set
    that occur where they denote the parameter (`r#T` and `T` denote the same parameter) -/
theorem uses_exact (declare : Bool) (S : List String) (t : SType) (p : String) :
    p ∈ tyParams declare S t ↔ p ∈ S ∧ ∃ i ∈ occ declare t, unraw p = unraw i :=
  ty_exact declare S p t

/-- a queried name written literally at a use position is reported -/
theorem uses_of_mem_occ (declare : Bool) (S : List String) (t : SType) (p : String)
    (hs : p ∈ S) (h : p ∈ occ declare t) : p ∈ tyParams declare S t :=
  (uses_exact declare S t p).mpr ⟨hs, p, h, rfl⟩

/-- never a name outside the queried set -/
theorem uses_subset (declare : Bool) (S : List String) (t : SType) (p : String)
    (h : p ∈ tyParams declare S t) : p ∈ S := ((uses_exact declare S t p).mp h).1

/-- the answer for a collection is the union of its members' answers -/
theorem collection_is_union (declare : Bool) (S : List String) (ts : List SType) (p : String) :
    p ∈ tysParams declare S ts ↔ ∃ t ∈ ts, p ∈ tyParams declare S t := by
  induction ts with
  | nil => simp [tysParams]
  | cons t ts ih => simp [tysParams, List.mem_append, ih]

/-- a qualified self counts only for declaration purposes -/
theorem qself_only_when_declaring (S : List String) (q : SType) (pa : SPath) (p : String) :
    p ∈ tyParams false S (.path (some q) pa) ↔ p ∈ pathParams false S pa := by
  simp [tyParams]

/-- a global path's leading segment never denotes a parameter -/
theorem global_leading_segment_ignored (d : Bool) (S : List String) (ident : String) (rest : List SSeg) :
    pathParams d S (.mk true (.mk ident .none :: rest)) = segsParams d S rest := by
  simp [pathParams, segsParams, argsParams]

/-- only the *leading* segment can denote a parameter: later segments contribute their
    arguments only -/
theorem path_tail_ignored (d : Bool) (S : List String) (a b : String) :
    pathParams d S (.mk false [.mk a .none, .mk b .none]) = identHits S a := by
  simp [pathParams, segsParams, argsParams]

/-! ### lifetimes -/

theorem mem_ltsHits (L : List String) (p : String) : (ls : List String) →
    (p ∈ ltsHits L ls ↔ p ∈ L ∧ p ∈ ls)
  | [] => by simp [ltsHits]
  | l :: ls => by
      simp only [ltsHits, List.mem_append, mem_ltHits, mem_ltsHits L p ls, List.mem_cons]
      constructor
      · rintro (⟨h1, h2⟩ | ⟨h1, h2⟩)
        · exact ⟨h1, Or.inl h2⟩
        · exact ⟨h1, Or.inr h2⟩
      · rintro ⟨h1, h2 | h2⟩
        · exact Or.inl ⟨h1, h2⟩
        · exact Or.inr ⟨h1, h2⟩

theorem mem_binderLts (L : List String) (p : String) : (b : List (String × List String)) →
    (p ∈ binderLts L b ↔ p ∈ L ∧ p ∈ occBinder b)
  | [] => by simp [binderLts, occBinder]
  | (l, bs) :: rest => by
      simp only [binderLts, occBinder, List.mem_append, mem_ltHits, mem_ltsHits, mem_binderLts L p rest, List.mem_cons]
      constructor
      · rintro ((⟨h1, h2⟩ | ⟨h1, h2⟩) | ⟨h1, h2⟩)
        · exact ⟨h1, Or.inl (Or.inl h2)⟩
        · exact ⟨h1, Or.inl (Or.inr h2)⟩
        · exact ⟨h1, Or.inr h2⟩
      · rintro ⟨h1, (h2 | h2) | h2⟩
        · exact Or.inl (Or.inl ⟨h1, h2⟩)
        · exact Or.inl (Or.inr ⟨h1, h2⟩)
        · exact Or.inr ⟨h1, h2⟩

theorem and_or_split {a b c : Prop} : (a ∧ b ∨ a ∧ c) ↔ a ∧ (b ∨ c) := by
  constructor
  · rintro (⟨h1, h2⟩ | ⟨h1, h2⟩)
    · exact ⟨h1, Or.inl h2⟩
    · exact ⟨h1, Or.inr h2⟩
  · rintro ⟨h1, h2 | h2⟩
    · exact Or.inl ⟨h1, h2⟩
    · exact Or.inr ⟨h1, h2⟩

mutual
theorem lt_ty_exact (d : Bool) (L : List String) (p : String) : (t : SType) →
    (p ∈ tyLts d L t ↔ p ∈ L ∧ p ∈ ltOcc d t)
  | .path q pa => by
      simp only [tyLts, ltOcc, List.mem_append]
      rw [lt_path_exact d L p pa]
      cases d
      · simp
      · simp only [if_true]; rw [lt_opt_exact true L p q]; exact and_or_split
  | .ref lt e => by
      simp only [tyLts, ltOcc, List.mem_append]
      rw [lt_ty_exact d L p e]
      cases lt with
      | none => simp
      | some l => simp only [mem_ltHits, List.mem_singleton]; exact and_or_split
  | .ptr e => by simp only [tyLts, ltOcc]; exact lt_ty_exact d L p e
  | .slice e => by simp only [tyLts, ltOcc]; exact lt_ty_exact d L p e
  | .array e => by simp only [tyLts, ltOcc]; exact lt_ty_exact d L p e
  | .tuple es => by simp only [tyLts, ltOcc]; exact lt_tys_exact d L p es
  | .bareFn ins out => by
      simp only [tyLts, ltOcc, List.mem_append]
      rw [lt_tys_exact d L p ins, lt_opt_exact d L p out]; exact and_or_split
  | .paren e => by simp only [tyLts, ltOcc]; exact lt_ty_exact d L p e
  | .group e => by simp only [tyLts, ltOcc]; exact lt_ty_exact d L p e
  | .traitObject bs => by simp only [tyLts, ltOcc]; exact lt_bounds_exact d L p bs
  | .implTrait bs => by simp only [tyLts, ltOcc]; exact lt_bounds_exact d L p bs
  | .opaque => by simp [tyLts, ltOcc]
theorem lt_opt_exact (d : Bool) (L : List String) (p : String) : (t : Option SType) →
    (p ∈ optTyLts d L t ↔ p ∈ L ∧ p ∈ ltOpt d t)
  | none => by simp [optTyLts, ltOpt]
  | some t => by simp only [optTyLts, ltOpt]; exact lt_ty_exact d L p t
theorem lt_tys_exact (d : Bool) (L : List String) (p : String) : (ts : List SType) →
    (p ∈ tysLts d L ts ↔ p ∈ L ∧ p ∈ ltList d ts)
  | [] => by simp [tysLts, ltList]
  | t :: ts => by
      simp only [tysLts, ltList, List.mem_append]
      rw [lt_ty_exact d L p t, lt_tys_exact d L p ts]; exact and_or_split
theorem lt_path_exact (d : Bool) (L : List String) (p : String) : (pa : SPath) →
    (p ∈ pathLts d L pa ↔ p ∈ L ∧ p ∈ ltPath d pa)
  | .mk _ segs => by simp only [pathLts, ltPath]; exact lt_segs_exact d L p segs
theorem lt_segs_exact (d : Bool) (L : List String) (p : String) : (ss : List SSeg) →
    (p ∈ segsLts d L ss ↔ p ∈ L ∧ p ∈ ltSegs d ss)
  | [] => by simp [segsLts, ltSegs]
  | .mk _ args :: rest => by
      simp only [segsLts, ltSegs, List.mem_append]
      rw [lt_args_exact d L p args, lt_segs_exact d L p rest]; exact and_or_split
theorem lt_args_exact (d : Bool) (L : List String) (p : String) : (a : SArgs) →
    (p ∈ argsLts d L a ↔ p ∈ L ∧ p ∈ ltArgs d a)
  | .none => by simp [argsLts, ltArgs]
  | .angle as => by simp only [argsLts, ltArgs]; exact lt_gargs_exact d L p as
  | .paren ins out => by
      simp only [argsLts, ltArgs, List.mem_append]
      rw [lt_tys_exact d L p ins, lt_opt_exact d L p out]; exact and_or_split
theorem lt_gargs_exact (d : Bool) (L : List String) (p : String) : (as : List SGArg) →
    (p ∈ gargsLts d L as ↔ p ∈ L ∧ p ∈ ltGArgs d as)
  | [] => by simp [gargsLts, ltGArgs]
  | a :: as => by
      simp only [gargsLts, ltGArgs, List.mem_append]
      rw [lt_garg_exact d L p a, lt_gargs_exact d L p as]; exact and_or_split
theorem lt_garg_exact (d : Bool) (L : List String) (p : String) : (a : SGArg) →
    (p ∈ gargLts d L a ↔ p ∈ L ∧ p ∈ ltGArg d a)
  | .ty t => by simp only [gargLts, ltGArg]; exact lt_ty_exact d L p t
  | .assocTy t => by simp only [gargLts, ltGArg]; exact lt_ty_exact d L p t
  | .constraint bs => by simp only [gargLts, ltGArg]; exact lt_bounds_exact d L p bs
  | .lifetime l => by simp [gargLts, ltGArg, mem_ltHits]
  | .other => by simp [gargLts, ltGArg]
theorem lt_bounds_exact (d : Bool) (L : List String) (p : String) : (bs : List SBound) →
    (p ∈ boundsLts d L bs ↔ p ∈ L ∧ p ∈ ltBounds d bs)
  | [] => by simp [boundsLts, ltBounds]
  | b :: bs => by
      simp only [boundsLts, ltBounds, List.mem_append]
      rw [lt_bound_exact d L p b, lt_bounds_exact d L p bs]; exact and_or_split
theorem lt_bound_exact (d : Bool) (L : List String) (p : String) : (b : SBound) →
    (p ∈ boundLts d L b ↔ p ∈ L ∧ p ∈ ltBound d b)
  | .trait binder pa => by
      simp only [boundLts, ltBound, List.mem_append]
      rw [lt_path_exact d L p pa, mem_binderLts]; exact and_or_split
  | .lifetime l => by simp [boundLts, ltBound, mem_ltHits]
end

theorem lifetimes_exact (declare : Bool) (L : List String) (t : SType) (p : String) :
    p ∈ tyLts declare L t ↔ p ∈ L ∧ p ∈ ltOcc declare t := lt_ty_exact declare L p t

/-! ### bounds: exactly the declared parameters used by fields that are actually parsed -/

theorem bounded_exact (declared : List String) (fields : List BField) (p : String) :
    p ∈ boundedParams declared (usedInFields declared fields) ↔
      p ∈ declared ∧ ∃ f ∈ fields, f.skip = false ∧ ∃ i ∈ occ false f.ty, unraw p = unraw i := by
  simp only [boundedParams, usedInFields, List.mem_filter, List.contains_iff_mem]
  rw [collection_is_union]
  constructor
  · rintro ⟨hd, t, ht, hp⟩
    simp only [List.mem_map, List.mem_filter] at ht
    obtain ⟨f, ⟨hf, hs⟩, rfl⟩ := ht
    exact ⟨hd, f, hf, by simpa using hs, ((uses_exact false declared f.ty p).mp hp).2⟩
  · rintro ⟨hd, f, hf, hs, ho⟩
    refine ⟨hd, f.ty, ?_, (uses_exact false declared f.ty p).mpr ⟨hd, ho⟩⟩
    simp only [List.mem_map, List.mem_filter]
    exact ⟨f, ⟨hf, by simp [hs]⟩, rfl⟩

/-- a skipped field contributes no bound -/
theorem skipped_field_contributes_nothing (declared : List String) (f : BField) (fs : List BField)
    (h : f.skip = true) : usedInFields declared (f :: fs) = usedInFields declared fs := by
  simp [usedInFields, List.filter, h]

/-- the emitted parameter list keeps the declaration order and never invents a parameter -/
theorem bounded_sublist (declared used : List String) : (boundedParams declared used).Sublist declared :=
  List.filter_sublist

/-! ### non-vacuity -/
def tyVecT : SType := .path none (.mk false [.mk "Vec" (.angle [.ty (.path none (.mk false [.mk "T" .none]))])])
def tyAssoc : SType := .path (some (.path none (.mk false [.mk "U" .none])))
  (.mk false [.mk "Iterator" .none, .mk "Item" .none])
example : tyParams false ["T", "U"] tyVecT = ["T"] := by decide
example : tyParams false ["T", "U"] tyAssoc = [] := by decide
example : tyParams true ["T", "U"] tyAssoc = ["U"] := by decide
example : tyParams false ["T"] (.path none (.mk true [.mk "T" .none])) = [] := by decide
example : tyLts false ["'a", "'b"] (.ref (some "'a") tyVecT) = ["'a"] := by decide
/-- raw and plain spellings denote the same parameter: `Vec<r#T>` queried for `T`, `Vec<T>` for `r#T` -/
def tyVecRawT : SType := .path none (.mk false [.mk "Vec" (.angle [.ty (.path none (.mk false [.mk "r#T" .none]))])])
example : tyParams false ["T", "U"] tyVecRawT = ["T"] := by decide
example : tyParams false ["r#T", "U"] tyVecT = ["r#T"] := by decide
example : boundedParams ["T", "U"] (usedInFields ["T", "U"] [⟨tyVecRawT, false⟩, ⟨tyVecT, true⟩]) = ["T"] := by decide

end C19
