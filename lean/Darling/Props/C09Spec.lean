import Darling.Derive.Enum
import Darling.Derive.Env
import Darling.Options
import Darling.Props.C09
import Darling.Props.C10Spec2
/-
  C09 — Derived enum receivers select exactly one declared, non-skipped variant.
  An independent specification written from the property text, and the proofs that the model meets
  it — end to end: input item ↦ result of the derived `from_meta`, for every enum and every input
  (no bound on the number of variants, of nested items, of invisible groups around a literal).

  §1  vocabulary of the text: `Selectable e n v` (a declared, non-skipped variant whose effective
      name is `n`), `Unambiguous`, `stringValue` (what a string makes of a variant), `itemResult`
      (what a single nested item makes of the variant it names), `StringDemand`, `ItemDemand`,
      `Demands e m r` — **the specification**: what the text demands of the result `r` on input `m`.
      Values, the two arity errors and delegated / located errors are pinned exactly; where the text
      only says "an error" the specification says `IsErr`.
  §2  `fromMeta_meets_spec_partial`: `Demands e m ((enumHooks e).fromMeta m)` for all `e`, `m`, under
      `Unambiguous e` (discrepancy D2) and `PlainStructVariants e` (modelling artefact, discharged for
      every assembled receiver in §6).
  §3  `Produces e m x` — every way the text lets an input produce a value; `ok_sound` (no
      hypothesis: nothing else produces a value), `ok_complete_partial`, `ok_iff_partial`.
  §4  `Demands.determines`: the specification pins the result (up to the identity of the errors the
      text leaves unnamed).
  §5  `produced_by_declared_unskipped` (no hypothesis), `bare_word_ok_iff`, `absent_iff`,
      `list_none`, `list_more`; `unambiguous_of_nodup`.
  §6  `assembled_enum`, `assembled_value_origin`, `assembled_meets_spec_partial`: the receiver `Env`
      assembles from a derive result.
  §7  derive time: `renameGiven`/`skipGiven`/`wordGiven`/`ruleGiven`, `explicitRename`, `markedSkip`,
      `markedWord`, `caseRule` (what a declaration *says*, positionally), `variantState_says`,
      `variant_resolution`, `coreState_rule`, `derived_enum_says`; the whole pipeline:
      `corpus_value_origin` (no hypothesis on the enum), `corpus_meets_spec_partial`.
  §8  the two discrepancies as concrete inputs (`Ex.dupE…`, `Ex.svE…`), and non-vacuity of every
      hypothesis (`Ex.okE…`, `Ex.enumDecl…`, `Ex.corpus`).

  Discrepancies between the text and the behaviour found while writing this file:
    D1  (REPAIRED in the library and in the model) a nested list that fails to parse, addressed to a
        *struct* variant: the syntax error was not located under the variant's name
        (`e(sv(a = 1 2))` ↦ "expected `,`"), whereas a newtype variant located it
        (`e(nt(a = 1 2))` ↦ "expected `,` at nt").  It now is (`Ex.svE_sv`, `Ex.svE_demands`), and
        the main theorem no longer needs a side condition on the input.
    D2  (stands) two declared, non-skipped variants with one effective name are accepted by the
        derive (and rustc is silent about the unreachable arm): the later one can never be produced,
        and a string / nested word that names a unit variant is refused when a struct variant of the
        same name comes first.  `Unambiguous` is the side condition of the `…_partial` theorems.

  Change with the repair F29 (C03: the emitted `from_list` spans the selected variant's errors with
  the item that selected the variant): `ItemDemand` pins the span of a delegated / located error
  that has none of its own to the selecting item `n` (it used to be the list around it, the only
  span the old code ever offered); `fromList_one_demand` shows the list's span never replaces it.
-/
open Derive

namespace C09
variable {ν : Type}

/-! ## 1. the vocabulary of the property text -/

/-- "a declared, non-skipped variant whose effective name equals `n`" -/
def Selectable (e : SEnum ν) (n : String) (v : SVariant ν) : Prop :=
  v ∈ e.variants ∧ v.skip = false ∧ v.name = n

/-- "exactly one": no two declared, non-skipped variants share an effective name -/
def Unambiguous (e : SEnum ν) : Prop :=
  ∀ n v w, Selectable e n v → Selectable e n w → v = w

/-- "is an error (rather than a value, or a crash)" -/
def IsErr (r : Outcome ν) : Prop := ∃ err, r = .err err

/-- the string literal an expression is, through any number of invisible groups -/
def litOf : Expr → Option Lit
  | .lit l => some l
  | .group g _ => litOf g
  | _ => none

/-- what a *string* makes of the variant it names: a unit variant; a newtype variant whose inner
    type has a value-for-absent; nothing else -/
def stringValue (v : SVariant ν) : Option ν :=
  match v.kind with
  | .unit x => some x
  | .newtype _ fromNone wrap => fromNone.map wrap
  | .struct _ => none

/-- a struct receiver reading a list item: its `from_list` on the items, or the syntax error of a
    list that does not parse -/
def structReads (s : SStruct ν) (items : List NestedMeta) (bad : Option (String × Span)) : Outcome ν :=
  match bad with
  | some (msg, sp) => .err (.leaf (.custom msg) [] (some sp))
  | none => Derive.fromList s items

/-- what the single nested item `n` makes of the variant `v` it names, where the text pins it:
    a word selects a unit variant; a newtype variant delegates to its inner type; a struct variant
    reads a nested list as a struct receiver; errors of the last two are located under the
    variant's name.  `none`: the text only says "an error". -/
def itemResult (v : SVariant ν) (n : Meta) : Option (Outcome ν) :=
  match v.kind with
  | .unit x => (match n with
      | .path _ => some (.ok x)
      | _ => none)
  | .newtype fm _ wrap => some (((fm n).map wrap).mapErr (·.at v.name))
  | .struct s => (match n with
      | .list _ items bad _ _ _ => some ((structReads s items bad).mapErr (·.at v.name))
      | _ => none)

/-- a string `s`: the variant of that name a string can select is the result; when there is none,
    an error -/
def StringDemand (e : SEnum ν) (s : String) (r : Outcome ν) : Prop :=
  (∀ v x, Selectable e s v → stringValue v = some x → r = .ok x) ∧
  ((∀ v, Selectable e s v → stringValue v = none) → IsErr r)

/-- a single nested item `n`: the result the variant named by `n` pins (its errors spanned at `n`,
    the item that selects the variant, if they carry no span of their own — never at the coarser
    list around it); when no variant of that name pins one, an error -/
def ItemDemand (e : SEnum ν) (n : Meta) (r : Outcome ν) : Prop :=
  (∀ v r0, Selectable e n.path'.toStr v → itemResult v n = some r0 → r = r0.mapErr (·.withSpan n.span)) ∧
  ((∀ v, Selectable e n.path'.toStr v → itemResult v n = none) → IsErr r)

/-- **the specification**: what the property text demands of the result `r` for the input `m` -/
def Demands (e : SEnum ν) (m : Meta) (r : Outcome ν) : Prop :=
  match m with
  | .path p => (match e.fromWord with
      | some w => r = w.mapErr (·.withSpan p.span)
      | none => IsErr r)
  | .nameValue _ ex _ _ => (match litOf ex with
      | some l => (match l.v with
         | .str s => StringDemand e s r
         | _ => IsErr r)
      | none => IsErr r)
  | .list _ items bad _ _ sp => (match bad with
      | some _ => IsErr r
      | none => (match items with
         | [] => r = .err ((Err.new (.tooFewItems 1)).withSpan sp)
         | [.item n] => ItemDemand e n r
         | [.lit _] => IsErr r
         | _ :: _ :: _ => r = .err ((Err.new (.tooManyItems 1)).withSpan sp)))

/-! ## 2. the model meets the specification -/

theorem selectable_of_arm (e : SEnum ν) (n : String) (v : SVariant ν) (h : e.arm n = some v) : Selectable e n v :=
  arm_sound e n v h

theorem not_selectable_of_arm_none (e : SEnum ν) (n : String) (h : e.arm n = none) (v : SVariant ν) : ¬ Selectable e n v := by
  rintro ⟨hm, hs, hn⟩
  rcases (arm_none_iff e n).mp h v hm with h1 | h1
  · rw [hs] at h1; cases h1
  · exact h1 hn

theorem arm_of_selectable (e : SEnum ν) (hu : Unambiguous e) (n : String) (v : SVariant ν) (h : Selectable e n v) :
    e.arm n = some v := by
  cases ha : e.arm n with
  | none => exact absurd h (not_selectable_of_arm_none e n ha v)
  | some w => rw [hu n w v (selectable_of_arm e n w ha) h]

theorem IsErr.mapErr {r : Outcome ν} (h : IsErr r) (f : Err → Err) : IsErr (r.mapErr f) := by
  obtain ⟨err, rfl⟩ := h; exact ⟨f err, rfl⟩

theorem not_isErr_ok (x : ν) : ¬ IsErr (Outcome.ok x) := by rintro ⟨_, h⟩; cases h

theorem fromString_of_arm (e : SEnum ν) (s : String) (v : SVariant ν) (h : e.arm s = some v) :
    enumFromString e s = match stringValue v with
      | some x => .ok x
      | none => .err (Err.unsupportedFormat "literal") := by
  simp only [enumFromString, stringValue, h]
  cases v.kind with
  | unit y => rfl
  | newtype fm fn wrap => cases fn <;> rfl
  | struct s' => rfl

theorem fromString_of_arm_none (e : SEnum ν) (s : String) (h : e.arm s = none) :
    enumFromString e s = .err (Err.unknownValue s) := by
  unfold enumFromString; rw [h]

/-- the emitted `from_string` meets the demand on strings -/
theorem fromString_demand (e : SEnum ν) (hu : Unambiguous e) (s : String) : StringDemand e s (enumFromString e s) := by
  cases ha : e.arm s with
  | none =>
      rw [fromString_of_arm_none e s ha]
      exact ⟨fun v x hv _ => absurd hv (not_selectable_of_arm_none e s ha v), fun _ => ⟨_, rfl⟩⟩
  | some w =>
      have hw := selectable_of_arm e s w ha
      rw [fromString_of_arm e s w ha]
      constructor
      · intro v x hv hx
        have := hu s v w hv hw; subst this
        rw [hx]
      · intro hnone
        rw [hnone w hw]
        exact ⟨_, rfl⟩

/-! ### the single nested item -/

theorem map_mapErr_comm (r : Outcome ν) (f : ν → ν) (g : Err → Err) : (r.mapErr g).map f = (r.map f).mapErr g := by
  cases r <;> rfl

theorem defaultValue_ne_err (r : SStruct ν) (f : SField ν) (d : DefaultSrc ν) (err : Err) : defaultValue r f d ≠ .err err := by
  unfold defaultValue
  cases d with
  | value v => simp
  | inherit => cases r.containerDefault <;> simp

theorem initField_ne_err (r : SStruct ν) (st : PState ν) (f : SField ν) (err : Err) : initField r st f ≠ .err err := by
  intro h
  simp only [initField] at h
  repeat' split at h
  all_goals first | cases h | exact defaultValue_ne_err _ _ _ _ h

theorem initFields_ne_err (r : SStruct ν) (st : PState ν) : ∀ (fs : List (SField ν)) (err : Err), initFields r st fs ≠ .err err
  | [], err => by simp [initFields]
  | f :: rest, err => by
      simp only [initFields]
      cases h : initField r st f with
      | ok v =>
          simp only []
          cases h2 : initFields r st rest with
          | ok kvs => simp [Outcome.map]
          | err e2 => exact absurd h2 (initFields_ne_err r st rest e2)
          | panic m => simp [Outcome.map]
      | err e1 => exact absurd h (initField_ne_err r st f e1)
      | panic m => simp

/-- a struct variant (which has no post-transform of its own) runs the struct receiver's `from_list`
    and relocates its errors under the variant's name -/
theorem finishStruct_loc (s : SStruct ν) (hp : s.post = Outcome.ok) (l : String) (st : PState ν) :
    finishStruct s true (some l) st = (finishStruct s true none st).mapErr (·.at l) := by
  unfold finishStruct
  simp only [if_true]
  cases flattenInit s st with
  | error m => rfl
  | ok st1 =>
      simp only []
      cases he : (checkMissing s.fields st1).errs with
      | cons a as => rfl
      | nil =>
          simp only []
          cases hi : initFields s (checkMissing s.fields st1) s.fields with
          | ok kvs => simp only [hp]; rfl
          | err e1 => exact absurd hi (initFields_ne_err _ _ _ _)
          | panic m => rfl

/-- side condition 1 (an artefact of the model's generality, true of every assembled receiver):
    a struct variant has no post-transform of its own -/
def PlainStructVariants (e : SEnum ν) : Prop :=
  ∀ v ∈ e.variants, ∀ s, v.kind = .struct s → s.post = Outcome.ok

theorem dataArm_pinned (v : SVariant ν) (hp : ∀ s, v.kind = .struct s → s.post = Outcome.ok) (n : Meta)
    (r0 : Outcome ν) (h : itemResult v n = some r0) : dataArm v n = r0 := by
  unfold itemResult at h
  unfold dataArm
  cases hk : v.kind with
  | unit x =>
      rw [hk] at h
      cases n with
      | path q => simp only [Option.some.injEq] at h; subst h; rfl
      | list _ _ _ _ _ _ => cases h
      | nameValue _ _ _ _ => cases h
  | newtype fm fn wrap =>
      rw [hk] at h
      simp only [Option.some.injEq] at h
      subst h
      exact map_mapErr_comm _ _ _
  | struct s =>
      rw [hk] at h
      cases n with
      | path q => cases h
      | nameValue _ _ _ _ => cases h
      | list q items bad ts t sp =>
          simp only [Option.some.injEq] at h
          subst h
          cases bad with
          | some b => rfl
          | none =>
              simp only [structReads, Derive.fromList]
              cases coreLoop s {} items with
              | error m => rfl
              | ok st => exact finishStruct_loc s (hp s hk) v.name st

theorem dataArm_unpinned (v : SVariant ν) (n : Meta) (h : itemResult v n = none) : IsErr (dataArm v n) := by
  unfold itemResult at h
  unfold dataArm
  cases hk : v.kind with
  | unit x =>
      rw [hk] at h
      cases n with
      | path q => cases h
      | list _ _ _ _ _ _ => exact ⟨_, rfl⟩
      | nameValue _ _ _ _ => exact ⟨_, rfl⟩
  | newtype fm fn wrap => rw [hk] at h; cases h
  | struct s =>
      rw [hk] at h
      cases n with
      | path q => exact ⟨_, rfl⟩
      | nameValue _ _ _ _ => exact ⟨_, rfl⟩
      | list q items bad ts t sp => cases h

/-- `with_span` twice: the first (inner) writer wins -/
theorem withSpan_withSpan (x : Err) (s t : Span) : (x.withSpan s).withSpan t = x.withSpan s := by
  cases x with
  | leaf k ls own => cases own <;> rfl
  | multi cs ls own => cases own <;> rfl

theorem mapErr_withSpan_withSpan (r : Outcome ν) (s t : Span) :
    (r.mapErr (·.withSpan s)).mapErr (·.withSpan t) = r.mapErr (·.withSpan s) := by
  cases r with
  | ok x => rfl
  | panic m => rfl
  | err x => simp only [Outcome.mapErr, withSpan_withSpan]

/-- the emitted `from_list`, one nested item: the selecting item's span is attached first, so the
    span of the enclosing list (attached by the default `from_meta`) never shows -/
theorem fromList_one_demand (e : SEnum ν) (hu : Unambiguous e) (hp : PlainStructVariants e) (n : Meta) (sp : Span) :
    ItemDemand e n ((enumFromList e [.item n]).mapErr (·.withSpan sp)) := by
  rw [list_one]
  cases ha : e.arm n.path'.toStr with
  | none =>
      exact ⟨fun v r0 hv _ => absurd hv (not_selectable_of_arm_none e _ ha v), fun _ => ⟨_, rfl⟩⟩
  | some w =>
      have hsel := selectable_of_arm e _ w ha
      simp only []
      constructor
      · intro v r0 hv hr
        have := hu _ v w hv hsel; subst this
        rw [dataArm_pinned v (fun s hk => hp v hv.1 s hk) n r0 hr, mapErr_withSpan_withSpan]
      · intro hnone
        exact ((dataArm_unpinned w n (hnone w hsel)).mapErr _).mapErr _

/-! ### the value form -/

theorem mapErr_comp (r : Outcome ν) (f g : Err → Err) : (r.mapErr f).mapErr g = r.mapErr (g ∘ f) := by
  cases r <;> rfl

/-- what a value expression must be for `from_string` to be reached -/
def ExprDemand (e : SEnum ν) (ex : Expr) (r : Outcome ν) : Prop :=
  match litOf ex with
  | some l => (match l.v with
      | .str s => ∃ f, r = (enumFromString e s).mapErr f
      | _ => IsErr r)
  | none => IsErr r

theorem fromValue_enum (e : SEnum ν) (l : Lit) :
    match l.v with
    | .str s => ∃ f, (enumHooks e).fromValue l = (enumFromString e s).mapErr f
    | _ => IsErr ((enumHooks e).fromValue l) := by
  simp only [Hooks.fromValue, enumHooks, Hooks.fromValueD, Hooks.fromBool, Hooks.fromChar, Hooks.fromString]
  cases l.v <;> first | exact ⟨_, rfl⟩

/-- the default `from_expr` of an enum receiver: a string literal, through any number of invisible
    groups, reaches `from_string`; every other expression is an error -/
theorem fromExprD_enum (e : SEnum ν) : ∀ (ex : Expr), ExprDemand e ex ((enumHooks e).fromExprD ex)
  | .lit l => by
      have h := fromValue_enum e l
      simp only [ExprDemand, litOf, Hooks.fromExprD]
      cases hv : l.v <;> rw [hv] at h <;> simp only [] at h ⊢
      case str s => obtain ⟨f, hf⟩ := h; exact ⟨_, by rw [hf, mapErr_comp]⟩
      all_goals exact h.mapErr _
  | .group g sp => by
      have ih := fromExprD_enum e g
      simp only [ExprDemand, litOf, Hooks.fromExprD] at ih ⊢
      cases hl : litOf g with
      | none => rw [hl] at ih; exact ih.mapErr _
      | some l =>
          rw [hl] at ih
          simp only [] at ih ⊢
          cases hv : l.v <;> rw [hv] at ih <;> simp only [] at ih ⊢
          case str s => obtain ⟨f, hf⟩ := ih; exact ⟨_, by rw [hf, mapErr_comp]⟩
          all_goals exact ih.mapErr _
  | .path _ _ => ⟨_, rfl⟩
  | .qpath _ _ _ => ⟨_, rfl⟩
  | .array _ _ _ => ⟨_, rfl⟩
  | .other _ _ _ => ⟨_, rfl⟩

/-! ### end to end -/

theorem StringDemand.mapErr {e : SEnum ν} {s : String} {r : Outcome ν} (h : StringDemand e s r) (f : Err → Err) :
    StringDemand e s (r.mapErr f) :=
  ⟨fun v x hv hx => by rw [h.1 v x hv hx]; rfl, fun hn => (h.2 hn).mapErr f⟩

/-- **the derived `from_meta` of an enum does what the property text demands**, for every enum and
    every input — under `Unambiguous` (discrepancy D2) and the modelling side condition
    `PlainStructVariants` -/
theorem fromMeta_meets_spec_partial (e : SEnum ν) (hu : Unambiguous e) (hp : PlainStructVariants e) (m : Meta) :
    Demands e m ((enumHooks e).fromMeta m) := by
  cases m with
  | path p =>
      rw [bare_word]
      unfold Demands
      cases e.fromWord with
      | none => exact ⟨_, rfl⟩
      | some w => rfl
  | nameValue p ex t sp =>
      have h := fromExprD_enum e ex
      show Demands e _ (((enumHooks e).fromExprD ex).mapErr _)
      simp only [Demands]
      unfold ExprDemand at h
      cases hl : litOf ex with
      | none => rw [hl] at h; exact h.mapErr _
      | some l =>
          rw [hl] at h
          simp only [] at h ⊢
          cases hv : l.v <;> rw [hv] at h <;> simp only [] at h ⊢
          case str s =>
            obtain ⟨f, hf⟩ := h
            rw [hf]
            exact ((fromString_demand e hu s).mapErr f).mapErr _
          all_goals exact h.mapErr _
  | list p items bad ts t sp =>
      cases bad with
      | some b => exact ⟨_, rfl⟩
      | none =>
          show Demands e _ ((enumFromList e items).mapErr (·.withSpan sp))
          simp only [Demands]
          match items with
          | [] => rfl
          | [.lit l] => exact ⟨_, rfl⟩
          | [.item n] =>
              exact fromList_one_demand e hu hp n sp
          | a :: b :: rest => rw [list_too_many]; cases a <;> rfl

/-! ## 3. "and nothing else": which inputs produce which values -/

/-- every way the property text allows an input to produce a value -/
inductive Produces (e : SEnum ν) : Meta → ν → Prop
  /-- the bare word, through the declared word variant / `from_word` -/
  | bareWord (p : Path) (x : ν) : e.fromWord = some (.ok x) → Produces e (.path p) x
  /-- a string value naming a unit variant, or a newtype variant whose inner type has a
      value-for-absent -/
  | string (p : Path) (ex : Expr) (t : String) (sp : Span) (l : Lit) (s : String) (v : SVariant ν) (x : ν) :
      litOf ex = some l → l.v = .str s → Selectable e s v → stringValue v = some x →
      Produces e (.nameValue p ex t sp) x
  /-- a single nested word naming a unit variant -/
  | nestedWord (p q : Path) (ts : Option Span) (t : String) (sp : Span) (v : SVariant ν) (x : ν) :
      Selectable e q.toStr v → v.kind = .unit x → Produces e (.list p [.item (.path q)] none ts t sp) x
  /-- a single nested item naming a newtype variant, accepted by the inner type -/
  | newtype (p : Path) (n : Meta) (ts : Option Span) (t : String) (sp : Span) (v : SVariant ν)
      (fm : Meta → Outcome ν) (fn : Option ν) (wrap : ν → ν) (y : ν) :
      Selectable e n.path'.toStr v → v.kind = .newtype fm fn wrap → fm n = .ok y →
      Produces e (.list p [.item n] none ts t sp) (wrap y)
  /-- a single nested list naming a struct variant, accepted by it as a struct receiver -/
  | structV (p q : Path) (items : List NestedMeta) (ts' : Option Span) (t' : String) (sp' : Span)
      (ts : Option Span) (t : String) (sp : Span) (v : SVariant ν) (s : SStruct ν) (x : ν) :
      Selectable e q.toStr v → v.kind = .struct s → Derive.fromList s items = .ok x →
      Produces e (.list p [.item (.list q items none ts' t' sp')] none ts t sp) x

theorem mapErr_eq_ok {r : Outcome ν} {f : Err → Err} {x : ν} (h : r.mapErr f = .ok x) : r = .ok x := by
  cases r <;> first | exact h | cases h

theorem IsErr.ne_ok {r : Outcome ν} (h : IsErr r) (x : ν) : r ≠ .ok x := by
  obtain ⟨_, rfl⟩ := h; intro h; cases h

/-- a value comes out of a struct variant exactly when it comes out of the struct receiver -/
theorem finishStruct_ok_loc (s : SStruct ν) (l : String) (st : PState ν) (x : ν) :
    finishStruct s true (some l) st = .ok x ↔ finishStruct s true none st = .ok x := by
  unfold finishStruct
  simp only [if_true]
  cases flattenInit s st with
  | error m => exact Iff.rfl
  | ok st1 =>
      simp only []
      cases he : (checkMissing s.fields st1).errs with
      | cons a as =>
          simp only []
          constructor
          · intro h; exact mapErr_eq_ok h
          · intro h; rw [h]; rfl
      | nil => exact Iff.rfl

theorem dataArm_ok (v : SVariant ν) (n : Meta) (x : ν) (h : dataArm v n = .ok x) :
    (∃ q, n = .path q ∧ v.kind = .unit x) ∨
    (∃ fm fn wrap y, v.kind = .newtype fm fn wrap ∧ fm n = .ok y ∧ x = wrap y) ∨
    (∃ s q items ts t sp, v.kind = .struct s ∧ n = .list q items none ts t sp ∧ Derive.fromList s items = .ok x) := by
  unfold dataArm at h
  cases hk : v.kind with
  | unit y =>
      rw [hk] at h
      cases n with
      | path q => simp only [Outcome.ok.injEq] at h; subst h; exact .inl ⟨q, rfl, rfl⟩
      | list _ _ _ _ _ _ => cases h
      | nameValue _ _ _ _ => cases h
  | newtype fm fn wrap =>
      rw [hk] at h
      simp only [] at h
      refine .inr (.inl ⟨fm, fn, wrap, ?_⟩)
      cases hf : fm n with
      | ok y => rw [hf] at h; simp only [Outcome.mapErr, Outcome.map, Outcome.ok.injEq] at h; exact ⟨y, rfl, rfl, h.symm⟩
      | err e1 => rw [hf] at h; cases h
      | panic msg => rw [hf] at h; cases h
  | struct s =>
      rw [hk] at h
      cases n with
      | path q => cases h
      | nameValue _ _ _ _ => cases h
      | list q items bad ts t sp =>
          cases bad with
          | some b => cases h
          | none =>
              refine .inr (.inr ⟨s, q, items, ts, t, sp, rfl, rfl, ?_⟩)
              simp only [] at h
              unfold Derive.fromList
              cases hc : coreLoop s {} items with
              | error msg => rw [hc] at h; cases h
              | ok st => rw [hc] at h; exact (finishStruct_ok_loc s v.name st x).mp h

/-- **nothing else** (no hypothesis): whenever the derived `from_meta` of an enum yields a value,
    the input and the value are related in one of the ways the text allows -/
theorem ok_sound (e : SEnum ν) (m : Meta) (x : ν) (h : (enumHooks e).fromMeta m = .ok x) : Produces e m x := by
  cases m with
  | path p =>
      rw [bare_word] at h
      cases hw : e.fromWord with
      | none => rw [hw] at h; cases h
      | some w => rw [hw] at h; exact .bareWord p x (by rw [hw, mapErr_eq_ok h])
  | nameValue p ex t sp =>
      have hd := fromExprD_enum e ex
      have h' : ((enumHooks e).fromExprD ex) = .ok x := mapErr_eq_ok h
      unfold ExprDemand at hd
      cases hl : litOf ex with
      | none => rw [hl] at hd; exact absurd h' (hd.ne_ok x)
      | some l =>
          rw [hl] at hd
          simp only [] at hd
          cases hv : l.v <;> rw [hv] at hd <;> simp only [] at hd
          case str s =>
            obtain ⟨f, hf⟩ := hd
            rw [hf] at h'
            have hs := mapErr_eq_ok h'
            cases ha : e.arm s with
            | none => rw [fromString_of_arm_none e s ha] at hs; cases hs
            | some v =>
                rw [fromString_of_arm e s v ha] at hs
                cases hsv : stringValue v with
                | none => rw [hsv] at hs; cases hs
                | some y =>
                    rw [hsv] at hs
                    simp only [Outcome.ok.injEq] at hs
                    subst hs
                    exact .string p ex t sp l s v y hl hv (selectable_of_arm e s v ha) hsv
          all_goals exact absurd h' (hd.ne_ok x)
  | list p items bad ts t sp =>
      cases bad with
      | some b => cases h
      | none =>
          have h' : enumFromList e items = .ok x := mapErr_eq_ok h
          match items, h' with
          | [], h' => cases h'
          | [.lit l], h' => cases h'
          | a :: b :: rest, h' => rw [list_too_many] at h'; cases h'
          | [.item n], h' =>
              rw [list_one] at h'
              cases ha : e.arm n.path'.toStr with
              | none => rw [ha] at h'; cases h'
              | some v =>
                  rw [ha] at h'
                  have h' := mapErr_eq_ok (f := (·.withSpan n.span)) h'
                  have hsel := selectable_of_arm e _ v ha
                  rcases dataArm_ok v n x h' with ⟨q, rfl, hk⟩ | ⟨fm, fn, wrap, y, hk, hy, rfl⟩ | ⟨s, q, its, ts', t', sp', hk, rfl, hx⟩
                  · exact .nestedWord p q ts t sp v x hsel hk
                  · exact .newtype p n ts t sp v fm fn wrap y hsel hk hy
                  · exact .structV p q its ts' t' sp' ts t sp v s x hsel hk hx

/-- **selects the variant** (under `Unambiguous`, discrepancy D2): every input the text says
    produces a value does produce it -/
theorem ok_complete_partial (e : SEnum ν) (hu : Unambiguous e) (m : Meta) (x : ν) (h : Produces e m x) :
    (enumHooks e).fromMeta m = .ok x := by
  cases h with
  | bareWord p x hw => rw [bare_word, hw]; rfl
  | string p ex t sp l s v x hl hv hsel hx =>
      have hd := fromExprD_enum e ex
      unfold ExprDemand at hd
      rw [hl] at hd
      simp only [hv] at hd
      obtain ⟨f, hf⟩ := hd
      show ((enumHooks e).fromExprD ex).mapErr _ = .ok x
      rw [hf, fromString_of_arm e s v (arm_of_selectable e hu s v hsel), hx]
      rfl
  | nestedWord p q ts t sp v x hsel hk =>
      show (enumFromList e [.item (.path q)]).mapErr _ = .ok x
      rw [list_one]
      have ha : e.arm (Meta.path q).path'.toStr = some v := arm_of_selectable e hu _ v hsel
      rw [ha]
      simp only [dataArm, hk]
      rfl
  | newtype p n ts t sp v fm fn wrap y hsel hk hy =>
      show (enumFromList e [.item n]).mapErr _ = .ok (wrap y)
      rw [list_one, arm_of_selectable e hu _ v hsel]
      simp only [dataArm, hk, hy]
      rfl
  | structV p q items ts' t' sp' ts t sp v s x hsel hk hx =>
      show (enumFromList e [.item (.list q items none ts' t' sp')]).mapErr _ = .ok x
      rw [list_one]
      have ha : e.arm (Meta.list q items none ts' t' sp').path'.toStr = some v := arm_of_selectable e hu _ v hsel
      rw [ha]
      simp only [dataArm, hk]
      unfold Derive.fromList at hx
      cases hc : coreLoop s {} items with
      | error msg => rw [hc] at hx; cases hx
      | ok st =>
          rw [hc] at hx
          simp only []
          rw [(finishStruct_ok_loc s v.name st x).mpr hx]
          rfl

/-- **exactly one variant and nothing else**: value ⟺ allowed by the text -/
theorem ok_iff_partial (e : SEnum ν) (hu : Unambiguous e) (m : Meta) (x : ν) :
    (enumHooks e).fromMeta m = .ok x ↔ Produces e m x :=
  ⟨ok_sound e m x, ok_complete_partial e hu m x⟩

/-! ## 4. the specification pins the result -/

/-- two results that both meet the demand are the same value / the same pinned error, or are both
    errors the text leaves unnamed -/
theorem StringDemand.determines {e : SEnum ν} {s : String} {r r' : Outcome ν}
    (h : StringDemand e s r) (h' : StringDemand e s r') : r = r' ∨ (IsErr r ∧ IsErr r') := by
  by_cases hx : ∃ v x, Selectable e s v ∧ stringValue v = some x
  · obtain ⟨v, x, hv, hx⟩ := hx
    left; rw [h.1 v x hv hx, h'.1 v x hv hx]
  · right
    have hn : ∀ v, Selectable e s v → stringValue v = none := by
      intro v hv
      cases hs : stringValue v with
      | none => rfl
      | some x => exact absurd ⟨v, x, hv, hs⟩ hx
    exact ⟨h.2 hn, h'.2 hn⟩

theorem ItemDemand.determines {e : SEnum ν} {n : Meta} {r r' : Outcome ν}
    (h : ItemDemand e n r) (h' : ItemDemand e n r') : r = r' ∨ (IsErr r ∧ IsErr r') := by
  by_cases hx : ∃ v r0, Selectable e n.path'.toStr v ∧ itemResult v n = some r0
  · obtain ⟨v, r0, hv, hx⟩ := hx
    left; rw [h.1 v r0 hv hx, h'.1 v r0 hv hx]
  · right
    have hn : ∀ v, Selectable e n.path'.toStr v → itemResult v n = none := by
      intro v hv
      cases hs : itemResult v n with
      | none => rfl
      | some x => exact absurd ⟨v, x, hv, hs⟩ hx
    exact ⟨h.2 hn, h'.2 hn⟩

theorem Demands.determines {e : SEnum ν} {m : Meta} {r r' : Outcome ν}
    (h : Demands e m r) (h' : Demands e m r') : r = r' ∨ (IsErr r ∧ IsErr r') := by
  cases m with
  | path p =>
      simp only [Demands] at h h'
      cases hw : e.fromWord with
      | none => rw [hw] at h h'; exact .inr ⟨h, h'⟩
      | some w => rw [hw] at h h'; simp only [] at h h'; exact .inl (h.trans h'.symm)
  | nameValue p ex t sp =>
      simp only [Demands] at h h'
      cases hl : litOf ex with
      | none => rw [hl] at h h'; exact .inr ⟨h, h'⟩
      | some l =>
          rw [hl] at h h'
          simp only [] at h h'
          cases hv : l.v <;> rw [hv] at h h' <;> simp only [] at h h'
          case str s => exact h.determines h'
          all_goals exact .inr ⟨h, h'⟩
  | list p items bad ts t sp =>
      simp only [Demands] at h h'
      cases bad with
      | some b => exact .inr ⟨h, h'⟩
      | none =>
          simp only [] at h h'
          match items, h, h' with
          | [], h, h' => exact .inl (h.trans h'.symm)
          | [.lit l], h, h' => exact .inr ⟨h, h'⟩
          | [.item n], h, h' => exact h.determines h'
          | a :: b :: rest, h, h' =>
              cases a <;> exact .inl (h.trans h'.symm)

/-! ## 5. a skipped variant can never be produced; bare word and absence -/

/-- the value `x` is one the variant `v` makes -/
def Makes (v : SVariant ν) (x : ν) : Prop :=
  match v.kind with
  | .unit y => x = y
  | .newtype _ _ wrap => ∃ y, x = wrap y
  | .struct s => ∃ items, Derive.fromList s items = .ok x

/-- **no hypothesis**: a value that does not come from the bare word (word variant / `from_word`)
    is made by a declared variant that is not skipped and whose effective name is the name the
    input spells -/
theorem produced_by_declared_unskipped (e : SEnum ν) (m : Meta) (x : ν) (h : (enumHooks e).fromMeta m = .ok x) :
    (∃ p, m = .path p ∧ e.fromWord = some (.ok x)) ∨
    ∃ v ∈ e.variants, v.skip = false ∧ Makes v x := by
  have hp := ok_sound e m x h
  cases hp with
  | bareWord p x hw => exact .inl ⟨p, rfl, hw⟩
  | string p ex t sp l s v x hl hv hsel hx =>
      refine .inr ⟨v, hsel.1, hsel.2.1, ?_⟩
      unfold stringValue at hx
      unfold Makes
      cases hk : v.kind with
      | unit y => rw [hk] at hx; simp only [Option.some.injEq] at hx; exact hx.symm
      | newtype fm fn wrap =>
          rw [hk] at hx
          cases fn with
          | none => cases hx
          | some d => simp only [Option.map_some, Option.some.injEq] at hx; exact ⟨d, hx.symm⟩
      | struct s' => rw [hk] at hx; cases hx
  | nestedWord p q ts t sp v x hsel hk =>
      exact .inr ⟨v, hsel.1, hsel.2.1, by unfold Makes; rw [hk]⟩
  | newtype p n ts t sp v fm fn wrap y hsel hk hy =>
      exact .inr ⟨v, hsel.1, hsel.2.1, by unfold Makes; rw [hk]; exact ⟨y, rfl⟩⟩
  | structV p q items ts' t' sp' ts t sp v s x hsel hk hx =>
      exact .inr ⟨v, hsel.1, hsel.2.1, by unfold Makes; rw [hk]; exact ⟨items, hx⟩⟩

/-- the bare word succeeds only through the declared word variant / `from_word` -/
theorem bare_word_ok_iff (e : SEnum ν) (p : Path) (x : ν) :
    (enumHooks e).fromMeta (.path p) = .ok x ↔ e.fromWord = some (.ok x) := by
  constructor
  · intro h
    cases ok_sound e _ x h with
    | bareWord p x hw => exact hw
  · intro h; rw [bare_word, h]; rfl

/-- absence succeeds only through `from_none` -/
theorem absent_iff (e : SEnum ν) (x : ν) : (enumHooks e).fromNone = some x ↔ e.fromNone = some x := Iff.rfl

/-- the list form: none ↦ too-few-items, more than one ↦ too-many-items (no hypothesis) -/
theorem list_none (e : SEnum ν) (p : Path) (ts : Option Span) (t : String) (sp : Span) :
    (enumHooks e).fromMeta (.list p [] none ts t sp) = .err (.leaf (.tooFewItems 1) [] (some sp)) := rfl

theorem list_more (e : SEnum ν) (p : Path) (a b : NestedMeta) (rest : List NestedMeta) (ts : Option Span) (t : String) (sp : Span) :
    (enumHooks e).fromMeta (.list p (a :: b :: rest) none ts t sp) = .err (.leaf (.tooManyItems 1) [] (some sp)) := by
  show (enumFromList e (a :: b :: rest)).mapErr _ = _
  rw [list_too_many]; rfl

/-! ### the side conditions, in checkable form -/

theorem nodup_names_aux : ∀ (l : List (SVariant ν)), ((l.filter (fun v => !v.skip)).map (·.name)).Nodup →
    ∀ v ∈ l, ∀ w ∈ l, v.skip = false → w.skip = false → v.name = w.name → v = w
  | [], _, v, hv, _, _, _, _, _ => by cases hv
  | a :: l, hnd, v, hv, w, hw, hvs, hws, hn => by
      have hmem : ∀ u ∈ l, u.skip = false → u.name ∈ (l.filter (fun v => !v.skip)).map (·.name) := by
        intro u hu hus
        exact List.mem_map.mpr ⟨u, List.mem_filter.mpr ⟨hu, by simp [hus]⟩, rfl⟩
      have htail : ((l.filter (fun v => !v.skip)).map (·.name)).Nodup := by
        cases has : a.skip with
        | true => simpa [List.filter_cons, has] using hnd
        | false =>
            have : (a.name :: (l.filter (fun v => !v.skip)).map (·.name)).Nodup := by
              simpa [List.filter_cons, has] using hnd
            exact (List.nodup_cons.mp this).2
      have hhead : ∀ u ∈ l, u.skip = false → a.skip = false → a.name ≠ u.name := by
        intro u hu hus has heq
        have : (a.name :: (l.filter (fun v => !v.skip)).map (·.name)).Nodup := by
          simpa [List.filter_cons, has] using hnd
        exact (List.nodup_cons.mp this).1 (heq ▸ hmem u hu hus)
      rcases List.mem_cons.mp hv with rfl | hv' <;> rcases List.mem_cons.mp hw with rfl | hw'
      · rfl
      · exact absurd hn (hhead w hw' hws hvs)
      · exact absurd hn.symm (hhead v hv' hvs hws)
      · exact nodup_names_aux l htail v hv' w hw' hvs hws hn

/-- `Unambiguous` holds as soon as the effective names of the non-skipped variants are pairwise
    distinct -/
theorem unambiguous_of_nodup (e : SEnum ν) (h : ((e.variants.filter (fun v => !v.skip)).map (·.name)).Nodup) :
    Unambiguous e := by
  rintro n v w ⟨hv, hvs, hvn⟩ ⟨hw, hws, hwn⟩
  exact nodup_names_aux e.variants h v hv w hw hvs hws (hvn.trans hwn.symm)

/-! ## 6. the receivers `Env` assembles from a derived declaration -/

theorem bundleErr_ne_ok (errs : List Err) (x : ν) : (Err.bundleErr errs : Outcome ν) ≠ .ok x := by
  intro h
  unfold Err.bundleErr at h
  cases hm : Err.multiple errs <;> rw [hm] at h <;> cases h

/-- what a struct receiver without post-transform returns was built by its constructor -/
theorem fromList_ok_built (s : SStruct ν) (hp : s.post = Outcome.ok) (items : List NestedMeta) (x : ν)
    (h : Derive.fromList s items = .ok x) : ∃ kvs, x = s.build kvs := by
  unfold Derive.fromList at h
  cases hc : coreLoop s {} items with
  | error m => rw [hc] at h; cases h
  | ok st =>
      rw [hc] at h
      simp only [finishStruct, if_true] at h
      cases hf : flattenInit s st with
      | error m => rw [hf] at h; cases h
      | ok st1 =>
          rw [hf] at h
          simp only [] at h
          cases he : (checkMissing s.fields st1).errs with
          | cons a as => rw [he] at h; exact absurd h (bundleErr_ne_ok _ x)
          | nil =>
              rw [he] at h
              simp only [] at h
              cases hi : initFields s (checkMissing s.fields st1) s.fields with
              | ok kvs => rw [hi] at h; simp only [hp, Outcome.ok.injEq] at h; exact ⟨kvs, h.symm⟩
              | err e1 => rw [hi] at h; cases h
              | panic m => rw [hi] at h; cases h

open Options in
/-- **the enum receiver assembled from a derived declaration**: it is `enumHooks` of an enum whose
    variants are the declared ones in order, with their effective names and skip marks; each makes
    only values of its own constructor; struct variants carry no post-transform; the bare word is
    the user's `from_word` or the declared word variant; absence is the user's `from_none` -/
theorem assembled_enum (env : Env.T) (rh : String → Hooks Val) (r : RFromMeta) (vs : List RVariant)
    (h : r.base.data = .enum vs) :
    ∃ e : SEnum Val, Env.fromMetaHooks env rh r = enumHooks e ∧
      (∃ f : RVariant → SVariant Val, e.variants = vs.map f ∧
        ∀ rv, (f rv).name = rv.name ∧ (f rv).skip = rv.skip ∧
          ∀ x, Makes (f rv) x → ∃ payload, x = .variant r.base.ident rv.ident payload) ∧
      PlainStructVariants e ∧
      e.fromNone = r.fromNone.bind (fun c => env.oracle.val? ("fn:" ++ c)) ∧
      e.fromWord = r.fromWord.map (fun w => match w with
        | .inl c => (match env.oracle.val? ("fn:" ++ c) with
            | some v => Outcome.ok v
            | none => .err (Err.custom ("unknown from_word callable " ++ c)))
        | .inr variant => .ok (.variant r.base.ident variant .unit)) := by
  simp only [Env.fromMetaHooks, h]
  refine ⟨_, rfl, ⟨_, rfl, ?_⟩, ?_, rfl, rfl⟩
  · intro rv
    refine ⟨rfl, rfl, ?_⟩
    intro x hx
    unfold Makes at hx
    simp only [] at hx
    generalize rv.style = st at hx
    generalize rv.fields = fl at hx
    have hstruct : ∀ fs, (∃ items, Derive.fromList (Env.semStruct env rh
          { ident := r.base.ident, data := RData.enum vs, dflt := r.base.dflt, post := none,
            allowUnknown := rv.allowUnknown, typeParams := r.base.typeParams }
          fs fun kvs => Val.variant r.base.ident rv.ident (Val.record rv.ident kvs)) items = Outcome.ok x) →
        ∃ payload, x = Val.variant r.base.ident rv.ident payload := by
      rintro fs ⟨items, hi⟩
      obtain ⟨kvs, hk⟩ := fromList_ok_built _ rfl items x hi
      exact ⟨_, hk⟩
    cases st with
    | unit => exact ⟨_, hx⟩
    | named => exact hstruct _ hx
    | tuple =>
        match fl, hx with
        | [], hx => exact hstruct _ hx
        | [f], hx => obtain ⟨y, hy⟩ := hx; exact ⟨y, hy⟩
        | f :: g :: rest, hx => exact hstruct _ hx
  · intro v hv s hk
    simp only [List.mem_map] at hv
    obtain ⟨rv, _, rfl⟩ := hv
    simp only [] at hk
    generalize rv.style = st at hk
    generalize rv.fields = fl at hk
    cases st with
    | unit => cases hk
    | named => simp only [VKind.struct.injEq] at hk; subst hk; rfl
    | tuple =>
        match fl, hk with
        | [], hk => simp only [VKind.struct.injEq] at hk; subst hk; rfl
        | [f], hk => cases hk
        | f :: g :: rest, hk => simp only [VKind.struct.injEq] at hk; subst hk; rfl

open Options in
/-- **end to end on an assembled receiver, no hypothesis**: a value comes from the bare word — the
    user's `from_word` or the word variant — or it is a value of the constructor of a declared
    variant that is **not skipped** -/
theorem assembled_value_origin (env : Env.T) (rh : String → Hooks Val) (r : RFromMeta) (vs : List RVariant)
    (h : r.base.data = .enum vs) (m : Meta) (val : Val) (hok : (Env.fromMetaHooks env rh r).fromMeta m = .ok val) :
    (∃ p, m = .path p ∧
      ((∃ c, r.fromWord = some (.inl c) ∧ env.oracle.val? ("fn:" ++ c) = some val) ∨
       (∃ id, r.fromWord = some (.inr id) ∧ val = .variant r.base.ident id .unit))) ∨
    (∃ rv ∈ vs, rv.skip = false ∧ ∃ payload, val = .variant r.base.ident rv.ident payload) := by
  obtain ⟨e, he, ⟨f, hf, hprops⟩, _, _, hword⟩ := assembled_enum env rh r vs h
  rw [he] at hok
  rcases produced_by_declared_unskipped e m val hok with ⟨p, rfl, hw⟩ | ⟨v, hv, hskip, hmakes⟩
  · left
    refine ⟨p, rfl, ?_⟩
    rw [hword] at hw
    cases hfw : r.fromWord with
    | none => rw [hfw] at hw; cases hw
    | some w =>
        rw [hfw] at hw
        simp only [Option.map_some, Option.some.injEq] at hw
        cases w with
        | inl c =>
            simp only [] at hw
            left
            refine ⟨c, rfl, ?_⟩
            cases ho : env.oracle.val? ("fn:" ++ c) with
            | none => rw [ho] at hw; cases hw
            | some v' => rw [ho] at hw; simp only [Outcome.ok.injEq] at hw; rw [hw]
        | inr id =>
            simp only [Outcome.ok.injEq] at hw
            exact .inr ⟨id, rfl, hw.symm⟩
  · right
    rw [hf, List.mem_map] at hv
    obtain ⟨rv, hrv, rfl⟩ := hv
    obtain ⟨_, hs, hm⟩ := hprops rv
    exact ⟨rv, hrv, by rw [← hs]; exact hskip, hm val hmakes⟩

open Options in
/-- **end to end on an assembled receiver**: when the effective names of the non-skipped declared
    variants are pairwise distinct, the receiver does what the text demands on every input -/
theorem assembled_meets_spec_partial (env : Env.T) (rh : String → Hooks Val) (r : RFromMeta) (vs : List RVariant)
    (h : r.base.data = .enum vs) (hnd : ((vs.filter (fun v => !v.skip)).map (·.name)).Nodup) :
    ∃ e : SEnum Val, Env.fromMetaHooks env rh r = enumHooks e ∧
      e.variants.map (fun v => (v.name, v.skip)) = vs.map (fun v => (v.name, v.skip)) ∧
      ∀ m, Demands e m ((Env.fromMetaHooks env rh r).fromMeta m) := by
  obtain ⟨e, he, ⟨f, hf, hprops⟩, hplain, _, _⟩ := assembled_enum env rh r vs h
  have hmap : e.variants.map (fun v => (v.name, v.skip)) = vs.map (fun v => (v.name, v.skip)) := by
    rw [hf, List.map_map]
    apply List.map_congr_left
    intro rv _
    simp only [Function.comp, (hprops rv).1, (hprops rv).2.1]
  refine ⟨e, he, hmap, ?_⟩
  have hu : Unambiguous e := by
    apply unambiguous_of_nodup
    have h1 : (e.variants.filter (fun v => !v.skip)).map (·.name)
        = ((e.variants.map (fun v => (v.name, v.skip))).filter (fun q => !q.2)).map (·.1) := by
      rw [List.filter_map, List.map_map]; rfl
    have h2 : (vs.filter (fun v => !v.skip)).map (·.name)
        = ((vs.map (fun v => (v.name, v.skip))).filter (fun q => !q.2)).map (·.1) := by
      rw [List.filter_map, List.map_map]; rfl
    rw [h1, hmap, ← h2]
    exact hnd
  intro m
  rw [he]
  exact fromMeta_meets_spec_partial e hu hplain m

/-! ## 7. derive time: effective names, skip marks, the word variant -/
section DeriveTime
open Options

/-- the two lists correspond element by element, in order -/
inductive AllPairs {α β : Type} (R : α → β → Prop) : List α → List β → Prop
  | nil : AllPairs R [] []
  | cons {a : α} {b : β} {as : List α} {bs : List β} : R a b → AllPairs R as bs → AllPairs R (a :: as) (b :: bs)

/-- the loop over the variants: when it records no error, every declared variant was resolved, in
    order -/
theorem parseVariants_ok (o : Oracle) (core : CoreOpts) :
    ∀ (vds : List VariantD) (st st' : BodySt), parseVariants .fromMeta o core st vds = .ok st' → st'.errs = [] →
      st.errs = [] ∧ ∃ rvs, st'.variants = st.variants ++ rvs ∧
        AllPairs (fun vd rv => variantFromDecl o core vd = .ok rv) vds rvs
  | [], st, st', h, he => by
      simp only [parseVariants, Except.ok.injEq] at h
      subst h
      exact ⟨he, [], by simp, .nil⟩
  | vd :: rest, st, st', h, he => by
      simp only [parseVariants, beq_self_eq_true, if_true] at h
      cases hv : variantFromDecl o core vd with
      | ok rv =>
          rw [hv] at h
          obtain ⟨h1, rvs, h2, h3⟩ := parseVariants_ok o core rest _ st' h he
          exact ⟨h1, rv :: rvs, by simp [h2], .cons hv h3⟩
      | err e1 =>
          rw [hv] at h
          obtain ⟨h1, _⟩ := parseVariants_ok o core rest _ st' h he
          simp at h1
      | panic m => rw [hv] at h; cases h

/-- `derive(FromMeta)` on an enum, when it emits an impl: the container options were read, every
    declared variant was resolved against them (in order), the body rules found nothing, and the
    impl's `from_word` / `from_none` are the user's or the word variant -/
theorem deriveFromMeta_enum_inv (o : Oracle) (sp : DeclSpans) (d : DeclD) (vds : List VariantD) (r : RFromMeta)
    (hb : d.body = .enum vds) (h : deriveFromMeta o sp d = .ok (.fromMeta r)) :
    ∃ fm rvs, finishWith (parseAttributes (fromMetaStep o) { core := { renameRule := .snake } } [] d.attrs) = .ok fm ∧
      AllPairs (fun vd rv => variantFromDecl o fm.core vd = .ok rv) vds rvs ∧
      r.base.data = .enum rvs ∧ r.base.ident = d.ident ∧
      r.fromWord = (match fm.fromWord with
        | some (c, _) => some (.inl c)
        | none => (wordVariant rvs).map .inr) ∧
      r.fromNone = fm.fromNone ∧
      (fm.fromWord.isSome = true → (rvs.filter (fun v => v.word.isSome)).length = 0) ∧
      (rvs.filter (fun v => v.word.isSome)).length ≤ 1 ∧
      (∀ v ∈ rvs, v.style = .tuple → v.fields.length = 1) := by
  unfold deriveFromMeta at h
  rw [hb] at h
  simp only [] at h
  cases hfin : finishWith (parseAttributes (fromMetaStep o) { core := { renameRule := .snake } } [] d.attrs) with
  | err e1 => rw [hfin] at h; cases h
  | panic m => rw [hfin] at h; cases h
  | ok fm =>
      rw [hfin] at h
      simp only [] at h
      cases hpv : parseVariants .fromMeta o fm.core {} vds with
      | error m => rw [hpv] at h; cases h
      | ok st =>
          rw [hpv] at h
          simp only [] at h
          generalize hE : st.errs ++ fromMetaValidate sp.ident none (if (none : Option Style).isSome = true then st.fields.length else 0)
            fm st sp.variantIdents = E at h
          cases E with
          | cons x rest => exact absurd h (bundleErr_ne_ok _ _)
          | nil =>
              simp only [Outcome.ok.injEq, Derived.fromMeta.injEq] at h
              subst h
              rw [List.append_eq_nil_iff] at hE
              obtain ⟨_, rvs, hvars, hpairs⟩ := parseVariants_ok o fm.core vds {} st hpv hE.1
              have hvars' : st.variants = rvs := by simpa using hvars
              obtain ⟨_, h2, h3, h4⟩ := (C10.fromMetaValidate_enum_nil_iff _ _ _ _ _).mp hE.2
              rw [hvars'] at h2 h3 h4
              exact ⟨fm, rvs, rfl, hpairs, by rw [hvars'], rfl, by rw [hvars']; rfl, rfl, h3, h4, h2⟩

/-! ### what a declaration *says*, read off its `#[darling(..)]` items in source order -/

/-- the string of a `rename = "…"` item -/
def renameGiven (m : Meta) : Option String :=
  if m.path'.isIdent "rename" then (match readOptString m with | .ok (some s) => some s | _ => none) else none
/-- the value of a `skip` / `skip = b` item -/
def skipGiven (m : Meta) : Option Bool :=
  if m.path'.isIdent "skip" then (match readOptBool m with | .ok (some b) => some b | _ => none) else none
/-- the value (with its span) of a `word` / `word = b` item -/
def wordGiven (m : Meta) : Option (Bool × Option Span) :=
  if m.path'.isIdent "word" then (match readOptSpannedBool m with | .ok (some b) => some b | _ => none) else none
/-- the rule of a `rename_all = "…"` item -/
def ruleGiven (m : Meta) : Option RenameRule :=
  if m.path'.isIdent "rename_all" then (match readRenameRule m with | .ok r => some r | _ => none) else none

/-- the explicit rename of a variant: its first readable `rename` -/
def explicitRename (v : VariantD) : Option String := (C10.attrsMetas v.attrs).findSome? renameGiven
/-- the variant is marked `skip` (first readable `skip`, `false` when there is none) -/
def markedSkip (v : VariantD) : Bool := ((C10.attrsMetas v.attrs).findSome? skipGiven).getD false
/-- the variant is a unit variant marked `word` (first readable `word`, `false` when there is none) -/
def markedWord (v : VariantD) : Bool :=
  v.style == .unit && (match (C10.attrsMetas v.attrs).findSome? wordGiven with | some (b, _) => b | none => false)
/-- the container case rule: the last readable `rename_all`, snake_case when there is none -/
def caseRule (attrs : List Attr) : RenameRule := ((C10.attrsMetas attrs).reverse.findSome? ruleGiven).getD .snake

theorem findSome_bridge {β : Type} (w : Meta → Bool) (g val : Meta → Option β)
    (h1 : ∀ m, w m = true → g m = val m ∧ (g m).isSome = true) (h2 : ∀ m, w m = false → g m = none) :
    ∀ (l : List Meta), (l.find? w).bind val = l.findSome? g
  | [] => rfl
  | m :: l => by
      cases hw : w m with
      | true =>
          obtain ⟨he, hs⟩ := h1 m hw
          obtain ⟨b, hb⟩ := Option.isSome_iff_exists.mp hs
          simp [hw, hb, ← he]
      | false =>
          simp [hw, h2 m hw, findSome_bridge w g val h1 h2 l]

theorem isIdent_of_getIdent (p : Path) (n : String) (h : p.getIdent = some n) : p.isIdent n = true := by
  simp [Path.isIdent, h]

theorem renameGiven_iff (isUnit : Bool) (m : Meta) (x : String) :
    renameGiven m = some x ↔ (C10.variantWrites isUnit m = some .rename ∧ C10.variantRead m = some (.rename (some x))) := by
  constructor
  · intro h
    unfold renameGiven at h
    split at h
    · rename_i hi
      have hk : C10.variantKw m = some .rename := by simp [C10.variantKw, hi]
      split at h
      · rename_i s hr
        simp only [Option.some.injEq] at h; subst h
        have hrd : C10.variantRead m = some (.rename (some s)) := by
          simp [C10.variantRead, hk, C10.variantReadR, hr, Outcome.map]
        exact ⟨by simp [C10.variantWrites, hk, hrd], hrd⟩
      · cases h
    · cases h
  · rintro ⟨hw, hrd⟩
    obtain ⟨v, hk, hrd', hR, _⟩ := C10.variantWrites_eq_some isUnit m _ hw
    have hi := isIdent_of_getIdent _ _ (C10.getIdent_of_variantKw m _ hk)
    simp only [C10.VariantKw.name] at hi
    rw [hrd] at hrd'
    simp only [Option.some.injEq] at hrd'
    subst hrd'
    simp only [C10.variantReadR] at hR
    obtain ⟨a, ha, hva⟩ := C10.map_eq_ok hR
    simp only [C10.VariantVal.rename.injEq] at hva
    subst hva
    simp [renameGiven, hi, ha]

theorem skipGiven_iff (isUnit : Bool) (m : Meta) (x : Bool) :
    skipGiven m = some x ↔ (C10.variantWrites isUnit m = some .skip ∧ C10.variantRead m = some (.skip (some x))) := by
  constructor
  · intro h
    unfold skipGiven at h
    split at h
    · rename_i hi
      have hg : m.path'.getIdent = some "skip" := by simpa [Path.isIdent] using hi
      have hk : C10.variantKw m = some .skip := C10.variantKw_of_getIdent m .skip hg
      split at h
      · rename_i s hr
        simp only [Option.some.injEq] at h; subst h
        have hrd : C10.variantRead m = some (.skip (some s)) := by
          simp [C10.variantRead, hk, C10.variantReadR, hr, Outcome.map]
        exact ⟨by simp [C10.variantWrites, hk, hrd], hrd⟩
      · cases h
    · cases h
  · rintro ⟨hw, hrd⟩
    obtain ⟨v, hk, hrd', hR, _⟩ := C10.variantWrites_eq_some isUnit m _ hw
    have hi := isIdent_of_getIdent _ _ (C10.getIdent_of_variantKw m _ hk)
    simp only [C10.VariantKw.name] at hi
    rw [hrd] at hrd'
    simp only [Option.some.injEq] at hrd'
    subst hrd'
    simp only [C10.variantReadR] at hR
    obtain ⟨a, ha, hva⟩ := C10.map_eq_ok hR
    simp only [C10.VariantVal.skip.injEq] at hva
    subst hva
    simp [skipGiven, hi, ha]

theorem wordGiven_iff (m : Meta) (x : Bool × Option Span) :
    wordGiven m = some x ↔ (C10.variantWrites true m = some .word ∧ C10.variantRead m = some (.word (some x))) := by
  constructor
  · intro h
    unfold wordGiven at h
    split at h
    · rename_i hi
      have hg : m.path'.getIdent = some "word" := by simpa [Path.isIdent] using hi
      have hk : C10.variantKw m = some .word := C10.variantKw_of_getIdent m .word hg
      split at h
      · rename_i s hr
        simp only [Option.some.injEq] at h; subst h
        have hrd : C10.variantRead m = some (.word (some s)) := by
          simp [C10.variantRead, hk, C10.variantReadR, hr, Outcome.map]
        exact ⟨by simp [C10.variantWrites, hk, hrd], hrd⟩
      · cases h
    · cases h
  · rintro ⟨hw, hrd⟩
    obtain ⟨v, hk, hrd', hR, _⟩ := C10.variantWrites_eq_some true m _ hw
    have hi := isIdent_of_getIdent _ _ (C10.getIdent_of_variantKw m _ hk)
    simp only [C10.VariantKw.name] at hi
    rw [hrd] at hrd'
    simp only [Option.some.injEq] at hrd'
    subst hrd'
    simp only [C10.variantReadR] at hR
    obtain ⟨a, ha, hva⟩ := C10.map_eq_ok hR
    simp only [C10.VariantVal.word.injEq] at hva
    subst hva
    simp [wordGiven, hi, ha]

/-- a held option has a value -/
theorem writes_read_some (isUnit : Bool) (m : Meta) (k : C10.VariantKw) (h : C10.variantWrites isUnit m = some k) :
    match k with
    | .rename => ∃ x, C10.variantRead m = some (.rename (some x))
    | .skip => ∃ x, C10.variantRead m = some (.skip (some x))
    | .word => ∃ x, C10.variantRead m = some (.word (some x)) := by
  obtain ⟨v, hk, hrd, hR, _⟩ := C10.variantWrites_eq_some isUnit m _ h
  cases k <;> simp only [C10.variantReadR] at hR <;> obtain ⟨a, ha, rfl⟩ := C10.map_eq_ok hR
  · obtain ⟨x, rfl⟩ := C10.readOptString_some m a ha; exact ⟨x, hrd⟩
  · obtain ⟨x, rfl⟩ := C10.readOptBool_some m a ha; exact ⟨x, hrd⟩
  · obtain ⟨x, rfl⟩ := C10.readOptSpannedBool_some m a ha; exact ⟨x, hrd⟩

/-- **the options in force on a variant are what its items say**: the first readable `rename`,
    `skip`, and (on a unit variant) `word` -/
theorem variantState_says (isUnit : Bool) (ms : List Meta) :
    (C10.variantState isUnit ms).attrName = ms.findSome? renameGiven ∧
    (C10.variantState isUnit ms).skip = ms.findSome? skipGiven ∧
    (C10.variantState isUnit ms).word = if isUnit then ms.findSome? wordGiven else none := by
  refine ⟨?_, ?_, ?_⟩
  · have hb := findSome_bridge (fun m => C10.variantWrites isUnit m == some .rename) renameGiven
      (fun m => match C10.variantRead m with | some (.rename v) => v | _ => none)
      (by
        intro m hw
        have hw' : C10.variantWrites isUnit m = some .rename := by simpa using hw
        obtain ⟨x, hx⟩ := writes_read_some isUnit m .rename hw'
        rw [(renameGiven_iff isUnit m x).mpr ⟨hw', hx⟩, hx]
        exact ⟨rfl, rfl⟩)
      (by
        intro m hw
        cases hg : renameGiven m with
        | none => rfl
        | some x => have := ((renameGiven_iff isUnit m x).mp hg).1; simp [this] at hw)
      ms
    rw [← hb]
    simp only [C10.variantState, C10.vEffective]
    cases ms.find? (fun m => C10.variantWrites isUnit m == some .rename) <;> rfl
  · have hb := findSome_bridge (fun m => C10.variantWrites isUnit m == some .skip) skipGiven
      (fun m => match C10.variantRead m with | some (.skip v) => v | _ => none)
      (by
        intro m hw
        have hw' : C10.variantWrites isUnit m = some .skip := by simpa using hw
        obtain ⟨x, hx⟩ := writes_read_some isUnit m .skip hw'
        rw [(skipGiven_iff isUnit m x).mpr ⟨hw', hx⟩, hx]
        exact ⟨rfl, rfl⟩)
      (by
        intro m hw
        cases hg : skipGiven m with
        | none => rfl
        | some x => have := ((skipGiven_iff isUnit m x).mp hg).1; simp [this] at hw)
      ms
    rw [← hb]
    simp only [C10.variantState, C10.vEffective]
    cases ms.find? (fun m => C10.variantWrites isUnit m == some .skip) <;> rfl
  · cases isUnit with
    | false =>
        have hnone : ∀ l : List Meta, l.find? (fun m => C10.variantWrites false m == some .word) = none := by
          intro l
          rw [List.find?_eq_none]
          intro m _
          simp only [beq_iff_eq]
          intro hw
          obtain ⟨_, _, _, _, hne⟩ := C10.variantWrites_eq_some false m _ hw
          exact hne ⟨rfl, rfl⟩
        simp [C10.variantState, C10.vEffective, hnone]
    | true =>
        have hb := findSome_bridge (fun m => C10.variantWrites true m == some .word) wordGiven
          (fun m => match C10.variantRead m with | some (.word v) => v | _ => none)
          (by
            intro m hw
            have hw' : C10.variantWrites true m = some .word := by simpa using hw
            obtain ⟨x, hx⟩ := writes_read_some true m .word hw'
            rw [(wordGiven_iff m x).mpr ⟨hw', hx⟩, hx]
            exact ⟨rfl, rfl⟩)
          (by
            intro m hw
            cases hg : wordGiven m with
            | none => rfl
            | some x => have := ((wordGiven_iff m x).mp hg).1; simp [this] at hw)
          ms
        simp only [if_true]
        rw [← hb]
        simp only [C10.variantState, C10.vEffective]
        cases ms.find? (fun m => C10.variantWrites true m == some .word) <;> rfl

/-- **effective name, skip mark, word mark of a resolved variant** are what the declaration says:
    the explicit rename, else the container's case rule applied to the identifier -/
theorem variant_resolution (o : Oracle) (core : CoreOpts) (vd : VariantD) (rv : RVariant)
    (h : variantFromDecl o core vd = .ok rv) :
    rv.ident = vd.ident ∧ rv.style = vd.style ∧
    (match explicitRename vd with
     | some n => rv.name = n
     | none => core.renameRule.applyToVariant vd.ident = .ok rv.name) ∧
    rv.skip = markedSkip vd ∧
    (match rv.word with | some (b, _) => b | none => false) = markedWord vd ∧
    rv.allowUnknown = core.allowUnknown.getD false := by
  unfold variantFromDecl at h
  cases hf : finishWith (parseAttributes (variantStep (vd.style == .unit)) {} [] vd.attrs) with
  | err e1 => rw [hf] at h; cases h
  | panic m => rw [hf] at h; cases h
  | ok s =>
      rw [hf] at h
      simp only [] at h
      have hs := (C10.variant_decl_accepts_iff (vd.style == .unit) vd.attrs).2 s hf
      obtain ⟨hn, hsk, hw⟩ := variantState_says (vd.style == .unit) (C10.attrsMetas vd.attrs)
      rw [← hs] at hn hsk hw
      cases hfs : variantFields o core vd.fields with
      | err e1 => rw [hfs] at h; cases h
      | panic m => rw [hfs] at h; cases h
      | ok fs =>
          rw [hfs] at h
          simp only [] at h
          have hword : ∀ w : Option (Bool × Option Span), w = s.word →
              (match w with | some (b, _) => b | none => false) = markedWord vd := by
            intro w hw'
            subst hw'
            unfold markedWord
            rw [hw]
            cases hu : (vd.style == Style.unit) with
            | false => simp
            | true => simp
          cases hname : s.attrName with
          | some n =>
              rw [hname] at h
              simp only [Outcome.bind, Outcome.ok.injEq] at h
              subst h
              refine ⟨rfl, rfl, ?_, ?_, hword _ rfl, rfl⟩
              · unfold explicitRename; rw [← hn, hname]
              · unfold markedSkip; rw [← hsk]
          | none =>
              rw [hname] at h
              cases ha : core.renameRule.applyToVariant vd.ident with
              | err e1 => rw [ha] at h; cases h
              | panic m => rw [ha] at h; cases h
              | ok n =>
                  rw [ha] at h
                  simp only [Outcome.bind, Outcome.ok.injEq] at h
                  subst h
                  refine ⟨rfl, rfl, ?_, ?_, hword _ rfl, rfl⟩
                  · unfold explicitRename; rw [← hn, hname]
                  · unfold markedSkip; rw [← hsk]

theorem contKw_fromMeta_renameAll (m : Meta) :
    C10.contKw .fromMeta m = some .renameAll ↔ m.path'.isIdent "rename_all" = true := by
  constructor
  · intro h
    unfold C10.contKw at h
    simp only [] at h
    split at h
    · cases h
    · split at h
      · cases h
      · have := C10.getIdent_of_coreKw m _ h
        exact isIdent_of_getIdent _ _ this
  · intro h
    have hg : m.path'.getIdent = some "rename_all" := by simpa [Path.isIdent] using h
    simp [C10.contKw, C10.coreKw, Path.isIdent, hg]

theorem ruleGiven_iff (o : Oracle) (m : Meta) (x : RenameRule) :
    ruleGiven m = some x ↔
      (C10.contWrites .fromMeta o m = some .renameAll ∧ C10.contRead .fromMeta o m = some (.renameAll x)) := by
  constructor
  · intro h
    unfold ruleGiven at h
    split at h
    · rename_i hi
      have hk := (contKw_fromMeta_renameAll m).mpr hi
      split at h
      · rename_i r hr
        simp only [Option.some.injEq] at h; subst h
        have hrd : C10.contRead .fromMeta o m = some (.renameAll r) := by
          simp [C10.contRead, hk, C10.contReadR, hr, Outcome.map]
        exact ⟨by simp [C10.contWrites, hk, hrd, C10.ContKw.slot], hrd⟩
      · cases h
    · cases h
  · rintro ⟨hw, hrd⟩
    obtain ⟨k, v, hk, hsl, hrd', hR⟩ := C10.contWrites_eq_some .fromMeta o m _ hw
    have hk' : k = .renameAll := by cases k <;> simp [C10.ContKw.slot] at hsl ⊢
    subst hk'
    have hi := (contKw_fromMeta_renameAll m).mp hk
    rw [hrd] at hrd'
    simp only [Option.some.injEq] at hrd'
    subst hrd'
    simp only [C10.contReadR] at hR
    obtain ⟨a, ha, hva⟩ := C10.map_eq_ok hR
    simp only [C10.ContVal.renameAll.injEq] at hva
    subst hva
    simp [ruleGiven, hi, ha]

/-- **the case rule in force** is the last readable `rename_all`, else the start value -/
theorem coreState_rule (o : Oracle) (r0 : RenameRule) (ms : List Meta) :
    (C10.coreStateP .fromMeta o r0 ms).renameRule = (ms.reverse.findSome? ruleGiven).getD r0 := by
  have hb := findSome_bridge (fun m => C10.contWrites .fromMeta o m == some .renameAll) ruleGiven
    (fun m => match C10.contRead .fromMeta o m with | some (.renameAll v) => some v | _ => none)
    (by
      intro m hw
      have hw' : C10.contWrites .fromMeta o m = some .renameAll := by simpa using hw
      obtain ⟨k, v, hk, hsl, hrd, hR⟩ := C10.contWrites_eq_some .fromMeta o m _ hw'
      have hk' : k = .renameAll := by cases k <;> simp [C10.ContKw.slot] at hsl ⊢
      subst hk'
      simp only [C10.contReadR] at hR
      obtain ⟨a, ha, rfl⟩ := C10.map_eq_ok hR
      rw [(ruleGiven_iff o m a).mpr ⟨hw', hrd⟩, hrd]
      exact ⟨rfl, rfl⟩)
    (by
      intro m hw
      cases hg : ruleGiven m with
      | none => rfl
      | some x => have := ((ruleGiven_iff o m x).mp hg).1; simp [this] at hw)
    ms.reverse
  rw [← hb]
  simp only [C10.coreStateP, C10.lastEff]
  cases hfd : ms.reverse.find? (fun m => C10.contWrites .fromMeta o m == some .renameAll) with
  | none => rfl
  | some m =>
      simp only [Option.bind_some]
      cases C10.contRead .fromMeta o m with
      | none => rfl
      | some v => cases v <;> rfl

theorem AllPairs.of_mem_right {α β : Type} {R : α → β → Prop} {as : List α} {bs : List β} (h : AllPairs R as bs)
    {b : β} (hb : b ∈ bs) : ∃ a ∈ as, R a b := by
  induction h with
  | nil => cases hb
  | cons hr _ ih =>
      rcases List.mem_cons.mp hb with rfl | hb'
      · exact ⟨_, List.mem_cons_self .., hr⟩
      · obtain ⟨a, ha, hab⟩ := ih hb'; exact ⟨a, List.mem_cons_of_mem _ ha, hab⟩

theorem AllPairs.of_mem_left {α β : Type} {R : α → β → Prop} {as : List α} {bs : List β} (h : AllPairs R as bs)
    {a : α} (ha : a ∈ as) : ∃ b ∈ bs, R a b := by
  induction h with
  | nil => cases ha
  | cons hr _ ih =>
      rcases List.mem_cons.mp ha with rfl | ha'
      · exact ⟨_, List.mem_cons_self .., hr⟩
      · obtain ⟨b, hb, hab⟩ := ih ha'; exact ⟨b, List.mem_cons_of_mem _ hb, hab⟩

theorem AllPairs.imp {α β : Type} {R S : α → β → Prop} (hrs : ∀ a b, R a b → S a b) {as : List α} {bs : List β}
    (h : AllPairs R as bs) : AllPairs S as bs := by
  induction h with
  | nil => exact .nil
  | cons hr _ ih => exact .cons (hrs _ _ hr) ih

theorem AllPairs.map_eq {α β γ : Type} {R : α → β → Prop} (f : α → γ) (g : β → γ) (hfg : ∀ a b, R a b → f a = g b)
    {as : List α} {bs : List β} (h : AllPairs R as bs) : as.map f = bs.map g := by
  induction h with
  | nil => rfl
  | cons hr _ ih => simp [hfg _ _ hr, ih]

/-- the `word = true` flag of a resolved variant -/
def RVariant.isWord (v : RVariant) : Bool := match v.word with | some (b, _) => b | none => false

theorem wordVariant_some (vs : List RVariant) (id : String) (h : wordVariant vs = some id) :
    ∃ v ∈ vs, v.ident = id ∧ v.skip = false ∧ RVariant.isWord v = true := by
  unfold wordVariant at h
  rw [Option.map_eq_some_iff] at h
  obtain ⟨v, hf, hid⟩ := h
  have hm := List.mem_of_find?_eq_some hf
  have hp := List.find?_some hf
  simp only [Bool.and_eq_true, Bool.not_eq_eq_eq_not, Bool.not_true] at hp
  exact ⟨v, hm, hid, hp.1, hp.2⟩

theorem wordVariant_none (vs : List RVariant) (h : wordVariant vs = none) :
    ∀ v ∈ vs, ¬ (v.skip = false ∧ RVariant.isWord v = true) := by
  unfold wordVariant at h
  rw [Option.map_eq_none_iff, List.find?_eq_none] at h
  intro v hv ⟨hs, hw⟩
  have := h v hv
  simp only [RVariant.isWord] at hw
  simp only [hs, Bool.not_false, Bool.true_and] at this
  exact this hw

/-- how a declared variant and its resolution correspond -/
def Resolves (rule : RenameRule) (vd : VariantD) (rv : RVariant) : Prop :=
  rv.ident = vd.ident ∧ rv.style = vd.style ∧
  (match explicitRename vd with
   | some n => rv.name = n
   | none => rule.applyToVariant vd.ident = .ok rv.name) ∧
  rv.skip = markedSkip vd ∧ RVariant.isWord rv = markedWord vd

theorem markedWord_count {rule : RenameRule} {vds : List VariantD} {rvs : List RVariant}
    (h : AllPairs (Resolves rule) vds rvs) :
    (vds.filter (fun vd => markedWord vd)).length ≤ (rvs.filter (fun v => v.word.isSome)).length := by
  induction h with
  | nil => simp
  | @cons vd rv vds' rvs' hr _ ih =>
      obtain ⟨_, _, _, _, hr5⟩ := hr
      simp only [List.filter_cons]
      cases hm : markedWord vd with
      | false =>
          simp only [Bool.false_eq_true, if_false]
          split
          · simp only [List.length_cons]; omega
          · exact ih
      | true =>
          rw [hm] at hr5
          have : rv.word.isSome = true := by
            unfold RVariant.isWord at hr5
            cases hwd : rv.word with
            | none => rw [hwd] at hr5; cases hr5
            | some x => rfl
          simp only [this, if_true, List.length_cons]
          omega

/-- **`derive(FromMeta)` on an enum, when it emits an impl, emits what the declaration says**:
    the variants in order, each under its effective name (explicit rename, else the container's case
    rule — the last `rename_all`, snake_case by default — applied to the identifier) with its skip
    mark; the bare word is the user's `from_word` exactly when the container says `from_word`, and
    otherwise the declared, non-skipped `word` variant when there is one (at most one variant says
    `word`); `from_none` only from the container -/
theorem derived_enum_says (o : Oracle) (sp : DeclSpans) (d : DeclD) (vds : List VariantD) (r : RFromMeta)
    (hb : d.body = .enum vds) (h : deriveFromMeta o sp d = .ok (.fromMeta r)) :
    ∃ rvs, r.base.data = .enum rvs ∧ r.base.ident = d.ident ∧
      AllPairs (Resolves (caseRule d.attrs)) vds rvs ∧
      ((∃ c, r.fromWord = some (.inl c)) ↔ C10.declaresFromWord d.attrs = true) ∧
      (∀ id, r.fromWord = some (.inr id) →
        ∃ vd ∈ vds, vd.ident = id ∧ markedWord vd = true ∧ markedSkip vd = false) ∧
      (r.fromWord = none → ∀ vd ∈ vds, ¬ (markedWord vd = true ∧ markedSkip vd = false)) ∧
      (vds.filter (fun vd => markedWord vd)).length ≤ 1 := by
  obtain ⟨fm, rvs, hfin, hpairs, hdata, hident, hword, _, hw0, hw1, _⟩ := deriveFromMeta_enum_inv o sp d vds r hb h
  have hc := C10.fromMeta_decl_accepts_iff_wf o .snake d.attrs
  have hcont : C10.ContainerOk .fromMeta o d.attrs := hc.1.mp ⟨fm, hfin⟩
  have hfm : fm = C10.fromMetaStateP o .snake (C10.attrsMetas d.attrs) := hc.2 fm hfin
  have hrule : fm.core.renameRule = caseRule d.attrs := by
    rw [hfm]; exact coreState_rule o .snake _
  have hfw : fm.fromWord.isSome = C10.declaresFromWord d.attrs := by
    rw [hfm]; exact C10.cwf_fromWord_present o d.attrs .snake hcont.2.2
  have hres : AllPairs (Resolves (caseRule d.attrs)) vds rvs := by
    refine hpairs.imp ?_
    intro vd rv hv
    obtain ⟨h1, h2, h3, h4, h5, _⟩ := variant_resolution o fm.core vd rv hv
    rw [hrule] at h3
    exact ⟨h1, h2, h3, h4, h5⟩
  refine ⟨rvs, hdata, hident, hres, ?_, ?_, ?_, ?_⟩
  · rw [← hfw, hword]
    cases hfmw : fm.fromWord with
    | none =>
        simp only [Option.isSome_none, Bool.false_eq_true, iff_false, not_exists]
        intro c hc'
        cases hwv : wordVariant rvs <;> rw [hwv] at hc' <;> cases hc'
    | some cs => obtain ⟨c, s'⟩ := cs; simp
  · intro id hid
    rw [hword] at hid
    cases hfmw : fm.fromWord with
    | some cs => obtain ⟨c, s'⟩ := cs; rw [hfmw] at hid; cases hid
    | none =>
        rw [hfmw] at hid
        simp only [Option.map_eq_some_iff, Sum.inr.injEq, exists_eq_right] at hid
        obtain ⟨rv, hrv, hi, hs, hwd⟩ := wordVariant_some rvs id hid
        obtain ⟨vd, hvd, hr1, _, _, hr4, hr5⟩ := hres.of_mem_right hrv
        exact ⟨vd, hvd, by rw [← hr1, hi], by rw [← hr5, hwd], by rw [← hr4, hs]⟩
  · intro hnone vd hvd ⟨hmw, hms⟩
    rw [hword] at hnone
    cases hfmw : fm.fromWord with
    | some cs => obtain ⟨c, s'⟩ := cs; rw [hfmw] at hnone; cases hnone
    | none =>
        rw [hfmw] at hnone
        simp only [Option.map_eq_none_iff] at hnone
        obtain ⟨rv, hrv, _, _, _, hr4, hr5⟩ := hres.of_mem_left hvd
        exact wordVariant_none rvs hnone rv hrv ⟨by rw [hr4, hms], by rw [hr5, hmw]⟩
  · have hle := markedWord_count hres
    omega

/-! ### the whole pipeline: declaration ↦ derive ↦ assembled receiver ↦ result -/

/-- the effective name of a declared variant: explicit rename, else the case rule applied to the
    identifier (`none` only where the rule's implementation crashes — the known finding F8) -/
def effName (rule : RenameRule) (vd : VariantD) : Option String :=
  match explicitRename vd with
  | some n => some n
  | none => (match rule.applyToVariant vd.ident with | .ok n => some n | _ => none)

theorem Resolves.effName {rule : RenameRule} {vd : VariantD} {rv : RVariant} (h : Resolves rule vd rv) :
    effName rule vd = some rv.name := by
  obtain ⟨_, _, h3, _, _⟩ := h
  unfold C09.effName
  cases he : explicitRename vd with
  | some n => rw [he] at h3; simp only [] at h3; rw [h3]
  | none => rw [he] at h3; simp only [] at h3; rw [h3]

theorem selectable_names_eq {rule : RenameRule} {vds : List VariantD} {rvs : List RVariant}
    (h : AllPairs (Resolves rule) vds rvs) :
    (vds.filter (fun vd => !markedSkip vd)).filterMap (effName rule) = (rvs.filter (fun v => !v.skip)).map (·.name) := by
  induction h with
  | nil => rfl
  | @cons vd rv vds' rvs' hr _ ih =>
      have hn := hr.effName
      obtain ⟨_, _, _, hs, _⟩ := hr
      simp only [List.filter_cons, hs]
      cases markedSkip vd with
      | true => simpa using ih
      | false => simp [hn, ih]

/-- a receiver of the corpus that derives `FromMeta` on an enum is the assembled receiver of its
    derive result -/
theorem corpus_receiver (env : Env.T) (fuel : Nat) (name key : String) (d : DeclD) (sp : DeclSpans) (r : RFromMeta)
    (hfind : env.decls.find? (·.1 == name) = some (key, .fromMeta, d, sp))
    (hder : deriveFromMeta env.oracle sp d = .ok (.fromMeta r)) :
    Env.recvHooksF (fuel + 1) env name = Env.fromMetaHooks env (Env.recvHooksF fuel env) r := by
  simp only [Env.recvHooksF, hfind, derive, beq_self_eq_true, if_true, hder]

/-- **C09, end to end, no hypothesis on the enum**: whatever a derived enum receiver of the corpus
    returns as a value is either the bare word's — the user's `from_word` (the container says so) or
    the declared, non-skipped `word` variant — or a value of a declared variant that is **not marked
    skip** -/
theorem corpus_value_origin (env : Env.T) (fuel : Nat) (name key : String) (d : DeclD) (sp : DeclSpans)
    (vds : List VariantD) (r : RFromMeta)
    (hfind : env.decls.find? (·.1 == name) = some (key, .fromMeta, d, sp)) (hb : d.body = .enum vds)
    (hder : deriveFromMeta env.oracle sp d = .ok (.fromMeta r)) (m : Meta) (val : Val)
    (hok : (Env.recvHooksF (fuel + 1) env name).fromMeta m = .ok val) :
    (∃ p, m = .path p ∧
      ((C10.declaresFromWord d.attrs = true ∧ ∃ c, env.oracle.val? ("fn:" ++ c) = some val) ∨
       (∃ vd ∈ vds, markedWord vd = true ∧ markedSkip vd = false ∧ val = .variant d.ident vd.ident .unit))) ∨
    (∃ vd ∈ vds, markedSkip vd = false ∧ ∃ payload, val = .variant d.ident vd.ident payload) := by
  obtain ⟨rvs, hdata, hident, hres, hfw, hwv, _, _⟩ := derived_enum_says env.oracle sp d vds r hb hder
  rw [corpus_receiver env fuel name key d sp r hfind hder] at hok
  rcases assembled_value_origin env _ r rvs hdata m val hok with ⟨p, rfl, hw⟩ | ⟨rv, hrv, hs, payload, hval⟩
  · left
    refine ⟨p, rfl, ?_⟩
    rcases hw with ⟨c, hc, hv⟩ | ⟨id, hid, hv⟩
    · exact .inl ⟨hfw.mp ⟨c, hc⟩, c, hv⟩
    · obtain ⟨vd, hvd, hi, hmw, hms⟩ := hwv id hid
      exact .inr ⟨vd, hvd, hmw, hms, by rw [hv, hident, hi]⟩
  · right
    obtain ⟨vd, hvd, hr1, _, _, hr4, _⟩ := hres.of_mem_right hrv
    exact ⟨vd, hvd, by rw [← hr4, hs], payload, by rw [hval, hident, hr1]⟩

/-- **C09, end to end**: a derived enum receiver of the corpus is `enumHooks` of an enum whose
    variants are, in order, the declared ones under their effective names with their skip marks, and
    — when the effective names of the variants not marked skip are pairwise distinct (D2) — it does
    what the text demands on every input -/
theorem corpus_meets_spec_partial (env : Env.T) (fuel : Nat) (name key : String) (d : DeclD) (sp : DeclSpans)
    (vds : List VariantD) (r : RFromMeta)
    (hfind : env.decls.find? (·.1 == name) = some (key, .fromMeta, d, sp)) (hb : d.body = .enum vds)
    (hder : deriveFromMeta env.oracle sp d = .ok (.fromMeta r))
    (hnd : ((vds.filter (fun vd => !markedSkip vd)).filterMap (effName (caseRule d.attrs))).Nodup) :
    ∃ e : SEnum Val, Env.recvHooksF (fuel + 1) env name = enumHooks e ∧
      e.variants.map (fun v => (some v.name, v.skip)) = vds.map (fun vd => (effName (caseRule d.attrs) vd, markedSkip vd)) ∧
      ∀ m, Demands e m ((Env.recvHooksF (fuel + 1) env name).fromMeta m) := by
  obtain ⟨rvs, hdata, _, hres, _⟩ := derived_enum_says env.oracle sp d vds r hb hder
  rw [selectable_names_eq hres] at hnd
  obtain ⟨e, he, hmap, hdem⟩ := assembled_meets_spec_partial env (Env.recvHooksF fuel env) r rvs hdata hnd
  have hrecv := corpus_receiver env fuel name key d sp r hfind hder
  refine ⟨e, hrecv.trans he, ?_, ?_⟩
  · have h1 : e.variants.map (fun v => (some v.name, v.skip))
        = (e.variants.map (fun v => (v.name, v.skip))).map (fun q => (some q.1, q.2)) := by
      rw [List.map_map]; rfl
    have h2 : rvs.map (fun v => (some v.name, v.skip))
        = (rvs.map (fun v => (v.name, v.skip))).map (fun q => (some q.1, q.2)) := by
      rw [List.map_map]; rfl
    rw [h1, hmap, ← h2]
    symm
    refine hres.map_eq _ _ ?_
    intro vd rv hr
    rw [hr.effName, hr.2.2.2.1]
  · intro m
    rw [hrecv]
    exact hdem m

end DeriveTime

/-! ## 8. discrepancies between the property text and the behaviour, as concrete inputs -/
namespace Ex

def pth (n : String) : Path := { global := false, segs := [n], plain := true, toks := n, span := ⟨0, 0⟩ }
def strLit (s : String) : Lit := ⟨.str s, "\"" ++ s ++ "\"", ⟨4, 7⟩⟩
/-- `e = "s"` -/
def strV (s : String) : Meta := .nameValue (pth "e") (.lit (strLit s)) "" ⟨0, 7⟩
/-- `e(items)` -/
def lst (items : List NestedMeta) : Meta := .list (pth "e") items none none "" ⟨0, 20⟩
/-- `n` as a word (as the single nested item of `lst`, it sits at 2..4) -/
def wd (n : String) : Meta := .path { pth n with span := ⟨2, 4⟩ }

/-- a struct body without fields: `V {}` -/
def noFields (tag : String) : SStruct String :=
  { fields := [], allowUnknown := false, containerDefault := none, build := fun _ => tag, mkList := fun _ => "",
    post := .ok, score := fun _ _ => 0, thr := 1 }

/-- **D2** `enum E { #[darling(rename = "x")] A {}, #[darling(rename = "x")] B }` — two declared,
    non-skipped variants with one effective name (the derive accepts it, rustc is silent) -/
def dupE : SEnum String :=
  { variants := [⟨"x", false, .struct (noFields "A")⟩, ⟨"x", false, .unit "B"⟩],
    score := fun _ _ => 0, thr := 1, fromWord := none, fromNone := none }

theorem dupE_B_selectable : Selectable dupE "x" ⟨"x", false, .unit "B"⟩ := ⟨by simp [dupE], rfl, rfl⟩

/-- the text: the string `"x"` selects the unit variant named `x`, i.e. `B` … -/
example : Produces dupE (strV "x") "B" :=
  .string _ _ _ _ (strLit "x") "x" _ "B" rfl rfl dupE_B_selectable rfl
/-- … so does the single nested word `x` … -/
example : Produces dupE (lst [.item (wd "x")]) "B" :=
  .nestedWord _ _ _ _ _ _ "B" dupE_B_selectable rfl
/-- … the behaviour: both are refused, because the struct variant `A` shadows `B` -/
theorem dupE_string : (enumHooks dupE).fromMeta (strV "x") = .err (.leaf (.unexpectedFormat "literal") [] (some ⟨4, 7⟩)) := by
  rfl
theorem dupE_word : (enumHooks dupE).fromMeta (lst [.item (wd "x")]) = .err (.leaf (.unexpectedFormat "non-list") [] (some ⟨2, 4⟩)) := by
  rfl

/-- the behaviour does not meet the specification on this input (so `Unambiguous` cannot be dropped) -/
theorem dupE_not_demands : ¬ Demands dupE (strV "x") ((enumHooks dupE).fromMeta (strV "x")) := by
  intro h
  rw [dupE_string] at h
  have h1 : Outcome.err (.leaf (.unexpectedFormat "literal") [] (some ⟨4, 7⟩)) = Outcome.ok "B" :=
    h.1 _ "B" dupE_B_selectable rfl
  cases h1

/-- **D1 (repaired)** `enum E { Sv {}, Nt(Inner) }` with the nested list of the item failing to
    parse, `e(sv(a = 1 2))` / `e(nt(a = 1 2))` -/
def innerRecv : Hooks String := structHooks (.named (noFields "Inner")) none none
def svE : SEnum String :=
  { variants := [⟨"sv", false, .struct (noFields "Sv")⟩,
                 ⟨"nt", false, .newtype innerRecv.fromMeta none (fun s => "Nt(" ++ s ++ ")")⟩],
    score := fun _ _ => 0, thr := 1, fromWord := none, fromNone := none }
def badList (name : String) : Meta :=
  .list (pth name) [] (some ("expected `,`", ⟨9, 10⟩)) (some ⟨5, 12⟩) "a = 1 2" ⟨2, 13⟩

theorem svE_sv_selectable : Selectable svE "sv" ⟨"sv", false, .struct (noFields "Sv")⟩ := ⟨by simp [svE], rfl, rfl⟩
theorem svE_unambiguous : Unambiguous svE := unambiguous_of_nodup svE (by decide)
theorem svE_plain : PlainStructVariants svE := by
  intro v hv s hk
  simp only [svE, List.mem_cons, List.mem_nil_iff, or_false] at hv
  rcases hv with rfl | rfl <;> cases hk
  rfl

/-- the newtype variant locates the syntax error under its name … -/
theorem svE_nt : (enumHooks svE).fromMeta (lst [.item (badList "nt")]) = .err (.leaf (.custom "expected `,`") ["nt"] (some ⟨9, 10⟩)) := by
  rfl
/-- … and, since the repair, so does the struct variant: the error carries `["sv"]` -/
theorem svE_sv : (enumHooks svE).fromMeta (lst [.item (badList "sv")]) = .err (.leaf (.custom "expected `,`") ["sv"] (some ⟨9, 10⟩)) := by
  rfl
/-- which is what the text pins: the inner error, located under the variant's name -/
theorem svE_sv_pinned : itemResult ⟨"sv", false, .struct (noFields "Sv")⟩ (badList "sv")
    = some (.err (.leaf (.custom "expected `,`") ["sv"] (some ⟨9, 10⟩))) := rfl
/-- the wrong-form errors of a struct variant (`e(sv)`) and of a unit variant (`e(alpha = …)`) stay
    unlocated (an existing test of the library pins the message); the text only asks for "an error"
    there, so the specification (`itemResult = none`) is indifferent.  Since the repair of the
    selecting item's span (C03, F29) the error shows the span of the offending item `sv`, not of
    the list `e(sv)` around it -/
example : (enumHooks svE).fromMeta (lst [.item (wd "sv")]) = .err (.leaf (.unexpectedFormat "non-list") [] (some ⟨2, 4⟩)) := rfl

/-- the behaviour now meets the specification on the former counterexample -/
theorem svE_demands :
    Demands svE (lst [.item (badList "sv")]) ((enumHooks svE).fromMeta (lst [.item (badList "sv")])) :=
  fromMeta_meets_spec_partial svE svE_unambiguous svE_plain _

/-! ### non-vacuity: an enum with every kind of variant meets every hypothesis, and every way of
    producing a value occurs -/

def okE : SEnum String :=
  { variants := [⟨"alpha", false, .unit "Alpha"⟩, ⟨"beta", true, .unit "Beta"⟩,
                 ⟨"gamma", false, .newtype (fun _ => .ok "inner") (some "dflt") (fun s => "Gamma(" ++ s ++ ")")⟩,
                 ⟨"delta", false, .struct (noFields "Delta")⟩],
    score := fun _ _ => 0, thr := 1, fromWord := some (.ok "Alpha"), fromNone := some "Alpha" }

theorem okE_unambiguous : Unambiguous okE := unambiguous_of_nodup okE (by decide)
theorem okE_plain : PlainStructVariants okE := by
  intro v hv s hk
  simp only [okE, List.mem_cons, List.mem_nil_iff, or_false] at hv
  rcases hv with rfl | rfl | rfl | rfl <;> cases hk
  rfl
example : Demands okE (lst [.item (wd "alpha")]) ((enumHooks okE).fromMeta (lst [.item (wd "alpha")])) :=
  fromMeta_meets_spec_partial okE okE_unambiguous okE_plain _
example : (enumHooks okE).fromMeta (wd "e") = .ok "Alpha" := rfl
example : (enumHooks okE).fromMeta (strV "alpha") = .ok "Alpha" := rfl
example : (enumHooks okE).fromMeta (strV "gamma") = .ok "Gamma(dflt)" := rfl
example : (enumHooks okE).fromMeta (lst [.item (wd "alpha")]) = .ok "Alpha" := rfl
example : (enumHooks okE).fromMeta (lst [.item (wd "gamma")]) = .ok "Gamma(inner)" := rfl
example : (enumHooks okE).fromMeta (lst [.item (.list (pth "delta") [] none none "" ⟨2, 9⟩)]) = .ok "Delta" := rfl
/-- the skipped variant `beta` is reached by no form -/
example : ∃ err, (enumHooks okE).fromMeta (strV "beta") = .err err := ⟨_, rfl⟩
example : ∃ err, (enumHooks okE).fromMeta (lst [.item (wd "beta")]) = .err err := ⟨_, rfl⟩
example : Produces okE (wd "e") "Alpha" := .bareWord _ _ rfl
example : Produces okE (strV "gamma") "Gamma(dflt)" :=
  .string _ _ _ _ (strLit "gamma") "gamma" ⟨"gamma", false, .newtype (fun _ => .ok "inner") (some "dflt") (fun s => "Gamma(" ++ s ++ ")")⟩ _
    rfl rfl ⟨by simp [okE], rfl, rfl⟩ rfl
/-- the hypothesis of the discrepancy example fails exactly where it should -/
example : ¬ Unambiguous dupE := by
  intro h
  have hA : Selectable dupE "x" ⟨"x", false, .struct (noFields "A")⟩ := ⟨by simp [dupE], rfl, rfl⟩
  have := h "x" _ _ hA dupE_B_selectable
  cases this


/-! ### non-vacuity at derive time and for the whole pipeline -/
section
open Options C10.Ex C10.Ex2

/-- `#[darling(rename_all = "kebab-case")] enum S { #[darling(rename = "x")] Aa, #[darling(skip)] Bb,
    #[darling(word)] CamelName, Dd(bool), Ee { a: bool } }` -/
def enumDecl : DeclD :=
  decl [.item renameAllKebab]
    (.enum [vnt "Aa" .unit [] [.item renameX], vnt "Bb" .unit [] [.item skipWord],
            vnt "CamelName" .unit [] [.item word1], vnt "Dd" .tuple [tfld []] [], vnt "Ee" .named [fld "a" []] []])
def enumVariants : List VariantD :=
  [vnt "Aa" .unit [] [.item renameX], vnt "Bb" .unit [] [.item skipWord],
   vnt "CamelName" .unit [] [.item word1], vnt "Dd" .tuple [tfld []] [], vnt "Ee" .named [fld "a" []] []]
def corpus : Env.T := { decls := [("S", .fromMeta, enumDecl, {})], oracle := {}, thr := 1 }

example : caseRule enumDecl.attrs = .kebab := rfl
example : caseRule [] = .snake := rfl
example : enumVariants.map (effName (caseRule enumDecl.attrs)) = [some "x", some "bb", some "camel-name", some "dd", some "ee"] := rfl
example : enumVariants.map markedSkip = [false, true, false, false, false] := rfl
example : enumVariants.map markedWord = [false, false, true, false, false] := rfl
theorem enumDecl_derives : ∃ r, deriveFromMeta {} {} enumDecl = .ok (.fromMeta r) := ⟨_, rfl⟩

/-- every hypothesis of `corpus_meets_spec_partial` / `corpus_value_origin` holds of this corpus -/
example : ∃ e : SEnum Val, Env.recvHooksF 1 corpus "S" = enumHooks e ∧
    e.variants.map (fun v => (some v.name, v.skip))
      = [(some "x", false), (some "bb", true), (some "camel-name", false), (some "dd", false), (some "ee", false)] ∧
    ∀ m, Demands e m ((Env.recvHooksF 1 corpus "S").fromMeta m) := by
  obtain ⟨r, hr⟩ := enumDecl_derives
  exact corpus_meets_spec_partial corpus 0 "S" "S" enumDecl {} enumVariants r rfl rfl hr (by decide)
/-- … and the receiver answers: the bare word gives the word variant, `"x"` the renamed one, the
    skipped `bb` nothing -/
example : (Env.recvHooksF 1 corpus "S").fromMeta (wd "e") = .ok (.variant "S" "CamelName" .unit) := rfl
example : (Env.recvHooksF 1 corpus "S").fromMeta (strV "x") = .ok (.variant "S" "Aa" .unit) := rfl
example : (Env.recvHooksF 1 corpus "S").fromMeta (lst [.item (wd "camel-name")]) = .ok (.variant "S" "CamelName" .unit) := rfl
example : ∃ err, (Env.recvHooksF 1 corpus "S").fromMeta (strV "bb") = .err err := ⟨_, rfl⟩
/-- the hypothesis of `variant_resolution` (and its conclusion) on one variant -/
example : ∃ rv, variantFromDecl {} { renameRule := .kebab } (vnt "CamelName" .unit [] [.item word1]) = .ok rv ∧
    rv.name = "camel-name" ∧ rv.skip = false ∧ RVariant.isWord rv = true := ⟨_, rfl, rfl, rfl, rfl⟩
/-- every hypothesis of `corpus_value_origin` holds of this corpus and the bare word -/
example (r : RFromMeta) (hr : deriveFromMeta {} {} enumDecl = .ok (.fromMeta r)) :
    (∃ p, wd "e" = .path p ∧
      ((C10.declaresFromWord enumDecl.attrs = true ∧ ∃ c, corpus.oracle.val? ("fn:" ++ c) = some (.variant "S" "CamelName" .unit)) ∨
       (∃ vd ∈ enumVariants, markedWord vd = true ∧ markedSkip vd = false ∧
          Val.variant "S" "CamelName" .unit = .variant enumDecl.ident vd.ident .unit))) ∨
    (∃ vd ∈ enumVariants, markedSkip vd = false ∧ ∃ payload, Val.variant "S" "CamelName" .unit = .variant enumDecl.ident vd.ident payload) :=
  corpus_value_origin corpus 0 "S" "S" enumDecl {} enumVariants r rfl rfl hr (wd "e") _ rfl
end

end Ex
end C09
