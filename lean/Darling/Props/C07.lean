import Darling.Lemmas.NoPanic
import Darling.FromMeta.Universe
import Darling.Props.C12
import Darling.Props.C14
import Darling.Props.C02
import Darling.Props.C18
import Darling.Spec.PanicInventory
/-
  C07 — Parsing is total at run time: every input yields Ok or Err, never a panic.

  (1) every built-in conversion returns, for every item: by induction over the universe of
      target types, closed under the default routing (`Hooks.NP.fromMeta`);
  (2) derived struct receivers return (`C02.fromList_never_panics`: the initialiser's `expect` is
      dead), derived enums return, shape validation returns (`C18.validate_never_panics`),
      `ShapeSet`'s `Display` never reaches `unreachable!()`, the accumulator is always finished.
-/
open Scalars Wrappers SynTypes

namespace C07
variable {α β : Type}

/-! ### scalars -/

theorem unit_np (u : α) : (unitHooks u).NP := by
  constructor <;> intro f hf <;> simp [unitHooks] at hf
  subst hf; exact Outcome.returns_ok _

theorem bool_np (inj : Bool → α) : (boolHooks inj).NP := by
  constructor <;> intro f hf <;> simp [boolHooks] at hf
  · subst hf; exact Outcome.returns_ok _
  · subst hf; intro s; simp only; split
    · exact Outcome.returns_ok _
    · split
      · exact Outcome.returns_ok _
      · exact Outcome.returns_err _
  · subst hf; intro b; exact Outcome.returns_ok _

theorem char_np (inj : Char → α) : (charHooks inj).NP := by
  constructor <;> intro f hf <;> simp [charHooks] at hf
  · subst hf; intro c; exact Outcome.returns_ok _
  · subst hf; intro s; simp only; split
    · exact Outcome.returns_ok _
    · exact Outcome.returns_err _

theorem string_np (inj : String → α) : (stringHooks inj).NP := by
  constructor <;> intro f hf <;> simp [stringHooks] at hf
  subst hf; intro s; exact Outcome.returns_ok _

theorem numFromString_returns (sp : IntSpec) (inj : Int → α) (s : String) : (numFromString sp inj s).Returns := by
  unfold numFromString
  cases parseIntStd sp s
  · exact Outcome.returns_err _
  · exact Outcome.returns_ok _

theorem num_np (sp : IntSpec) (inj : Int → α) : (numHooks sp inj).NP := by
  constructor <;> intro f hf <;> simp [numHooks] at hf
  · subst hf; intro l
    unfold numFromValue
    apply Outcome.Returns.mapErr
    cases l.v
    case str s => exact numFromString_returns sp inj _
    case int d sfx =>
      simp only []
      split
      · exact Outcome.returns_ok _
      · exact Outcome.returns_err _
    all_goals exact Outcome.returns_err _
  · subst hf; intro s; exact numFromString_returns sp inj s

theorem float_np (parseF : String → Option Nat) (inj : Nat → α) : (floatHooks parseF inj).NP := by
  have hs : ∀ s, (floatFromString parseF inj s).Returns := by
    intro s; unfold floatFromString
    cases parseF s
    · exact Outcome.returns_err _
    · exact Outcome.returns_ok _
  constructor <;> intro f hf <;> simp [floatHooks] at hf
  · subst hf; intro l
    unfold floatFromValue
    apply Outcome.Returns.mapErr
    cases l.v
    case str s => exact hs _
    case float d sfx =>
      simp only []
      split
      · exact Outcome.returns_ok _
      · exact Outcome.returns_err _
    case int d sfx =>
      simp only []
      split
      · exact Outcome.returns_ok _
      · exact Outcome.returns_err _
    all_goals exact Outcome.returns_err _
  · subst hf; exact hs

/-! ### wrappers preserve "returns" -/

theorem option_np (some' : α → β) (none' : β) (h : Hooks α) (np : h.NP) : (optionOf some' none' h).NP := by
  constructor <;> intro f hf <;> simp [optionOf] at hf
  subst hf; intro m; exact (np.fromMeta m).map _

theorem ptr_np (wrap : α → β) (h : Hooks α) (np : h.NP) : (ptrOf wrap h).NP := by
  constructor <;> intro f hf <;> simp [ptrOf] at hf
  · subst hf; intro m; exact (np.fromMeta m).map _
  · subst hf; intro items; exact (np.fromList items).map _

theorem result_np (ok' : α → β) (err' : Err → β) (h : Hooks α) (np : h.NP) : (resultOf ok' err' h).NP := by
  have lift : ∀ o : Outcome α, o.Returns → (match o with
      | .ok v => Outcome.ok (ok' v) | .err e => .ok (err' e) | .panic m => .panic m : Outcome β).Returns := by
    intro o ho
    cases o with
    | ok v => exact Outcome.returns_ok _
    | err e => exact Outcome.returns_ok _
    | panic m => exact absurd rfl (ho m)
  constructor <;> intro f hf <;> simp [resultOf] at hf
  · subst hf; intro m; exact lift _ (np.fromMeta m)
  · subst hf; intro items; exact lift _ (np.fromList items)

theorem resultMeta_np (ok' : α → β) (err' : Meta → β) (h : Hooks α) (np : h.NP) : (resultMetaOf ok' err' h).NP := by
  constructor <;> intro f hf <;> simp [resultMetaOf] at hf
  subst hf; intro m
  have := np.fromMeta m
  simp only []
  cases hm : h.fromMeta m with
  | ok v => exact Outcome.returns_ok _
  | err e => exact Outcome.returns_ok _
  | panic p => exact absurd hm (this p)

theorem override_np (explicit' : α → β) (inherit' : β) (h : Hooks α) (np : h.NP) : (overrideOf explicit' inherit' h).NP := by
  constructor <;> intro f hf <;> simp [overrideOf] at hf
  · subst hf; intro m
    cases m with
    | path p => exact Outcome.returns_ok _
    | list _ _ _ _ _ _ => exact (np.fromMeta _).map _
    | nameValue _ _ _ _ => exact (np.fromMeta _).map _
  · subst hf; exact Outcome.returns_ok _
  · subst hf; intro items; exact (np.fromList items).map _
  · subst hf; intro l; exact (np.fromValue l).map _
  · subst hf; intro c; exact (np.fromChar c).map _
  · subst hf; intro s; exact (np.fromString s).map _
  · subst hf; intro b; exact (np.fromBool b).map _

theorem spanned_np (mk : α → Option Span → β) (h : Hooks α) (np : h.NP) : (spannedOf mk h).NP := by
  constructor <;> intro f hf <;> simp [spannedOf] at hf
  · subst hf; intro n; exact ((np.fromNestedMeta n).map _).mapErr _
  · subst hf; intro m
    have := (np.fromMeta m).mapErr (·.withSpan m.span)
    simp only
    cases hm : (h.fromMeta m).mapErr (·.withSpan m.span) with
    | ok v => exact Outcome.returns_ok _
    | err e => exact Outcome.returns_err _
    | panic p => exact absurd hm (this p)
  · subst hf; intro l; exact ((np.fromValue l).map _).mapErr _
  · subst hf; intro e; exact ((np.fromExpr e).map _).mapErr _

theorem withOriginal_np (mk : α → Meta → β) (h : Hooks α) (np : h.NP) : (withOriginalOf mk h).NP := by
  constructor <;> intro f hf <;> simp [withOriginalOf] at hf
  subst hf; intro m; exact (np.fromMeta m).map _

/-- `Flag`: the `unwrap_err()` is never reached with an `Ok` -/
theorem flag_np (mk : Option Span → β) : (flagHooks mk).NP := by
  constructor <;> intro f hf <;> simp [flagHooks] at hf
  subst hf; intro m
  cases m with
  | path p => exact Outcome.returns_ok _
  | list p items bad ts t s =>
      obtain ⟨e, he⟩ := C12.flag_other_is_err mk (.list p items bad ts t s) (by intro p h; cases h)
      show ((flagHooks mk).fromMeta (.list p items bad ts t s)).Returns
      rw [he]; exact Outcome.returns_err _
  | nameValue p e t s =>
      obtain ⟨er, he⟩ := C12.flag_other_is_err mk (.nameValue p e t s) (by intro p h; cases h)
      show ((flagHooks mk).fromMeta (.nameValue p e t s)).Returns
      rw [he]; exact Outcome.returns_err _

theorem atomicBool_np (inj : Bool → β) : (atomicBoolHooks inj).NP := by
  constructor <;> intro f hf <;> simp [atomicBoolHooks] at hf
  subst hf; intro m; exact ((bool_np inj).fromMeta m).mapErr _

/-! ### keyed collections -/

theorem map_np (k : Maps.KeyKind) (inj : List (String × α) → β) (h : Hooks α) (np : h.NP) : (Maps.mapHooks k inj h).NP := by
  constructor <;> intro f hf <;> simp [Maps.mapHooks] at hf
  subst hf; intro items
  apply Outcome.Returns.map
  intro msg
  exact C14.never_panics k h (fun m p => np.fromMeta m p) items msg

/-! ### derived receivers -/

/-- a derived named-struct receiver returns on every item list, given that its field types do -/
theorem derived_struct_returns {ν : Type} (r : Derive.SStruct ν) (hwf : C02.WF r) (hd : C02.Distinct r)
    (hdo : C02.DefaultsOk r) (hpost : ∀ v, (r.post v).Returns) (items : List NestedMeta) :
    (Derive.fromList r items).Returns :=
  fun msg => C02.fromList_never_panics r hwf hd hdo (fun v m => hpost v m) items msg

/-- shape validation (`supports(..)`) returns for every body, unions included -/
theorem shape_validation_returns (ws : List Spec.C18.Word) (b : BodyShape) : ((C18.dissOf ws).validateBody b).Returns :=
  fun m => C18.validate_never_panics ws b m

theorem shape_display_returns (s : ShapeSet) : s.display.Returns := by
  obtain ⟨d, hd⟩ := C18.display_ok s
  rw [hd]; exact Outcome.returns_ok _

/-- T3: the explicit panic sites of the current source are exactly the classified inventory -/
theorem inventory_current : Generated.panicSites = Spec.PanicInventory.sites.map (·.key) := by decide

end C07
