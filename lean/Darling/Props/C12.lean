import Darling.FromMeta.Wrappers
/-
  C12 — Wrapper types are transparent over the wrapped conversion.

  Every theorem is for an *arbitrary* hook record `h` (any implementor, including ones that
  override `from_meta` itself, hence any composition of wrappers by instantiating `h`) and an
  arbitrary meta item `m`.
-/
open Wrappers

namespace C12
variable {α β : Type}

/-- Option<T>: accepts exactly what T accepts, contains exactly T's value, fails with T's error -/
theorem option_transparent (some' : α → β) (none' : β) (h : Hooks α) (m : Meta) :
    (optionOf some' none' h).fromMeta m = (h.fromMeta m).map some' := rfl

theorem option_absent (some' : α → β) (none' : β) (h : Hooks α) :
    (optionOf some' none' h).fromNone = some none' := rfl

/-- Box / Rc / Arc / RefCell -/
theorem ptr_transparent (wrap : α → β) (h : Hooks α) (m : Meta) :
    (ptrOf wrap h).fromMeta m = (h.fromMeta m).map wrap := rfl

theorem ptr_absent (wrap : α → β) (h : Hooks α) :
    (ptrOf wrap h).fromNone = h.fromNone.map wrap := rfl

/-- the `flatten` entry point (`from_list`) of a smart pointer is transparent too -/
theorem ptr_list_transparent (wrap : α → β) (h : Hooks α) (items : List NestedMeta) :
    (ptrOf wrap h).fromList items = (h.fromList items).map wrap := rfl

/-- darling's `Result<T>` never fails outwardly and holds T's outcome -/
theorem result_holds_outcome (ok' : α → β) (err' : Err → β) (h : Hooks α) (m : Meta) :
    (resultOf ok' err' h).fromMeta m =
      match h.fromMeta m with
      | .ok v => .ok (ok' v)
      | .err e => .ok (err' e)
      | .panic p => .panic p := rfl

theorem result_never_err (ok' : α → β) (err' : Err → β) (h : Hooks α) (m : Meta) (e : Err) :
    (resultOf ok' err' h).fromMeta m ≠ .err e := by
  rw [result_holds_outcome]; cases h.fromMeta m <;> simp

theorem result_absent (ok' : α → β) (err' : Err → β) (h : Hooks α) :
    (resultOf ok' err' h).fromNone = h.fromNone.map ok' := rfl

/-- `Result<T, Meta>` never fails outwardly and holds T's value or the original item -/
theorem resultMeta_holds (ok' : α → β) (err' : Meta → β) (h : Hooks α) (m : Meta) :
    (resultMetaOf ok' err' h).fromMeta m =
      match h.fromMeta m with
      | .ok v => .ok (ok' v)
      | .err _ => .ok (err' m)
      | .panic p => .panic p := rfl

theorem resultMeta_required (ok' : α → β) (err' : Meta → β) (h : Hooks α) :
    (resultMetaOf ok' err' h).fromNone = none := rfl

/-- Override<T>, every form other than the bare word: exactly T -/
theorem override_transparent (explicit' : α → β) (inherit' : β) (h : Hooks α) (m : Meta)
    (hm : ∀ p, m ≠ .path p) :
    (overrideOf explicit' inherit' h).fromMeta m = (h.fromMeta m).map explicit' := by
  cases m with
  | path p => exact absurd rfl (hm p)
  | list _ _ _ _ _ _ => rfl
  | nameValue _ _ _ _ => rfl

theorem override_word (explicit' : α → β) (inherit' : β) (h : Hooks α) (p : Path) :
    (overrideOf explicit' inherit' h).fromMeta (.path p) = .ok inherit' := rfl

theorem override_required (explicit' : α → β) (inherit' : β) (h : Hooks α) :
    (overrideOf explicit' inherit' h).fromNone = none := rfl

/-- the span SpannedValue records: the word, the list's contents, the value -/
def valueSpan : Meta → Option Span
  | .path p => some p.span
  | .list _ _ _ tokSpan _ _ => tokSpan
  | .nameValue _ e _ _ => some e.span

/-- SpannedValue<T>: T's value together with the value's own source range; T's error with (at
    least) the item's span -/
theorem spanned_transparent (mk : α → Option Span → β) (h : Hooks α) (m : Meta) :
    (spannedOf mk h).fromMeta m =
      match h.fromMeta m with
      | .ok v => .ok (mk v (valueSpan m))
      | .err e => .err (e.withSpan m.span)
      | .panic p => .panic p := by
  show (match (h.fromMeta m).mapErr (·.withSpan m.span) with
      | .ok v => Outcome.ok (mk v (valueSpan m))
      | .err e => .err e
      | .panic p => .panic p) = _
  cases h.fromMeta m <;> rfl

theorem spanned_required (mk : α → Option Span → β) (h : Hooks α) :
    (spannedOf mk h).fromNone = none := rfl

/-- WithOriginal<T, Meta>: T's value and an identical copy of the item -/
theorem withOriginal_transparent (mk : α → Meta → β) (h : Hooks α) (m : Meta) :
    (withOriginalOf mk h).fromMeta m = (h.fromMeta m).map (fun v => mk v m) := rfl

theorem withOriginal_required (mk : α → Meta → β) (h : Hooks α) :
    (withOriginalOf mk h).fromNone = none := rfl

/-- Flag: present with the word's span for a bare word, not-present when absent, and an error
    (never the `unwrap_err` panic) for every other form -/
theorem flag_word (mk : Option Span → β) (p : Path) :
    (flagHooks mk).fromMeta (.path p) = .ok (mk (some p.span)) := rfl

theorem flag_absent (mk : Option Span → β) : (flagHooks mk).fromNone = some (mk none) := rfl

/-- `()` overrides only `from_word`: every expression is rejected -/
theorem unit_fromExprD_err : (e : Expr) →
    ∃ err, Hooks.fromExprD ({ fromWord? := some (.ok ()) } : Hooks Unit) e = .err err
  | .lit l => by
      simp only [Hooks.fromExprD, Hooks.fromValue, Hooks.fromValueD, Hooks.fromBool, Hooks.fromString, Hooks.fromChar]
      cases l.v <;> exact ⟨_, rfl⟩
  | .group g sp => by
      obtain ⟨e', he⟩ := unit_fromExprD_err g
      simp only [Hooks.fromExprD, he]; exact ⟨_, rfl⟩
  | .path _ _ => ⟨_, rfl⟩
  | .qpath _ _ _ => ⟨_, rfl⟩
  | .array _ _ _ => ⟨_, rfl⟩
  | .other _ _ _ => ⟨_, rfl⟩

theorem flag_other_is_err (mk : Option Span → β) (m : Meta) (hm : ∀ p, m ≠ .path p) :
    ∃ e, (flagHooks mk).fromMeta m = .err e := by
  cases m with
  | path p => exact absurd rfl (hm p)
  | list p items bad ts t s =>
      cases bad with
      | some b => exact ⟨_, rfl⟩
      | none => exact ⟨_, rfl⟩
  | nameValue p e t s =>
      simp only [flagHooks, Hooks.fromMeta, Scalars.unitHooks, Hooks.fromMetaD, Hooks.fromExpr]
      obtain ⟨err, he⟩ := unit_fromExprD_err e
      simp only [he]; exact ⟨_, rfl⟩

/-! compositions follow by instantiating `h`; e.g. two levels: -/
theorem option_of_ptr (some' : β → γ) (none' : γ) (wrap : α → β) (h : Hooks α) (m : Meta) :
    (optionOf some' none' (ptrOf wrap h)).fromMeta m = ((h.fromMeta m).map wrap).map some' := rfl

theorem override_of_option (explicit' : β → γ) (inherit' : γ) (some' : α → β) (none' : β)
    (h : Hooks α) (m : Meta) (hm : ∀ p, m ≠ .path p) :
    (overrideOf explicit' inherit' (optionOf some' none' h)).fromMeta m
      = ((h.fromMeta m).map some').map explicit' := by
  rw [override_transparent _ _ _ _ hm]; rfl

/-! non-vacuity -/
example : (optionOf some (none : Option Bool) (Scalars.boolHooks id)).fromMeta
    (.path { global := false, segs := ["x"], plain := true, toks := "x", span := ⟨0, 1⟩ }) = .ok (some true) := rfl

end C12
