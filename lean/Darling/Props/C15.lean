import Darling.FromMeta.Hooks
import Darling.Spec.C15
/-
  C15(b) — every item is routed by its form alone to exactly one hook.

  For *every* implementer that leaves `from_meta` / `from_nested_meta` at their defaults (any of
  the 2⁷ subsets of {word, list, bool, string, char, generic-literal, expression} overridden, with
  arbitrary override bodies), and every item.
-/
open Spec.C15

namespace C15
variable {α : Type}

/-- `with_span` twice is `with_span` once (first writer wins) -/
theorem withSpan_withSpan (e : Err) (a b : Span) : (e.withSpan a).withSpan b = e.withSpan a := by
  cases e with
  | leaf k ls s => cases s <;> rfl
  | multi cs ls s => cases s <;> rfl

theorem mapErr_mapErr (o : Outcome α) (a b : Span) :
    (o.mapErr (·.withSpan a)).mapErr (·.withSpan b) = o.mapErr (·.withSpan a) := by
  cases o <;> simp [Outcome.mapErr, withSpan_withSpan]

/-- the single hook (or documented default error) a literal reaches once `from_value` is entered -/
def litTerminal (h : Hooks α) (l : Lit) : Outcome α :=
  match h.fromValue? with
  | some f => f l                                    -- generic-literal hook
  | none =>
      match litForm l with
      | .boolLit b _ => (match h.fromBool? with
          | some f => f b
          | none => .err (Err.new (.unexpectedType "bool")))
      | .strLit s _ => (match h.fromString? with
          | some f => f s
          | none => .err (Err.new (.unexpectedType "string")))
      | .charLit c _ => (match h.fromChar? with
          | some f => f c
          | none => .err (Err.new (.unexpectedType "char")))
      | _ => .err (Err.unexpectedLitType l)

/-- `from_value` = that terminal, with the literal's span attached to a span-less error -/
theorem fromValue_routes (h : Hooks α) (l : Lit) :
    (h.fromValue l).mapErr (·.withSpan l.span) = (litTerminal h l).mapErr (·.withSpan l.span) := by
  unfold Hooks.fromValue litTerminal
  cases hv : h.fromValue? with
  | some f => rfl
  | none =>
      simp only [Hooks.fromValueD, litForm]
      cases hl : l.v <;> simp only [mapErr_mapErr, Hooks.fromBool, Hooks.fromString, Hooks.fromChar]
        <;> (try rfl) <;> (split <;> rfl)

/-- the single hook (or default error) an expression reaches under the default `from_expr`;
    paired with the span that is attached first -/
def exprTerminalD (h : Hooks α) : Expr → Outcome α × Span
  | .lit l => (litTerminal h l, l.span)
  | .group g _ => exprTerminalD h g
  | e => (.err (Err.unexpectedExprType e), e.span)

theorem fromExprD_routes (h : Hooks α) : (e : Expr) →
    h.fromExprD e = ((exprTerminalD h e).1).mapErr (·.withSpan (exprTerminalD h e).2)
  | .lit l => by
      simp only [Hooks.fromExprD, exprTerminalD]
      exact fromValue_routes h l
  | .group g sp => by
      simp only [Hooks.fromExprD, exprTerminalD]
      rw [fromExprD_routes h g, mapErr_mapErr]
  | .path p s => by simp [Hooks.fromExprD, exprTerminalD, Outcome.mapErr, Err.unexpectedExprType, Err.withSpan]
  | .qpath p t s => by simp [Hooks.fromExprD, exprTerminalD, Outcome.mapErr, Err.unexpectedExprType, Err.withSpan]
  | .array es t s => by simp [Hooks.fromExprD, exprTerminalD, Outcome.mapErr, Err.unexpectedExprType, Err.withSpan]
  | .other k t s => by simp [Hooks.fromExprD, exprTerminalD, Outcome.mapErr, Err.unexpectedExprType, Err.withSpan]

/-- invisible groups are transparent: the terminal depends on the ungrouped expression only -/
theorem groups_transparent (h : Hooks α) : (e : Expr) →
    (exprTerminalD h e).1 = (exprTerminalD h (ungroup e)).1
  | .lit _ => rfl
  | .group g _ => by simp only [exprTerminalD, ungroup]; exact groups_transparent h g
  | .path _ _ => rfl
  | .qpath _ _ _ => rfl
  | .array _ _ _ => rfl
  | .other _ _ _ => rfl

/-- **the routing table**: what an item of a given form reaches — the first overridden hook on
    the path its form selects, else the documented default error at the end of that path.
    `orig` is the original value expression (the expression hook sees it with its groups). -/
def terminal (h : Hooks α) (orig : Option Expr) : Form → Outcome α
  | .word => (match h.fromWord? with
      | some r => r
      | none => .err (Err.unsupportedFormat "word"))
  | .list items => (match h.fromList? with
      | some f => f items
      | none => .err (Err.unsupportedFormat "list"))
  | .unparsableList msg sp => .err (.leaf (.custom msg) [] (some sp))
  | .boolLit _ l | .strLit _ l | .charLit _ l | .otherLit l =>
      (match h.fromExpr?, orig with
       | some f, some e => f e
       | _, _ => litTerminal h l)
  | .nonLit e' =>
      (match h.fromExpr?, orig with
       | some f, some e => f e
       | _, _ => .err (Err.unexpectedExprType e'))

/-- `ungroup` never returns a group -/
theorem ungroup_not_group : (e : Expr) → ∀ g s, ungroup e ≠ .group g s
  | .group g' _ => by intro g s; simp only [ungroup]; exact ungroup_not_group g' g s
  | .lit _ => by intro g s h; simp [ungroup] at h
  | .path _ _ => by intro g s h; simp [ungroup] at h
  | .qpath _ _ _ => by intro g s h; simp [ungroup] at h
  | .array _ _ _ => by intro g s h; simp [ungroup] at h
  | .other _ _ _ => by intro g s h; simp [ungroup] at h

theorem exprTerminalD_form (h : Hooks α) (hx : h.fromExpr? = none) (e : Expr) :
    (exprTerminalD h e).1 = terminal h (some e) (exprForm e) := by
  rw [groups_transparent]
  unfold exprForm
  cases hu : ungroup e with
  | lit l =>
      simp only [exprTerminalD, litForm]
      cases l.v <;> simp [terminal, hx]
  | group g s =>
      exact absurd hu (ungroup_not_group e g s)
  | path p s => simp [exprTerminalD, terminal, hx]
  | qpath p t s => simp [exprTerminalD, terminal, hx]
  | array es t s => simp [exprTerminalD, terminal, hx]
  | other k t s => simp [exprTerminalD, terminal, hx]

/-- the value expression of a name-value item -/
def valueOf : Meta → Option Expr
  | .nameValue _ e _ _ => some e
  | _ => none

/-- **Routing theorem.**  For every implementer that keeps the default `from_meta`, and every
    item: the result is what the one hook selected by the item's *form* returns, and an error
    comes back with a span attached unless it already carried one. -/
theorem routing (h : Hooks α) (hm : h.fromMeta? = none) (m : Meta) :
    ∃ sp : Span, h.fromMeta m = (terminal h (valueOf m) (formOf m)).mapErr (·.withSpan sp) := by
  unfold Hooks.fromMeta
  rw [hm]
  cases m with
  | path p => exact ⟨p.span, rfl⟩
  | list p items bad ts t s =>
      cases bad with
      | none => exact ⟨s, rfl⟩
      | some b =>
          obtain ⟨msg, sp⟩ := b
          exact ⟨s, by simp [Hooks.fromMetaD, terminal, formOf, Outcome.mapErr, Err.withSpan]⟩
  | nameValue p e t s =>
      simp only [Hooks.fromMetaD, formOf, valueOf, Hooks.fromExpr, Meta.span]
      cases hx : h.fromExpr? with
      | some f =>
          refine ⟨s, ?_⟩
          unfold exprForm
          cases ungroup e with
          | lit l => simp only [litForm]; cases l.v <;> simp [terminal, hx]
          | _ => simp [terminal, hx]
      | none =>
          refine ⟨(exprTerminalD h e).2, ?_⟩
          rw [fromExprD_routes, mapErr_mapErr, exprTerminalD_form h hx]

/-- an error that already carried a span comes back unchanged; any other error comes back
    with a span -/
theorem hook_error_span (h : Hooks α) (hm : h.fromMeta? = none) (m : Meta) (e : Err)
    (he : terminal h (valueOf m) (formOf m) = .err e) :
    ∃ e', h.fromMeta m = .err e' ∧ e'.span ≠ none ∧ (e.span ≠ none → e' = e) := by
  obtain ⟨sp, hr⟩ := routing h hm m
  rw [hr, he]
  refine ⟨e.withSpan sp, rfl, ?_, ?_⟩
  · cases e with
    | leaf k ls s => cases s <;> simp [Err.withSpan, Err.span]
    | multi cs ls s => cases s <;> simp [Err.withSpan, Err.span]
  · intro hs
    cases e with
    | leaf k ls s => cases s <;> simp_all [Err.withSpan, Err.span]
    | multi cs ls s => cases s <;> simp_all [Err.withSpan, Err.span]

/-- nested-literal position: a literal item goes down the literal path -/
theorem nested_literal_routes (h : Hooks α) (hn : h.fromNestedMeta? = none) (l : Lit) :
    h.fromNestedMeta (.lit l) = (litTerminal h l).mapErr (·.withSpan l.span) := by
  unfold Hooks.fromNestedMeta
  rw [hn]
  simp only [Hooks.fromNestedMetaD, NestedMeta.span]
  exact fromValue_routes h l

/-! non-vacuity: a probe overriding only `from_string` and `from_list` -/
def probe : Hooks String :=
  { fromString? := some (fun s => .ok ("string:" ++ s)), fromList? := some (fun xs => .ok ("list:" ++ toString xs.length)) }
def pX : Path := { global := false, segs := ["x"], plain := true, toks := "x", span := ⟨0, 1⟩ }
example : probe.fromMeta (.nameValue pX (.group (.lit ⟨.str "v", "\"v\"", ⟨4, 7⟩⟩) ⟨4, 7⟩) "" ⟨0, 7⟩) = .ok "string:v" := rfl
example : probe.fromMeta (.path pX) = .err (.leaf (.unexpectedFormat "word") [] (some ⟨0, 1⟩)) := rfl
example : probe.fromMeta (.nameValue pX (.lit ⟨.bool true, "true", ⟨4, 8⟩⟩) "" ⟨0, 8⟩)
    = .err (.leaf (.unexpectedType "bool") [] (some ⟨4, 8⟩)) := rfl

end C15
