import Darling.Derive.Struct
import Darling.Spec.C02
/-
  C02 — Every mistake in the input is reported, exactly once, in a single pass  (struct receivers).
  C01 — … and a mistake-free input yields exactly the declared field mapping.

  For every receiver (any number of fields, any options, any converters — nested receivers,
  maps, enums are converters) and every item list (any length, any number of mistakes).
-/
open Derive Spec.C02

namespace C02
variable {ν : Type}

/-- what Rust and the harness guarantee about a receiver: field identifiers are distinct, and the
    external functions (converters of the field types) return instead of panicking -/
structure WF (r : SStruct ν) : Prop where
  identInj : ∀ f ∈ r.fields, ∀ g ∈ r.fields, f.ident = g.ident → f = g
  convNoPanic : ∀ f ∈ r.fields, ∀ m msg, f.conv m ≠ .panic msg
  listNoPanic : ∀ f ∈ r.fields, ∀ items msg, f.fromList items ≠ .panic msg

/-- the local of field `f` after the items `pre` — positionally -/
def specSlot (r : SStruct ν) (pre : List NestedMeta) (f : SField ν) : Slot ν :=
  if f.multiple then { many := successes r f pre, occ := occurrences r f pre }
  else { seen := pre.any (selects r f), val := firstValue r f pre }

structure Inv (r : SStruct ν) (pre : List NestedMeta) (st : PState ν) : Prop where
  slots : ∀ f ∈ r.fields, st.slot f.ident = specSlot r pre f
  flat : st.flat = buffered r pre
  errs : st.errs = loopMistakes r [] pre

/-! ### list lemmas -/

theorem loopMistakes_snoc (r : SStruct ν) (e xs : List NestedMeta) (x : NestedMeta) :
    loopMistakes r e (xs ++ [x]) = loopMistakes r e xs ++ itemMistakes r (e ++ xs) x := by
  induction xs generalizing e with
  | nil => simp [loopMistakes]
  | cons y ys ih => simp [loopMistakes, ih, List.append_assoc]

theorem arm_mem (r : SStruct ν) (name : String) (f : SField ν) (h : r.arm name = some f) :
    f ∈ r.fields ∧ f.skip = false ∧ f.flatten = false ∧ f.name = name := by
  unfold SStruct.arm at h
  have hm := List.mem_of_find?_eq_some h
  have hp := List.find?_some h
  simp at hp
  exact ⟨hm, hp.1.1, hp.1.2, hp.2⟩

theorem selects_of_arm (r : SStruct ν) (m : Meta) (f : SField ν) (h : r.arm m.path'.toStr = some f) :
    selects r f (.item m) = true := by
  simp [selects, h]

theorem selects_other (r : SStruct ν) (hwf : WF r) (m : Meta) (f g : SField ν)
    (h : r.arm m.path'.toStr = some f) (hg : g ∈ r.fields) (hne : g ≠ f) :
    selects r g (.item m) = false := by
  simp only [selects, h]
  have hf := (arm_mem r _ f h).1
  cases hb : (f.ident == g.ident) with
  | false => rfl
  | true =>
      have : f.ident = g.ident := by simpa using hb
      exact absurd (hwf.identInj g hg f hf this.symm) hne

theorem selects_none (r : SStruct ν) (m : Meta) (g : SField ν) (h : r.arm m.path'.toStr = none) :
    selects r g (.item m) = false := by
  simp [selects, h]

theorem specSlot_snoc_unselected (r : SStruct ν) (pre : List NestedMeta) (it : NestedMeta) (g : SField ν)
    (h : selects r g it = false) : specSlot r (pre ++ [it]) g = specSlot r pre g := by
  unfold specSlot
  have hs : successes r g (pre ++ [it]) = successes r g pre := by
    unfold successes
    rw [List.filterMap_append]
    cases it with
    | lit l => simp
    | item m => simp [h]
  have ha : (pre ++ [it]).any (selects r g) = pre.any (selects r g) := by
    simp [List.any_append, h]
  have hf : firstValue r g (pre ++ [it]) = firstValue r g pre := by
    unfold firstValue
    rw [List.find?_append]
    cases hfd : pre.find? (selects r g) with
    | some x => simp
    | none => simp [List.find?, h]
  have ho : occurrences r g (pre ++ [it]) = occurrences r g pre := by
    simp [occurrences, List.filter_append, List.filter, h]
  rw [hs, ha, hf, ho]

/-! ### one item -/

theorem set_slot_self (st : PState ν) (i : String) (s : Slot ν) : (st.set i s).slot i = s := by
  simp [PState.set]

theorem set_slot_other (st : PState ν) (i j : String) (s : Slot ν) (h : j ≠ i) : (st.set i s).slot j = st.slot j := by
  simp [PState.set, h]

theorem buffered_snoc (r : SStruct ν) (pre : List NestedMeta) (it : NestedMeta) :
    buffered r (pre ++ [it]) = buffered r pre ++ (if r.hasFlatten && unclaimed r it then [it] else []) := by
  unfold buffered
  cases r.hasFlatten with
  | false => simp
  | true => cases h : unclaimed r it <;> simp [List.filter_append, List.filter, h]

/-- the slots of all fields other than `f` are untouched by an item that selects `f` -/
theorem others_kept (r : SStruct ν) (hwf : WF r) (pre : List NestedMeta) (st : PState ν) (m : Meta)
    (f : SField ν) (harm : r.arm m.path'.toStr = some f) (s' : Slot ν)
    (hinv : ∀ g ∈ r.fields, st.slot g.ident = specSlot r pre g)
    (hself : s' = specSlot r (pre ++ [.item m]) f) :
    ∀ g ∈ r.fields, (st.set f.ident s').slot g.ident = specSlot r (pre ++ [.item m]) g := by
  intro g hg
  by_cases hgf : g = f
  · subst hgf; rw [set_slot_self]; exact hself
  · have hid : g.ident ≠ f.ident := by
      intro h
      exact hgf (hwf.identInj g hg f (arm_mem r _ f harm).1 h)
    rw [set_slot_other _ _ _ _ hid, specSlot_snoc_unselected r pre _ g (selects_other r hwf m f g harm hg hgf)]
    exact hinv g hg

theorem step_inv (r : SStruct ν) (hwf : WF r) (pre : List NestedMeta) (st : PState ν) (it : NestedMeta)
    (hinv : Inv r pre st) : ∃ st', stepItem r st it = .ok st' ∧ Inv r (pre ++ [it]) st' := by
  cases it with
  | lit l =>
      refine ⟨st.push ((Err.unsupportedFormat "literal").withSpan l.span), rfl, ?_, ?_, ?_⟩
      · intro g hg
        rw [specSlot_snoc_unselected r pre _ g (by simp [selects])]
        exact hinv.slots g hg
      · rw [buffered_snoc]; simp [unclaimed, PState.push, hinv.flat]
      · rw [loopMistakes_snoc]; simp [PState.push, hinv.errs, itemMistakes]
  | item m =>
      simp only [stepItem]
      cases harm : r.arm m.path'.toStr with
      | none =>
          have hsel : ∀ g, selects r g (.item m) = false := fun g => selects_none r m g harm
          have hun : unclaimed r (.item m) = true := by simp [unclaimed, harm]
          simp only
          cases hfl : r.hasFlatten with
          | true =>
              refine ⟨{ st with flat := st.flat ++ [.item m] }, by simp, ?_, ?_, ?_⟩
              · intro g hg; rw [specSlot_snoc_unselected r pre _ g (hsel g)]; exact hinv.slots g hg
              · rw [buffered_snoc]; simp [hfl, hun, hinv.flat]
              · rw [loopMistakes_snoc]; simp [hinv.errs, itemMistakes, harm, hfl]
          | false =>
              cases hau : r.allowUnknown with
              | true =>
                  refine ⟨st, by simp, ?_, ?_, ?_⟩
                  · intro g hg; rw [specSlot_snoc_unselected r pre _ g (hsel g)]; exact hinv.slots g hg
                  · rw [buffered_snoc]; simp [hfl, hinv.flat]
                  · rw [loopMistakes_snoc]; simp [hinv.errs, itemMistakes, harm, hfl, hau]
              | false =>
                  refine ⟨st.push ((r.unknownErr m.path'.toStr).withSpan m.span), by simp, ?_, ?_, ?_⟩
                  · intro g hg; rw [specSlot_snoc_unselected r pre _ g (hsel g)]; exact hinv.slots g hg
                  · rw [buffered_snoc]; simp [hfl, PState.push, hinv.flat]
                  · rw [loopMistakes_snoc]; simp [PState.push, hinv.errs, itemMistakes, harm, hfl, hau]
      | some f =>
          obtain ⟨hfm, _, _, _⟩ := arm_mem r _ f harm
          have hslot := hinv.slots f hfm
          have hselm : selects r f (.item m) = true := selects_of_arm r m f harm
          have hbuf : buffered r (pre ++ [.item m]) = buffered r pre := by
            rw [buffered_snoc]; simp [unclaimed, harm]
          simp only
          cases hmul : f.multiple with
          | true =>
              have hspec : specSlot r pre f = { many := successes r f pre, occ := occurrences r f pre } := by
                simp [specSlot, hmul]
              have hocc : occurrences r f (pre ++ [.item m]) = occurrences r f pre + 1 := by
                simp [occurrences, List.filter_append, List.filter, hselm]
              have hsucc : ∀ v, f.conv m = .ok v → successes r f (pre ++ [.item m]) = successes r f pre ++ [v] := by
                intro v hv; unfold successes; rw [List.filterMap_append]; simp [hselm, hv]
              have hsucc' : (∀ v, f.conv m ≠ .ok v) → successes r f (pre ++ [.item m]) = successes r f pre := by
                intro hv; unfold successes; rw [List.filterMap_append]
                cases hc : f.conv m with
                | ok v => exact absurd hc (hv v)
                | err e => simp [hselm, hc]
                | panic p => simp [hselm, hc]
              simp only [if_true]
              cases hc : f.conv m with
              | panic p => exact absurd hc (hwf.convNoPanic f hfm m p)
              | ok v =>
                  refine ⟨_, rfl, ?_, ?_, ?_⟩
                  · apply others_kept r hwf pre st m f harm _ hinv.slots
                    simp [specSlot, hmul, hsucc v hc, hocc, hslot, hspec]
                  · simp [PState.set, hbuf, hinv.flat]
                  · rw [loopMistakes_snoc]; simp [PState.set, hinv.errs, itemMistakes, harm, hmul, hc]
              | err e =>
                  refine ⟨_, rfl, ?_, ?_, ?_⟩
                  · intro g hg
                    simp only [PState.push]
                    apply others_kept r hwf pre st m f harm _ hinv.slots _ g hg
                    simp [specSlot, hmul, hsucc' (by intro v; simp [hc]), hocc, hslot, hspec]
                  · simp [PState.push, PState.set, hbuf, hinv.flat]
                  · rw [loopMistakes_snoc]
                    simp [PState.push, PState.set, hinv.errs, itemMistakes, harm, hmul, hc, hslot, hspec]
          | false =>
              have hspec : specSlot r pre f = { seen := pre.any (selects r f), val := firstValue r f pre } := by
                simp [specSlot, hmul]
              simp only [Bool.false_eq_true, if_false]
              rw [hslot, hspec]
              simp only
              cases hseen : pre.any (selects r f) with
              | true =>
                  -- a repeat: reported, nothing else changes
                  refine ⟨st.push ((Err.new (.duplicateField f.name)).withSpan m.span), by simp, ?_, ?_, ?_⟩
                  · intro g hg
                    simp only [PState.push]
                    by_cases hgf : g = f
                    · subst hgf
                      rw [hinv.slots g hg]
                      have : firstValue r g (pre ++ [.item m]) = firstValue r g pre := by
                        unfold firstValue; rw [List.find?_append]
                        obtain ⟨x, hx, hxs⟩ := List.any_eq_true.mp hseen
                        cases hfd : pre.find? (selects r g) with
                        | some y => simp
                        | none => exact absurd hxs (by simpa using List.find?_eq_none.mp hfd x hx)
                      simp [specSlot, hmul, List.any_append, hseen, this]
                    · rw [specSlot_snoc_unselected r pre _ g (selects_other r hwf m f g harm hg hgf)]
                      exact hinv.slots g hg
                  · simp [PState.push, hbuf, hinv.flat]
                  · rw [loopMistakes_snoc]; simp [PState.push, hinv.errs, itemMistakes, harm, hmul, hseen]
              | false =>
                  have hnone : pre.find? (selects r f) = none := by
                    rw [List.find?_eq_none]; intro x hx
                    have := List.any_eq_false.mp hseen x hx
                    simpa using this
                  have hfv : ∀ (w : Option ν), (match f.conv m with | .ok v => some v | _ => none) = w →
                      firstValue r f (pre ++ [.item m]) = w := by
                    intro w hw
                    unfold firstValue; rw [List.find?_append, hnone]
                    simp [List.find?, hselm]; exact hw
                  simp only [Bool.not_false, if_true]
                  cases hc : f.conv m with
                  | panic p => exact absurd hc (hwf.convNoPanic f hfm m p)
                  | ok v =>
                      refine ⟨_, rfl, ?_, ?_, ?_⟩
                      · apply others_kept r hwf pre st m f harm _ hinv.slots
                        simp [specSlot, hmul, List.any_append, hselm, hfv (some v) (by simp [hc])]
                      · simp [PState.set, hbuf, hinv.flat]
                      · rw [loopMistakes_snoc]; simp [PState.set, hinv.errs, itemMistakes, harm, hmul, hseen, hc]
                  | err e =>
                      refine ⟨_, rfl, ?_, ?_, ?_⟩
                      · intro g hg
                        simp only [PState.push]
                        apply others_kept r hwf pre st m f harm _ hinv.slots _ g hg
                        simp [specSlot, hmul, List.any_append, hselm, hfv none (by simp [hc])]
                      · simp [PState.push, PState.set, hbuf, hinv.flat]
                      · rw [loopMistakes_snoc]
                        simp [PState.push, PState.set, hinv.errs, itemMistakes, harm, hmul, hseen, hc]

/-- **the loop invariant for all item lists** -/
theorem coreLoop_inv (r : SStruct ν) (hwf : WF r) :
    ∀ (rest pre : List NestedMeta) (st : PState ν), Inv r pre st →
      ∃ st', coreLoop r st rest = .ok st' ∧ Inv r (pre ++ rest) st' := by
  intro rest
  induction rest with
  | nil => intro pre st h; exact ⟨st, rfl, by simpa using h⟩
  | cons it rest ih =>
      intro pre st h
      obtain ⟨st1, hs, h1⟩ := step_inv r hwf pre st it h
      obtain ⟨st2, hl, h2⟩ := ih (pre ++ [it]) st1 h1
      exact ⟨st2, by simp [coreLoop, hs, hl], by simpa [List.append_assoc] using h2⟩

theorem inv_init (r : SStruct ν) : Inv r [] ({} : PState ν) := by
  refine ⟨?_, ?_, ?_⟩
  · intro f _; simp [specSlot, successes, occurrences, firstValue]
  · simp [buffered]
  · simp [loopMistakes]

/-- after the attribute walk: every local holds exactly what the items say, the flatten buffer
    holds exactly the unclaimed items in order, and the accumulator holds exactly the item-level
    mistakes in order -/
theorem coreLoop_spec (r : SStruct ν) (hwf : WF r) (items : List NestedMeta) :
    ∃ st, coreLoop r {} items = .ok st ∧ Inv r items st := by
  obtain ⟨st, h1, h2⟩ := coreLoop_inv r hwf items [] {} (inv_init r)
  exact ⟨st, h1, by simpa using h2⟩

end C02

/-! ## after the walk: flatten hand-off, presence check, error check, initialisers -/
namespace C02
open Spec.C01
variable {ν : Type}

/-- field identifiers are pairwise distinct (as a list property, for the per-field passes) -/
def Distinct (r : SStruct ν) : Prop := r.fields.Pairwise (fun f g => f.ident ≠ g.ident)

/-- the locals after the flatten hand-off -/
def slotAfterFlatten (r : SStruct ν) (items : List NestedMeta) (f : SField ν) : Slot ν :=
  if isFirstFlatten r f then { seen := true, val := flattenValue r items } else specSlot r items f

theorem isFirstFlatten_iff (r : SStruct ν) (hwf : WF r) (ff f : SField ν) (hff : r.fields.find? (·.flatten) = some ff)
    (hf : f ∈ r.fields) : isFirstFlatten r f = true ↔ f = ff := by
  simp only [isFirstFlatten, hff]
  constructor
  · intro h
    have : ff.ident = f.ident := by simpa using h
    exact (hwf.identInj ff (List.mem_of_find?_eq_some hff) f hf this).symm
  · intro h; subst h; simp

theorem flattenInit_spec (r : SStruct ν) (hwf : WF r) (items : List NestedMeta) (st : PState ν) (hinv : Inv r items st) :
    ∃ st', flattenInit r st = .ok st'
      ∧ (∀ f ∈ r.fields, st'.slot f.ident = slotAfterFlatten r items f)
      ∧ st'.errs = loopMistakes r [] items ++ flattenMistakes r items := by
  unfold flattenInit
  cases hff : r.fields.find? (·.flatten) with
  | none =>
      refine ⟨st, rfl, ?_, ?_⟩
      · intro f hf; simp [slotAfterFlatten, isFirstFlatten, hff]; exact hinv.slots f hf
      · simp [flattenMistakes, hff, hinv.errs]
  | some ff =>
      have hffm := List.mem_of_find?_eq_some hff
      have hres : (if r.names.isEmpty then ff.fromList st.flat else
          (ff.fromList st.flat).mapErr (Suggest.addSiblingAlts r.thr (fun n => r.names.map (fun a => (a, r.score n a)))))
          = flattenResult r ff items := by
        simp [flattenResult, hinv.flat]
      simp only
      rw [hres]
      have others : ∀ (s' : Slot ν) (st0 : PState ν), (∀ g ∈ r.fields, st0.slot g.ident = st.slot g.ident) →
          s' = { seen := true, val := flattenValue r items } →
          ∀ f ∈ r.fields, ((st0.set ff.ident s')).slot f.ident = slotAfterFlatten r items f := by
        intro s' st0 h0 hs f hf
        by_cases hfe : f = ff
        · subst hfe
          rw [set_slot_self]
          simp [slotAfterFlatten, (isFirstFlatten_iff r hwf f f hff hf).mpr rfl, hs]
        · have hid : f.ident ≠ ff.ident := fun h => hfe (hwf.identInj f hf ff hffm h)
          rw [set_slot_other _ _ _ _ hid, h0 f hf]
          have : isFirstFlatten r f = false := by
            cases hb : isFirstFlatten r f with
            | false => rfl
            | true => exact absurd ((isFirstFlatten_iff r hwf ff f hff hf).mp hb) hfe
          simp [slotAfterFlatten, this]; exact hinv.slots f hf
      cases hr : flattenResult r ff items with
      | panic p =>
          -- the flatten field's type does not panic
          exfalso
          simp only [flattenResult] at hr
          split at hr
          · exact hwf.listNoPanic ff hffm _ p hr
          · cases hl : ff.fromList (buffered r items) with
            | panic q => exact hwf.listNoPanic ff hffm _ q hl
            | ok v => simp [hl, Outcome.mapErr] at hr
            | err e => simp [hl, Outcome.mapErr] at hr
      | ok v =>
          refine ⟨_, rfl, ?_, ?_⟩
          · exact others _ st (fun _ _ => rfl) (by simp [flattenValue, hff, hr])
          · simp [PState.set, flattenMistakes, hff, hr, hinv.errs]
      | err e =>
          refine ⟨_, rfl, ?_, ?_⟩
          · intro f hf
            simp only [PState.push]
            exact others _ st (fun _ _ => rfl) (by simp [flattenValue, hff, hr]) f hf
          · simp [PState.push, PState.set, flattenMistakes, hff, hr, hinv.errs]

/-- the presence check of one field, as a function of that field's own local -/
def missingOf (f : SField ν) (s : Slot ν) : List Err :=
  if !f.multiple && f.dflt.isNone && !s.seen && f.fromNone.isNone then [Err.new (.missingField f.name)] else []

def slotAfterCheck (f : SField ν) (s : Slot ν) : Slot ν :=
  if !f.multiple && f.dflt.isNone && !s.seen then
    match f.fromNone with
    | some v => { s with val := some v }
    | none => s
  else s

theorem checkMissing_spec (fs : List (SField ν)) (hd : fs.Pairwise (fun f g => f.ident ≠ g.ident)) (st : PState ν) :
    (checkMissing fs st).errs = st.errs ++ fs.flatMap (fun f => missingOf f (st.slot f.ident))
      ∧ (∀ f ∈ fs, (checkMissing fs st).slot f.ident = slotAfterCheck f (st.slot f.ident))
      ∧ (∀ i, (∀ f ∈ fs, f.ident ≠ i) → (checkMissing fs st).slot i = st.slot i) := by
  induction fs generalizing st with
  | nil => simp [checkMissing]
  | cons f fs ih =>
      have hrest := (List.pairwise_cons.mp hd).2
      have hne : ∀ g ∈ fs, f.ident ≠ g.ident := (List.pairwise_cons.mp hd).1
      simp only [checkMissing]
      -- the state after field `f`
      generalize hst1 : (if (!f.multiple && f.dflt.isNone) = true then
          (if (!(st.slot f.ident).seen) = true then
            (match f.fromNone with
              | some v => st.set f.ident { (st.slot f.ident) with val := some v }
              | none => st.push (Err.new (.missingField f.name)))
           else st)
        else st) = st1
      have h1errs : st1.errs = st.errs ++ missingOf f (st.slot f.ident) := by
        subst hst1; unfold missingOf
        cases h1 : (!f.multiple && f.dflt.isNone) <;> simp [h1]
        cases h2 : (st.slot f.ident).seen <;> simp [h2]
        cases h3 : f.fromNone <;> simp [h3, PState.push, PState.set]
      have h1self : st1.slot f.ident = slotAfterCheck f (st.slot f.ident) := by
        subst hst1; unfold slotAfterCheck
        cases h1 : (!f.multiple && f.dflt.isNone) <;> simp [h1]
        cases h2 : (st.slot f.ident).seen <;> simp [h2]
        cases h3 : f.fromNone <;> simp [h3, PState.push, set_slot_self]
      have h1other : ∀ i, i ≠ f.ident → st1.slot i = st.slot i := by
        intro i hi
        subst hst1
        cases h1 : (!f.multiple && f.dflt.isNone) <;> simp [h1]
        cases h2 : (st.slot f.ident).seen <;> simp [h2]
        cases h3 : f.fromNone <;> simp [h3, PState.push, set_slot_other _ _ _ _ hi]
      obtain ⟨ihe, ihs, iho⟩ := ih hrest st1
      refine ⟨?_, ?_, ?_⟩
      · rw [ihe, h1errs]
        simp only [List.flatMap_cons, List.append_assoc]
        congr 2
        have : ∀ (l : List (SField ν)), (∀ g ∈ l, g ∈ fs) →
            l.flatMap (fun g => missingOf g (st1.slot g.ident)) = l.flatMap (fun g => missingOf g (st.slot g.ident)) := by
          intro l
          induction l with
          | nil => intro _; rfl
          | cons g l ihl =>
              intro hl
              simp only [List.flatMap_cons]
              rw [ihl (fun x hx => hl x (by simp [hx])), h1other g.ident (fun h => hne g (hl g (by simp)) h.symm)]
        exact this fs (fun _ h => h)
      · intro g hg
        simp only [List.mem_cons] at hg
        rcases hg with rfl | hg
        · rw [iho g.ident (fun x hx h => hne x hx h.symm), h1self]
        · rw [ihs g hg, h1other g.ident (fun h => hne g hg h.symm)]
      · intro i hi
        rw [iho i (fun g hg => hi g (by simp [hg])), h1other i (fun h => hi f (by simp) h.symm)]

end C02

namespace C02
open Spec.C01
variable {ν : Type}

theorem flatMap_ite_eq_filterMap {α β : Type} (l : List α) (c : α → Bool) (e : α → β) :
    l.flatMap (fun a => if c a then [e a] else []) = l.filterMap (fun a => if c a then some (e a) else none) := by
  induction l with
  | nil => rfl
  | cons a l ih => simp only [List.flatMap_cons, List.filterMap_cons, ih]; cases c a <;> simp

/-- a field that has no match arm is never selected -/
theorem not_selected_of_no_arm (r : SStruct ν) (hwf : WF r) (f : SField ν) (hf : f ∈ r.fields)
    (h : f.skip = true ∨ f.flatten = true) (it : NestedMeta) : selects r f it = false := by
  cases it with
  | lit _ => rfl
  | item m =>
      simp only [selects]
      cases harm : r.arm m.path'.toStr with
      | none => rfl
      | some g =>
          obtain ⟨hg, hs, hfl, _⟩ := arm_mem r _ g harm
          cases hb : (g.ident == f.ident) with
          | false => simp [hb]
          | true =>
              have : g = f := hwf.identInj g hg f hf (by simpa using hb)
              subst this
              rcases h with h | h
              · rw [hs] at h; cases h
              · rw [hfl] at h; cases h

theorem first_flatten_is_flatten (r : SStruct ν) (hwf : WF r) (f : SField ν) (hf : f ∈ r.fields)
    (h : isFirstFlatten r f = true) : f.flatten = true := by
  unfold isFirstFlatten at h
  cases hff : r.fields.find? (·.flatten) with
  | none => simp [hff] at h
  | some ff =>
      have := (isFirstFlatten_iff r hwf ff f hff hf).mp (by simp [isFirstFlatten, hff] at h ⊢; exact h)
      subst this
      simpa using List.find?_some hff

theorem seen_after_flatten (r : SStruct ν) (hwf : WF r) (items : List NestedMeta) (f : SField ν) (hf : f ∈ r.fields)
    (hm : f.multiple = false) :
    (slotAfterFlatten r items f).seen = (items.any (selects r f) || isFirstFlatten r f) := by
  unfold slotAfterFlatten
  cases hb : isFirstFlatten r f with
  | true => simp
  | false => simp [specSlot, hm]

/-- the accumulator after the presence check holds exactly the mistakes of the input -/
theorem missing_eq (r : SStruct ν) (hwf : WF r) (items : List NestedMeta) :
    r.fields.flatMap (fun f => missingOf f (slotAfterFlatten r items f)) = missing r items := by
  unfold missing
  rw [← flatMap_ite_eq_filterMap]
  have : ∀ (l : List (SField ν)), (∀ f ∈ l, f ∈ r.fields) →
      l.flatMap (fun f => missingOf f (slotAfterFlatten r items f)) =
      l.flatMap (fun f => if (!f.multiple && f.dflt.isNone && !(items.any (selects r f)) && !(isFirstFlatten r f) && f.fromNone.isNone)
        then [Err.new (.missingField f.name)] else []) := by
    intro l
    induction l with
    | nil => intro _; rfl
    | cons f l ih =>
        intro hl
        simp only [List.flatMap_cons]
        rw [ih (fun x hx => hl x (by simp [hx]))]
        congr 1
        unfold missingOf
        cases hm : f.multiple with
        | true => simp
        | false =>
            rw [seen_after_flatten r hwf items f (hl f (by simp)) hm]
            cases f.dflt.isNone <;> cases items.any (selects r f) <;> cases isFirstFlatten r f <;> cases f.fromNone.isNone <;> simp
  exact this r.fields (fun _ h => h)

/-- the state in which errors are checked -/
theorem before_check (r : SStruct ν) (hwf : WF r) (hd : Distinct r) (items : List NestedMeta) :
    ∃ st0 st1, coreLoop r {} items = .ok st0 ∧ flattenInit r st0 = .ok st1
      ∧ (checkMissing r.fields st1).errs = mistakes r items
      ∧ (∀ f ∈ r.fields, (checkMissing r.fields st1).slot f.ident = slotAfterCheck f (slotAfterFlatten r items f)) := by
  obtain ⟨st0, h0, hinv⟩ := coreLoop_spec r hwf items
  obtain ⟨st1, h1, hs1, he1⟩ := flattenInit_spec r hwf items st0 hinv
  obtain ⟨hce, hcs, _⟩ := checkMissing_spec r.fields hd st1
  refine ⟨st0, st1, h0, h1, ?_, ?_⟩
  · rw [hce, he1]
    unfold mistakes
    congr 1
    rw [← missing_eq r hwf items]
    have : ∀ (l : List (SField ν)), (∀ f ∈ l, f ∈ r.fields) →
        l.flatMap (fun f => missingOf f (st1.slot f.ident)) = l.flatMap (fun f => missingOf f (slotAfterFlatten r items f)) := by
      intro l
      induction l with
      | nil => intro _; rfl
      | cons f l ih =>
          intro hl
          simp only [List.flatMap_cons]
          rw [ih (fun x hx => hl x (by simp [hx])), hs1 f (hl f (by simp))]
    exact this r.fields (fun _ h => h)
  · intro f hf
    rw [hcs f hf, hs1 f hf]

/-- **C02** (struct receivers).  Parsing fails if and only if the input contains a mistake, and
    the error bundles exactly the mistakes — none dropped, none doubled, none invented — in the
    order: item mistakes (item order), the flatten member's verdict, absent required fields
    (declaration order). -/
theorem fromList_reports_exactly_the_mistakes (r : SStruct ν) (hwf : WF r) (hd : Distinct r) (items : List NestedMeta)
    (hne : mistakes r items ≠ []) :
    fromList r items = Err.bundleErr (mistakes r items) := by
  obtain ⟨st0, st1, h0, h1, herrs, _⟩ := before_check r hwf hd items
  unfold fromList
  rw [h0]
  simp only [finishStruct, if_true, h1]
  rw [herrs]
  cases hm : mistakes r items with
  | nil => exact absurd hm hne
  | cons e es => rfl

/-- … and that is an `Err`, never `Ok`, never a panic -/
theorem fails_when_mistaken (r : SStruct ν) (hwf : WF r) (hd : Distinct r) (items : List NestedMeta)
    (hne : mistakes r items ≠ []) : ∃ e, fromList r items = .err e := by
  rw [fromList_reports_exactly_the_mistakes r hwf hd items hne]
  match hm : mistakes r items with
  | [] => exact absurd hm hne
  | [x] => exact ⟨x, rfl⟩
  | x :: y :: rest => exact ⟨_, rfl⟩

end C02

/-! ## the mistake-free direction: exactly the declared mapping (C01), and the `expect` is dead (C07) -/
namespace C02
open Spec.C01
variable {ν : Type}

theorem loopMistakes_append (r : SStruct ν) (e xs ys : List NestedMeta) :
    loopMistakes r e (xs ++ ys) = loopMistakes r e xs ++ loopMistakes r (e ++ xs) ys := by
  induction xs generalizing e with
  | nil => simp [loopMistakes]
  | cons x xs ih => simp [loopMistakes, ih, List.append_assoc]

theorem mistakes_nil (r : SStruct ν) (items : List NestedMeta) (h : mistakes r items = []) :
    loopMistakes r [] items = [] ∧ flattenMistakes r items = [] ∧ missing r items = [] := by
  unfold mistakes at h
  simp only [List.append_eq_nil_iff] at h
  exact ⟨h.1.1, h.1.2, h.2⟩

/-- (L1) a single-valued field that was supplied holds the converted value of its first item -/
theorem supplied_value (r : SStruct ν) (hwf : WF r) (items : List NestedMeta) (hl : loopMistakes r [] items = [])
    (f : SField ν) (hf : f ∈ r.fields) (hm : f.multiple = false) (hany : items.any (selects r f) = true) :
    ∃ v, firstValue r f items = some v := by
  obtain ⟨x, hx, hsx⟩ := List.any_eq_true.mp hany
  cases hfd : items.find? (selects r f) with
  | none => exact absurd hsx (by simpa using List.find?_eq_none.mp hfd x hx)
  | some b =>
      obtain ⟨hpb, as, bs, hsplit, hnone⟩ := List.find?_eq_some_iff_append.mp hfd
      have hitem : itemMistakes r as b = [] := by
        rw [hsplit, loopMistakes_append] at hl
        simp only [loopMistakes, List.nil_append, List.append_eq_nil_iff] at hl
        exact hl.2.1
      cases b with
      | lit l => simp [selects] at hpb
      | item m =>
          simp only [selects] at hpb
          cases harm : r.arm m.path'.toStr with
          | none => simp [harm] at hpb
          | some g =>
              have hg := (arm_mem r _ g harm).1
              have hgf : g = f := hwf.identInj g hg f hf (by simpa [harm] using hpb)
              subst hgf
              have hanyas : as.any (selects r g) = false := by
                rw [List.any_eq_false]; intro a ha; simpa using hnone a ha
              simp only [itemMistakes, harm, hm, hanyas, Bool.false_eq_true, if_false] at hitem
              cases hc : g.conv m with
              | panic p => exact absurd hc (hwf.convNoPanic g hf m p)
              | err e => simp [hc] at hitem
              | ok v => exact ⟨v, by simp [firstValue, hfd, hc]⟩

/-- (L2) the flatten member accepted what it was handed -/
theorem flatten_value (r : SStruct ν) (hwf : WF r) (items : List NestedMeta) (hfm : flattenMistakes r items = [])
    (ff : SField ν) (hff : r.fields.find? (·.flatten) = some ff) : ∃ v, flattenValue r items = some v := by
  have hffm := List.mem_of_find?_eq_some hff
  simp only [flattenMistakes, hff] at hfm
  simp only [flattenValue, hff]
  cases hr : flattenResult r ff items with
  | ok v => exact ⟨v, rfl⟩
  | err e => simp [hr] at hfm
  | panic p =>
      exfalso
      simp only [flattenResult] at hr
      split at hr
      · exact hwf.listNoPanic ff hffm _ p hr
      · cases hl : ff.fromList (buffered r items) with
        | panic q => exact hwf.listNoPanic ff hffm _ q hl
        | ok v => simp [hl, Outcome.mapErr] at hr
        | err e => simp [hl, Outcome.mapErr] at hr

/-- (L3) an absent required field has a value-for-absent -/
theorem absent_has_fallback (r : SStruct ν) (items : List NestedMeta) (hmiss : missing r items = [])
    (f : SField ν) (hf : f ∈ r.fields) (hm : f.multiple = false) (hd : f.dflt = none)
    (hany : items.any (selects r f) = false) (hff : isFirstFlatten r f = false) : f.fromNone ≠ none := by
  intro hn
  unfold missing at hmiss
  rw [List.filterMap_eq_nil_iff] at hmiss
  have := hmiss f hf
  simp [hm, hd, hany, hff, hn] at this

theorem successes_unselected (r : SStruct ν) (f : SField ν) (items : List NestedMeta)
    (h : ∀ it, selects r f it = false) : successes r f items = [] := by
  unfold successes
  rw [List.filterMap_eq_nil_iff]
  intro it _
  cases it with
  | lit _ => rfl
  | item m => simp [h (.item m)]

theorem firstValue_unselected (r : SStruct ν) (f : SField ν) (items : List NestedMeta)
    (h : items.any (selects r f) = false) : firstValue r f items = none := by
  unfold firstValue
  have : items.find? (selects r f) = none := by
    rw [List.find?_eq_none]; intro x hx; simpa using List.any_eq_false.mp h x hx
  rw [this]

theorem defaultValue_eq (r : SStruct ν) (f : SField ν) (d : DefaultSrc ν) : defaultValue r f d = defaultOf r f d := by
  cases d with
  | value v => rfl
  | inherit => simp only [defaultValue, defaultOf]; cases r.containerDefault <;> rfl

/-- the initialiser of one field yields exactly the declared value -/
theorem initField_eq (r : SStruct ν) (hwf : WF r) (items : List NestedMeta) (hmis : mistakes r items = [])
    (st : PState ν) (f : SField ν) (hf : f ∈ r.fields)
    (hslot : st.slot f.ident = slotAfterCheck f (slotAfterFlatten r items f)) :
    initField r st f = fieldValue r items f := by
  obtain ⟨hl, hfm, hmiss⟩ := mistakes_nil r items hmis
  unfold initField fieldValue
  rw [hslot]
  cases hm : f.multiple with
  | true =>
      have hmany : (slotAfterCheck f (slotAfterFlatten r items f)).many = successes r f items := by
        simp only [slotAfterCheck, hm, Bool.not_true, Bool.false_and, Bool.false_eq_true, if_false]
        unfold slotAfterFlatten
        cases hb : isFirstFlatten r f with
        | false => simp [specSlot, hm]
        | true =>
            simp only [if_true]
            rw [successes_unselected r f items
              (not_selected_of_no_arm r hwf f hf (Or.inr (first_flatten_is_flatten r hwf f hf hb)))]
      simp only [if_true, hmany]
      cases f.dflt with
      | none => rfl
      | some d => simp only [defaultValue_eq]
  | false =>
      simp only [Bool.false_eq_true, if_false]
      have hseen := seen_after_flatten r hwf items f hf hm
      have hval : (slotAfterFlatten r items f).val = (if isFirstFlatten r f then flattenValue r items else firstValue r f items) := by
        unfold slotAfterFlatten
        cases isFirstFlatten r f <;> simp [specSlot, hm]
      cases hd : f.dflt with
      | some d =>
          have : (slotAfterCheck f (slotAfterFlatten r items f)).val = (slotAfterFlatten r items f).val := by
            simp [slotAfterCheck, hd]
          simp only [this, hval, defaultValue_eq]
          cases (if isFirstFlatten r f = true then flattenValue r items else firstValue r f items) <;> rfl
      | none =>
          simp only
          cases hs : (slotAfterFlatten r items f).seen with
          | true =>
              have hv : (slotAfterCheck f (slotAfterFlatten r items f)).val = (slotAfterFlatten r items f).val := by
                simp [slotAfterCheck, hs]
              rw [hv, hval]
              rw [hseen] at hs
              -- supplied, hence (no mistakes) a value is present
              have : ∃ v, (if isFirstFlatten r f then flattenValue r items else firstValue r f items) = some v := by
                cases hb : isFirstFlatten r f with
                | true =>
                    simp only [if_true]
                    unfold isFirstFlatten at hb
                    cases hff : r.fields.find? (·.flatten) with
                    | none => simp [hff] at hb
                    | some ff => exact flatten_value r hwf items hfm ff hff
                | false =>
                    simp only [Bool.false_eq_true, if_false]
                    simp [hb] at hs
                    exact supplied_value r hwf items hl f hf hm (List.any_eq_true.mpr hs)
              obtain ⟨v, hv'⟩ := this
              simp [hv']
          | false =>
              rw [hseen] at hs
              have hany : items.any (selects r f) = false := by
                cases h : items.any (selects r f) <;> simp_all
              have hffalse : isFirstFlatten r f = false := by
                cases h : isFirstFlatten r f <;> simp_all
              have hfn := absent_has_fallback r items hmiss f hf hm hd hany hffalse
              have hsup : (if isFirstFlatten r f then flattenValue r items else firstValue r f items) = none := by
                simp [hffalse, firstValue_unselected r f items hany]
              cases hfnv : f.fromNone with
              | none => exact absurd hfnv hfn
              | some v =>
                  have : (slotAfterCheck f (slotAfterFlatten r items f)).val = some v := by
                    have hs' : (slotAfterFlatten r items f).seen = false := by rw [hseen]; simp [hany, hffalse]
                    simp [slotAfterCheck, hm, hd, hs', hfnv]
                  simp [this, hsup, hfnv]

theorem initFields_eq (r : SStruct ν) (hwf : WF r) (items : List NestedMeta) (hmis : mistakes r items = [])
    (st : PState ν) (hslots : ∀ f ∈ r.fields, st.slot f.ident = slotAfterCheck f (slotAfterFlatten r items f)) :
    ∀ (fs : List (SField ν)), (∀ f ∈ fs, f ∈ r.fields) →
      initFields r st fs = collect (fs.map (fun f => (f.ident, fieldValue r items f))) := by
  intro fs
  induction fs with
  | nil => intro _; rfl
  | cons f fs ih =>
      intro hfs
      have hf := hfs f (by simp)
      simp only [initFields, List.map_cons, collect]
      rw [initField_eq r hwf items hmis st f hf (hslots f hf), ih (fun x hx => hfs x (by simp [hx]))]
      cases fieldValue r items f <;> rfl

/-- **C01** (struct receivers).  A mistake-free input parses to exactly the declared mapping:
    each field holds the value supplied under its effective name (converted, then transformed),
    `multiple` fields every occurrence in order, unsupplied fields their default chain, the
    flatten member what nobody else claims — then the container's own transform. -/
theorem fromList_value (r : SStruct ν) (hwf : WF r) (hd : Distinct r) (items : List NestedMeta)
    (hmis : mistakes r items = []) : fromList r items = expected r items := by
  obtain ⟨st0, st1, h0, h1, herrs, hslots⟩ := before_check r hwf hd items
  unfold fromList expected
  rw [h0]
  simp only [finishStruct, if_true, h1]
  rw [herrs, hmis]
  simp only
  rw [initFields_eq r hwf items hmis _ hslots r.fields (fun _ h => h)]
  cases collect (r.fields.map (fun f => (f.ident, fieldValue r items f))) <;> rfl

/-- **C02**, both directions in one statement -/
theorem fromList_spec (r : SStruct ν) (hwf : WF r) (hd : Distinct r) (items : List NestedMeta) :
    fromList r items = (match mistakes r items with
      | [] => expected r items
      | errs => Err.bundleErr errs) := by
  cases hm : mistakes r items with
  | nil => exact fromList_value r hwf hd items hm
  | cons e es =>
      have := fromList_reports_exactly_the_mistakes r hwf hd items (by rw [hm]; simp)
      rw [this, hm]

end C02

/-! ## C07 (struct receivers): the `expect` of the initialiser is dead; nothing panics -/
namespace C02
open Spec.C01
variable {ν : Type}

/-- defaults resolved at derive time are available: `inherit` only when the container declares a
    default (see `C01.resolved_default`) -/
def DefaultsOk (r : SStruct ν) : Prop :=
  ∀ f ∈ r.fields, f.dflt = some .inherit → r.containerDefault.isSome = true

theorem fieldValue_no_panic (r : SStruct ν) (hwf : WF r) (hdo : DefaultsOk r) (items : List NestedMeta)
    (hmis : mistakes r items = []) (f : SField ν) (hf : f ∈ r.fields) (msg : String) :
    fieldValue r items f ≠ .panic msg := by
  obtain ⟨hl, hfm, hmiss⟩ := mistakes_nil r items hmis
  have hdef : ∀ d, f.dflt = some d → defaultOf r f d ≠ .panic msg := by
    intro d hd
    cases d with
    | value v => simp [defaultOf]
    | inherit =>
        have := hdo f hf hd
        cases hc : r.containerDefault with
        | none => simp [hc] at this
        | some cd => simp [defaultOf, hc]
  unfold fieldValue
  cases hm : f.multiple with
  | true =>
      simp only [if_true]
      cases hd : f.dflt with
      | none => simp
      | some d =>
          simp only
          split
          · simp
          · exact hdef d hd
  | false =>
      simp only [Bool.false_eq_true, if_false]
      cases hsup : (if isFirstFlatten r f then flattenValue r items else firstValue r f items) with
      | some v => simp
      | none =>
          simp only
          cases hd : f.dflt with
          | some d => exact hdef d hd
          | none =>
              simp only
              cases hfn : f.fromNone with
              | some v => simp
              | none =>
                  exfalso
                  cases hb : isFirstFlatten r f with
                  | true =>
                      unfold isFirstFlatten at hb
                      cases hff : r.fields.find? (·.flatten) with
                      | none => simp [hff] at hb
                      | some ff =>
                          obtain ⟨v, hv⟩ := flatten_value r hwf items hfm ff hff
                          have : isFirstFlatten r f = true := by simp [isFirstFlatten, hff] at hb ⊢; exact hb
                          simp [this, hv] at hsup
                  | false =>
                      simp [hb] at hsup
                      cases hany : items.any (selects r f) with
                      | true =>
                          obtain ⟨v, hv⟩ := supplied_value r hwf items hl f hf hm hany
                          simp [hv] at hsup
                      | false => exact absurd hfn (absent_has_fallback r items hmiss f hf hm hd hany hb)

theorem collect_no_panic (l : List (String × Outcome ν)) (h : ∀ x ∈ l, ∀ msg, x.2 ≠ .panic msg) :
    ∀ msg, collect l ≠ .panic msg := by
  induction l with
  | nil => intro msg; simp [collect]
  | cons x xs ih =>
      intro msg
      obtain ⟨k, o⟩ := x
      have hx := h (k, o) (by simp)
      simp only [collect]
      cases o with
      | panic p => exact absurd rfl (hx p)
      | err e => simp
      | ok v =>
          have := ih (fun y hy => h y (by simp [hy]))
          cases hc : collect xs with
          | ok _ => simp [Outcome.map]
          | err _ => simp [Outcome.map]
          | panic p => exact absurd hc (this p)

/-- **C07** (derived struct receivers): for every input the emitted parser returns `Ok` or `Err` —
    the initialiser's `expect` is unreachable and `Error::multiple` never sees an empty vector —
    provided the user-supplied functions themselves return. -/
theorem fromList_never_panics (r : SStruct ν) (hwf : WF r) (hd : Distinct r) (hdo : DefaultsOk r)
    (hpost : ∀ v msg, r.post v ≠ .panic msg) (items : List NestedMeta) (msg : String) :
    fromList r items ≠ .panic msg := by
  rw [fromList_spec r hwf hd items]
  cases hm : mistakes r items with
  | cons e es => cases es <;> simp [Err.bundleErr, Err.multiple]
  | nil =>
      simp only [expected]
      have hc := collect_no_panic (r.fields.map (fun f => (f.ident, fieldValue r items f)))
        (by
          intro x hx m
          simp only [List.mem_map] at hx
          obtain ⟨f, hf, rfl⟩ := hx
          exact fieldValue_no_panic r hwf hdo items hm f hf m)
      cases hcol : collect (r.fields.map (fun f => (f.ident, fieldValue r items f))) with
      | ok kvs => exact hpost _ msg
      | err e => simp
      | panic p => exact absurd hcol (hc p)

end C02
