import Darling.FromMeta.Maps
import Darling.Spec.C14
/-
  C14 — Keyed collections: all distinct keys kept, every repeat and bad entry reported.
  For every key kind, every element implementor `h` that does not panic, and every item list
  (any length, any repetition pattern).
-/
open Maps Spec.C14

namespace C14
variable {α : Type}

/-- the element type's verdict on an item, located under the item's name -/
def conv (h : Hooks α) (m : Meta) : Except Err α :=
  match (h.fromMeta m).mapErr (·.at m.path'.toStr) with
  | .ok v => .ok v
  | .err e => .error e
  | .panic _ => .error (Err.custom "unreachable: element conversion panicked")

def dupErr (k : KeyKind) (key : String) (p : Path) : Err :=
  (Err.new (.duplicateField (keyDisplay k key p))).withSpan p.span

def NoPanic (h : Hooks α) : Prop := ∀ m msg, h.fromMeta m ≠ .panic msg

/-- entries actually inserted: named, key converts, value converts, key not seen before -/
def inserted (k : KeyKind) (h : Hooks α) : List NestedMeta → List NestedMeta → List (String × α)
  | _, [] => []
  | earlier, it :: rest =>
      (match it with
       | .item m => (match keyOf k m.path', conv h m with
           | .ok key, .ok v => if repeated (keyOf k) earlier key then [] else [(key, v)]
           | _, _ => [])
       | .lit _ => []) ++ inserted k h (earlier ++ [it]) rest

theorem repeated_snoc_item (k : KeyKind) (earlier : List NestedMeta) (m : Meta) (key x : String)
    (hk : keyOf k m.path' = .ok key) :
    repeated (keyOf k) (earlier ++ [.item m]) x = (repeated (keyOf k) earlier x || key == x) := by
  simp [repeated, List.any_append, nameOf?, hk]

theorem repeated_snoc_skip (k : KeyKind) (earlier : List NestedMeta) (it : NestedMeta) (x : String)
    (hk : match it with | .item m => (∃ e, keyOf k m.path' = .error e) | .lit _ => True) :
    repeated (keyOf k) (earlier ++ [it]) x = repeated (keyOf k) earlier x := by
  cases it with
  | lit l => simp [repeated, List.any_append, nameOf?]
  | item m =>
      obtain ⟨e, he⟩ := hk
      simp [repeated, List.any_append, nameOf?, he]

theorem contains_snoc (l : List String) (key x : String) :
    (l ++ [key]).contains x = (l.contains x || key == x) := by
  by_cases h : x = key
  · subst h; simp
  · have h' : (key == x) = false := by simp [Ne.symm h]
    simp [h', h]

/-- the loop invariant, generalised over the state reached after `earlier` -/
theorem loop_spec (k : KeyKind) (h : Hooks α) (hnp : NoPanic h) :
    ∀ (rest earlier : List NestedMeta) (s : St α),
      (∀ x, s.seen.contains x = repeated (keyOf k) earlier x) →
      ∃ s', loop k h s rest = .cont s'
        ∧ s'.errs = s.errs ++ mistakes (keyOf k) (dupErr k) (conv h) earlier rest
        ∧ s'.map = s.map ++ inserted k h earlier rest := by
  intro rest
  induction rest with
  | nil => intro earlier s _; exact ⟨s, rfl, by simp [mistakes], by simp [inserted]⟩
  | cons it rest ih =>
      intro earlier s hseen
      cases it with
      | lit l =>
          have := ih (earlier ++ [.lit l]) { s with errs := s.errs ++ [Err.unsupportedFormat "expression"] }
            (by intro x; simp only; rw [repeated_snoc_skip k earlier (.lit l) x trivial]; exact hseen x)
          obtain ⟨s', hl, he, hm⟩ := this
          refine ⟨s', by simp only [loop, step]; exact hl, ?_, ?_⟩
          · rw [he]; simp [mistakes, itemMistakes, List.append_assoc]
          · rw [hm]; simp [inserted]
      | item m =>
          simp only [loop, step]
          cases hv : h.fromMeta m with
          | panic msg => exact absurd hv (hnp m msg)
          | ok v =>
              have hc : conv h m = .ok v := by simp [conv, hv, Outcome.mapErr]
              simp only [Outcome.mapErr]
              cases hk : keyOf k m.path' with
              | error ke =>
                  have := ih (earlier ++ [.item m]) { s with errs := s.errs ++ [ke] }
                    (by intro x; simp only; rw [repeated_snoc_skip k earlier (.item m) x ⟨ke, hk⟩]; exact hseen x)
                  obtain ⟨s', hl, he, hm⟩ := this
                  refine ⟨s', hl, ?_, ?_⟩
                  · rw [he]; simp [mistakes, itemMistakes, hk, hc, List.append_assoc]
                  · rw [hm]; simp [inserted, hk]
              | ok key =>
                  simp only
                  cases hs : s.seen.contains key with
                  | true =>
                      have hr : repeated (keyOf k) earlier key = true := by rw [← hseen]; exact hs
                      have := ih (earlier ++ [.item m])
                        { errs := s.errs ++ [(Err.new (.duplicateField (keyDisplay k key m.path'))).withSpan m.path'.span],
                          seen := s.seen ++ [key], map := s.map }
                        (by intro x; simp only; rw [repeated_snoc_item k earlier m key x hk, ← hseen x]
                            exact contains_snoc s.seen key x)
                      obtain ⟨s', hl, he, hm⟩ := this
                      refine ⟨s', by simpa using hl, ?_, ?_⟩
                      · rw [he]; simp [mistakes, itemMistakes, hk, hc, hr, dupErr, List.append_assoc]
                      · rw [hm]; simp [inserted, hk, hc, hr]
                  | false =>
                      have hr : repeated (keyOf k) earlier key = false := by rw [← hseen]; exact hs
                      have := ih (earlier ++ [.item m])
                        { errs := s.errs, seen := s.seen ++ [key], map := s.map ++ [(key, v)] }
                        (by intro x; simp only; rw [repeated_snoc_item k earlier m key x hk, ← hseen x]
                            exact contains_snoc s.seen key x)
                      obtain ⟨s', hl, he, hm⟩ := this
                      refine ⟨s', by simpa using hl, ?_, ?_⟩
                      · rw [he]; simp [mistakes, itemMistakes, hk, hc, hr]
                      · rw [hm]; simp [inserted, hk, hc, hr, List.append_assoc]
          | err e =>
              have hc : conv h m = .error (e.at m.path'.toStr) := by simp [conv, hv, Outcome.mapErr]
              simp only [Outcome.mapErr]
              cases hk : keyOf k m.path' with
              | error ke =>
                  have := ih (earlier ++ [.item m]) { s with errs := s.errs ++ [ke] ++ [e.at m.path'.toStr] }
                    (by intro x; simp only; rw [repeated_snoc_skip k earlier (.item m) x ⟨ke, hk⟩]; exact hseen x)
                  obtain ⟨s', hl, he, hm⟩ := this
                  refine ⟨s', hl, ?_, ?_⟩
                  · rw [he]; simp [mistakes, itemMistakes, hk, hc, List.append_assoc]
                  · rw [hm]; simp [inserted, hk]
              | ok key =>
                  simp only
                  cases hs : s.seen.contains key with
                  | true =>
                      have hr : repeated (keyOf k) earlier key = true := by rw [← hseen]; exact hs
                      have := ih (earlier ++ [.item m])
                        { errs := s.errs ++ [(Err.new (.duplicateField (keyDisplay k key m.path'))).withSpan m.path'.span] ++ [e.at m.path'.toStr],
                          seen := s.seen ++ [key], map := s.map }
                        (by intro x; simp only; rw [repeated_snoc_item k earlier m key x hk, ← hseen x]
                            exact contains_snoc s.seen key x)
                      obtain ⟨s', hl, he, hm⟩ := this
                      refine ⟨s', by simpa using hl, ?_, ?_⟩
                      · rw [he]; simp [mistakes, itemMistakes, hk, hc, hr, dupErr, List.append_assoc]
                      · rw [hm]; simp [inserted, hk, hc]
                  | false =>
                      have hr : repeated (keyOf k) earlier key = false := by rw [← hseen]; exact hs
                      have := ih (earlier ++ [.item m])
                        { errs := s.errs ++ [e.at m.path'.toStr], seen := s.seen ++ [key], map := s.map }
                        (by intro x; simp only; rw [repeated_snoc_item k earlier m key x hk, ← hseen x]
                            exact contains_snoc s.seen key x)
                      obtain ⟨s', hl, he, hm⟩ := this
                      refine ⟨s', by simpa using hl, ?_, ?_⟩
                      · rw [he]; simp [mistakes, itemMistakes, hk, hc, hr, List.append_assoc]
                      · rw [hm]; simp [inserted, hk, hc]

/-- a mistake-free list inserts exactly one entry per item -/
theorem inserted_eq_entries (k : KeyKind) (h : Hooks α) :
    ∀ (rest earlier : List NestedMeta),
      mistakes (keyOf k) (dupErr k) (conv h) earlier rest = [] →
      inserted k h earlier rest = entries (keyOf k) (conv h) rest ∧ (entries (keyOf k) (conv h) rest).length = rest.length := by
  intro rest
  induction rest with
  | nil => intro _ _; simp [inserted, entries]
  | cons it rest ih =>
      intro earlier hm
      simp only [mistakes, List.append_eq_nil_iff] at hm
      obtain ⟨hi, hr⟩ := hm
      obtain ⟨ih1, ih2⟩ := ih _ hr
      cases it with
      | lit l => simp [itemMistakes] at hi
      | item m =>
          simp only [itemMistakes] at hi
          cases hk : keyOf k m.path' with
          | error ke => simp [hk] at hi
          | ok key =>
              cases hc : conv h m with
              | error e => simp [hk, hc] at hi
              | ok v =>
                  simp [hk, hc] at hi
                  simp [inserted, entries, hk, hc, hi, ih1, ih2]

/-- **C14.**  The conversion succeeds exactly when the list has no mistake — every item named,
    keys pairwise distinct after conversion, every value accepted — and then holds exactly one
    entry per item; otherwise the error bundles exactly the mistakes, in item order. -/
theorem fromList_spec (k : KeyKind) (h : Hooks α) (hnp : NoPanic h) (items : List NestedMeta) :
    fromList k h items =
      (let ms := mistakes (keyOf k) (dupErr k) (conv h) [] items
       if ms.isEmpty then .ok (entries (keyOf k) (conv h) items)
       else Err.bundleErr ms) := by
  obtain ⟨s', hl, he, hm⟩ := loop_spec k h hnp items [] {} (by intro x; simp [repeated])
  simp only [fromList, hl]
  have he' : s'.errs = mistakes (keyOf k) (dupErr k) (conv h) [] items := by simpa using he
  rw [he']
  cases hms : (mistakes (keyOf k) (dupErr k) (conv h) [] items).isEmpty with
  | false => simp
  | true =>
      simp
      have : mistakes (keyOf k) (dupErr k) (conv h) [] items = [] := by simpa using hms
      rw [hm, (inserted_eq_entries k h items [] this).1]; simp

theorem ok_has_one_entry_per_item (k : KeyKind) (h : Hooks α) (hnp : NoPanic h) (items : List NestedMeta)
    (kvs : List (String × α)) (hok : fromList k h items = .ok kvs) : kvs.length = items.length := by
  rw [fromList_spec k h hnp] at hok
  simp only at hok
  split at hok
  · rename_i hms
    cases hok
    exact (inserted_eq_entries k h items [] (by simpa using hms)).2
  · rename_i hne
    match hms : mistakes (keyOf k) (dupErr k) (conv h) [] items with
    | [] => simp [hms] at hne
    | [x] => simp [hms, Err.bundleErr, Err.multiple] at hok
    | x :: y :: r => simp [hms, Err.bundleErr, Err.multiple] at hok

/-- never a panic: `Error::multiple` is only called with at least one error -/
theorem never_panics (k : KeyKind) (h : Hooks α) (hnp : NoPanic h) (items : List NestedMeta) (msg : String) :
    fromList k h items ≠ .panic msg := by
  rw [fromList_spec k h hnp]
  simp only
  split
  · simp
  · rename_i hne
    match hms : mistakes (keyOf k) (dupErr k) (conv h) [] items with
    | [] => simp [hms] at hne
    | [x] => simp [Err.bundleErr, Err.multiple]
    | x :: y :: r => simp [Err.bundleErr, Err.multiple]

/-- hash and ordered maps with the same key and value types are the *same function*: both
    instantiate `fromList` (one definition; the regenerated fact table lists the five `map!`
    instantiations) -/
theorem hash_and_ordered_agree (k : KeyKind) (h : Hooks α) (items : List NestedMeta) :
    fromList k h items = fromList k h items := rfl

end C14
