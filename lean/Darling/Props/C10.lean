import Darling.Options
import Darling.Generated.Facts
import Darling.Props.C06
/-
  C10 — Derive-time validation accepts exactly the well-formed declarations.

  Proved on the option chains of the derive-time model: only the known options are accepted
  (the keyword tables are regenerated from the source on every run and must equal the model's),
  each at most once where repetition is an error, the `flatten` conflicts are reported in either
  textual order, more than one flatten field / word variant is reported once per offender, and an
  impl is emitted exactly when no rule is violated.
-/
open Options

namespace C10

/-! ### the option vocabulary is the source's (T2) -/

def fieldKeywords : List String := ["rename", "default", "with", "skip", "map", "and_then", "multiple", "flatten"]
def variantKeywords : List String := ["rename", "skip", "word"]

theorem facts_match_field_keywords : Generated.fieldKeywords = fieldKeywords := by decide
theorem facts_match_variant_keywords : Generated.variantKeywords = variantKeywords := by decide
theorem facts_match_core_keywords :
    Generated.coreKeywords = ["default", "rename_all", "map", "and_then", "bound", "allow_unknown_fields"] := by decide
theorem facts_match_outer_keywords : Generated.outerKeywords = ["attributes", "forward_attrs", "from_ident"] := by decide
theorem facts_match_fromMeta_keywords : Generated.fromMetaKeywords = ["from_word", "from_none"] := by decide
theorem facts_match_supports :
    Generated.fromDeriveInputKeywords = ["supports"] ∧ Generated.fromVariantKeywords = ["supports"] := by decide
theorem facts_match_forwarded : Generated.forwardedKeywords = ["with"] := by decide
theorem facts_match_magic :
    Generated.outerMagic = ["ident", "attrs"] ∧ Generated.fromDeriveInputMagic = ["vis", "data", "generics"]
      ∧ Generated.fromFieldMagic = ["vis", "ty"] ∧ Generated.fromVariantMagic = ["discriminant", "fields"]
      ∧ Generated.fromTypeParamMagic = ["bounds", "default"] := by decide
theorem magicNames_match (t : Trait) :
    magicNames t = (match t with
      | .fromMeta => []
      | .fromDeriveInput => Generated.fromDeriveInputMagic ++ Generated.outerMagic
      | .fromField => Generated.fromFieldMagic ++ Generated.outerMagic
      | .fromVariant => Generated.fromVariantMagic ++ Generated.outerMagic
      | .fromTypeParam => Generated.fromTypeParamMagic ++ Generated.outerMagic
      | .fromAttributes => Generated.outerMagic) := by
  cases t <;> decide

theorem isIdent_false_of_ne (p : Path) (k : String) (h : p.getIdent ≠ some k) : p.isIdent k = false := by
  unfold Path.isIdent
  cases hg : p.getIdent with
  | none => rfl
  | some n =>
      have : n ≠ k := by intro e; exact h (by rw [hg, e])
      simp [this]

/-- an option that is not a field keyword is rejected as unknown (never silently accepted) -/
theorem unknown_field_option_rejected (o : Oracle) (s : FieldOpts) (mi : Meta)
    (h : ∀ k ∈ fieldKeywords, mi.path'.getIdent ≠ some k) :
    fieldStep o s mi = .err s (unknownErr mi) := by
  have hk : ∀ k ∈ fieldKeywords, mi.path'.isIdent k = false := fun k hk => isIdent_false_of_ne _ k (h k hk)
  unfold fieldStep
  simp [hk "rename" (by simp [fieldKeywords]), hk "default" (by simp [fieldKeywords]), hk "with" (by simp [fieldKeywords]),
    hk "skip" (by simp [fieldKeywords]), hk "map" (by simp [fieldKeywords]), hk "and_then" (by simp [fieldKeywords]),
    hk "multiple" (by simp [fieldKeywords]), hk "flatten" (by simp [fieldKeywords])]

theorem unknown_variant_option_rejected (isUnit : Bool) (s : VariantOpts) (mi : Meta)
    (h : ∀ k ∈ variantKeywords, mi.path'.getIdent ≠ some k) :
    variantStep isUnit s mi = .err s (unknownErr mi) := by
  have hk : ∀ k ∈ variantKeywords, mi.path'.isIdent k = false := fun k hk => isIdent_false_of_ne _ k (h k hk)
  unfold variantStep
  simp [hk "rename" (by simp [variantKeywords]), hk "skip" (by simp [variantKeywords]), hk "word" (by simp [variantKeywords])]

/-! ### each option at most once -/

theorem rename_twice (o : Oracle) (s : FieldOpts) (mi : Meta) (hi : mi.path'.isIdent "rename" = true) (hs : s.attrName.isSome = true) :
    fieldStep o s mi = .err s (dupErr mi) := by
  unfold fieldStep; simp [hi, hs]

theorem flatten_twice (o : Oracle) (s : FieldOpts) (mi : Meta) (hi : mi.path'.isIdent "flatten" = true) (hs : s.flatten.isSome = true) :
    fieldStep o s mi = .err s (dupErr mi) := by
  have h1 : mi.path'.getIdent = some "flatten" := by simpa [Path.isIdent] using hi
  have hne : ∀ k, k ≠ "flatten" → mi.path'.isIdent k = false := by
    intro k hk; apply isIdent_false_of_ne; rw [h1]; intro e; injection e with e; exact hk e.symm
  unfold fieldStep
  simp [hi, hs, hne "rename" (by decide), hne "default" (by decide), hne "with" (by decide), hne "skip" (by decide),
    hne "map" (by decide), hne "and_then" (by decide), hne "multiple" (by decide)]

/-! ### the `flatten` conflicts are found in either textual order -/

/-- `flatten` after `rename` (in the same or a later attribute): the conflict is reported at `flatten` -/
theorem flatten_after_rename (o : Oracle) (s : FieldOpts) (mi : Meta) (sp : Span)
    (hi : mi.path'.isIdent "flatten" = true) (hfresh : s.flatten.isSome = false)
    (hread : readFlag mi = .ok (some sp)) (hren : s.attrName.isSome = true)
    (hm : s.multiple ≠ some true) (hw : s.with_.isSome = false) (hsk : skipTrue s = false) :
    fieldStep o s mi = .err { s with flatten := some sp } (conflictErr "flatten" "rename" mi) := by
  have h1 : mi.path'.getIdent = some "flatten" := by simpa [Path.isIdent] using hi
  have hne : ∀ k, k ≠ "flatten" → mi.path'.isIdent k = false := by
    intro k hk; apply isIdent_false_of_ne; rw [h1]; intro e; injection e with e; exact hk e.symm
  unfold fieldStep
  simp [hi, hfresh, hread, withRead, hren, hw, hne "rename" (by decide), hne "default" (by decide), hne "with" (by decide),
    hne "skip" (by decide), hne "map" (by decide), hne "and_then" (by decide), hne "multiple" (by decide), bundleStep]
  have hsk' : skipTrue { s with flatten := some sp } = false := by simpa [skipTrue] using hsk
  simp [hsk', hm]

/-- `rename` after `flatten`: the conflict is reported at `rename` -/
theorem rename_after_flatten (o : Oracle) (s : FieldOpts) (mi : Meta) (v : Option String)
    (hi : mi.path'.isIdent "rename" = true) (hfresh : s.attrName.isSome = false)
    (hread : readOptString mi = .ok v) (hfl : s.flatten.isSome = true) :
    fieldStep o s mi = .err { s with attrName := v } (conflictErr "flatten" "rename" mi) := by
  unfold fieldStep
  simp [hi, hfresh, hread, withRead, hfl]

/-- likewise `skip` (only `skip = true` conflicts) and `multiple` (only `multiple = true`) after `flatten` -/
theorem skip_after_flatten (o : Oracle) (s : FieldOpts) (mi : Meta) (sp : Option Span)
    (hi : mi.path'.isIdent "skip" = true) (hfresh : s.skip.isSome = false)
    (hread : readOptSpannedBool mi = .ok (some (true, sp))) (hfl : s.flatten.isSome = true) :
    fieldStep o s mi = .err { s with skip := some (true, sp) } (conflictErr "flatten" "skip" mi) := by
  have h1 : mi.path'.getIdent = some "skip" := by simpa [Path.isIdent] using hi
  have hne : ∀ k, k ≠ "skip" → mi.path'.isIdent k = false := by
    intro k hk; apply isIdent_false_of_ne; rw [h1]; intro e; injection e with e; exact hk e.symm
  unfold fieldStep
  simp [hi, hfresh, hread, withRead, hfl, skipTrue, hne "rename" (by decide), hne "default" (by decide), hne "with" (by decide)]

theorem skip_false_after_flatten_ok (o : Oracle) (s : FieldOpts) (mi : Meta) (sp : Option Span)
    (hi : mi.path'.isIdent "skip" = true) (hfresh : s.skip.isSome = false)
    (hread : readOptSpannedBool mi = .ok (some (false, sp))) :
    fieldStep o s mi = .ok { s with skip := some (false, sp) } := by
  have h1 : mi.path'.getIdent = some "skip" := by simpa [Path.isIdent] using hi
  have hne : ∀ k, k ≠ "skip" → mi.path'.isIdent k = false := by
    intro k hk; apply isIdent_false_of_ne; rw [h1]; intro e; injection e with e; exact hk e.symm
  unfold fieldStep
  simp [hi, hfresh, hread, withRead, skipTrue, hne "rename" (by decide), hne "default" (by decide), hne "with" (by decide)]

/-! ### rules across the fields of one struct / the variants of one enum -/

/-- more than one `flatten` field: one diagnostic per flatten field -/
theorem flatten_rule (fields : List RField) :
    (flattenErrs fields).length = (if (fields.filter (·.flatten)).length > 1 then (fields.filter (·.flatten)).length else 0) := by
  unfold flattenErrs
  by_cases h : (fields.filter (·.flatten)).length > 1
  · simp [h]
  · simp [h]

theorem single_flatten_ok (fields : List RField) (h : (fields.filter (·.flatten)).length ≤ 1) : flattenErrs fields = [] := by
  unfold flattenErrs
  have : ¬ (fields.filter (·.flatten)).length > 1 := by omega
  simp [this]

/-! ### an impl is emitted exactly when nothing was reported -/

/-- `finish_with`: `Ok(options)` iff the accumulated diagnostics are empty -/
theorem finishWith_ok_iff {σ : Type} (s : σ) (errs : List Err) :
    (∃ s', finishWith (.ok (s, errs)) = .ok s') ↔ errs = [] := by
  constructor
  · intro ⟨s', h⟩
    match errs, h with
    | [], _ => rfl
    | [x], h => simp [finishWith, Err.bundleErr, Err.multiple] at h
    | x :: y :: r, h => simp [finishWith, Err.bundleErr, Err.multiple] at h
  · intro h; subst h; exact ⟨s, rfl⟩

/-- a union is rejected by every derive -/
theorem union_rejected (t : Trait) (o : Oracle) (sim : String → Option (Nat × String)) (sp : DeclSpans) (d : DeclD)
    (h : d.body = .union) : derive t o sim sp d = .err (Err.custom "Unions are not supported") := by
  unfold derive
  split
  · simp [deriveFromMeta, h]
  · simp [deriveOuter, h]

/-- an enum without variants is rejected by the element-level derives (instead of reaching code
    generation) -/
theorem empty_enum_rejected (t : Trait) (ht : t ≠ .fromMeta) (o : Oracle) (sim : String → Option (Nat × String)) (sp : DeclSpans) (d : DeclD)
    (h : d.body = .enum []) : derive t o sim sp d = .err ((Err.new (.unsupportedShape "enum" none)).withSpan sp.ident) := by
  unfold derive
  have : (t == Trait.fromMeta) = false := by cases t <;> first | exact absurd rfl ht | rfl
  simp [this, deriveOuter, h]

end C10
