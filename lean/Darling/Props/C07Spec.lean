import Darling.Props.C07
import Darling.Props.C07Universe
import Darling.Props.C07Outer
import Darling.Props.C07Recv
import Darling.Props.C07OuterRun
/-
  C07 — an independent reading of the property text, and `model ⊨ text` end to end.

  The text: "for every derived receiver and every built-in conversion, and for every syntax tree
  a macro can be handed […] the parsing entry points return a value or an error.  They never
  panic, never trip an unfinished accumulator, and never rely on an `expect`/`unreachable` that
  some input can reach."

  What the result must be (no step function of the model is mentioned):

    * `Total o`              — the outcome `o` is `Ok v` or `Err e`;
    * `EntryPointsTotal h`   — *every* parsing entry point of a `FromMeta` implementor
                               (`from_nested_meta`, `from_meta`, `from_word`, `from_list`,
                               `from_value`, `from_expr`, `from_char`, `from_string`, `from_bool`,
                               as routed by the trait's default bodies) is total on every input;
    * `OwnSiteDead`          — none of the `expect` / `unreachable!` / `unwrap_err` / `panic!`
                               messages that belong to darling itself comes out of an entry
                               point, *whatever the user-supplied functions do* (they may panic;
                               then their message comes out, never one of darling's).

  Main theorems:

    * `entryPointsTotal_iff_np`        the text's notion (every entry point, as a caller reaches it)
                                       coincides with the model's working notion `Hooks.NP`;
    * `builtin_entryPoints_total`      every built-in conversion, every entry point, every input;
                                       nested receivers from any corpus at any depth; no hypothesis;
    * `receiver_entryPoints_total`     every derived `FromMeta` receiver of every corpus, at every
                                       nesting depth, every entry point; no hypothesis;
    * `receiver_is_assembled`, `derived_receiver_total`
                                       … and this is about the hooks a successful derive assembles,
                                       not about the empty stand-in of a failed derive;
    * `element_total_partial`          every element-level receiver on every element, under the one
                                       side condition `CorpusDerives` (every declaration of the
                                       corpus went through its derive macro without a panic);
    * `element_panic_only_from_derive` the side condition is the only way to a panic;
    * `discrepancy_F8`                 the side condition cannot be dropped (the derive-time panic of
                                       `ident_case`, finding F8, is the model's run-time outcome);
    * `struct_panic_origin`, `finishStruct_panic_origin`, `variant_panic_origin`,
      `outer_panic_origin`, `derived_struct_panic_origin`
                                       a panic of a generated parser is a panic of a user-supplied
                                       piece on an argument it was handed: both generated `expect`s
                                       are dead without assuming anything about user code (the older
                                       theorems assume `ConvsReturn`: user code never panics at all).

  Not expressible in the run-time model, hence no theorem here: "never trip an unfinished
  accumulator".  The generated parsers keep their errors in a plain list (`PState.errs`); the drop
  bomb of `Accumulator` exists only in `Darling/Accum.lean` (C05), which no generated path uses.
  That every path from `Error::accumulator()` reaches `finish` is a syntactic fact about the
  templates (no `?` / `return` in between); it was checked by reading and by execution.
-/
open Derive Options Scalars Wrappers SynTypes

namespace C07
variable {α : Type}

/-! ## 1. the text's predicate -/

/-- "every input yields Ok or Err" -/
def Total (o : Outcome α) : Prop := (∃ v, o = .ok v) ∨ (∃ e, o = .err e)

theorem total_iff_returns (o : Outcome α) : Total o ↔ o.Returns := by
  constructor
  · rintro (⟨v, rfl⟩ | ⟨e, rfl⟩)
    · exact Outcome.returns_ok v
    · exact Outcome.returns_err e
  · intro h
    cases o with
    | ok v => exact Or.inl ⟨v, rfl⟩
    | err e => exact Or.inr ⟨e, rfl⟩
    | panic m => exact absurd rfl (h m)

/-- "never a panic" -/
theorem Total.not_panic {o : Outcome α} (h : Total o) (m : String) : o ≠ .panic m :=
  (total_iff_returns o).1 h m

/-- every parsing entry point of a `FromMeta` implementor, as a caller reaches it (an overridden
    method, or the trait's default body routing to the other methods) -/
structure EntryPointsTotal (h : Hooks α) : Prop where
  fromNestedMeta : ∀ n, Total (h.fromNestedMeta n)
  fromMeta : ∀ m, Total (h.fromMeta m)
  fromWord : Total h.fromWord
  fromList : ∀ items, Total (h.fromList items)
  fromValue : ∀ l, Total (h.fromValue l)
  fromExpr : ∀ e, Total (h.fromExpr e)
  fromChar : ∀ c, Total (h.fromChar c)
  fromString : ∀ s, Total (h.fromString s)
  fromBool : ∀ b, Total (h.fromBool b)

/-- the model's working notion (`Hooks.NP`: every *overridden* method returns) says exactly that
    every *entry point* is total: closure under the default routing in one direction, an
    overridden method *is* the entry point in the other -/
theorem entryPointsTotal_iff_np (h : Hooks α) : EntryPointsTotal h ↔ h.NP := by
  constructor
  · intro t
    constructor
    · intro f hf n
      have := (total_iff_returns _).1 (t.fromNestedMeta n)
      simpa only [Hooks.fromNestedMeta, hf] using this
    · intro f hf m
      have := (total_iff_returns _).1 (t.fromMeta m)
      simpa only [Hooks.fromMeta, hf] using this
    · intro r hr
      have := (total_iff_returns _).1 t.fromWord
      simpa only [Hooks.fromWord, hr] using this
    · intro f hf items
      have := (total_iff_returns _).1 (t.fromList items)
      simpa only [Hooks.fromList, hf] using this
    · intro f hf l
      have := (total_iff_returns _).1 (t.fromValue l)
      simpa only [Hooks.fromValue, hf] using this
    · intro f hf e
      have := (total_iff_returns _).1 (t.fromExpr e)
      simpa only [Hooks.fromExpr, hf] using this
    · intro f hf c
      have := (total_iff_returns _).1 (t.fromChar c)
      simpa only [Hooks.fromChar, hf] using this
    · intro f hf s
      have := (total_iff_returns _).1 (t.fromString s)
      simpa only [Hooks.fromString, hf] using this
    · intro f hf b
      have := (total_iff_returns _).1 (t.fromBool b)
      simpa only [Hooks.fromBool, hf] using this
  · intro np
    exact
      { fromNestedMeta := fun n => (total_iff_returns _).2 (np.fromNestedMeta n)
        fromMeta := fun m => (total_iff_returns _).2 (np.fromMeta m)
        fromWord := (total_iff_returns _).2 np.fromWord
        fromList := fun items => (total_iff_returns _).2 (np.fromList items)
        fromValue := fun l => (total_iff_returns _).2 (np.fromValue l)
        fromExpr := fun e => (total_iff_returns _).2 (np.fromExpr e)
        fromChar := fun c => (total_iff_returns _).2 (np.fromChar c)
        fromString := fun s => (total_iff_returns _).2 (np.fromString s)
        fromBool := fun b => (total_iff_returns _).2 (np.fromBool b) }

/-! ## 2. every built-in conversion -/

/-- **every built-in conversion is total at every entry point**, for every target type of the
    universe (scalars, the 24 integer and 2 float targets, wrappers at any nesting, syntax types,
    literal vectors, keyed collections), with derived receivers of *any* corpus nested at *any*
    depth inside it.  No hypothesis. -/
theorem builtin_entryPoints_total (o : Oracle) (env : Env.T) (fuel : Nat) (t : Ty) :
    EntryPointsTotal (hooksOf o (Env.recvHooksF fuel env) t) :=
  (entryPointsTotal_iff_np _).2 (hooksOf_np o _ (fun n => recvHooksF_np env fuel n) t)

/-- the same relative to arbitrary nested implementors (user-written `FromMeta` impls included),
    as long as *their* entry points are total -/
theorem builtin_entryPoints_total_rel (o : Oracle) (rh : String → Hooks Val)
    (hr : ∀ n, EntryPointsTotal (rh n)) (t : Ty) : EntryPointsTotal (hooksOf o rh t) :=
  (entryPointsTotal_iff_np _).2 (hooksOf_np o rh (fun n => (entryPointsTotal_iff_np _).1 (hr n)) t)

/-! ## 3. every derived `FromMeta` receiver -/

/-- **every derived `FromMeta` receiver of every corpus is total at every entry point**, at every
    nesting depth (`fuel`), on every input.  No hypothesis. -/
theorem receiver_entryPoints_total (env : Env.T) (fuel : Nat) (name : String) :
    EntryPointsTotal (Env.recvHooksF fuel env name) :=
  (entryPointsTotal_iff_np _).2 (recvHooksF_np env fuel name)

/-- the theorem above is about the assembled receiver whenever there is one: a name that resolves
    to a declaration the derive macro accepts denotes the hooks built from what the macro resolved
    (and not the empty stand-in the model uses for unknown names, failed derives and exhausted fuel) -/
theorem receiver_is_assembled (env : Env.T) (fuel : Nat) (name n : String) (t : Trait) (d : DeclD)
    (sp : DeclSpans) (r : RFromMeta) (hf : env.decls.find? (·.1 == name) = some (n, t, d, sp))
    (hd : Options.derive t env.oracle (fun _ => none) sp d = .ok (.fromMeta r)) :
    Env.recvHooksF (fuel + 1) env name = Env.fromMetaHooks env (Env.recvHooksF fuel env) r := by
  simp only [Env.recvHooksF, hf, hd]

/-- **the receiver a successful derive assembles is total**, whatever total implementors its field
    types resolve to: stated on the declaration, with no corpus, no fuel and no stand-in -/
theorem derived_receiver_total (env : Env.T) (rh : String → Hooks Val) (hr : ∀ n, EntryPointsTotal (rh n))
    (t : Trait) (sim : String → Option (Nat × String)) (sp : DeclSpans) (d : DeclD) (r : RFromMeta)
    (hd : Options.derive t env.oracle sim sp d = .ok (.fromMeta r)) :
    EntryPointsTotal (Env.fromMetaHooks env rh r) :=
  (entryPointsTotal_iff_np _).2
    (fromMetaHooks_np env rh (fun n => (entryPointsTotal_iff_np _).1 (hr n)) r
      (derive_linked t env.oracle sim sp d r hd))

/-! ## 4. every element-level receiver -/

/-- the `did-you-mean` oracle `Env.outerRunF` hands to the derive model -/
def simOf (env : Env.T) : String → Option (Nat × String) :=
  fun n => Suggest.didYouMean env.thr [("with", env.oracle.score n "with")]

/-- the corpus exists: every declaration went through its derive macro without a panic (the macro
    may well have rejected it with diagnostics).  A receiver whose derive panicked was never
    compiled, so it is not among "all receivers in the corpus". -/
def CorpusDerives (env : Env.T) : Prop :=
  ∀ x ∈ env.decls, ∀ m, Options.derive x.2.1 env.oracle (simOf env) x.2.2.2 x.2.2.1 ≠ .panic m

/-- the older hypothesis (`DeclSafe`, about identifiers) is sufficient, not necessary -/
theorem corpusDerives_of_declSafe (env : Env.T) (h : ∀ x ∈ env.decls, C06.DeclSafe x.2.2.1) :
    CorpusDerives env :=
  fun x hx => C06.derive_returns _ _ _ _ _ (h x hx)

theorem outerRunF_returns' (env : Env.T) (hc : CorpusDerives env) :
    ∀ (fuel : Nat) (name : String) (el : Elem), (Env.outerRunF fuel env name el).Returns
  | 0, name, el => by simp only [Env.outerRunF]; exact Outcome.returns_err _
  | fuel + 1, name, el => by
      simp only [Env.outerRunF]
      cases hf : env.decls.find? (·.1 == name) with
      | none => exact Outcome.returns_err _
      | some x =>
          obtain ⟨n, t, d, sp⟩ := x
          have hdr := hc _ (List.mem_of_find?_eq_some hf)
          simp only []
          cases hd : Options.derive t env.oracle
            (fun (n : String) => Suggest.didYouMean env.thr [("with", env.oracle.score n "with")]) sp d with
          | err e => exact Outcome.returns_err _
          | panic m => exact absurd hd (hdr m)
          | ok dv =>
              cases dv with
              | fromMeta r => exact Outcome.returns_err _
              | outer r =>
                  have ih := outerRunF_returns' env hc fuel
                  exact runOuter_returns env _ _ ih (entryConvF_returns _ ih 8) r
                    (derive_outer_linked t env.oracle _ sp d r hd) el

/-- **every element-level receiver (`FromDeriveInput`, `FromField`, `FromVariant`, `FromTypeParam`,
    `FromAttributes`) of every corpus is total on every element** — any data shape (unions, empty
    enums), any attribute list (bodies that are not meta syntax, name-value and bare forms), any
    nesting depth of delegation — under the one side condition that the corpus exists -/
theorem element_total_partial (env : Env.T) (hc : CorpusDerives env) (fuel : Nat) (name : String) (el : Elem) :
    Total (Env.outerRunF fuel env name el) :=
  (total_iff_returns _).2 (outerRunF_returns' env hc fuel name el)

/-- **the side condition is the only way to a panic**: a panicking outcome of the element-level
    model is a panic of some derive macro of the corpus (a compile-time event), never of the
    generated `from_*` -/
theorem element_panic_only_from_derive (env : Env.T) (fuel : Nat) (name : String) (el : Elem) (m : String)
    (h : Env.outerRunF fuel env name el = .panic m) :
    ∃ x ∈ env.decls, ∃ m', Options.derive x.2.1 env.oracle (simOf env) x.2.2.2 x.2.2.1 = .panic m' := by
  apply Classical.byContradiction
  intro hno
  have hc : CorpusDerives env := by
    intro x hx m' hd
    exact hno ⟨x, hx, m', hd⟩
  exact outerRunF_returns' env hc fuel name el m h

/-- **the receiver a successful derive assembles is total on every element**, whatever total
    receivers and entry converters it delegates to -/
theorem derived_element_total (env : Env.T) (run conv : String → Elem → Outcome Val)
    (hrun : ∀ n el, Total (run n el)) (hconv : ∀ n el, Total (conv n el))
    (t : Trait) (sim : String → Option (Nat × String)) (sp : DeclSpans) (d : DeclD) (r : ROuter)
    (hd : Options.derive t env.oracle sim sp d = .ok (.outer r)) (el : Elem) :
    Total (Env.runOuter env run conv r el) :=
  (total_iff_returns _).2
    (runOuter_returns env run conv (fun n el => (total_iff_returns _).1 (hrun n el))
      (fun n el => (total_iff_returns _).1 (hconv n el)) r
      (derive_outer_linked t env.oracle sim sp d r hd) el)

/-! ## 5. darling's own `expect`s are dead whatever user code does

  The older theorems assume that every converter, every `with` / `map` / `and_then` function and
  every nested implementor returns on *all* inputs (`ConvsReturn`).  The text asks for more: the
  generated code must not *rely* on an `expect` that some input can reach.  Here nothing is assumed
  about the user-supplied pieces — they may panic — and the conclusion is that a panic that comes
  out of a generated parser is one of *their* panics, on an argument they were actually handed. -/

section Origin
variable {ν : Type}

/-- the panic message `m` is the panic of a user-supplied piece of the struct parser `s`: a field
    converter (`with` function, post-transform or the field type's `from_meta`) on some item, the
    `from_list` of the flatten field's type on some item list, or the container's post-transform -/
inductive UserPanic (s : SStruct ν) (m : String) : Prop where
  | conv (f : SField ν) (hf : f ∈ s.fields) (x : Meta) (h : f.conv x = .panic m)
  | list (f : SField ν) (hf : f ∈ s.fields) (xs : List NestedMeta) (h : f.fromList xs = .panic m)
  | post (v : ν) (h : s.post v = .panic m)

/-- derive-time fact (`derive_linked`): a field that inherits its default has a container default
    to inherit from -/
def DefaultsHaveSource (s : SStruct ν) : Prop :=
  ∀ f ∈ s.fields, f.dflt = some .inherit → s.containerDefault.isSome = true

theorem stepItem_origin (s : SStruct ν) (st : PState ν) (it : NestedMeta) (hg : Good st) :
    (∃ st', stepItem s st it = .ok st' ∧ Good st') ∨
    (∃ m, stepItem s st it = .error m ∧ UserPanic s m) := by
  cases it with
  | lit l => exact Or.inl ⟨_, rfl, good_push _ _⟩
  | item inner =>
      simp only [stepItem]
      cases ha : s.arm inner.path'.toStr with
      | none =>
          simp only []
          by_cases hf : s.hasFlatten = true
          · simp only [hf, if_true]
            refine Or.inl ⟨_, rfl, ?_⟩
            rcases hg with h | h
            · exact Or.inl h
            · exact Or.inr h
          · simp only [hf]
            by_cases hu : s.allowUnknown = true
            · simp only [hu, if_true]; exact Or.inl ⟨_, rfl, hg⟩
            · simp only [hu]; exact Or.inl ⟨_, rfl, good_push _ _⟩
      | some f =>
          have hm := arm_mem s _ f ha
          simp only []
          by_cases hmul : f.multiple = true
          · simp only [hmul, if_true]
            cases hcv : f.conv inner with
            | ok v => exact Or.inl ⟨_, rfl, good_set _ _ _ hg (fun h => h f.ident)⟩
            | err e => exact Or.inl ⟨_, rfl, good_push _ _⟩
            | panic m => exact Or.inr ⟨m, rfl, .conv f hm inner hcv⟩
          · simp only [hmul]
            by_cases hseen : (st.slot f.ident).seen = true
            · simp only [hseen]; exact Or.inl ⟨_, rfl, good_push _ _⟩
            · simp only [hseen]
              cases hcv : f.conv inner with
              | ok v => exact Or.inl ⟨_, rfl, good_set _ _ _ hg (fun _ _ => by simp)⟩
              | err e => exact Or.inl ⟨_, rfl, good_push _ _⟩
              | panic m => exact Or.inr ⟨m, rfl, .conv f hm inner hcv⟩

theorem coreLoop_origin (s : SStruct ν) : ∀ (items : List NestedMeta) (st : PState ν), Good st →
    (∃ st', coreLoop s st items = .ok st' ∧ Good st') ∨
    (∃ m, coreLoop s st items = .error m ∧ UserPanic s m)
  | [], st, hg => Or.inl ⟨st, rfl, hg⟩
  | it :: rest, st, hg => by
      rcases stepItem_origin s st it hg with ⟨st1, h1, g1⟩ | ⟨m, h1, u⟩
      · simp only [coreLoop, h1]; exact coreLoop_origin s rest st1 g1
      · simp only [coreLoop, h1]; exact Or.inr ⟨m, rfl, u⟩

theorem runAtoms_origin (s : SStruct ν) : ∀ (ats : List C08.Atom) (st : PState ν), Good st →
    (∃ st', C08.runAtoms s st ats = .ok st' ∧ Good st') ∨
    (∃ m, C08.runAtoms s st ats = .error m ∧ UserPanic s m)
  | [], st, hg => Or.inl ⟨st, rfl, hg⟩
  | .item i :: rest, st, hg => by
      rcases stepItem_origin s st i hg with ⟨st1, h1, g1⟩ | ⟨m, h1, u⟩
      · simp only [C08.runAtoms, C08.stepAtom, h1]; exact runAtoms_origin s rest st1 g1
      · simp only [C08.runAtoms, C08.stepAtom, h1]; exact Or.inr ⟨m, rfl, u⟩
  | .bad e :: rest, st, hg => by
      simp only [C08.runAtoms, C08.stepAtom]
      exact runAtoms_origin s rest _ (good_push st e)

theorem flattenInit_origin (s : SStruct ν) (st : PState ν) (hg : Good st) :
    (∃ st', flattenInit s st = .ok st' ∧ Good st' ∧ (st.errs ≠ [] → st'.errs ≠ [])) ∨
    (∃ m, flattenInit s st = .error m ∧ UserPanic s m) := by
  unfold flattenInit
  cases hf : s.fields.find? (·.flatten) with
  | none => exact Or.inl ⟨st, rfl, hg, id⟩
  | some ff =>
      have hm : ff ∈ s.fields := List.mem_of_find?_eq_some hf
      simp only []
      have key : ∀ (res : Outcome ν), (∀ m, res = .panic m → ff.fromList st.flat = .panic m) →
          (∃ st' : PState ν, (match res with
            | .ok v => (Except.ok (st.set ff.ident { seen := true, val := some v }) : Except String (PState ν))
            | .err e => .ok ((st.set ff.ident { seen := true, val := none }).push e)
            | .panic m => .error m) = .ok st' ∧ Good st' ∧ (st.errs ≠ [] → st'.errs ≠ [])) ∨
          (∃ m, (match res with
            | .ok v => (Except.ok (st.set ff.ident { seen := true, val := some v }) : Except String (PState ν))
            | .err e => .ok ((st.set ff.ident { seen := true, val := none }).push e)
            | .panic m => .error m) = .error m ∧ UserPanic s m) := by
        intro res hres
        cases res with
        | ok v => exact Or.inl ⟨_, rfl, good_set _ _ _ hg (fun _ _ => by simp), id⟩
        | err e => exact Or.inl ⟨_, rfl, good_push _ _, fun _ => by simp [PState.push]⟩
        | panic m => exact Or.inr ⟨m, rfl, .list ff hm st.flat (hres m rfl)⟩
      by_cases hp : s.names.isEmpty = true
      · simp only [hp, if_true]; exact key _ (fun m h => h)
      · simp only [hp]
        apply key
        intro m h
        cases hr : ff.fromList st.flat with
        | ok v => rw [hr] at h; simp [Outcome.mapErr] at h
        | err e => rw [hr] at h; simp [Outcome.mapErr] at h
        | panic m' => rw [hr] at h; simp only [Outcome.mapErr] at h; exact h

theorem defaultValue_ne_panic (s : SStruct ν) (hd : DefaultsHaveSource s) (f : SField ν) (hf : f ∈ s.fields)
    (d : DefaultSrc ν) (hdf : f.dflt = some d) (msg : String) : defaultValue s f d ≠ .panic msg := by
  cases d with
  | value v => simp [defaultValue]
  | inherit =>
      have := hd f hf hdf
      cases hcd : s.containerDefault with
      | none => rw [hcd] at this; cases this
      | some cd => simp [defaultValue, hcd]

theorem initField_ne_panic (s : SStruct ν) (hd : DefaultsHaveSource s) (st : PState ν) (f : SField ν)
    (hf : f ∈ s.fields) (hv : f.multiple = false → f.dflt = none → (st.slot f.ident).val ≠ none)
    (msg : String) : initField s st f ≠ .panic msg := by
  unfold initField
  by_cases hm : f.multiple = true
  · simp only [hm, if_true]
    cases hdf : f.dflt with
    | none => simp
    | some d =>
        simp only []
        split
        · simp
        · exact defaultValue_ne_panic s hd f hf d hdf msg
  · have hm' : f.multiple = false := by cases h : f.multiple <;> simp_all
    simp only [hm']
    cases hdf : f.dflt with
    | some d =>
        simp only []
        cases hval : (st.slot f.ident).val with
        | some v => simp
        | none => simpa using defaultValue_ne_panic s hd f hf d hdf msg
    | none =>
        simp only []
        cases hval : (st.slot f.ident).val with
        | some v => simp
        | none => exact absurd hval (hv hm' hdf)

theorem initFields_ne_panic (s : SStruct ν) (hd : DefaultsHaveSource s) (st : PState ν) (fs : List (SField ν))
    (hsub : ∀ f ∈ fs, f ∈ s.fields)
    (hv : ∀ f ∈ fs, f.multiple = false → f.dflt = none → (st.slot f.ident).val ≠ none) :
    ∀ msg, initFields s st fs ≠ .panic msg := by
  induction fs with
  | nil => simp [initFields]
  | cons f rest ih =>
      have h1 := initField_ne_panic s hd st f (hsub f List.mem_cons_self) (hv f List.mem_cons_self)
      have h2 := ih (fun g hg => hsub g (List.mem_cons_of_mem _ hg)) (fun g hg => hv g (List.mem_cons_of_mem _ hg))
      intro msg
      unfold initFields
      cases hi : initField s st f with
      | ok v =>
          simp only []
          cases hr : initFields s st rest with
          | ok l => simp [Outcome.map]
          | err e => simp [Outcome.map]
          | panic m => exact absurd hr (h2 m)
      | err e => simp
      | panic m => exact absurd hi (h1 m)

/-- everything after the item walk (`require_fields`, `check_errors`, defaults, the struct literal
    with its `expect`s, the post-transform): from a state the walk can leave behind, a panic is a
    user panic -/
theorem finishStruct_panic_origin (s : SStruct ν) (hd : DefaultsHaveSource s) (flattenHere : Bool)
    (loc : Option String) (st : PState ν) (hg : Good st) (m : String)
    (h : finishStruct s flattenHere loc st = .panic m) : UserPanic s m := by
  unfold finishStruct at h
  have h1 : (∃ st1, (if flattenHere then flattenInit s st else Except.ok st) = .ok st1 ∧ Good st1) ∨
      (∃ m', (if flattenHere then flattenInit s st else Except.ok st) = .error m' ∧ UserPanic s m') := by
    cases flattenHere with
    | true =>
        rcases flattenInit_origin s st hg with ⟨st1, e, g, _⟩ | ⟨m', e, u⟩
        · exact Or.inl ⟨st1, by simpa using e, g⟩
        · exact Or.inr ⟨m', by simpa using e, u⟩
    | false => exact Or.inl ⟨st, rfl, hg⟩
  rcases h1 with ⟨st1, h1e, g1⟩ | ⟨m', h1e, u⟩
  · simp only [h1e] at h
    have hck := checkMissing_checked s.fields st1 g1
    cases he : (checkMissing s.fields st1).errs with
    | cons e es =>
        exfalso
        rw [he] at h
        simp only [] at h
        have hb := bundleErr_returns (ν := ν) (e :: es) (by simp)
        cases loc with
        | none => exact hb m h
        | some l =>
            simp only [] at h
            cases hbe : (Err.bundleErr (e :: es) : Outcome ν) with
            | ok v => rw [hbe] at h; cases h
            | err e' => rw [hbe] at h; cases h
            | panic m' => exact hb m' hbe
    | nil =>
        rw [he] at h
        simp only [] at h
        have hin := initFields_ne_panic s hd (checkMissing s.fields st1) s.fields (fun _ h => h)
          (fun f hf hm hdf => by
            rcases hck f hf hm hdf with h' | h'
            · exact absurd he h'
            · exact h')
        cases hI : initFields s (checkMissing s.fields st1) s.fields with
        | ok kvs => rw [hI] at h; exact .post _ h
        | err e => rw [hI] at h; cases h
        | panic m' => exact absurd hI (hin m')
  · simp only [h1e] at h
    cases h
    exact u

/-- **a derived struct parser relies on no `expect` of its own**: whatever the item list and
    whatever the user-supplied pieces do, a panic of the emitted `from_list` is a user panic.
    The one hypothesis is the derive-time fact about inherited defaults (`derive_linked`). -/
theorem struct_panic_origin (s : SStruct ν) (hd : DefaultsHaveSource s) (items : List NestedMeta) (m : String)
    (h : Derive.fromList s items = .panic m) : UserPanic s m := by
  unfold Derive.fromList at h
  rcases coreLoop_origin s items {} good_init with ⟨st, hl, g⟩ | ⟨m', hl, u⟩
  · rw [hl] at h; exact finishStruct_panic_origin s hd true none st g m h
  · rw [hl] at h; cases h; exact u

/-- the older theorem is the special case "no user-supplied piece ever panics" -/
theorem struct_total_of_user_total (s : SStruct ν) (hd : DefaultsHaveSource s)
    (hu : ∀ m, ¬ UserPanic s m) (items : List NestedMeta) : Total (Derive.fromList s items) :=
  (total_iff_returns _).2 (fun m h => hu m (struct_panic_origin s hd items m h))

theorem convsReturn_no_userPanic (s : SStruct ν) (hc : ConvsReturn s) (m : String) : ¬ UserPanic s m := by
  intro u
  cases u with
  | conv f hf x h => exact hc.conv f hf x m h
  | list f hf xs h => exact hc.list f hf xs m h
  | post v h => exact hc.post v m h

/-- **the arm of an enum variant relies on no `expect` of its own** -/
theorem variant_panic_origin (v : SVariant ν) (nested : Meta) (m : String) (h : dataArm v nested = .panic m) :
    match v.kind with
    | .unit _ => False
    | .newtype fromMeta _ _ => fromMeta nested = .panic m
    | .struct s => DefaultsHaveSource s → UserPanic s m := by
  unfold dataArm at h
  cases hk : v.kind with
  | unit val =>
      rw [hk] at h
      simp only [] at h ⊢
      cases nested <;> cases h
  | newtype fm fn wrap =>
      rw [hk] at h
      simp only [] at h ⊢
      cases hfm : fm nested with
      | ok x => rw [hfm] at h; cases h
      | err e => rw [hfm] at h; cases h
      | panic m' => rw [hfm] at h; cases h; rfl
  | struct s =>
      rw [hk] at h
      simp only [] at h ⊢
      intro hd
      cases nested with
      | path _ => cases h
      | nameValue _ _ _ _ => cases h
      | list p items bad ts t sp =>
          cases bad with
          | some b => cases h
          | none =>
              simp only [] at h
              rcases coreLoop_origin s items {} good_init with ⟨st, hl, g⟩ | ⟨m', hl, u⟩
              · rw [hl] at h; exact finishStruct_panic_origin s hd true (some v.name) st g m h
              · rw [hl] at h; cases h; exact u

/-! ### element-level receivers -/

/-- where a panic of a generated `from_derive_input` / `from_field` / `from_variant` /
    `from_type_param` / `from_attributes` can come from: the user-supplied pieces of its field
    parser, the `with` function of its `attrs` field on the forwarded attributes, the shape
    validator, or the conversion of a pass-through member (generics, body) -/
inductive OuterUserPanic (r : SOuter ν) (validate : Outcome Unit) (late : List (String × Outcome ν))
    (m : String) : Prop where
  | fields (u : UserPanic r.fields m)
  | attrsFn (mk : List Attr → Outcome ν) (as : List Attr) (h : r.attrsField = some mk) (hp : mk as = .panic m)
  | validate (h : validate = .panic m)
  | late (p : String × Outcome ν) (hp : p ∈ late) (h : p.2 = .panic m)

/-- the attribute walk: it ends in a good state with the `attrs` guard, or a user piece panicked -/
theorem extract_origin (r : SOuter ν) (attrs : List Attr) :
    (∃ st av, extract r attrs = .ok (st, av) ∧ Good st ∧ AttrsGuard r st av) ∨
    (∃ m, extract r attrs = .error m ∧
      (UserPanic r.fields m ∨ ∃ mk as, r.attrsField = some mk ∧ mk as = .panic m)) := by
  rw [C08.extract_spec]
  unfold C08.extractSpec
  rcases runAtoms_origin r.fields (C08.atoms r attrs) {} good_init with ⟨st, h1, g1⟩ | ⟨m, h1, u⟩
  · rw [h1]
    simp only [attrsValue]
    cases ha : r.attrsField with
    | none => exact Or.inl ⟨st, none, rfl, g1, by simp [AttrsGuard, ha]⟩
    | some mk =>
        simp only []
        cases hm : mk (attrs.filter (C08.forwardedBy r)) with
        | ok v => exact Or.inl ⟨st, some v, rfl, g1, by intro _ h; cases h⟩
        | err e => exact Or.inl ⟨st.push e, none, rfl, good_push _ _, by intro _ _; simp [PState.push]⟩
        | panic m => exact Or.inr ⟨m, rfl, Or.inr ⟨mk, _, rfl, hm⟩⟩
  · rw [h1]
    exact Or.inr ⟨m, rfl, Or.inl u⟩

theorem lateValues_origin (parts : List (String × Outcome ν)) (m : String)
    (h : lateValues parts = .panic m) : ∃ p ∈ parts, p.2 = .panic m := by
  induction parts with
  | nil => simp [lateValues] at h
  | cons p rest ih =>
      obtain ⟨k, o⟩ := p
      unfold lateValues at h
      cases o with
      | ok v =>
          simp only [] at h
          cases hr : lateValues rest with
          | ok l => rw [hr] at h; simp [Outcome.map] at h
          | err e => rw [hr] at h; simp [Outcome.map] at h
          | panic m' =>
              rw [hr] at h
              simp only [Outcome.map, Outcome.panic.injEq] at h
              subst h
              obtain ⟨q, hq, hq2⟩ := ih hr
              exact ⟨q, List.mem_cons_of_mem _ hq, hq2⟩
      | err e => simp at h
      | panic m' =>
          simp only [Outcome.panic.injEq] at h
          subst h
          exact ⟨(k, .panic m'), List.mem_cons_self, rfl⟩

theorem finishChecked_origin (r : SOuter ν) (hd : DefaultsHaveSource r.fields) (st : PState ν) (av : Option ν)
    (hg : Good st) (hav : AttrsGuard r st av) (validate : Outcome Unit)
    (late : List (String × Outcome ν)) (early : List (String × ν)) (build : List (String × ν) → ν) (m : String)
    (h : finishChecked r st av late early build = .panic m) : OuterUserPanic r validate late m := by
  unfold finishChecked at h
  rcases flattenInit_origin r.fields st hg with ⟨st1, h1, g1, m1⟩ | ⟨m', h1, u⟩
  · rw [h1] at h
    simp only [] at h
    obtain ⟨g2, m2⟩ := checkMissing_good r.fields.fields st1 g1
    have hck := checkMissing_checked r.fields.fields st1 g1
    cases he : (checkMissing r.fields.fields st1).errs with
    | cons e es =>
        rw [he] at h
        exact absurd h (bundleErr_returns _ (by simp) m)
    | nil =>
        rw [he] at h
        simp only [] at h
        have hnoerr : st.errs = [] := by
          cases hs : st.errs with
          | nil => rfl
          | cons x xs => exact absurd he (m2 (m1 (by rw [hs]; simp)))
        have ha : ∀ m, attrsPart r av ≠ .panic m := by
          intro m
          unfold attrsPart
          cases haf : r.attrsField with
          | none => simp
          | some mk =>
              cases hav' : av with
              | some v => simp
              | none => exact absurd hnoerr (hav (by simp [haf]) hav')
        have hin := initFields_ne_panic r.fields hd (checkMissing r.fields.fields st1) r.fields.fields (fun _ h => h)
          (fun f hf hm hdf => by
            rcases hck f hf hm hdf with h' | h'
            · exact absurd he h'
            · exact h')
        unfold assemble at h
        cases hA : attrsPart r av with
        | panic m' => exact absurd hA (ha m')
        | ok a =>
            cases hI : initFields r.fields (checkMissing r.fields.fields st1) r.fields.fields with
            | panic m' => exact absurd hI (hin m')
            | ok inits =>
                cases hL : lateValues late with
                | ok l => rw [hA, hL, hI] at h; exact .fields (.post _ h)
                | err e => rw [hA, hL, hI] at h; cases h
                | panic m' =>
                    rw [hA, hL, hI] at h
                    cases h
                    obtain ⟨p, hp, hp2⟩ := lateValues_origin late m hL
                    exact .late p hp hp2
            | err e =>
                cases hL : lateValues late with
                | ok l => rw [hA, hL, hI] at h; cases h
                | err e => rw [hA, hL, hI] at h; cases h
                | panic m' =>
                    rw [hA, hL, hI] at h
                    cases h
                    obtain ⟨p, hp, hp2⟩ := lateValues_origin late m hL
                    exact .late p hp hp2
        | err e =>
            cases hI : initFields r.fields (checkMissing r.fields.fields st1) r.fields.fields with
            | panic m' => exact absurd hI (hin m')
            | ok inits =>
                cases hL : lateValues late with
                | ok l => rw [hA, hL, hI] at h; cases h
                | err e => rw [hA, hL, hI] at h; cases h
                | panic m' =>
                    rw [hA, hL, hI] at h
                    cases h
                    obtain ⟨p, hp, hp2⟩ := lateValues_origin late m hL
                    exact .late p hp hp2
            | err e =>
                cases hL : lateValues late with
                | ok l => rw [hA, hL, hI] at h; cases h
                | err e => rw [hA, hL, hI] at h; cases h
                | panic m' =>
                    rw [hA, hL, hI] at h
                    cases h
                    obtain ⟨p, hp, hp2⟩ := lateValues_origin late m hL
                    exact .late p hp hp2
  · rw [h1] at h
    cases h
    exact .fields u

/-- what a generated element-level `from_*` computes from the attribute list and the pieces the
    element contributes (the composition `Env.runOuter` performs) -/
def outerOutcome (r : SOuter ν) (attrs : List Attr) (validate : Outcome Unit)
    (late : List (String × Outcome ν)) (early : List (String × ν)) (build : List (String × ν) → ν) : Outcome ν :=
  match extract r attrs with
  | .error m => .panic m
  | .ok (st, av) => finishOuter r st av validate late early build

/-- **an element-level receiver relies on no `expect` of its own**: neither
    `attrs.expect("Errors were already checked")` nor the initialiser's `expect` can be reached by
    any attribute list, whatever the user-supplied pieces do -/
theorem outer_panic_origin (r : SOuter ν) (hd : DefaultsHaveSource r.fields) (attrs : List Attr)
    (validate : Outcome Unit) (late : List (String × Outcome ν)) (early : List (String × ν))
    (build : List (String × ν) → ν) (m : String)
    (h : outerOutcome r attrs validate late early build = .panic m) : OuterUserPanic r validate late m := by
  unfold outerOutcome at h
  rcases extract_origin r attrs with ⟨st, av, he, hg, hav⟩ | ⟨m', he, u⟩
  · rw [he] at h
    simp only [] at h
    unfold finishOuter at h
    cases hv : validate with
    | panic m' => rw [hv] at h; cases h; exact .validate rfl
    | ok u =>
        rw [hv] at h
        have := finishChecked_origin r hd st av hg hav (.ok u) late early build m h
        cases this with
        | fields u => exact .fields u
        | attrsFn mk as h1 h2 => exact .attrsFn mk as h1 h2
        | validate h1 => cases h1
        | late p hp h1 => exact .late p hp h1
    | err e =>
        rw [hv] at h
        have := finishChecked_origin r hd (st.push e) av (good_push _ _)
          (fun _ _ => by simp [PState.push]) (.err e) late early build m h
        cases this with
        | fields u => exact .fields u
        | attrsFn mk as h1 h2 => exact .attrsFn mk as h1 h2
        | validate h1 => cases h1
        | late p hp h1 => exact .late p hp h1
  · rw [he] at h
    cases h
    rcases u with u | ⟨mk, as, h1, h2⟩
    · exact .fields u
    · exact .attrsFn mk as h1 h2

end Origin

/-- `Env.runOuter`'s main arm is this composition (so `outer_panic_origin` speaks about the function
    the model driver executes) -/
theorem mainArm_is_outerOutcome (env : Env.T) (conv : String → Elem → Outcome Val) (r : ROuter)
    (fields : List RField) (el : Elem) :
    mainArm env conv r fields el =
      outerOutcome (soOf env r fields el) el.attrsOf (validateOf r el) (lateOf env conv r el)
        (earlyParts (fun m => r.magic.contains m) el) (fun kvs => .record r.base.ident (Env.sortKvs kvs)) := by
  unfold mainArm outerOutcome
  cases extract (soOf env r fields el) el.attrsOf with
  | error m => rfl
  | ok x => obtain ⟨st, av⟩ := x; rfl

/-! ### … for the receivers of a corpus, with arbitrary (possibly panicking) nested implementors -/

/-- the derive-time link is exactly what `DefaultsHaveSource` asks of an assembled field parser;
    nothing is assumed about the nested implementors `rh` -/
theorem semStruct_defaultsHaveSource (env : Env.T) (rh : String → Hooks Val) (core : RCore)
    (fields : List RField) (build : List (String × Val) → Val) (hl : DefaultsLinked core fields) :
    DefaultsHaveSource (Env.semStruct env rh core fields build) := by
  intro sf hsf hd
  simp only [Env.semStruct, List.mem_map] at hsf
  obtain ⟨f, hf, rfl⟩ := hsf
  have := hl f hf (semField_dflt_inherit env rh f hd)
  simp only [Env.semStruct, Option.isSome_map]
  exact this

/-- **every struct `FromMeta` receiver a derive accepts relies on no `expect` of its own**, whatever
    its field types' implementors do (user-written `FromMeta` impls that panic included): a panic of
    its emitted `from_list` is a panic of one of those pieces on an argument it was handed -/
theorem derived_struct_panic_origin (env : Env.T) (rh : String → Hooks Val) (t : Trait)
    (sim : String → Option (Nat × String)) (sp : DeclSpans) (d : DeclD) (r : RFromMeta)
    (hd : Options.derive t env.oracle sim sp d = .ok (.fromMeta r))
    (style : Style) (fields : List RField) (hdata : r.base.data = .struct style fields)
    (build : List (String × Val) → Val) (items : List NestedMeta) (m : String)
    (h : Derive.fromList (Env.semStruct env rh r.base fields build) items = .panic m) :
    UserPanic (Env.semStruct env rh r.base fields build) m := by
  have hl := derive_linked t env.oracle sim sp d r hd
  unfold Linked at hl
  rw [hdata] at hl
  exact struct_panic_origin _ (semStruct_defaultsHaveSource env rh r.base fields build hl) items m h

/-- the same for the field parser of an element-level receiver -/
theorem derived_outer_defaultsHaveSource (env : Env.T) (t : Trait) (sim : String → Option (Nat × String))
    (sp : DeclSpans) (d : DeclD) (r : ROuter) (hd : Options.derive t env.oracle sim sp d = .ok (.outer r))
    (style : Style) (fields : List RField) (hdata : r.base.data = .struct style fields) (el : Elem) :
    DefaultsHaveSource (soOf env r fields el).fields := by
  have hl := derive_outer_linked t env.oracle sim sp d r hd style fields hdata
  have h0 := semStruct_defaultsHaveSource env (Env.recvHooks env) r.base fields
    (fun kvs => .record r.base.ident (Env.sortKvs kvs)) hl
  intro f hf hinh
  exact cdfltOf_isSome env r el _ (h0 f hf hinh)

/-! ## 6. non-vacuity, weakest hypotheses, discrepancies -/

section Examples

private def pth (name : String) : Path :=
  { global := false, segs := [name], plain := true, toks := name, span := ⟨0, 0⟩ }
private def strLit (s : String) : Lit := ⟨.str s, "\"" ++ s ++ "\"", ⟨0, 0⟩⟩
private def nv (name : String) (l : Lit) : NestedMeta := .item (.nameValue (pth name) (.lit l) "" ⟨0, 0⟩)
private def word (name : String) : NestedMeta := .item (.path (pth name))
private def lst (name : String) (items : List NestedMeta) : Meta := .list (pth name) items none none "" ⟨0, 0⟩
private def mkA (name : String) (items : List NestedMeta) : Attr :=
  { path := pth name, body := lst name items, toks := "", span := ⟨0, 0⟩ }
private def fld (id : String) (ty : Ty) (tyToks : String := "") : FieldD :=
  { ident := some id, ty := ty, tyToks := tyToks, vis := "", attrs := [] }
private def u128 : IntSpec := ⟨"u128", false, 128, false⟩

/-! ### `Total` distinguishes the three outcomes -/
example : Total (Outcome.ok 1 : Outcome Nat) := Or.inl ⟨1, rfl⟩
example : Total (Outcome.err (Err.custom "e") : Outcome Nat) := Or.inr ⟨_, rfl⟩
example : ¬ Total (Outcome.panic "p" : Outcome Nat) := fun h => h.not_panic "p" rfl

/-! ### "numbers beyond every integer width": 2¹²⁸ into `u128` is an error, not a panic -/
example : (hooksOf {} (fun _ => {}) (.int u128)).fromValue
      ⟨.int "340282366920938463463374607431768211456" "", "", ⟨0, 0⟩⟩ =
    .err (.leaf (.custom "number too large to fit in target type") [] (some ⟨0, 0⟩)) := by rfl
/-- … and the largest `u128` is a value -/
example : ((hooksOf {} (fun _ => {}) (.int u128)).fromValue
      ⟨.int "340282366920938463463374607431768211455" "", "", ⟨0, 0⟩⟩).isOk = true := by rfl

/-! ### "name-value or bare forms", "bodies that are not meta syntax" reach the built-ins -/
example : ((hooksOf {} (fun _ => {}) .bool).fromMeta (.path (pth "flag"))).isOk = true := by rfl
example : ((hooksOf {} (fun _ => {}) .bool).fromMeta
      (.list (pth "flag") [] (some ("unexpected token", ⟨3, 4⟩)) none "" ⟨0, 9⟩)).isOk = false := by rfl
example : Total ((hooksOf {} (fun _ => {}) .bool).fromMeta
      (.list (pth "flag") [] (some ("unexpected token", ⟨3, 4⟩)) none "" ⟨0, 9⟩)) :=
  (builtin_entryPoints_total {} exampleEnv 0 .bool).fromMeta _

/-! ### a derived `FromMeta` receiver: the theorem is about the assembled hooks, which do work -/
example : ((Env.recvHooks exampleEnv "R").fromList [nv "a" ⟨.bool true, "true", ⟨0, 0⟩⟩]).isOk = true := by decide
example : ((Env.recvHooks exampleEnv "R").fromList [nv "zz" ⟨.bool true, "true", ⟨0, 0⟩⟩]).isOk = false := by decide
example (items : List NestedMeta) : Total ((Env.recvHooks exampleEnv "R").fromList items) :=
  (receiver_entryPoints_total exampleEnv _ "R").fromList items

/-! ### element-level receivers: any data shape, unions and empty enums included -/

/-- `#[derive(FromDeriveInput)] #[darling(supports(struct_named, enum_unit))] struct R { data: ast::Data<(), ()>, x: Option<bool> }`
    and `#[derive(FromDeriveInput)] struct Q { data: ast::Data<(), ()> }` -/
private def fdiEnv : Env.T :=
  { decls :=
      [("R", .fromDeriveInput,
        { ident := "R", attrs := [mkA "darling" [.item (lst "supports" [word "struct_named", word "enum_unit"])]],
          body := .struct .named [fld "data" .unit "ast::Data<(),()>", fld "x" (.option .bool)] }, {}),
       ("Q", .fromDeriveInput,
        { ident := "Q", attrs := [], body := .struct .named [fld "data" .unit "ast::Data<(),()>"] }, {})],
    oracle := {}, thr := 0 }

private def unionInput : Elem := .deriveInput { ident := "U", attrs := [], body := .union }
private def emptyEnumInput : Elem := .deriveInput { ident := "E", attrs := [], body := .enum [] }

private theorem fdiEnv_derives : CorpusDerives fdiEnv := by
  apply corpusDerives_of_declSafe
  intro x hx
  simp only [fdiEnv, List.mem_cons, List.not_mem_nil, or_false] at hx
  have hdata : C06.IdentSafe "data" := by
    intro rule
    cases rule <;> constructor <;> first | exact Outcome.returns_ok _ | exact C06.returns_of_eq_ok rfl
  have hx' : C06.IdentSafe "x" := by
    intro rule
    cases rule <;> constructor <;> first | exact Outcome.returns_ok _ | exact C06.returns_of_eq_ok rfl
  rcases hx with rfl | rfl
  · intro f hf
    simp only [fld, List.mem_cons, List.not_mem_nil, or_false] at hf
    rcases hf with rfl | rfl
    · exact hdata
    · exact hx'
  · intro f hf
    simp only [fld, List.mem_cons, List.not_mem_nil, or_false] at hf
    subst hf
    exact hdata

/-- the side condition of `element_total_partial` holds of this corpus, so the theorem applies … -/
example (name : String) (el : Elem) : Total (Env.outerRun fdiEnv name el) :=
  element_total_partial fdiEnv fdiEnv_derives _ name el

/-- … and the receivers are really run: a union is refused by `supports(..)` with an error, by
    `Data::try_from` with another error; an empty enum is a value -/
example : Env.outerRun fdiEnv "R" unionInput = .err (.leaf (.unsupportedShape "union" none) [] none) := by rfl
example : Env.outerRun fdiEnv "Q" unionInput = .err (.leaf (.custom "Unions are not supported") [] none) := by rfl
example : (Env.outerRun fdiEnv "R" emptyEnumInput).isOk = true := by rfl
example : (Env.outerRun fdiEnv "Q" emptyEnumInput).isOk = true := by rfl

/-! ### DISCREPANCY 1 (model vs text, known finding F8): `CorpusDerives` cannot be dropped

  `#[derive(FromField)] #[darling(rename_all = "camelCase")] struct R { __: bool }`:
  the derive macro itself panics (inside `ident_case`), and the element-level model hands that
  derive-time panic out as the outcome of `from_field`.  The text speaks of run time: such a
  receiver is never compiled, so it is outside the quantifier — hence a side condition, not a
  violation of C07 (it is the recorded violation F8 of C06). -/

private def f8Decl : DeclD :=
  { ident := "R", attrs := [mkA "darling" [nv "rename_all" (strLit "camelCase")]],
    body := .struct .named [fld "__" .bool] }

private def f8Env : Env.T := { decls := [("R", .fromField, f8Decl, {})], oracle := {}, thr := 0 }

theorem discrepancy_F8 :
    Env.outerRun f8Env "R" (.field (fld "x" .bool)) = .panic "byte index 1 is out of bounds" := by rfl

example : ¬ CorpusDerives f8Env := by
  intro h
  exact h ("R", .fromField, f8Decl, {}) List.mem_cons_self "byte index 1 is out of bounds" (by rfl)

/-- the characterisation finds the culprit -/
example : ∃ x ∈ f8Env.decls, ∃ m', Options.derive x.2.1 f8Env.oracle (simOf f8Env) x.2.2.2 x.2.2.1 = .panic m' :=
  element_panic_only_from_derive f8Env _ "R" _ _ discrepancy_F8

/-! ### `DefaultsHaveSource` is the weakest hypothesis of the panic-origin theorems, and
    `UserPanic` is inhabited -/

/-- one field `a` that inherits its default; `cd` = the container default, if any; `conv` = the
    field's converter -/
private def oneField (cd : Option (String → Nat)) (conv : Meta → Outcome Nat) (dflt : Option (DefaultSrc Nat)) :
    SStruct Nat :=
  { fields := [{ ident := "a", name := "a", conv := conv, fromNone := none, fromList := fun _ => .ok 0,
                 dflt := dflt, skip := false, multiple := false, flatten := false }],
    allowUnknown := false, containerDefault := cd, build := fun kvs => kvs.length, mkList := List.length,
    post := .ok, score := fun _ _ => 0, thr := 0 }

/-- with a container default the hypothesis holds … -/
example : DefaultsHaveSource (oneField (some fun _ => 7) (fun _ => .ok 1) (some .inherit)) := by
  intro f _ _; rfl

/-- … without one it fails, and then the generated code would indeed reach a panic that is nobody's
    but its own (in the real library this declaration is a compile error, see DISCREPANCY 2) -/
example : Derive.fromList (oneField none (fun _ => .ok 1) (some .inherit)) [] =
    .panic "`__default` is not declared" := by rfl
example : ¬ DefaultsHaveSource (oneField none (fun _ => .ok 1) (some .inherit)) := by
  intro h
  have := h _ List.mem_cons_self rfl
  cases this

/-- a user converter that panics: its message comes out, and the theorem names it -/
example : Derive.fromList (oneField none (fun _ => .panic "boom") none) [word "a"] = .panic "boom" := by rfl
example : UserPanic (oneField none (fun _ => .panic "boom") none) "boom" :=
  struct_panic_origin _ (by intro f hf hd; simp only [oneField, List.mem_cons, List.not_mem_nil, or_false] at hf; subst hf; cases hd)
    [word "a"] "boom" (by rfl)

/-- the same converter on an input that never reaches it: the parser returns (here: the missing
    field), although `ConvsReturn` fails for this receiver and the older theorem is silent -/
example : (Derive.fromList (oneField none (fun _ => .panic "boom") none) []).isPanic = false := by rfl
example : ¬ ConvsReturn (oneField none (fun _ => .panic "boom") none) := by
  intro h
  exact h.conv _ List.mem_cons_self (.path (pth "a")) "boom" rfl

/-! ### DISCREPANCY 2 (model vs real library; not a run-time panic): container `default` on an enum

  `#[derive(FromMeta)] #[darling(default)] enum E { A { x: u8 } }`.  Every field of a struct variant
  inherits its default from the container, but the generated `from_list` of an *enum* never declares
  `__default`.  The model (`Env.fromMetaHooks`, enum arm: `dflt := core.dflt`) hands the variant's
  field parser a container default all the same, which is what lets `derive_linked` discharge
  `DefaultsHaveSource`; it therefore computes a value where the real derive output does not compile
  (rustc E0425 "cannot find value `__default`").  So the model's panic site
  "`__default` is not declared" stands for a compile error, never for a run-time panic, and C07 is
  not violated; but the declaration is accepted by the derive without a diagnostic. -/

private def enumDefaultEnv : Env.T :=
  { decls :=
      [("E", .fromMeta,
        { ident := "E", attrs := [mkA "darling" [word "default"]],
          body := .enum [{ ident := "A", style := .named, fields := [fld "x" (.int ⟨"u8", false, 8, false⟩)],
                           attrs := [], discriminant := none }] }, {})],
    oracle := {}, thr := 0 }

example : (Env.recvHooks enumDefaultEnv "E").fromList [.item (lst "a" [])] =
    .ok (.variant "E" "A" (.record "A" [("x", .unit)])) := by rfl

end Examples

end C07
