import Darling.FromMeta.Scalars
import Darling.Spec.C11
/-
  C11 — Scalar conversions are exact: in range means that value, otherwise an error.
  Integers: for every target spec (any width, signed or not, NonZero or not — the 24 targets of
  the regenerated table are instances) and every string / literal.
-/
open Scalars Spec.C11

deriving instance DecidableEq for Except

namespace C11

/-! ### the digit fold is positional decimal notation -/

def stepD (acc : Option Nat) (c : Char) : Option Nat :=
  match acc, digitVal c with
  | some n, some d => some (n * 10 + d)
  | _, _ => none

theorem parseDigits_eq (cs : List Char) : parseDigits cs = cs.foldl stepD (some 0) := rfl

theorem foldl_none (cs : List Char) : cs.foldl stepD none = none := by
  induction cs with
  | nil => rfl
  | cons c cs ih => simp [List.foldl, stepD, ih]

theorem digitVal_some_iff (c : Char) : (∃ d, digitVal c = some d) ↔ isDigit c = true := by
  unfold digitVal isDigit
  constructor
  · intro ⟨d, h⟩
    split at h
    · rename_i hc; simp [hc.1, hc.2]
    · cases h
  · intro h
    simp at h
    exact ⟨c.toNat - '0'.toNat, by simp [h.1, h.2]⟩

theorem digitVal_eq (c : Char) (h : isDigit c = true) : digitVal c = some (digitOf c) := by
  unfold digitVal isDigit at *
  simp at h
  simp [h.1, h.2, digitOf]

theorem digitVal_none (c : Char) (h : isDigit c = false) : digitVal c = none := by
  unfold digitVal isDigit at *
  split
  · rename_i hc; simp [hc.1, hc.2] at h
  · rfl

/-- Horner's fold from accumulator `a` over all-digit input = a·10ⁿ + positional value -/
theorem foldl_digits (cs : List Char) (a : Nat) (h : cs.all isDigit = true) :
    cs.foldl stepD (some a) = some (a * 10 ^ cs.length + pos cs) := by
  induction cs generalizing a with
  | nil => simp [pos]
  | cons c cs ih =>
      simp at h
      have hc := digitVal_eq c h.1
      simp only [List.foldl, stepD, hc]
      rw [ih _ (by simpa using h.2)]
      simp [pos, Nat.pow_succ]
      rw [Nat.add_mul, Nat.mul_assoc, Nat.mul_comm 10]; omega

theorem foldl_nondigit (cs : List Char) (a : Nat) (h : cs.all isDigit = false) :
    cs.foldl stepD (some a) = none := by
  induction cs generalizing a with
  | nil => simp at h
  | cons c cs ih =>
      cases hc : isDigit c with
      | false => simp [List.foldl, stepD, digitVal_none c hc, foldl_none]
      | true =>
          have : cs.all isDigit = false := by
            simp only [List.all_cons, hc, Bool.true_and] at h; exact h
          simp only [List.foldl, stepD, digitVal_eq c hc]
          exact ih _ this

/-- `parseDigits` accepts exactly the all-digit strings and returns their positional value -/
theorem parseDigits_exact (cs : List Char) (n : Nat) :
    parseDigits cs = some n ↔ cs.all isDigit = true ∧ n = pos cs := by
  rw [parseDigits_eq]
  cases h : cs.all isDigit with
  | true => rw [foldl_digits cs 0 h]; simp; exact eq_comm
  | false => rw [foldl_nondigit cs 0 h]; simp

/-! ### `str::parse` for every integer target -/

/-- the common tail of `parseIntStd`: sign already split off -/
def finishSpec (sp : IntSpec) (neg : Bool) (ds : List Char) : Except IntErr Int :=
  match parseDigits ds with
  | none => .error .invalidDigit
  | some n =>
      let v : Int := if neg then -(n : Int) else n
      if v < sp.lo then .error .negOverflow
      else if v > sp.hi then .error .posOverflow
      else if sp.nonzero && v == 0 then .error .zero
      else .ok v

theorem finish_ok_iff (sp : IntSpec) (neg : Bool) (ds : List Char) (v : Int) :
    finishSpec sp neg ds = .ok v ↔
      ds.all isDigit = true ∧ v = (if neg then -(pos ds : Int) else pos ds) ∧ sp.holds v = true := by
  unfold finishSpec
  cases hp : parseDigits ds with
  | none =>
      simp
      intro hall
      have := (parseDigits_exact ds (pos ds)).mpr ⟨by simpa using hall, rfl⟩
      rw [hp] at this; cases this
  | some n =>
      obtain ⟨hall, hn⟩ := (parseDigits_exact ds n).mp hp
      subst hn
      simp only [hall, true_and]
      unfold IntSpec.holds
      generalize (if neg = true then -(pos ds : Int) else (pos ds : Int)) = w
      by_cases h1 : w < sp.lo
      · simp [h1]; intro _ hlo; omega
      · by_cases h2 : w > sp.hi
        · simp [h1, h2]; intro _ _ hhi; omega
        · by_cases h3 : (sp.nonzero && w == 0) = true
          · simp [h1, h2, h3]
            intro hv _ _
            simp at h3
            subst hv
            cases hz : sp.nonzero <;> simp [hz] at h3 ⊢
            exact h3
          · simp only [h1, h2, h3, if_false, Bool.false_eq_true]
            constructor
            · intro h; cases h
              refine ⟨rfl, ?_⟩
              simp at h1 h2 h3
              simp [h1, h2]
              cases hz : sp.nonzero <;> simp [hz] at h3 ⊢
              exact h3
            · intro ⟨hv, _⟩; rw [hv]

theorem parseIntStd_unfold (sp : IntSpec) (s : String) :
    parseIntStd sp s =
      match s.toList with
      | [] => .error .empty
      | ['+'] => .error .invalidDigit
      | ['-'] => .error .invalidDigit
      | '+' :: rest => finishSpec sp false rest
      | '-' :: rest => if sp.signed then finishSpec sp true rest else .error .invalidDigit
      | cs => finishSpec sp false cs := by
  unfold parseIntStd finishSpec
  rfl

/-- **exactness**: a string is accepted for a target exactly when it is a well-formed decimal
    spelling of a value the target can hold, and the result is exactly that value -/
theorem parseIntStd_exact (sp : IntSpec) (s : String) (v : Int) :
    parseIntStd sp s = .ok v ↔
      ∃ sp' : Spelling, sp'.spells s.toList ∧ sp'.wellFormed sp.signed = true
        ∧ v = sp'.value ∧ sp.holds v = true := by
  rw [parseIntStd_unfold]
  generalize s.toList = cs
  constructor
  · intro h
    match cs, h with
    | '+' :: c :: rest, h =>
        simp only at h
        obtain ⟨hall, hv, hh⟩ := (finish_ok_iff sp false (c :: rest) v).mp h
        exact ⟨⟨false, c :: rest⟩, Or.inr ⟨rfl, Or.inr rfl⟩, by simp [Spelling.wellFormed, hall], by simpa [Spelling.value] using hv, hh⟩
    | '-' :: c :: rest, h =>
        simp only at h
        cases hs : sp.signed with
        | false => simp [hs] at h
        | true =>
            simp [hs] at h
            obtain ⟨hall, hv, hh⟩ := (finish_ok_iff sp true (c :: rest) v).mp h
            exact ⟨⟨true, c :: rest⟩, Or.inl ⟨rfl, rfl⟩, by simp [Spelling.wellFormed, hall, hs], by simpa [Spelling.value] using hv, hh⟩
    | c :: rest, h =>
        by_cases hp : c = '+'
        · subst hp
          cases rest with
          | nil => simp at h
          | cons d r =>
              simp only at h
              obtain ⟨hall, hv, hh⟩ := (finish_ok_iff sp false (d :: r) v).mp h
              exact ⟨⟨false, d :: r⟩, Or.inr ⟨rfl, Or.inr rfl⟩, by simp [Spelling.wellFormed, hall], by simpa [Spelling.value] using hv, hh⟩
        · by_cases hm : c = '-'
          · subst hm
            cases rest with
            | nil => simp at h
            | cons d r =>
                simp only at h
                cases hs : sp.signed with
                | false => simp [hs] at h
                | true =>
                    simp [hs] at h
                    obtain ⟨hall, hv, hh⟩ := (finish_ok_iff sp true (d :: r) v).mp h
                    exact ⟨⟨true, d :: r⟩, Or.inl ⟨rfl, rfl⟩, by simp [Spelling.wellFormed, hall, hs], by simpa [Spelling.value] using hv, hh⟩
          · have h' : finishSpec sp false (c :: rest) = .ok v := by
              revert h
              split <;> simp_all
            obtain ⟨hall, hv, hh⟩ := (finish_ok_iff sp false (c :: rest) v).mp h'
            exact ⟨⟨false, c :: rest⟩, Or.inr ⟨rfl, Or.inl rfl⟩, by simp [Spelling.wellFormed, hall], by simpa [Spelling.value] using hv, hh⟩
  · intro ⟨sp', hsp, hwf, hv, hh⟩
    obtain ⟨neg, ds⟩ := sp'
    simp [Spelling.wellFormed] at hwf
    obtain ⟨⟨hne, hall⟩, hsign⟩ := hwf
    have hall' : ds.all isDigit = true := by simpa using hall
    cases ds with
    | nil => simp at hne
    | cons d r =>
      have hd : isDigit d = true := hall d (by simp)
      have hdp : d ≠ '+' := by intro h; subst h; simp [isDigit] at hd
      have hdm : d ≠ '-' := by intro h; subst h; simp [isDigit] at hd
      rcases hsp with ⟨hn, hs⟩ | ⟨hn, hs | hs⟩
      · simp at hn; subst hn; subst hs
        have hsg : sp.signed = true := by simpa using hsign
        simp only [hsg, if_true]
        exact (finish_ok_iff sp true (d :: r) v).mpr ⟨hall', by simpa [Spelling.value] using hv, hh⟩
      · simp at hn; subst hn; subst hs
        have : finishSpec sp false (d :: r) = .ok v :=
          (finish_ok_iff sp false (d :: r) v).mpr ⟨hall', by simpa [Spelling.value] using hv, hh⟩
        split <;> simp_all
      · simp at hn; subst hn; subst hs
        exact (finish_ok_iff sp false (d :: r) v).mpr ⟨hall', by simpa [Spelling.value] using hv, hh⟩

/-- never a wrapped, truncated or saturated value, never zero for NonZero -/
theorem parseIntStd_in_range (sp : IntSpec) (s : String) (v : Int) (h : parseIntStd sp s = .ok v) :
    sp.holds v = true := by
  obtain ⟨_, _, _, _, hh⟩ := (parseIntStd_exact sp s v).mp h
  exact hh

/-! ### the conversion entry points -/
variable {α : Type}

/-- quoted form: the string as it stands, through the target's standard parsing -/
theorem quoted_exact (sp : IntSpec) (inj : Int → α) (s t : String) (span : Span) :
    numFromValue sp inj ⟨.str s, t, span⟩ =
      match parseIntStd sp s with
      | .ok v => .ok (inj v)
      | .error _ => .err (.leaf (.unknownValue s) [] (some span)) := by
  simp only [numFromValue, numFromString]
  cases parseIntStd sp s <;> rfl

/-- unquoted form: sign and decimal value of the literal, whatever its suffix (radix and
    underscores are already normalised away in `base10_digits`) -/
theorem unquoted_exact (sp : IntSpec) (inj : Int → α) (digits suffix t : String) (span : Span) :
    numFromValue sp inj ⟨.int digits suffix, t, span⟩ =
      match parseIntStd sp digits with
      | .ok v => .ok (inj v)
      | .error e => .err (.leaf (.custom e.msg) [] (some span)) := by
  simp only [numFromValue]
  cases parseIntStd sp digits <;> rfl

theorem suffix_irrelevant (sp : IntSpec) (inj : Int → α) (digits s1 s2 t1 t2 : String) (span : Span) :
    numFromValue sp inj ⟨.int digits s1, t1, span⟩ = numFromValue sp inj ⟨.int digits s2, t2, span⟩ := rfl

/-- plain decimal spellings mean the same quoted or unquoted -/
theorem quoted_unquoted_agree (sp : IntSpec) (inj : Int → α) (d sfx t1 t2 : String) (s1 s2 : Span) (v : α) :
    numFromValue sp inj ⟨.int d sfx, t1, s1⟩ = .ok v ↔ numFromValue sp inj ⟨.str d, t2, s2⟩ = .ok v := by
  rw [unquoted_exact, quoted_exact]
  cases parseIntStd sp d <;> simp

/-- every rejection carries the literal's span; nothing panics -/
theorem reject_spanned (sp : IntSpec) (inj : Int → α) (l : Lit) :
    match numFromValue sp inj l with
    | .ok _ => True
    | .err e => e.span = some l.span
    | .panic _ => False := by
  obtain ⟨v, t, span⟩ := l
  cases v with
  | str s => rw [quoted_exact]; cases parseIntStd sp s <;> simp [Err.span]
  | int d sfx => rw [unquoted_exact]; cases parseIntStd sp d <;> simp [Err.span]
  | _ => simp [numFromValue, Outcome.mapErr, Err.unexpectedLitType, Err.withSpan, Err.span]

/-- wrong literal kind: an error naming the kind -/
theorem wrong_kind (sp : IntSpec) (inj : Int → α) (l : Lit)
    (h1 : ∀ s, l.v ≠ .str s) (h2 : ∀ d s, l.v ≠ .int d s) :
    numFromValue sp inj l = .err (.leaf (.unexpectedType l.typeName) [] (some l.span)) := by
  obtain ⟨v, t, span⟩ := l
  cases v <;> simp_all [numFromValue, Outcome.mapErr, Err.unexpectedLitType, Err.withSpan]

/-- wrong meta form (bare word, list): an error carrying the item's span -/
theorem word_rejected (sp : IntSpec) (inj : Int → α) (p : Path) :
    (numHooks sp inj).fromMeta (.path p) = .err (.leaf (.unexpectedFormat "word") [] (some p.span)) := rfl

theorem list_rejected (sp : IntSpec) (inj : Int → α) (p items ts t s) :
    (numHooks sp inj).fromMeta (.list p items none ts t s)
      = .err (.leaf (.unexpectedFormat "list") [] (some s)) := rfl

/-- through the item entry point, a name-value literal reaches `from_value` unchanged -/
theorem nameValue_routes (sp : IntSpec) (inj : Int → α) (p : Path) (l : Lit) (t : String) (s : Span) :
    (numHooks sp inj).fromMeta (.nameValue p (.lit l) t s) = numFromValue sp inj l := by
  have h := reject_spanned sp inj l
  simp only [Hooks.fromMeta, numHooks, Hooks.fromMetaD, Hooks.fromExpr, Hooks.fromExprD, Hooks.fromValue]
  cases hv : numFromValue sp inj l with
  | ok v => rfl
  | panic m => rfl
  | err e =>
      rw [hv] at h
      simp only [Outcome.mapErr]
      cases e with
      | leaf k ls sp' => simp [Err.span] at h; subst h; rfl
      | multi cs ls sp' => simp [Err.span] at h; subst h; rfl

/-! ### bool and char -/
theorem bool_word (inj : Bool → α) (p : Path) : (boolHooks inj).fromMeta (.path p) = .ok (inj true) := rfl
theorem bool_lit (inj : Bool → α) (b : Bool) (t span) :
    (boolHooks inj).fromValue ⟨.bool b, t, span⟩ = .ok (inj b) := rfl
theorem bool_string (inj : Bool → α) (s t span) :
    (boolHooks inj).fromValue ⟨.str s, t, span⟩ =
      if s = "true" then .ok (inj true) else if s = "false" then .ok (inj false)
      else .err (.leaf (.unknownValue s) [] (some span)) := by
  simp only [Hooks.fromValue, boolHooks, Hooks.fromValueD, Hooks.fromString]
  split
  · rfl
  · split <;> rfl
theorem char_lit (inj : Char → α) (c : Char) (t span) :
    (charHooks inj).fromValue ⟨.char c, t, span⟩ = .ok (inj c) := rfl
theorem char_one_char_string (inj : Char → α) (c : Char) (t span) :
    (charHooks inj).fromValue ⟨.str (String.singleton c), t, span⟩ = .ok (inj c) := by
  simp [Hooks.fromValue, charHooks, Hooks.fromValueD, Hooks.fromString, Outcome.mapErr, String.toList_singleton]
theorem string_lit (inj : String → α) (s t span) :
    (stringHooks inj).fromValue ⟨.str s, t, span⟩ = .ok (inj s) := rfl

/-! ### floats: dispatch only (std's parser is a parameter) -/
theorem float_quoted (parseF : String → Option Nat) (inj : Nat → α) (s t span) :
    floatFromValue parseF "invalid float literal" inj ⟨.str s, t, span⟩ =
      match parseF s with
      | some b => .ok (inj b)
      | none => .err (.leaf (.unknownValue s) [] (some span)) := by
  simp only [floatFromValue, floatFromString]
  cases parseF s <;> rfl

/-! ### non-vacuity: the u8 boundary -/
def u8 : IntSpec := ⟨"u8", false, 8, false⟩
def i8 : IntSpec := ⟨"i8", true, 8, false⟩
def nz : IntSpec := ⟨"NonZeroI8", true, 8, true⟩
example : parseIntStd u8 "255" = .ok 255 := by decide
example : parseIntStd u8 "256" = .error .posOverflow := by decide
example : parseIntStd u8 "-0" = .error .invalidDigit := by decide
example : parseIntStd i8 "-128" = .ok (-128) := by decide
example : parseIntStd i8 "-129" = .error .negOverflow := by decide
example : parseIntStd nz "0" = .error .zero := by decide
example : parseIntStd i8 "+7" = .ok 7 := by decide
example : parseIntStd u8 "1_0" = .error .invalidDigit := by decide

end C11
