import Darling.Derive.Env
import Darling.Lemmas.NoPanic
import Darling.Props.C06Derive
import Darling.Props.C07Universe
import Darling.Props.C07Outer
/-
  C07, `FromMeta` receivers end to end: every receiver the derive model accepts, in any corpus,
  returns (never panics) on every input, at every nesting depth.
-/
open Derive Options

namespace C07

/-! ### 1. the harness's custom functions return -/

theorem customWith_returns (o : Oracle) (rh : String → Hooks Val) (w : String) (f : Meta → Outcome Val)
    (h : Env.customWith o rh w = some f) (hr : ∀ n, (rh n).NP) : ∀ m, (f m).Returns := by
  unfold Env.customWith at h
  simp only [] at h
  split at h
  · cases h; intro m; exact ((hooksOf_np o rh hr _).fromMeta m).map _
  · cases h; intro m; exact ((hooksOf_np o rh hr _).fromMeta m).map _
  · cases h; intro m; exact ((hooksOf_np o rh hr _).fromMeta m).map _
  · cases h; intro m; exact Outcome.returns_err _
  · cases h

theorem customPost_returns (p : Post) (t : Ty) (g : Val → Outcome Val)
    (h : Env.customPost p = some (t, g)) : ∀ v, (g v).Returns := by
  unfold Env.customPost at h
  split at h
  · cases h; intro v; simp only []; split <;> exact Outcome.returns_ok _
  · cases h; intro v; simp only []; split <;> exact Outcome.returns_ok _
  · cases h; intro v; simp only []; split <;> first | exact Outcome.returns_ok _ | exact Outcome.returns_err _
  · cases h
  · cases h

/-! ### 2. the fields of a derived receiver -/

theorem with_base_returns (o : Oracle) (rh : String → Hooks Val) (hr : ∀ n, (rh n).NP)
    (w : Option String) (ty : Ty) (m : Meta) :
    ((match w.bind (Env.customWith o rh) with
      | some w => w
      | none => (hooksOf o rh ty).fromMeta) m).Returns := by
  cases hw : w.bind (Env.customWith o rh) with
  | none => exact (hooksOf_np o rh hr ty).fromMeta m
  | some f =>
      cases w with
      | none => cases hw
      | some s => exact customWith_returns o rh s f hw hr m

theorem semField_conv_returns (env : Env.T) (rh : String → Hooks Val) (hr : ∀ n, (rh n).NP) (f : RField)
    (m : Meta) : ((Env.semField env rh f).conv m).Returns := by
  simp only [Env.semField]
  cases hp : f.post with
  | none => exact with_base_returns _ rh hr _ _ m
  | some p =>
      cases hq : Env.customPost p with
      | none => simp only [Option.bind_some, hq]; exact with_base_returns _ rh hr _ _ m
      | some tg =>
          obtain ⟨t, g⟩ := tg
          simp only [Option.bind_some, hq]
          split <;> exact (with_base_returns _ rh hr _ _ m).bind g (customPost_returns p t g hq)

theorem semField_fromList_returns (env : Env.T) (rh : String → Hooks Val) (hr : ∀ n, (rh n).NP) (f : RField)
    (items : List NestedMeta) : ((Env.semField env rh f).fromList items).Returns :=
  (hooksOf_np env.oracle rh hr f.ty).fromList items

theorem semField_conv_ne_panic (env : Env.T) (rh : String → Hooks Val) (hr : ∀ n, (rh n).NP) (f : RField) :
    ∀ m msg, (Env.semField env rh f).conv m ≠ .panic msg :=
  fun m => semField_conv_returns env rh hr f m

theorem semField_fromList_ne_panic (env : Env.T) (rh : String → Hooks Val) (hr : ∀ n, (rh n).NP) (f : RField) :
    ∀ items msg, (Env.semField env rh f).fromList items ≠ .panic msg :=
  fun items => semField_fromList_returns env rh hr f items

/-- an inherited default of the semantic field comes from an inherited default of the resolved field -/
theorem semField_dflt_inherit (env : Env.T) (rh : String → Hooks Val) (f : RField)
    (h : (Env.semField env rh f).dflt = some .inherit) : f.dflt = some .inherit := by
  simp only [Env.semField] at h
  cases hd : f.dflt with
  | none => rw [hd] at h; cases h
  | some d =>
      rw [hd] at h
      cases d with
      | inherit => rfl
      | explicit p => simp at h
      | trait_ sp => simp at h

/-! ### 3. the struct parser of a derived receiver -/

/-- derive-time link: a field that inherits its default has a container default to inherit from -/
def DefaultsLinked (core : RCore) (fields : List RField) : Prop :=
  ∀ f ∈ fields, f.dflt = some .inherit → core.dflt.isSome = true

theorem DefaultsLinked.congr {core core' : RCore} {fields : List RField} (h : DefaultsLinked core fields)
    (hd : core'.dflt = core.dflt) : DefaultsLinked core' fields := by
  intro f hf hi; rw [hd]; exact h f hf hi

theorem semStruct_convsReturn (env : Env.T) (rh : String → Hooks Val) (hr : ∀ n, (rh n).NP)
    (core : RCore) (fields : List RField) (build : List (String × Val) → Val)
    (hl : DefaultsLinked core fields) : ConvsReturn (Env.semStruct env rh core fields build) := by
  constructor
  · intro sf hsf
    simp only [Env.semStruct, List.mem_map] at hsf
    obtain ⟨f, _, rfl⟩ := hsf
    exact semField_conv_ne_panic env rh hr f
  · intro sf hsf
    simp only [Env.semStruct, List.mem_map] at hsf
    obtain ⟨f, _, rfl⟩ := hsf
    exact semField_fromList_ne_panic env rh hr f
  · intro v
    show (Outcome.Returns _)
    simp only [Env.semStruct]
    cases hp : core.post.bind Env.customPost with
    | none => exact Outcome.returns_ok _
    | some tg =>
        obtain ⟨t, g⟩ := tg
        cases hcp : core.post with
        | none => rw [hcp] at hp; cases hp
        | some p => rw [hcp] at hp; exact customPost_returns p t g hp v
  · intro sf hsf hd
    simp only [Env.semStruct, List.mem_map] at hsf
    obtain ⟨f, hf, rfl⟩ := hsf
    have := hl f hf (semField_dflt_inherit env rh f hd)
    simp only [Env.semStruct, Option.isSome_map]
    exact this

/-! ### 4. the assembled hooks -/

section Assembled
variable {ν : Type}

theorem structHooks_np_unit (v : ν) (fw : Option (Outcome ν)) (fn : Option ν) :
    (structHooks (.unit v) fw fn).NP := by
  constructor <;> intro f hf <;> simp [structHooks] at hf
  subst hf; exact Outcome.returns_ok _

theorem structHooks_np_newtype (inner : Hooks ν) (wrap : ν → ν) (hi : inner.NP)
    (fw : Option (Outcome ν)) (fn : Option ν) : (structHooks (.newtype inner wrap) fw fn).NP := by
  constructor <;> intro f hf <;> simp [structHooks] at hf
  subst hf; intro m; exact ((hi.fromMeta m).mapErr _).map _

theorem structHooks_np_named (s : SStruct ν) (hc : ConvsReturn s)
    (fw : Option (Outcome ν)) (hfw : ∀ r, fw = some r → r.Returns) (fn : Option ν) :
    (structHooks (.named s) fw fn).NP := by
  constructor <;> intro f hf <;> simp [structHooks] at hf
  · exact hfw f hf
  · subst hf; exact struct_fromList_returns s hc

/-- what `enumHooks_np` needs of a variant: the converter of a newtype variant returns, the field
    parser of a struct variant satisfies `ConvsReturn` -/
def VariantReturns (v : SVariant ν) : Prop :=
  match v.kind with
  | .unit _ => True
  | .newtype fromMeta _ _ => ∀ m, (fromMeta m).Returns
  | .struct s => ConvsReturn s

theorem dataArm_returns (v : SVariant ν) (hv : VariantReturns v) (nested : Meta) : (dataArm v nested).Returns := by
  unfold dataArm
  unfold VariantReturns at hv
  cases hk : v.kind with
  | unit val =>
      simp only []
      cases nested <;> first | exact Outcome.returns_ok _ | exact Outcome.returns_err _
  | newtype fm fn wrap =>
      rw [hk] at hv
      exact ((hv nested).mapErr _).map _
  | struct s =>
      rw [hk] at hv
      simp only [] at hv ⊢
      cases nested with
      | path _ => exact Outcome.returns_err _
      | nameValue _ _ _ _ => exact Outcome.returns_err _
      | list p items bad ts t sp =>
          cases bad with
          | some b => exact Outcome.returns_err _
          | none =>
              simp only []
              obtain ⟨st, h, g⟩ := coreLoop_good s hv items {} good_init
              rw [h]
              exact finishStruct_returns s hv true (some v.name) st g

theorem enumFromList_returns (e : SEnum ν) (hv : ∀ v ∈ e.variants, VariantReturns v)
    (outer : List NestedMeta) : (enumFromList e outer).Returns := by
  unfold enumFromList
  split
  · exact Outcome.returns_err _
  · rename_i nested
    simp only []
    cases ha : e.arm nested.path'.toStr with
    | none => exact Outcome.returns_err _
    | some v => exact (dataArm_returns v (hv v (List.mem_of_find?_eq_some ha)) nested).mapErr _
  · exact Outcome.returns_err _
  · exact Outcome.returns_err _

theorem enumFromString_returns (e : SEnum ν) (lit : String) : (enumFromString e lit).Returns := by
  unfold enumFromString
  cases e.arm lit with
  | none => exact Outcome.returns_err _
  | some v =>
      simp only []
      cases v.kind with
      | unit val => exact Outcome.returns_ok _
      | newtype fm fn wrap =>
          cases fn with
          | some x => exact Outcome.returns_ok _
          | none => exact Outcome.returns_err _
      | struct s => exact Outcome.returns_err _

theorem enumHooks_np (e : SEnum ν) (hv : ∀ v ∈ e.variants, VariantReturns v)
    (hw : ∀ r, e.fromWord = some r → r.Returns) : (enumHooks e).NP := by
  constructor <;> intro f hf <;> simp [enumHooks] at hf
  · exact hw f hf
  · subst hf; exact enumFromList_returns e hv
  · subst hf; exact enumFromString_returns e

end Assembled

/-- the derive-time link of a whole receiver: every field list that becomes a struct parser is
    linked to the container default -/
def Linked (r : RFromMeta) : Prop :=
  match r.base.data with
  | .struct _ fs => DefaultsLinked r.base fs
  | .enum vs => ∀ v ∈ vs, DefaultsLinked r.base v.fields

theorem optionMap_returns {α ν : Type} (fw : Option α) (g : α → Outcome ν) (hg : ∀ a, (g a).Returns) :
    ∀ x, fw.map g = some x → x.Returns := by
  intro x hx
  cases fw with
  | none => cases hx
  | some a => simp only [Option.map_some, Option.some.injEq] at hx; subst hx; exact hg a

theorem fromMetaHooks_np (env : Env.T) (rh : String → Hooks Val) (hr : ∀ n, (rh n).NP) (r : RFromMeta)
    (hl : Linked r) : (Env.fromMetaHooks env rh r).NP := by
  unfold Linked at hl
  unfold Env.fromMetaHooks
  simp only []
  have hfw : ∀ (a : Sum String String), (match a with
      | .inl c => (match env.oracle.val? ("fn:" ++ c) with
          | some v => Outcome.ok v
          | none => .err (Err.custom ("unknown from_word callable " ++ c)))
      | .inr variant => .ok (.variant r.base.ident variant .unit) : Outcome Val).Returns := by
    intro a
    cases a with
    | inl c => simp only []; split <;> first | exact Outcome.returns_ok _ | exact Outcome.returns_err _
    | inr v => exact Outcome.returns_ok _
  cases hd : r.base.data with
  | struct style fields =>
      rw [hd] at hl
      simp only [] at hl
      have named := structHooks_np_named _
        (semStruct_convsReturn env rh hr r.base fields (fun kvs => .record r.base.ident kvs) hl)
        _ (optionMap_returns r.fromWord _ hfw) (r.fromNone.bind (fun c => env.oracle.val? ("fn:" ++ c)))
      cases style with
      | unit => exact structHooks_np_unit _ _ _
      | named => exact named
      | tuple =>
          cases fields with
          | nil => exact named
          | cons f rest =>
              cases rest with
              | nil => exact structHooks_np_newtype _ _ (hooksOf_np _ rh hr _) _ _
              | cons g rest => exact named
  | enum variants =>
      rw [hd] at hl
      simp only [] at hl
      refine enumHooks_np _ ?_ (optionMap_returns r.fromWord _ hfw)
      intro sv hsv
      simp only [List.mem_map] at hsv
      obtain ⟨rv, hrv, rfl⟩ := hsv
      have hl' := hl rv hrv
      have strct : ∀ fs, DefaultsLinked r.base fs → ∀ (c : RCore) (b : List (String × Val) → Val),
          c.dflt = r.base.dflt → ConvsReturn (Env.semStruct env rh c fs b) :=
        fun fs h c b hc => semStruct_convsReturn env rh hr c fs b (h.congr hc)
      unfold VariantReturns
      simp only []
      cases hs : rv.style with
      | unit => trivial
      | named => exact strct _ hl' _ _ rfl
      | tuple =>
          cases hf : rv.fields with
          | nil => rw [hf] at hl'; exact strct _ hl' _ _ rfl
          | cons f rest =>
              cases rest with
              | nil => intro m; exact (hooksOf_np _ rh hr _).fromMeta m
              | cons g rest => rw [hf] at hl'; exact strct _ hl' _ _ rfl

/-! ### 5. the derive link: inherited defaults have a source -/

theorem fieldDefault_inherit (own container : Option DefaultExpr) (skip : Option (Bool × Option Span))
    (h : fieldDefault own container skip = some .inherit) : own = some .inherit ∨ container.isSome = true := by
  unfold fieldDefault at h
  cases own with
  | some d => left; simpa using h
  | none =>
      cases container with
      | some c => right; rfl
      | none =>
          simp only [] at h
          split at h
          · cases h
          · cases h

theorem defaultFromMeta_not_inherit (o : Oracle) (m : Meta) (v : DefaultExpr)
    (h : defaultFromMeta o m = .ok v) : v ≠ .inherit := by
  unfold defaultFromMeta at h
  cases m with
  | path _ => cases h; intro h'; cases h'
  | list _ _ _ _ _ _ => cases h
  | nameValue _ e _ _ =>
      simp only [] at h
      cases hp : SynTypes.pathFromExpr (o.parseSyn "Path") id e with
      | ok p => rw [hp] at h; cases h; intro h'; cases h'
      | err e => rw [hp] at h; cases h
      | panic m => rw [hp] at h; cases h

/-- a property of the option state that holds of whatever a step leaves behind -/
def StepInv {σ : Type} (P : σ → Prop) : StepR σ → Prop
  | .ok s => P s
  | .err s _ => P s
  | .panic _ => True

theorem withRead_inv {σ β : Type} (P : σ → Prop) (s : σ) (r : Outcome β) (k : β → StepR σ) (hs : P s)
    (hk : ∀ b, r = .ok b → StepInv P (k b)) : StepInv P (withRead s r k) := by
  unfold withRead
  cases r with
  | ok v => exact hk v rfl
  | err e => exact hs
  | panic m => trivial

theorem bundleStep_inv {σ : Type} (P : σ → Prop) (s : σ) (hs : P s) (errs : List Err) :
    StepInv P (bundleStep s errs) := by
  unfold bundleStep
  split <;> exact hs

/-- the field options never hold an inherited default: `inherit` is not a value of `default = ..` -/
def NoInherit (s : FieldOpts) : Prop := s.dflt ≠ some .inherit

theorem fieldStep_noInherit (o : Oracle) (s : FieldOpts) (mi : Meta) (hs : NoInherit s) :
    StepInv NoInherit (fieldStep o s mi) := by
  unfold fieldStep
  simp only []
  split
  · split
    · exact hs
    · exact withRead_inv _ _ _ _ hs (fun v _ => by split <;> exact hs)
  · split
    · split
      · exact hs
      · refine withRead_inv _ _ _ _ hs (fun v hv => ?_)
        show NoInherit _
        intro h
        simp only [Option.some.injEq] at h
        exact defaultFromMeta_not_inherit o mi v hv h
    · split
      · split
        · exact hs
        · exact withRead_inv _ _ _ _ hs (fun v _ => by split <;> exact hs)
      · split
        · split
          · exact hs
          · exact withRead_inv _ _ _ _ hs (fun v _ => by split <;> exact hs)
        · split
          · split
            · exact hs
            · exact withRead_inv _ _ _ _ hs (fun f _ => hs)
          · split
            · split
              · exact hs
              · exact withRead_inv _ _ _ _ hs (fun v _ => by split <;> exact hs)
            · split
              · split
                · exact hs
                · exact withRead_inv _ _ _ _ hs (fun v _ => by apply bundleStep_inv; exact hs)
              · exact hs

theorem parseAttrItems_inv {σ : Type} (step : σ → Meta → StepR σ) (P : σ → Prop)
    (hstep : ∀ s m, P s → StepInv P (step s m)) :
    ∀ (items : List NestedMeta) (s : σ) (errs : List Err) (r : σ × List Err), P s →
      parseAttrItems step s errs items = .ok r → P r.1 := by
  intro items
  induction items with
  | nil => intro s errs r hs h; simp only [parseAttrItems] at h; cases h; exact hs
  | cons it rest ih =>
      intro s errs r hs h
      cases it with
      | lit l => simp only [parseAttrItems] at h; exact ih _ _ r hs h
      | item mi =>
          simp only [parseAttrItems] at h
          have hst := hstep s mi hs
          cases hr : step s mi with
          | ok s' => rw [hr] at h hst; exact ih _ _ r hst h
          | err s' e => rw [hr] at h hst; exact ih _ _ r hst h
          | panic m => rw [hr] at h; cases h

theorem parseAttr_inv {σ : Type} (step : σ → Meta → StepR σ) (P : σ → Prop)
    (hstep : ∀ s m, P s → StepInv P (step s m)) (s : σ) (a : Attr) (r : σ × Option Err) (hs : P s)
    (h : parseAttr step s a = .ok r) : P r.1 := by
  unfold parseAttr at h
  cases hb : a.body with
  | path _ => rw [hb] at h; cases h; exact hs
  | nameValue _ _ _ _ => rw [hb] at h; cases h; exact hs
  | list p items bad ts t sp =>
      rw [hb] at h
      cases bad with
      | some b => cases h; exact hs
      | none =>
          simp only [] at h
          cases hr : parseAttrItems step s [] items with
          | error m => rw [hr] at h; cases h
          | ok x =>
              have hx := parseAttrItems_inv step P hstep items s [] x hs hr
              rw [hr] at h
              obtain ⟨s', errs⟩ := x
              match errs, h with
              | [], h => cases h; exact hx
              | [e], h => cases h; exact hx
              | e :: e' :: es, h => cases h; exact hx

theorem parseAttributes_inv {σ : Type} (step : σ → Meta → StepR σ) (P : σ → Prop)
    (hstep : ∀ s m, P s → StepInv P (step s m)) :
    ∀ (attrs : List Attr) (s : σ) (errs : List Err) (r : σ × List Err), P s →
      parseAttributes step s errs attrs = .ok r → P r.1 := by
  intro attrs
  induction attrs with
  | nil => intro s errs r hs h; simp only [parseAttributes] at h; cases h; exact hs
  | cons a rest ih =>
      intro s errs r hs h
      simp only [parseAttributes] at h
      split at h
      · cases hr : parseAttr step s a with
        | error m => rw [hr] at h; cases h
        | ok x =>
            have hx := parseAttr_inv step P hstep s a x hs hr
            rw [hr] at h
            obtain ⟨s', oe⟩ := x
            cases oe with
            | none => exact ih _ _ r hx h
            | some e => exact ih _ _ r hx h
      · exact ih _ _ r hs h

theorem finishWith_ok {σ : Type} (r : Except String (σ × List Err)) (s : σ) (h : finishWith r = .ok s) :
    r = .ok (s, []) := by
  unfold finishWith at h
  split at h
  · cases h
  · cases h; rfl
  · rename_i errs _
    unfold Err.bundleErr at h
    cases hm : Err.multiple errs <;> rw [hm] at h <;> cases h

/-- the resolved default of a field: inherited only if the container declares a default -/
def FieldLinked (cd : Option DefaultExpr) (f : RField) : Prop :=
  f.dflt = some .inherit → cd.isSome = true

theorem resolveField_linked (core : CoreOpts) (ident : String) (ty : Ty) (s : FieldOpts) (rf : RField)
    (hs : NoInherit s) (h : resolveField core ident ty s = .ok rf) : FieldLinked core.dflt rf := by
  unfold resolveField at h
  have key : ∀ rf' : RField, rf'.dflt = fieldDefault s.dflt core.dflt s.skip → FieldLinked core.dflt rf' := by
    intro rf' h' hd
    rw [h'] at hd
    rcases fieldDefault_inherit _ _ _ hd with h1 | h1
    · exact absurd h1 hs
    · exact h1
  cases hn : s.attrName with
  | some n => simp only [hn, Outcome.bind] at h; cases h; exact key _ rfl
  | none =>
      cases ha : core.renameRule.applyToField ident with
      | ok n => simp only [hn, ha, Outcome.bind] at h; cases h; exact key _ rfl
      | err e => simp only [hn, ha, Outcome.bind] at h; cases h
      | panic m => simp only [hn, ha, Outcome.bind] at h; cases h

theorem fieldFromDecl_linked (o : Oracle) (core : CoreOpts) (f : FieldD) (rf : RField)
    (h : fieldFromDecl o core f = .ok rf) : FieldLinked core.dflt rf := by
  unfold fieldFromDecl at h
  cases hf : finishWith (parseAttributes (fieldStep o) {} [] f.attrs) with
  | err e => rw [hf] at h; cases h
  | panic m => rw [hf] at h; cases h
  | ok s =>
      rw [hf] at h
      have hs : NoInherit s :=
        parseAttributes_inv (fieldStep o) NoInherit (fieldStep_noInherit o) f.attrs {} [] (s, [])
          (by intro h'; cases h') (finishWith_ok _ s hf)
      exact resolveField_linked core _ f.ty s rf hs h

def FieldsLinked (cd : Option DefaultExpr) (st : BodySt) : Prop := ∀ f ∈ st.fields, FieldLinked cd f

def VariantsLinked (cd : Option DefaultExpr) (st : BodySt) : Prop :=
  ∀ v ∈ st.variants, ∀ f ∈ v.fields, FieldLinked cd f

theorem parseFieldStep_linked (t : Trait) (o : Oracle) (sim : String → Option (Nat × String)) (core : CoreOpts)
    (st : BodySt) (f : FieldD) (st' : BodySt) (hst : FieldsLinked core.dflt st)
    (h : parseFieldStep t o sim core st f = .ok st') : FieldsLinked core.dflt st' := by
  unfold parseFieldStep at h
  simp only [] at h
  have hg : ∀ rf, fieldFromDecl o core f = .ok rf → FieldLinked core.dflt rf := fieldFromDecl_linked o core f
  generalize forwardedFromField o sim f = r1 at h
  generalize fieldFromDecl o core f = r2 at h hg
  rcases r1 with fw | e | m <;> rcases r2 with rf | e' | m' <;> simp only [] at h <;> (repeat' split at h)
  all_goals first
    | (cases h; exact hst)
    | (cases h; intro g hg'; simp only [List.mem_append, List.mem_singleton] at hg'
       rcases hg' with hg' | rfl
       · exact hst g hg'
       · exact hg _ rfl)
    | (cases h)

theorem parseFields_linked (t : Trait) (o : Oracle) (sim : String → Option (Nat × String)) (core : CoreOpts) :
    ∀ (fs : List FieldD) (st st' : BodySt), FieldsLinked core.dflt st →
      parseFields t o sim core st fs = .ok st' → FieldsLinked core.dflt st'
  | [], st, st', hst, h => by simp only [parseFields] at h; cases h; exact hst
  | f :: rest, st, st', hst, h => by
      simp only [parseFields] at h
      cases hs : parseFieldStep t o sim core st f with
      | error m => rw [hs] at h; cases h
      | ok st1 =>
          rw [hs] at h
          exact parseFields_linked t o sim core rest st1 st'
            (parseFieldStep_linked t o sim core st f st1 hst hs) h

theorem variantFields_linked (o : Oracle) (core : CoreOpts) :
    ∀ (fs : List FieldD) (rfs : List RField), variantFields o core fs = .ok rfs →
      ∀ f ∈ rfs, FieldLinked core.dflt f
  | [], rfs, h => by simp only [variantFields] at h; cases h; intro f hf; cases hf
  | f :: rest, rfs, h => by
      simp only [variantFields] at h
      cases hr : fieldFromDecl o core f with
      | err e => rw [hr] at h; cases h
      | panic m => rw [hr] at h; cases h
      | ok rf =>
          rw [hr] at h
          simp only [] at h
          cases hv : variantFields o core rest with
          | err e => rw [hv] at h; cases h
          | panic m => rw [hv] at h; cases h
          | ok l =>
              rw [hv] at h
              simp only [Outcome.map] at h
              cases h
              intro g hg
              rcases List.mem_cons.mp hg with rfl | hg
              · exact fieldFromDecl_linked o core f _ hr
              · exact variantFields_linked o core rest l hv g hg

theorem variantFromDecl_linked (o : Oracle) (core : CoreOpts) (v : VariantD) (rv : RVariant)
    (h : variantFromDecl o core v = .ok rv) : ∀ f ∈ rv.fields, FieldLinked core.dflt f := by
  unfold variantFromDecl at h
  cases hs : finishWith (parseAttributes (variantStep (v.style == .unit)) {} [] v.attrs) with
  | err e => rw [hs] at h; cases h
  | panic m => rw [hs] at h; cases h
  | ok s =>
      rw [hs] at h
      simp only [] at h
      cases hfs : variantFields o core v.fields with
      | err e => rw [hfs] at h; cases h
      | panic m => rw [hfs] at h; cases h
      | ok fs =>
          rw [hfs] at h
          simp only [] at h
          have hfl := variantFields_linked o core v.fields fs hfs
          cases hn : s.attrName with
          | some n => simp only [hn, Outcome.bind] at h; cases h; exact hfl
          | none =>
              cases ha : core.renameRule.applyToVariant v.ident with
              | ok n => simp only [hn, ha, Outcome.bind] at h; cases h; exact hfl
              | err e => simp only [hn, ha, Outcome.bind] at h; cases h
              | panic m => simp only [hn, ha, Outcome.bind] at h; cases h

theorem parseVariants_linked (t : Trait) (o : Oracle) (core : CoreOpts) :
    ∀ (vs : List VariantD) (st st' : BodySt), VariantsLinked core.dflt st →
      parseVariants t o core st vs = .ok st' → VariantsLinked core.dflt st'
  | [], st, st', hst, h => by simp only [parseVariants] at h; cases h; exact hst
  | v :: rest, st, st', hst, h => by
      simp only [parseVariants] at h
      split at h
      · cases hr : variantFromDecl o core v with
        | ok rv =>
            rw [hr] at h
            simp only [] at h
            refine parseVariants_linked t o core rest _ st' ?_ h
            intro w hw
            simp only [List.mem_append, List.mem_singleton] at hw
            rcases hw with hw | rfl
            · exact hst w hw
            · exact variantFromDecl_linked o core v _ hr
        | err e => rw [hr] at h; simp only [] at h; refine parseVariants_linked t o core rest _ st' ?_ h; exact hst
        | panic m => rw [hr] at h; cases h
      · refine parseVariants_linked t o core rest _ st' ?_ h; exact hst

theorem bundleErr_ne_ok {α : Type} (errs : List Err) (a : α) : (Err.bundleErr errs : Outcome α) ≠ .ok a := by
  intro h
  unfold Err.bundleErr at h
  cases hm : Err.multiple errs <;> rw [hm] at h <;> cases h

theorem deriveFromMeta_linked (o : Oracle) (sp : DeclSpans) (d : DeclD) (r : RFromMeta)
    (h : deriveFromMeta o sp d = .ok (.fromMeta r)) : Linked r := by
  revert h
  unfold deriveFromMeta
  cases hb : d.body with
  | union => intro h; cases h
  | struct s fs =>
      simp only []
      intro h
      split at h
      · cases h
      · cases h
      · rename_i fm heq
        cases hst : parseFields .fromMeta o (fun _ => none) fm.core {} fs with
        | error m => rw [hst] at h; cases h
        | ok st =>
            rw [hst] at h
            simp only [] at h
            have hfl := parseFields_linked .fromMeta o (fun _ => none) fm.core fs {} st
              (by intro f hf; cases hf) hst
            split at h
            · simp only [Outcome.ok.injEq, Derived.fromMeta.injEq] at h
              subst h
              exact hfl
            · exact absurd h (bundleErr_ne_ok _ _)
  | enum vs =>
      simp only []
      intro h
      split at h
      · cases h
      · cases h
      · rename_i fm heq
        cases hst : parseVariants .fromMeta o fm.core {} vs with
        | error m => rw [hst] at h; cases h
        | ok st =>
            rw [hst] at h
            simp only [] at h
            have hfl := parseVariants_linked .fromMeta o fm.core vs {} st
              (by intro v hv; cases hv) hst
            split at h
            · simp only [Outcome.ok.injEq, Derived.fromMeta.injEq] at h
              subst h
              exact hfl
            · exact absurd h (bundleErr_ne_ok _ _)

/-- the element-level derives produce element-level receivers only -/
theorem deriveOuter_not_fromMeta (t : Trait) (o : Oracle) (sim : String → Option (Nat × String)) (sp : DeclSpans)
    (d : DeclD) (r : RFromMeta) : deriveOuter t o sim sp d ≠ .ok (.fromMeta r) := by
  unfold deriveOuter
  cases hb : d.body with
  | union => intro h; cases h
  | struct s fs =>
      simp only []
      intro h
      split at h
      · cases h
      · cases h
      · rename_i oo heq
        cases hst : parseFields t o sim oo.core {} fs with
        | error m => rw [hst] at h; cases h
        | ok st =>
            rw [hst] at h
            simp only [] at h
            split at h
            · split at h <;> cases h
            · exact absurd h (bundleErr_ne_ok _ _)
  | enum vs =>
      cases vs with
      | nil => intro h; cases h
      | cons v vs =>
        simp only []
        intro h
        split at h
        · cases h
        · cases h
        · rename_i oo heq
          cases hst : parseVariants t o oo.core {} (v :: vs) with
          | error m => rw [hst] at h; cases h
          | ok st =>
              rw [hst] at h
              simp only [] at h
              split at h
              · split at h <;> cases h
              · exact absurd h (bundleErr_ne_ok _ _)

/-- **the derive link**: every `FromMeta` receiver the derive model accepts has its inherited
    defaults linked to a container default -/
theorem derive_linked (t : Trait) (o : Oracle) (sim : String → Option (Nat × String)) (sp : DeclSpans)
    (d : DeclD) (r : RFromMeta) (h : Options.derive t o sim sp d = .ok (.fromMeta r)) : Linked r := by
  unfold Options.derive at h
  split at h
  · exact deriveFromMeta_linked o sp d r h
  · exact absurd h (deriveOuter_not_fromMeta t o sim sp d r)

/-! ### 6. every receiver of every corpus returns, at every nesting depth -/

theorem recvHooksF_np (env : Env.T) : ∀ (fuel : Nat) (name : String), (Env.recvHooksF fuel env name).NP
  | 0, _ => by simp only [Env.recvHooksF]; exact empty_np
  | fuel + 1, name => by
      simp only [Env.recvHooksF]
      cases hf : env.decls.find? (·.1 == name) with
      | none => exact empty_np
      | some x =>
          obtain ⟨n, t, d, sp⟩ := x
          simp only []
          cases hd : Options.derive t env.oracle (fun _ => none) sp d with
          | err e => exact empty_np
          | panic m => exact empty_np
          | ok dv =>
              cases dv with
              | outer r => exact empty_np
              | fromMeta r =>
                  exact fromMetaHooks_np env _ (fun n => recvHooksF_np env fuel n) r
                    (derive_linked t env.oracle _ sp d r hd)

theorem recvHooks_np (env : Env.T) (name : String) : (Env.recvHooks env name).NP :=
  recvHooksF_np env _ name

/-- **C07 for `FromMeta` receivers**: the generated `from_meta` of every receiver of every corpus
    returns on every item -/
theorem recv_returns (env : Env.T) (name : String) (m : Meta) :
    ((Env.recvHooks env name).fromMeta m).Returns :=
  (recvHooks_np env name).fromMeta m

theorem recv_nested_returns (env : Env.T) (name : String) (n : NestedMeta) :
    ((Env.recvHooks env name).fromNestedMeta n).Returns :=
  (recvHooks_np env name).fromNestedMeta n

/-! ### non-vacuity -/

/-- the corpus `#[derive(FromMeta)] struct R { a: bool }` -/
def exampleEnv : Env.T :=
  { decls := [("R", .fromMeta,
      { ident := "R", attrs := [],
        body := .struct .named [ { ident := some "a", ty := .bool, tyToks := "bool", vis := "", attrs := [] } ] },
      {})],
    oracle := {}, thr := 0 }

/-- its receiver is assembled (not the empty hooks): `from_list` is overridden -/
example : (Env.recvHooks exampleEnv "R").fromList?.isSome = true := by decide

end C07
