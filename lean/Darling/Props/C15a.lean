import Darling.FromMeta.ParseList
/-
  C15(a) — splitting a token stream into nested meta items.

  For every token stream and every behaviour of syn's `Lit` / `Meta` parsers (parameters):

    * `parse_ok_iff`   `parse_meta_list` succeeds with `items` exactly when the stream *is* a
                       comma-separated sequence of items (`Splits`): each item starts where the
                       previous comma ended, a single comma separates neighbours, one trailing
                       comma is allowed, the empty stream is the empty list; the result is those
                       items in source order;
    * `splits_unique`  the decomposition is unique;
    * classification   `true` / `false` alone is a literal, followed by `=` it is an item
                       (`bool_alone_is_literal`, `bool_eq_is_item`); a path starting with `::` or
                       with any identifier — keywords and raw identifiers included — is an item
                       (`global_path_is_item`, `ident_is_item`); anything else is rejected with
                       "expected identifier or literal" at that token (`reject_iff`, `reject_error`);
    * `fuel_irrelevant` the recursion bound of the model is never the reason for an answer.
-/
namespace C15a
open ParseList

variable (toks : List Tok) (o : SynOracle)

/-- the declarative reading of "a comma-separated sequence of items, optional trailing comma" -/
inductive Splits : Nat → List Item → Prop where
  | done {i : Nat} : i ≥ toks.length → Splits i []
  | last {i j : Nat} {it : Item} : i < toks.length → itemAt toks o i = .ok (it, j) → j ≥ toks.length → Splits i [it]
  | cons {i j : Nat} {it : Item} {rest : List Item} : i < toks.length → itemAt toks o i = .ok (it, j) → j < toks.length →
      isComma toks j = true → Splits (j + 1) rest → Splits i (it :: rest)

theorem itemAt_ge (i j : Nat) (it : Item) (h : itemAt toks o i = .ok (it, j)) : i ≤ j := by
  unfold itemAt at h
  split at h
  · split at h
    · cases h; omega
    · cases h
  · split at h
    · cases h; omega
    · cases h
  · cases h

/-- soundness: an `Ok` answer is the accumulated prefix followed by a `Splits` decomposition -/
theorem parseFrom_sound (fuel i : Nat) (acc res : List Item)
    (h : parseFrom toks o fuel i acc = .ok res) : ∃ items, res = acc ++ items ∧ Splits toks o i items := by
  induction fuel generalizing i acc with
  | zero => cases h
  | succ fuel ih =>
      unfold parseFrom at h
      by_cases hi : i ≥ toks.length
      · simp only [hi, if_true] at h
        cases h
        exact ⟨[], by simp, .done hi⟩
      · simp only [hi, if_false] at h
        cases hit : itemAt toks o i with
        | error e => rw [hit] at h; cases h
        | ok p =>
            obtain ⟨it, j⟩ := p
            rw [hit] at h
            simp only [] at h
            by_cases hj : j ≥ toks.length
            · simp only [hj, if_true] at h
              cases h
              exact ⟨[it], rfl, .last (by omega) hit hj⟩
            · simp only [hj, if_false] at h
              by_cases hc : isComma toks j = true
              · simp only [hc, if_true] at h
                obtain ⟨items, hres, hs⟩ := ih (j + 1) (acc ++ [it]) h
                exact ⟨it :: items, by simp [hres], .cons (by omega) hit (by omega) hc hs⟩
              · simp only [hc] at h
                cases h

/-- completeness: every decomposition is found, whenever the fuel covers the remaining tokens -/
theorem parseFrom_complete (i : Nat) (items : List Item) (hs : Splits toks o i items) :
    ∀ (fuel : Nat) (acc : List Item), i ≤ toks.length → fuel + i ≥ toks.length + 1 →
      parseFrom toks o fuel i acc = .ok (acc ++ items) := by
  induction hs with
  | done hi =>
      intro fuel acc hle hf
      cases fuel with
      | zero => omega
      | succ fuel => unfold parseFrom; simp [hi]
  | @last i j it hi hit hj =>
      intro fuel acc hle hf
      cases fuel with
      | zero => omega
      | succ fuel =>
          unfold parseFrom
          have : ¬ i ≥ toks.length := by omega
          simp [this, hit, hj]
  | @cons i j it rest hi hit hj hc _ ih =>
      intro fuel acc hle hf
      cases fuel with
      | zero => omega
      | succ fuel =>
          unfold parseFrom
          have h1 : ¬ i ≥ toks.length := by omega
          have h2 : ¬ j ≥ toks.length := by omega
          have hge := itemAt_ge toks o i j it hit
          simp only [h1, if_false, hit, h2, hc, if_true]
          rw [ih fuel (acc ++ [it]) (by omega) (by omega)]
          simp

/-- **`parse_meta_list` succeeds exactly for comma-separated sequences of items, and returns them in order** -/
theorem parse_ok_iff (items : List Item) : parseList toks o = .ok items ↔ Splits toks o 0 items := by
  unfold parseList
  constructor
  · intro h
    obtain ⟨its, hres, hs⟩ := parseFrom_sound toks o _ 0 [] items h
    simp at hres; subst hres; exact hs
  · intro hs
    have := parseFrom_complete toks o 0 items hs (toks.length + 1) [] (by omega) (by omega)
    simpa using this

theorem splits_unique (a b : List Item) (ha : Splits toks o 0 a) (hb : Splits toks o 0 b) : a = b := by
  have h1 := (parse_ok_iff toks o a).mpr ha
  have h2 := (parse_ok_iff toks o b).mpr hb
  rw [h1] at h2; cases h2; rfl

theorem empty_stream : parseList [] o = .ok [] := rfl

/-- the model's recursion bound is never the reason for its answer: once it covers the remaining
    tokens, more fuel changes nothing -/
theorem fuel_irrelevant : ∀ (fuel i : Nat) (acc : List Item) (extra : Nat), i ≤ toks.length → fuel + i ≥ toks.length + 1 →
    parseFrom toks o (fuel + extra) i acc = parseFrom toks o fuel i acc := by
  intro fuel
  induction fuel with
  | zero => intro i acc extra h1 h2; omega
  | succ fuel ih =>
      intro i acc extra h1 h2
      have : fuel + 1 + extra = (fuel + extra) + 1 := by omega
      rw [this]
      unfold parseFrom
      by_cases hi : i ≥ toks.length
      · simp [hi]
      · simp only [hi, if_false]
        cases hit : itemAt toks o i with
        | error e => rfl
        | ok p =>
            obtain ⟨it, j⟩ := p
            simp only []
            by_cases hj : j ≥ toks.length
            · simp [hj]
            · simp only [hj, if_false]
              by_cases hc : isComma toks j = true
              · simp only [hc, if_true]
                have hge := itemAt_ge toks o i j it hit
                exact ih (j + 1) (acc ++ [it]) extra (by omega) (by omega)
              · simp [hc]

/-! ### classification (the look-ahead) -/

theorem bool_alone_is_literal (i : Nat) (hl : (o.lit i).isSome = true) (hne : isEq toks (i + 1) = false) :
    branch toks o i = .lit := by
  simp [branch, hl, hne]

theorem literal_is_literal (i : Nat) (hl : (o.lit i).isSome = true) (hb : isBoolIdent toks i = false) :
    branch toks o i = .lit := by
  simp [branch, hl, hb]

theorem bool_eq_is_item (i : Nat) (hb : isBoolIdent toks i = true) (he : isEq toks (i + 1) = true) :
    branch toks o i = .item := by
  have hid : isAnyIdent toks i = true := by
    unfold isBoolIdent at hb
    unfold isAnyIdent
    split at hb <;> simp_all
  simp [branch, hb, he, hid]

/-- any identifier — keywords (`crate`, `self`, `type`, …) and raw identifiers included — starts an item -/
theorem ident_is_item (i : Nat) (hid : isAnyIdent toks i = true) (hl : o.lit i = none) : branch toks o i = .item := by
  simp [branch, hl, hid]

/-- `::` followed by any identifier (keywords included) starts an item -/
theorem global_path_is_item (i : Nat) (hc : isColon2 toks i = true) (hid : isAnyIdent toks (i + 2) = true)
    (hl : o.lit i = none) : branch toks o i = .item := by
  simp [branch, hl, hc, hid]

theorem reject_iff (i : Nat) : branch toks o i = .reject ↔
    ((o.lit i).isSome = false ∨ (isBoolIdent toks i = true ∧ isEq toks (i + 1) = true)) ∧
    isAnyIdent toks i = false ∧ (isColon2 toks i = false ∨ isAnyIdent toks (i + 2) = false) := by
  unfold branch
  cases h1 : (o.lit i).isSome <;> cases h2 : isBoolIdent toks i <;> cases h3 : isEq toks (i + 1) <;>
    cases h4 : isAnyIdent toks i <;> cases h5 : isColon2 toks i <;> cases h6 : isAnyIdent toks (i + 2) <;> simp

theorem reject_error (i : Nat) (h : branch toks o i = .reject) :
    itemAt toks o i = .error ("expected identifier or literal", spanAt toks i) := by
  simp [itemAt, h]

/-- a literal item is exactly what syn's `Lit` parser read at that position -/
theorem lit_item (i len : Nat) (s : String) (h : branch toks o i = .lit) (hl : o.lit i = some (len, s)) :
    itemAt toks o i = .ok (.lit s, i + len) := by
  simp [itemAt, h, hl]

/-- an item is exactly what syn's `Meta` parser read at that position; its failure is the list's failure -/
theorem meta_item_ok (i len : Nat) (s : String) (h : branch toks o i = .item) (hm : o.meta_ i = .ok (len, s)) :
    itemAt toks o i = .ok (.item s, i + len) := by
  simp [itemAt, h, hm]

theorem meta_item_err (i : Nat) (e : String × Option Span) (h : branch toks o i = .item) (hm : o.meta_ i = .error e) :
    itemAt toks o i = .error e := by
  simp [itemAt, h, hm]

/-! ### non-vacuity: `a, true` -/

private def t (k : TokKind) : Tok := ⟨k, ⟨0, 0⟩⟩
private def ex : List Tok := [t (.ident "a"), t (.punct ',' false), t (.ident "true")]
private def exO : SynOracle :=
  { lit := fun i => if i == 2 then some (1, "true") else none,
    meta_ := fun i => if i == 0 then .ok (1, "a") else .error ("no", none) }

example : Splits ex exO 0 [.item "a", .lit "true"] :=
  .cons (j := 1) (by decide) rfl (by decide) (by decide) (.last (j := 3) (by decide) rfl (by decide))

end C15a
