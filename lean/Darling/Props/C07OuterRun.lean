import Darling.Derive.Env
import Darling.Lemmas.NoPanic
import Darling.Props.C06Derive
import Darling.Props.C07Outer
import Darling.Props.C07Recv
import Darling.Props.C16
import Darling.Props.C18
/-
  C07, element-level receivers end to end: every element-level receiver (`FromDeriveInput`,
  `FromField`, `FromVariant`, `FromTypeParam`, `FromAttributes`) of a corpus whose declarations are
  rename-safe returns (never panics) on every input element, at every nesting depth.
-/
open Derive Options

namespace C07

/-! ### 1. entry converters -/

theorem entryConvF_returns (run : String → Elem → Outcome Val) (hrun : ∀ n el, (run n el).Returns) :
    ∀ (fuel : Nat) (ty : String) (el : Elem), (Env.entryConvF run fuel ty el).Returns
  | 0, ty, el => by
      simp only [Env.entryConvF]
      exact Outcome.returns_err _
  | fuel + 1, ty, el => by
      unfold Env.entryConvF
      split <;> try exact Outcome.returns_ok _
      split
      · split
        · exact ((entryConvF_returns run hrun fuel _ el).mapErr _).map _
        · exact Outcome.returns_err _
      · split
        · exact (entryConvF_returns run hrun fuel _ el).map _
        · exact Outcome.returns_err _
      · exact hrun _ _

/-! ### 2. the derive link of element-level receivers -/

/-- the derive-time link of an element-level receiver: the field list that becomes its struct
    parser is linked to the container default -/
def OuterLinked (r : ROuter) : Prop :=
  ∀ style fields, r.base.data = .struct style fields → DefaultsLinked r.base fields

theorem parseVariants_fields (t : Trait) (o : Oracle) (core : CoreOpts) :
    ∀ (vs : List VariantD) (st st' : BodySt), parseVariants t o core st vs = .ok st' → st'.fields = st.fields
  | [], st, st', h => by simp only [parseVariants] at h; cases h; rfl
  | v :: rest, st, st', h => by
      simp only [parseVariants] at h
      split at h
      · cases hr : variantFromDecl o core v with
        | ok rv => rw [hr] at h; have h2 := parseVariants_fields t o core rest _ st' h; exact h2
        | err e => rw [hr] at h; have h2 := parseVariants_fields t o core rest _ st' h; exact h2
        | panic m => rw [hr] at h; cases h
      · have h2 := parseVariants_fields t o core rest _ st' h; exact h2

theorem deriveOuter_linked (t : Trait) (o : Oracle) (sim : String → Option (Nat × String)) (sp : DeclSpans)
    (d : DeclD) (r : ROuter) (h : deriveOuter t o sim sp d = .ok (.outer r)) : OuterLinked r := by
  revert h
  unfold deriveOuter
  cases hb : d.body with
  | union => intro h; cases h
  | struct s fs =>
      simp only []
      intro h
      split at h
      · cases h
      · cases h
      · rename_i oo heq
        cases hst : parseFields t o sim oo.core {} fs with
        | error m => rw [hst] at h; cases h
        | ok st =>
            rw [hst] at h
            simp only [] at h
            have hfl := parseFields_linked t o sim oo.core fs {} st (by intro f hf; cases hf) hst
            split at h
            · split at h
              · cases h
              · simp only [Outcome.ok.injEq, Derived.outer.injEq] at h
                subst h
                intro style fields hd
                simp only [RData.struct.injEq] at hd
                obtain ⟨_, rfl⟩ := hd
                exact hfl
            · exact absurd h (bundleErr_ne_ok _ _)
  | enum vs =>
      cases vs with
      | nil => intro h; cases h
      | cons v vs =>
        simp only []
        intro h
        split at h
        · cases h
        · cases h
        · rename_i oo heq
          cases hst : parseVariants t o oo.core {} (v :: vs) with
          | error m => rw [hst] at h; cases h
          | ok st =>
              rw [hst] at h
              simp only [] at h
              have hfe := parseVariants_fields t o oo.core (v :: vs) {} st hst
              split at h
              · split at h
                · cases h
                · simp only [Outcome.ok.injEq, Derived.outer.injEq] at h
                  subst h
                  intro style fields hd
                  simp only [RData.struct.injEq] at hd
                  obtain ⟨_, rfl⟩ := hd
                  intro f hf
                  rw [hfe] at hf
                  cases hf
              · exact absurd h (bundleErr_ne_ok _ _)

/-- **the derive link** for element-level receivers -/
theorem derive_outer_linked (t : Trait) (o : Oracle) (sim : String → Option (Nat × String)) (sp : DeclSpans)
    (d : DeclD) (r : ROuter) (h : Options.derive t o sim sp d = .ok (.outer r)) : OuterLinked r := by
  unfold Options.derive at h
  split at h
  · -- `deriveFromMeta` produces `FromMeta` receivers only
    exfalso
    revert h
    unfold deriveFromMeta
    cases hb : d.body with
    | union => intro h; cases h
    | struct s fs =>
        simp only []
        intro h
        split at h
        · cases h
        · cases h
        · cases hst : parseFields .fromMeta o (fun _ => none) _ {} fs with
          | error m => rw [hst] at h; cases h
          | ok st =>
              rw [hst] at h
              simp only [] at h
              split at h
              · cases h
              · exact absurd h (bundleErr_ne_ok _ _)
    | enum vs =>
        simp only []
        intro h
        split at h
        · cases h
        · cases h
        · cases hst : parseVariants .fromMeta o _ {} vs with
          | error m => rw [hst] at h; cases h
          | ok st =>
              rw [hst] at h
              simp only [] at h
              split at h
              · cases h
              · exact absurd h (bundleErr_ne_ok _ _)
  · exact deriveOuter_linked t o sim sp d r h

/-! ### 3. the parts of the generated `from_*` -/

theorem isPanic_of_returns {α : Type} {o : Outcome α} (h : o.Returns) : o.isPanic = false := by
  cases o with
  | ok a => rfl
  | err e => rfl
  | panic m => exact absurd rfl (h m)

/-- the emitted `__validate_body` returns for every shape set and every body -/
theorem validateBody_returns (d : DISS) (b : BodyShape) : (d.validateBody b).Returns := by
  intro m h
  unfold DISS.validateBody at h
  split at h
  · cases h
  · cases b with
    | union => cases h
    | struct s =>
        simp only at h
        unfold DISS.validateStruct at h
        split at h
        · obtain ⟨dd, hdd⟩ := C18.display_ok d.enumValues.toShapeSet; simp [hdd] at h
        · exact C18.check_never_panics _ _ _ h
    | enum vs =>
        simp only at h
        unfold DISS.validateEnum at h
        split at h
        · obtain ⟨dd, hdd⟩ := C18.display_ok d.structValues.toShapeSet; simp [hdd] at h
        · rw [C18.checkVariants_spec, List.nil_append] at h
          cases hf : (vs.filter (fun v => !d.enumValues.toShapeSet.containsShape v)) with
          | nil => simp [hf] at h
          | cons x xs => cases xs <;> simp [hf, List.map, Err.bundleErr, Err.multiple] at h

theorem collectFirst_returns {β γ : Type} (f : β → Outcome γ) (hf : ∀ x, (f x).Returns) :
    ∀ xs, (collectFirst f xs).Returns
  | [] => Outcome.returns_ok _
  | x :: xs => by
      have ih := collectFirst_returns f hf xs
      unfold collectFirst
      cases hx : f x with
      | ok v =>
          simp only []
          cases hr : collectFirst f xs with
          | ok vs => exact Outcome.returns_ok _
          | err e => exact Outcome.returns_err _
          | panic m => exact absurd hr (ih m)
      | err e => exact Outcome.returns_err _
      | panic m => exact absurd hx (hf x m)

theorem gparamMirror_returns (wrap : Option (TypeParamD → Outcome Val))
    (hw : ∀ f, wrap = some f → ∀ t, (f t).Returns) (p : GParamD) : (gparamMirror wrap p).Returns := by
  cases p with
  | type t =>
      cases wrap with
      | none => exact Outcome.returns_ok _
      | some f => exact (hw f rfl t).map _
  | lifetime s => cases wrap <;> exact Outcome.returns_ok _
  | const s => cases wrap <;> exact Outcome.returns_ok _

theorem genericsMirror_returns (wrap : Option (TypeParamD → Outcome Val))
    (hw : ∀ f, wrap = some f → ∀ t, (f t).Returns) (g : GenericsD) : (genericsMirror wrap g).Returns := by
  have h := collectFirst_returns (gparamMirror wrap) (gparamMirror_returns wrap hw) g.params
  unfold genericsMirror
  cases hc : collectFirst (gparamMirror wrap) g.params with
  | ok ps => exact Outcome.returns_ok _
  | err e => exact Outcome.returns_err _
  | panic m => exact absurd hc (h m)

/-- replacing the container default by one that is present whenever the old one was keeps the
    hypotheses of the run-time theorem -/
theorem convsReturn_withDefault {ν : Type} (s : SStruct ν) (hc : ConvsReturn s) (cd : Option (String → ν))
    (h : s.containerDefault.isSome = true → cd.isSome = true) :
    ConvsReturn { s with containerDefault := cd } :=
  ⟨hc.conv, hc.list, hc.post, fun f hf hd => h (hc.dflt f hf hd)⟩

/-- what follows a successful attribute walk returns -/
theorem finishOuter_returns {ν : Type} (r : SOuter ν) (hc : ConvsReturn r.fields)
    (hw : ∀ mk, r.attrsField = some mk → ∀ as msg, mk as ≠ .panic msg)
    (attrs : List Attr) (st : PState ν) (av : Option ν) (he : extract r attrs = .ok (st, av))
    (validate : Outcome Unit) (hv : validate.Returns)
    (lateParts : List (String × Outcome ν)) (hl : ∀ p ∈ lateParts, p.2.Returns)
    (early : List (String × ν)) (build : List (String × ν) → ν) :
    (finishOuter r st av validate lateParts early build).Returns := by
  obtain ⟨st', av', he', hfin⟩ := outer_returns r hc hw attrs validate hv lateParts hl early build
  rw [he] at he'
  cases he'
  exact hfin

theorem extract_ne_error {ν : Type} (r : SOuter ν) (hc : ConvsReturn r.fields)
    (hw : ∀ mk, r.attrsField = some mk → ∀ as msg, mk as ≠ .panic msg)
    (attrs : List Attr) (m : String) : extract r attrs ≠ .error m := by
  obtain ⟨st', av', he', _⟩ := outer_returns r hc hw attrs (.ok ()) (Outcome.returns_ok _) [] (by intro p hp; cases hp) [] r.fields.build
  rw [he']
  intro h
  cases h

/-! ### 4. one element-level receiver on one element

  `Env.runOuter` is one large definition; its `let`-bound pieces are restated here one by one
  (`runOuter_eq` ties them back to the definition by `rfl`). -/

/-- how the forwarded attributes become the value of the `attrs` field -/
def attrsFn (fw : Forwarded) : List Attr → Outcome Val :=
  match fw.with_ with
  | none => fun as => .ok (.list (as.map (fun a => .toks a.toks)))
  | some "fns :: attrs_count" => fun as => .ok (.int as.length)
  | some "fns :: attrs_fail" => fun _ => .err (Err.custom "attrs_fail")
  | some _ => fun _ => .err (Err.custom "unknown attrs function")

def cdfltOf (env : Env.T) (r : ROuter) (el : Elem) (st : SStruct Val) : Option (String → Val) :=
  if r.fromIdent then
    (match el with
     | .deriveInput d => (match env.oracle.val? ("fromident:" ++ r.base.ident ++ ":" ++ d.ident) with
         | some (.record _ kvs) => some (fun id => ((kvs.find? (·.1 == id)).map (·.2)).getD .unit)
         | _ => some (fun _ => .unit))
     | _ => some (fun _ => .unit))
  else st.containerDefault

def stOf (env : Env.T) (r : ROuter) (fields : List RField) : SStruct Val :=
  Env.semStruct env (Env.recvHooks env) r.base fields (fun kvs => .record r.base.ident (Env.sortKvs kvs))

def soOf (env : Env.T) (r : ROuter) (fields : List RField) (el : Elem) : SOuter Val :=
  ⟨{ stOf env r fields with containerDefault := cdfltOf env r el (stOf env r fields) },
    r.attrNames, r.forward, r.attrsField.map attrsFn⟩

def validateOf (r : ROuter) (el : Elem) : Outcome Unit :=
  match r.trait_, el with
  | .fromDeriveInput, .deriveInput d => (match r.supports with
      | some diss => diss.validateBody d.body.shape
      | none => .ok ())
  | .fromVariant, .variant v => (match r.vsupports with
      | some ds => ds.toShapeSet.check (v.style.shape v.fields.length)
      | none => .ok ())
  | _, _ => .ok ()

def dataTyOf (env : Env.T) (r : ROuter) : String :=
  match r.dataField with
  | some fw => (match (match env.decls.find? (·.1 == r.base.ident) with
      | some (_, _, dd, _) => (match dd.body with
          | .struct _ fs => (fs.find? (fun f => f.ident == some fw.ident)).map (·.tyToks)
          | _ => none)
      | none => none) with
    | some t => t
    | none => "")
  | none => ""

def memberTyOf (env : Env.T) (r : ROuter) : String → String :=
  fun m => match env.decls.find? (·.1 == r.base.ident) with
  | some (_, _, dd, _) => (match dd.body with
      | .struct _ fs => ((fs.find? (fun f => f.ident == some m)).map (·.tyToks)).getD ""
      | _ => "")
  | none => ""

def stripWrap (pre : String) (t : String) : Option String :=
  if t.startsWith pre && t.endsWith ">" then some (String.ofList ((t.toList.drop pre.length).dropLast)) else none

def genBase (conv : String → Elem → Outcome Val) (d : DeclD) : String → Outcome Val := fun gTy =>
  match stripWrap "ast::Generics<" gTy with
  | none => .ok (genericsVal d)
  | some pTy =>
      (match stripWrap "ast::GenericParam<" pTy with
       | none => genericsMirror none d.generics
       | some tTy => genericsMirror (some (fun t => conv tTy (.typeParam t))) d.generics)

def genPart (conv : String → Elem → Outcome Val) (d : DeclD) (gTy : String) : Outcome Val :=
  match stripWrap "darling::Result<" gTy, stripWrap "WithOriginal<" gTy with
  | some inner, _ =>
      (match genBase conv d inner with
       | .ok v => .ok (.okv v)
       | .err e => .ok (.errv e)
       | .panic m => .panic m)
  | none, some args =>
      (match Env.typeArgs ("W<" ++ args ++ ">") with
       | [inner, _] => (genBase conv d inner).map (fun v => .withOrig v d.generics.toks)
       | _ => .err (Err.custom "cannot read type arguments"))
  | none, none => genBase conv d gTy

def dataPart (conv : String → Elem → Outcome Val) (dataTy : String) (d : DeclD) (fw : Forwarded) : Outcome Val :=
  match fw.with_ with
  | some "fns :: data_kind" => .ok (.str (match d.body with
      | .struct _ _ => "struct" | .enum _ => "enum" | .union => "union"))
  | some _ => .err (Err.custom "unknown data function")
  | none =>
      (match Env.typeArgs dataTy with
       | [vTy, fTy] =>
           dataTryFrom (fun f => conv fTy (.field f)) (fun v => conv vTy (.variant v))
             (fun style vs => .variant "Data" "Struct" (.record (styleName style) [("entries", .list vs)]))
             (fun vs => .variant "Data" "Enum" (.list vs)) d.body
       | _ => .err (Err.custom ("cannot read type arguments of " ++ dataTy)))

def fieldsPart (conv : String → Elem → Outcome Val) (fieldsTy : String) (v : VariantD) : Outcome Val :=
  match Env.typeArgs fieldsTy with
  | [fTy] => (match fieldsTryFrom (fun f => conv fTy (.field f)) v.fields [] [] with
      | .error m => .panic m
      | .ok (vs, []) => .ok (.record (styleName v.style) [("entries", .list vs)])
      | .ok (_, errs) => Err.bundleErr errs)
  | _ => .err (Err.custom ("cannot read type arguments of " ++ fieldsTy))

def lateOf (env : Env.T) (conv : String → Elem → Outcome Val) (r : ROuter) (el : Elem) : List (String × Outcome Val) :=
  match el with
  | .deriveInput d =>
      (if r.magic.contains "generics" then
         [("generics", genPart conv d (String.ofList ((memberTyOf env r "generics").toList.filter (· != ' '))))]
       else []) ++
      (match r.dataField with
       | some fw => [(fw.ident, dataPart conv (dataTyOf env r) d fw)]
       | none => [])
  | .variant v =>
      (if r.magic.contains "fields" then [("fields", fieldsPart conv (memberTyOf env r "fields") v)] else [])
  | _ => []

def mainArm (env : Env.T) (conv : String → Elem → Outcome Val) (r : ROuter) (fields : List RField) (el : Elem) :
    Outcome Val :=
  match extract (soOf env r fields el) el.attrsOf with
  | .error m => .panic m
  | .ok (pst, attrsVal) =>
      finishOuter (soOf env r fields el) pst attrsVal (validateOf r el) (lateOf env conv r el)
        (earlyParts (fun m => r.magic.contains m) el) (fun kvs => .record r.base.ident (Env.sortKvs kvs))

/-- the newtype arm's own `supports(..)` check (`__validate_body(&input.data)?` in the newtype arm
    of `FromDeriveInputImpl::to_tokens`): only a `FromDeriveInput` receiver on a derive input has one -/
def newtypeValidate (r : ROuter) (el : Elem) : Outcome Unit :=
  match r.trait_, el, r.supports with
  | .fromDeriveInput, .deriveInput d, some diss => diss.validateBody d.body.shape
  | _, _, _ => .ok ()

theorem runOuter_eq (env : Env.T) (run : String → Elem → Outcome Val) (conv : String → Elem → Outcome Val)
    (r : ROuter) (el : Elem) :
    Env.runOuter env run conv r el =
      (match r.base.data with
       | .struct .tuple [f] =>
           (match newtypeValidate r el with
            | .err e => .err e
            | .panic m => .panic m
            | .ok () =>
                (match f.ty with
                 | .recv inner => (run inner el).map (fun v => .record r.base.ident [("0", v)])
                 | _ => .err (Err.custom "unsupported newtype inner")))
       | .struct _ fields => mainArm env conv r fields el
       | .enum _ => .err (Err.custom "element-level receivers are structs")) := by
  rfl

theorem newtypeValidate_returns (r : ROuter) (el : Elem) : (newtypeValidate r el).Returns := by
  unfold newtypeValidate
  split
  · exact validateBody_returns _ _
  · exact Outcome.returns_ok _

theorem attrsFn_returns (fw : Forwarded) (as : List Attr) : (attrsFn fw as).Returns := by
  generalize hg : attrsFn fw = g
  unfold attrsFn at hg
  split at hg <;> subst hg <;> first | exact Outcome.returns_ok _ | exact Outcome.returns_err _

theorem cdfltOf_isSome (env : Env.T) (r : ROuter) (el : Elem) (st : SStruct Val)
    (h : st.containerDefault.isSome = true) : (cdfltOf env r el st).isSome = true := by
  unfold cdfltOf
  split
  · split
    · split <;> rfl
    · rfl
  · exact h

theorem validateOf_returns (r : ROuter) (el : Elem) : (validateOf r el).Returns := by
  unfold validateOf
  split
  · split
    · exact validateBody_returns _ _
    · exact Outcome.returns_ok _
  · split
    · exact C18.check_never_panics _ _
    · exact Outcome.returns_ok _
  · exact Outcome.returns_ok _

theorem genBase_returns (conv : String → Elem → Outcome Val) (hconv : ∀ n el, (conv n el).Returns)
    (d : DeclD) (gTy : String) : (genBase conv d gTy).Returns := by
  unfold genBase
  split
  · exact Outcome.returns_ok _
  · split
    · exact genericsMirror_returns none (fun f hf => by cases hf) _
    · exact genericsMirror_returns _ (fun f hf t => by cases hf; exact hconv _ _) _

theorem genPart_returns (conv : String → Elem → Outcome Val) (hconv : ∀ n el, (conv n el).Returns)
    (d : DeclD) (gTy : String) : (genPart conv d gTy).Returns := by
  unfold genPart
  split
  · split
    · exact Outcome.returns_ok _
    · exact Outcome.returns_ok _
    · rename_i m heq
      exact absurd heq (genBase_returns conv hconv d _ m)
  · split
    · exact (genBase_returns conv hconv d _).map _
    · exact Outcome.returns_err _
  · exact genBase_returns conv hconv d _

theorem dataPart_returns (conv : String → Elem → Outcome Val) (hconv : ∀ n el, (conv n el).Returns)
    (dataTy : String) (d : DeclD) (fw : Forwarded) : (dataPart conv dataTy d fw).Returns := by
  unfold dataPart
  split
  · exact Outcome.returns_ok _
  · exact Outcome.returns_err _
  · split
    · refine data_returns _ _ _ _ _ ?_
      cases d.body with
      | union => trivial
      | struct s fs => intro f _; exact isPanic_of_returns (hconv _ _)
      | enum vs => intro v _; exact isPanic_of_returns (hconv _ _)
    · exact Outcome.returns_err _

theorem fieldsPart_returns (conv : String → Elem → Outcome Val) (hconv : ∀ n el, (conv n el).Returns)
    (fieldsTy : String) (v : VariantD) : (fieldsPart conv fieldsTy v).Returns := by
  unfold fieldsPart
  split
  · rename_i fTy _
    rw [C16.fieldsTryFrom_spec (fun f => conv fTy (.field f)) v.fields [] []
      (fun f _ => isPanic_of_returns (hconv _ _))]
    split
    · rename_i heq; cases heq
    · exact Outcome.returns_ok _
    · rename_i errs hne heq
      cases heq
      refine bundleErr_returns _ ?_
      intro hnil
      exact hne hnil
  · exact Outcome.returns_err _

theorem lateOf_returns (env : Env.T) (conv : String → Elem → Outcome Val) (hconv : ∀ n el, (conv n el).Returns)
    (r : ROuter) (el : Elem) : ∀ p ∈ lateOf env conv r el, p.2.Returns := by
  intro p hp
  unfold lateOf at hp
  cases el with
  | deriveInput d =>
      simp only [List.mem_append] at hp
      rcases hp with hp | hp
      · split at hp
        · simp only [List.mem_singleton] at hp; subst hp; exact genPart_returns conv hconv d _
        · cases hp
      · split at hp
        · simp only [List.mem_singleton] at hp; subst hp; exact dataPart_returns conv hconv _ d _
        · cases hp
  | variant v =>
      simp only [] at hp
      split at hp
      · simp only [List.mem_singleton] at hp; subst hp; exact fieldsPart_returns conv hconv _ v
      · cases hp
  | field f => cases hp
  | typeParam t => cases hp
  | attrs as => cases hp

theorem soOf_convsReturn (env : Env.T) (r : ROuter) (fields : List RField) (hl : DefaultsLinked r.base fields)
    (el : Elem) : ConvsReturn (soOf env r fields el).fields :=
  convsReturn_withDefault (stOf env r fields)
    (semStruct_convsReturn env (Env.recvHooks env) (recvHooks_np env) r.base fields _ hl) _
    (cdfltOf_isSome env r el _)

theorem soOf_attrs_return (env : Env.T) (r : ROuter) (fields : List RField) (el : Elem) :
    ∀ mk, (soOf env r fields el).attrsField = some mk → ∀ as msg, mk as ≠ .panic msg := by
  intro mk hmk as
  simp only [soOf] at hmk
  cases ha : r.attrsField with
  | none => rw [ha] at hmk; cases hmk
  | some fw =>
      rw [ha] at hmk
      simp only [Option.map_some, Option.some.injEq] at hmk
      subst hmk
      exact attrsFn_returns fw as

theorem mainArm_returns (env : Env.T) (conv : String → Elem → Outcome Val) (hconv : ∀ n el, (conv n el).Returns)
    (r : ROuter) (fields : List RField) (hl : DefaultsLinked r.base fields) (el : Elem) :
    (mainArm env conv r fields el).Returns := by
  unfold mainArm
  have hc := soOf_convsReturn env r fields hl el
  have hw := soOf_attrs_return env r fields el
  cases he : extract (soOf env r fields el) el.attrsOf with
  | error m => exact absurd he (extract_ne_error _ hc hw _ m)
  | ok x =>
      obtain ⟨pst, av⟩ := x
      exact finishOuter_returns _ hc hw _ pst av he _ (validateOf_returns r el) _
        (lateOf_returns env conv hconv r el) _ _

/-- **one element-level receiver returns** on every element, when the receivers and entry
    converters it delegates to return and its inherited defaults are linked -/
theorem runOuter_returns (env : Env.T) (run : String → Elem → Outcome Val) (conv : String → Elem → Outcome Val)
    (hrun : ∀ n el, (run n el).Returns) (hconv : ∀ n el, (conv n el).Returns)
    (r : ROuter) (hl : OuterLinked r) (el : Elem) : (Env.runOuter env run conv r el).Returns := by
  rw [runOuter_eq]
  cases hd : r.base.data with
  | enum vs => exact Outcome.returns_err _
  | struct style fields =>
      have hlk := hl style fields hd
      split
      · have hv := newtypeValidate_returns r el
        cases hnv : newtypeValidate r el with
        | err e => exact Outcome.returns_err _
        | panic m => exact absurd hnv (hv m)
        | ok u =>
            simp only []
            split
            · exact (hrun _ _).map _
            · exact Outcome.returns_err _
      · rename_i heq
        cases heq
        exact mainArm_returns env conv hconv r _ hlk el
      · rename_i heq; cases heq

/-! ### 5. every element-level receiver of every rename-safe corpus returns, at every nesting depth -/

theorem outerRunF_returns (env : Env.T) (hsafe : ∀ x ∈ env.decls, C06.DeclSafe x.2.2.1) :
    ∀ (fuel : Nat) (name : String) (el : Elem), (Env.outerRunF fuel env name el).Returns
  | 0, name, el => by simp only [Env.outerRunF]; exact Outcome.returns_err _
  | fuel + 1, name, el => by
      simp only [Env.outerRunF]
      cases hf : env.decls.find? (·.1 == name) with
      | none => exact Outcome.returns_err _
      | some x =>
          obtain ⟨n, t, d, sp⟩ := x
          have hds : C06.DeclSafe d := hsafe _ (List.mem_of_find?_eq_some hf)
          simp only []
          have hdr := C06.derive_returns t env.oracle
            (fun (n : String) => Suggest.didYouMean env.thr [("with", env.oracle.score n "with")]) sp d hds
          cases hd : Options.derive t env.oracle
            (fun (n : String) => Suggest.didYouMean env.thr [("with", env.oracle.score n "with")]) sp d with
          | err e => exact Outcome.returns_err _
          | panic m => exact absurd hd (hdr m)
          | ok dv =>
              cases dv with
              | fromMeta r => exact Outcome.returns_err _
              | outer r =>
                  have ih := outerRunF_returns env hsafe fuel
                  exact runOuter_returns env _ _ ih (entryConvF_returns _ ih 8) r
                    (derive_outer_linked t env.oracle _ sp d r hd) el

/-- **C07 for element-level receivers, end to end**: the generated `from_derive_input` /
    `from_field` / `from_variant` / `from_type_param` / `from_attributes` of every receiver of every
    corpus with rename-safe declarations returns on every input element -/
theorem outerRun_returns (env : Env.T) (hsafe : ∀ x ∈ env.decls, C06.DeclSafe x.2.2.1)
    (name : String) (el : Elem) : (Env.outerRun env name el).Returns :=
  outerRunF_returns env hsafe _ name el

/-! ### non-vacuity -/

/-- `struct S { a: Option<bool> }` -/
def exampleOuterDecl : DeclD :=
  { ident := "S", attrs := [],
    body := .struct .named
      [ { ident := some "a", ty := .option .bool, tyToks := "Option<bool>", vis := "", attrs := [] } ] }

/-- the corpus `#[derive(FromField)] struct S { a: Option<bool> }` -/
def exampleOuterEnv : Env.T :=
  { decls := [("S", .fromField, exampleOuterDecl, {})], oracle := {}, thr := 0 }

theorem exampleOuterEnv_safe : ∀ x ∈ exampleOuterEnv.decls, C06.DeclSafe x.2.2.1 := by
  intro x hx
  simp only [exampleOuterEnv, List.mem_singleton] at hx
  subst hx
  intro f hf
  simp only [List.mem_singleton] at hf
  subst hf
  exact C06.ident_a_safe

/-- the theorem applies to it … -/
example (el : Elem) : (Env.outerRun exampleOuterEnv "S" el).Returns :=
  outerRun_returns exampleOuterEnv exampleOuterEnv_safe "S" el

/-- … and its receiver is derived, assembled and run to a value (not the fuel-exhausted,
    unknown-receiver or derive-error outcome) -/
example : (Env.outerRun exampleOuterEnv "S"
    (.field { ident := some "x", ty := .bool, tyToks := "bool", vis := "", attrs := [] })).isOk = true := by
  decide

end C07
