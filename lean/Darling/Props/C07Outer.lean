import Darling.Lemmas.NoPanic
import Darling.Props.C08
import Darling.Props.C16
/-
  C07, element-level receivers: the generated `from_derive_input` / `from_field` / `from_variant` /
  `from_type_param` / `from_attributes` never panics, for every attribute list (any bodies, any
  order, malformed or not) and every element, provided the field converters, the user-supplied
  `with` functions and the post-transform return.

  The two `expect`s of the generated code are dead:
    * `attrs.expect("Errors were already checked")` (attrs_field.rs): the value populator pushed an
      error whenever it left `attrs` empty, and `check_errors` returned before the literal;
    * `expect("Uninitialized fields without defaults were already checked")` (field.rs): a slot
      without value is either unseen — then `CheckMissing` filled it or pushed an error — or seen
      with a failed conversion — then the error was pushed when it was seen.
-/
open Derive Options

namespace C07
variable {ν : Type}

/-- what the model assumes of the parts darling does not generate -/
structure ConvsReturn (s : SStruct ν) : Prop where
  conv : ∀ f ∈ s.fields, ∀ m msg, f.conv m ≠ .panic msg
  list : ∀ f ∈ s.fields, ∀ items msg, f.fromList items ≠ .panic msg
  post : ∀ v msg, s.post v ≠ .panic msg
  /-- a field whose default is inherited has a container default to inherit from (derive-time check) -/
  dflt : ∀ f ∈ s.fields, f.dflt = some .inherit → s.containerDefault.isSome = true

/-- a slot that was seen but holds no value has left an error behind -/
def Good (st : PState ν) : Prop :=
  st.errs ≠ [] ∨ ∀ id, (st.slot id).seen = true → (st.slot id).val ≠ none

theorem good_init : Good ({} : PState ν) := Or.inr (fun _ h => by cases h)

theorem good_push (st : PState ν) (e : Err) : Good (st.push e) := Or.inl (by simp [PState.push])

theorem good_set (st : PState ν) (id : String) (s : Slot ν) (h : Good st)
    (hs : (∀ j, (st.slot j).seen = true → (st.slot j).val ≠ none) → s.seen = true → s.val ≠ none) :
    Good (st.set id s) := by
  rcases h with h | h
  · exact Or.inl h
  · have hs := hs h
    right; intro j
    show ((if j == id then s else st.slot j).seen = true → (if j == id then s else st.slot j).val ≠ none)
    by_cases hj : (j == id) = true
    · simp only [hj, if_true]; exact hs
    · simp only [hj]; exact h j

theorem arm_mem (s : SStruct ν) (n : String) (f : SField ν) (h : s.arm n = some f) : f ∈ s.fields :=
  List.mem_of_find?_eq_some h

theorem stepItem_good (s : SStruct ν) (hc : ConvsReturn s) (st : PState ν) (it : NestedMeta) (hg : Good st) :
    ∃ st', stepItem s st it = .ok st' ∧ Good st' := by
  cases it with
  | lit l => exact ⟨_, rfl, good_push _ _⟩
  | item inner =>
      simp only [stepItem]
      cases ha : s.arm inner.path'.toStr with
      | none =>
          simp only []
          by_cases hf : s.hasFlatten = true
          · simp only [hf, if_true]
            refine ⟨_, rfl, ?_⟩
            rcases hg with h | h
            · exact Or.inl h
            · exact Or.inr h
          · simp only [hf]
            by_cases hu : s.allowUnknown = true
            · simp only [hu, if_true]; exact ⟨_, rfl, hg⟩
            · simp only [hu]; exact ⟨_, rfl, good_push _ _⟩
      | some f =>
          have hm := arm_mem s _ f ha
          simp only []
          by_cases hmul : f.multiple = true
          · simp only [hmul, if_true]
            cases hcv : f.conv inner with
            | ok v =>
                exact ⟨_, rfl, good_set _ _ _ hg (fun h => h f.ident)⟩
            | err e => exact ⟨_, rfl, good_push _ _⟩
            | panic m => exact absurd hcv (hc.conv f hm inner m)
          · simp only [hmul]
            by_cases hseen : (st.slot f.ident).seen = true
            · simp only [hseen]; exact ⟨_, rfl, good_push _ _⟩
            · simp only [hseen]
              cases hcv : f.conv inner with
              | ok v => exact ⟨_, rfl, good_set _ _ _ hg (fun _ _ => by simp)⟩
              | err e => exact ⟨_, rfl, good_push _ _⟩
              | panic m => exact absurd hcv (hc.conv f hm inner m)

theorem runAtoms_good (s : SStruct ν) (hc : ConvsReturn s) (ats : List C08.Atom) (st : PState ν) (hg : Good st) :
    ∃ st', C08.runAtoms s st ats = .ok st' ∧ Good st' := by
  induction ats generalizing st with
  | nil => exact ⟨st, rfl, hg⟩
  | cons a rest ih =>
      simp only [C08.runAtoms]
      cases a with
      | item i =>
          obtain ⟨st1, h1, g1⟩ := stepItem_good s hc st i hg
          simp only [C08.stepAtom, h1]
          exact ih st1 g1
      | bad e =>
          simp only [C08.stepAtom]
          exact ih _ (good_push st e)

/-- the value populator leaves `attrs` empty only after pushing an error -/
def AttrsGuard (r : SOuter ν) (st : PState ν) (av : Option ν) : Prop :=
  r.attrsField.isSome = true → av = none → st.errs ≠ []

/-- **the attribute walk returns** for every attribute list -/
theorem extract_returns (r : SOuter ν) (hc : ConvsReturn r.fields)
    (hw : ∀ mk, r.attrsField = some mk → ∀ as msg, mk as ≠ .panic msg) (attrs : List Attr) :
    ∃ st av, extract r attrs = .ok (st, av) ∧ Good st ∧ AttrsGuard r st av := by
  rw [C08.extract_spec]
  unfold C08.extractSpec
  obtain ⟨st, h1, g1⟩ := runAtoms_good r.fields hc (C08.atoms r attrs) {} good_init
  rw [h1]
  simp only [attrsValue]
  cases ha : r.attrsField with
  | none => exact ⟨st, none, rfl, g1, by simp [AttrsGuard, ha]⟩
  | some mk =>
      simp only []
      cases hm : mk (attrs.filter (C08.forwardedBy r)) with
      | ok v => exact ⟨st, some v, rfl, g1, by intro _ h; cases h⟩
      | err e => exact ⟨st.push e, none, rfl, good_push _ _, by intro _ _; simp [PState.push]⟩
      | panic m => exact absurd hm (hw mk ha _ m)

/-! ### after the walk -/

theorem flattenInit_good (s : SStruct ν) (hc : ConvsReturn s) (st : PState ν) (hg : Good st) :
    ∃ st', flattenInit s st = .ok st' ∧ Good st' ∧ (st.errs ≠ [] → st'.errs ≠ []) := by
  unfold flattenInit
  cases hf : s.fields.find? (·.flatten) with
  | none => exact ⟨st, rfl, hg, id⟩
  | some ff =>
      have hm : ff ∈ s.fields := List.mem_of_find?_eq_some hf
      simp only []
      have hnp : ∀ msg, ff.fromList st.flat ≠ .panic msg := fun msg => hc.list ff hm _ msg
      -- the sibling-alternatives rewrite only touches errors
      have key : ∀ (res : Outcome ν), (∀ msg, res ≠ .panic msg) →
          ∃ st' : PState ν, (match res with
            | .ok v => (Except.ok (st.set ff.ident { seen := true, val := some v }) : Except String (PState ν))
            | .err e => .ok ((st.set ff.ident { seen := true, val := none }).push e)
            | .panic m => .error m) = .ok st' ∧ Good st' ∧ (st.errs ≠ [] → st'.errs ≠ []) := by
        intro res hres
        cases res with
        | ok v => exact ⟨_, rfl, good_set _ _ _ hg (fun _ _ => by simp), id⟩
        | err e => exact ⟨_, rfl, good_push _ _, fun _ => by simp [PState.push]⟩
        | panic m => exact absurd rfl (hres m)
      by_cases hp : s.names.isEmpty = true
      · simp only [hp, if_true]; exact key _ hnp
      · simp only [hp]
        apply key
        intro msg
        cases hr : ff.fromList st.flat with
        | ok v => simp [Outcome.mapErr]
        | err e => simp [Outcome.mapErr]
        | panic m => exact absurd hr (hnp m)

/-- after `CheckMissing`: a plain field without default has a value, or an error is on record -/
def Checked (fs : List (SField ν)) (st : PState ν) : Prop :=
  st.errs ≠ [] ∨ ∀ f ∈ fs, f.multiple = false → f.dflt = none → (st.slot f.ident).val ≠ none

theorem checkMissing_good (fs : List (SField ν)) (st : PState ν) (hg : Good st) :
    Good (checkMissing fs st) ∧ (st.errs ≠ [] → (checkMissing fs st).errs ≠ []) := by
  induction fs generalizing st with
  | nil => exact ⟨hg, id⟩
  | cons f rest ih =>
      simp only [checkMissing]
      split
      · split
        · split
          · rename_i v _
            have g : Good (st.set f.ident { st.slot f.ident with val := some v }) :=
              good_set _ _ _ hg (fun _ _ => by simp)
            exact ⟨(ih _ g).1, fun h => (ih _ g).2 h⟩
          · have g := good_push st (Err.new (.missingField f.name))
            exact ⟨(ih _ g).1, fun _ => (ih _ g).2 (by simp [PState.push])⟩
        · exact ih st hg
      · exact ih st hg

/-- values and errors only accumulate during `CheckMissing` -/
theorem checkMissing_keeps (fs : List (SField ν)) (st : PState ν) (id : String)
    (h : st.errs ≠ [] ∨ (st.slot id).val ≠ none) :
    (checkMissing fs st).errs ≠ [] ∨ ((checkMissing fs st).slot id).val ≠ none := by
  induction fs generalizing st with
  | nil => exact h
  | cons f rest ih =>
      simp only [checkMissing]
      split
      · split
        · split
          · rename_i v _
            apply ih
            rcases h with h | h
            · exact Or.inl h
            · right
              show (if id == f.ident then _ else st.slot id).val ≠ none
              by_cases hj : (id == f.ident) = true
              · simp [hj]
              · simp only [hj]; exact h
          · exact ih _ (Or.inl (by simp [PState.push]))
        · exact ih st h
      · exact ih st h

theorem checkMissing_checked (fs : List (SField ν)) (st : PState ν) (hg : Good st) :
    ∀ f ∈ fs, f.multiple = false → f.dflt = none →
      (checkMissing fs st).errs ≠ [] ∨ ((checkMissing fs st).slot f.ident).val ≠ none := by
  induction fs generalizing st with
  | nil => intro f hf; cases hf
  | cons g rest ih =>
      intro f hf hmul hd
      rcases List.mem_cons.mp hf with rfl | hrest
      · -- the head field: decided now, kept afterwards
        simp only [checkMissing, hmul, hd]
        simp only [Bool.not_false, Option.isNone_none, Bool.and_self, if_true]
        by_cases hseen : (st.slot f.ident).seen = true
        · simp only [hseen, Bool.not_true, Bool.false_eq_true, if_false]
          apply checkMissing_keeps
          rcases hg with h | h
          · exact Or.inl h
          · exact Or.inr (h f.ident hseen)
        · simp only [hseen]
          cases hn : f.fromNone with
          | some v =>
              apply checkMissing_keeps
              right
              show (if f.ident == f.ident then _ else st.slot f.ident).val ≠ none
              simp
          | none =>
              apply checkMissing_keeps
              exact Or.inl (by simp [PState.push])
      · -- a later field
        simp only [checkMissing]
        split
        · split
          · split
            · rename_i v _
              exact ih _ (good_set _ _ _ hg (fun _ _ => by simp)) f hrest hmul hd
            · exact ih _ (good_push _ _) f hrest hmul hd
          · exact ih st hg f hrest hmul hd
        · exact ih st hg f hrest hmul hd

theorem defaultValue_returns (s : SStruct ν) (hc : ConvsReturn s) (f : SField ν) (hf : f ∈ s.fields)
    (d : DefaultSrc ν) (hd : f.dflt = some d) (msg : String) : defaultValue s f d ≠ .panic msg := by
  cases d with
  | value v => simp [defaultValue]
  | inherit =>
      have := hc.dflt f hf hd
      cases hcd : s.containerDefault with
      | none => rw [hcd] at this; cases this
      | some cd => simp [defaultValue, hcd]

theorem initField_returns (s : SStruct ν) (hc : ConvsReturn s) (st : PState ν) (f : SField ν) (hf : f ∈ s.fields)
    (hv : f.multiple = false → f.dflt = none → (st.slot f.ident).val ≠ none) (msg : String) :
    initField s st f ≠ .panic msg := by
  unfold initField
  by_cases hm : f.multiple = true
  · simp only [hm, if_true]
    cases hd : f.dflt with
    | none => simp
    | some d =>
        simp only []
        split
        · simp
        · exact defaultValue_returns s hc f hf d hd msg
  · have hm' : f.multiple = false := by cases h : f.multiple <;> simp_all
    simp only [hm']
    cases hd : f.dflt with
    | some d =>
        simp only []
        cases hval : (st.slot f.ident).val with
        | some v => simp
        | none => simpa using defaultValue_returns s hc f hf d hd msg
    | none =>
        simp only []
        cases hval : (st.slot f.ident).val with
        | some v => simp
        | none => exact absurd hval (hv hm' hd)

theorem initFields_returns (s : SStruct ν) (hc : ConvsReturn s) (st : PState ν) (fs : List (SField ν))
    (hsub : ∀ f ∈ fs, f ∈ s.fields)
    (hv : ∀ f ∈ fs, f.multiple = false → f.dflt = none → (st.slot f.ident).val ≠ none) :
    ∀ msg, initFields s st fs ≠ .panic msg := by
  induction fs with
  | nil => simp [initFields]
  | cons f rest ih =>
      have h1 := initField_returns s hc st f (hsub f List.mem_cons_self) (hv f List.mem_cons_self)
      have h2 := ih (fun g hg => hsub g (List.mem_cons_of_mem _ hg)) (fun g hg => hv g (List.mem_cons_of_mem _ hg))
      intro msg
      unfold initFields
      cases hi : initField s st f with
      | ok v =>
          simp only []
          cases hr : initFields s st rest with
          | ok l => simp [Outcome.map]
          | err e => simp [Outcome.map]
          | panic m => exact absurd hr (h2 m)
      | err e => simp
      | panic m => exact absurd hi (h1 m)

theorem lateValues_returns (parts : List (String × Outcome ν)) (h : ∀ p ∈ parts, ∀ msg, p.2 ≠ .panic msg) :
    ∀ msg, lateValues parts ≠ .panic msg := by
  induction parts with
  | nil => simp [lateValues]
  | cons p rest ih =>
      obtain ⟨k, o⟩ := p
      have h1 := h (k, o) List.mem_cons_self
      have h2 := ih (fun q hq => h q (List.mem_cons_of_mem _ hq))
      intro msg
      unfold lateValues
      cases o with
      | ok v =>
          simp only []
          cases hr : lateValues rest with
          | ok l => simp [Outcome.map]
          | err e => simp [Outcome.map]
          | panic m => exact absurd hr (h2 m)
      | err e => simp
      | panic m => exact absurd rfl (h1 m)

theorem bundleErr_returns (errs : List Err) (h : errs ≠ []) (msg : String) : (Err.bundleErr errs : Outcome ν) ≠ .panic msg := by
  cases errs with
  | nil => exact absurd rfl h
  | cons e es => cases es <;> simp [Err.bundleErr, Err.multiple]

theorem finishChecked_returns (r : SOuter ν) (hc : ConvsReturn r.fields) (st : PState ν) (av : Option ν)
    (hg : Good st) (hav : AttrsGuard r st av)
    (lateParts : List (String × Outcome ν)) (hl : ∀ p ∈ lateParts, ∀ msg, p.2 ≠ .panic msg)
    (early : List (String × ν)) (build : List (String × ν) → ν) (msg : String) :
    finishChecked r st av lateParts early build ≠ .panic msg := by
  unfold finishChecked
  obtain ⟨st1, h1, g1, m1⟩ := flattenInit_good r.fields hc st hg
  rw [h1]
  simp only []
  obtain ⟨g2, m2⟩ := checkMissing_good r.fields.fields st1 g1
  have hck := checkMissing_checked r.fields.fields st1 g1
  cases he : (checkMissing r.fields.fields st1).errs with
  | cons e es => simp only []; rw [← he]; exact bundleErr_returns _ (by rw [he]; simp) msg
  | nil =>
      simp only []
      have hnoerr : st.errs = [] := by
        cases hs : st.errs with
        | nil => rfl
        | cons x xs => exact absurd he (m2 (m1 (by rw [hs]; simp)))
      unfold assemble
      have ha : ∀ m, attrsPart r av ≠ .panic m := by
        intro m
        unfold attrsPart
        cases haf : r.attrsField with
        | none => simp
        | some mk =>
            cases hav' : av with
            | some v => simp
            | none => exact absurd hnoerr (hav (by simp [haf]) hav')
      have hlv := lateValues_returns lateParts hl
      have hin := initFields_returns r.fields hc (checkMissing r.fields.fields st1) r.fields.fields (fun _ h => h)
        (fun f hf hm hd => by
          rcases hck f hf hm hd with h | h
          · exact absurd he h
          · exact h)
      cases hA : attrsPart r av with
      | panic m => exact absurd hA (ha m)
      | ok a =>
          cases hL : lateValues lateParts with
          | panic m => exact absurd hL (hlv m)
          | ok l =>
              cases hI : initFields r.fields (checkMissing r.fields.fields st1) r.fields.fields with
              | panic m => exact absurd hI (hin m)
              | ok inits => simpa using hc.post _ msg
              | err e => simp
          | err e =>
              cases hI : initFields r.fields (checkMissing r.fields.fields st1) r.fields.fields with
              | panic m => exact absurd hI (hin m)
              | ok inits => simp
              | err e => simp
      | err e =>
          cases hL : lateValues lateParts with
          | panic m => exact absurd hL (hlv m)
          | ok l =>
              cases hI : initFields r.fields (checkMissing r.fields.fields st1) r.fields.fields with
              | panic m => exact absurd hI (hin m)
              | ok inits => simp
              | err e => simp
          | err e =>
              cases hI : initFields r.fields (checkMissing r.fields.fields st1) r.fields.fields with
              | panic m => exact absurd hI (hin m)
              | ok inits => simp
              | err e => simp

/-- **An element-level receiver returns**: attribute walk, shape validation, presence check, error
    check and struct literal together never panic — whatever the attributes and the element. -/
theorem outer_returns (r : SOuter ν) (hc : ConvsReturn r.fields)
    (hw : ∀ mk, r.attrsField = some mk → ∀ as msg, mk as ≠ .panic msg)
    (attrs : List Attr) (validate : Outcome Unit) (hv : ∀ msg, validate ≠ .panic msg)
    (lateParts : List (String × Outcome ν)) (hl : ∀ p ∈ lateParts, ∀ msg, p.2 ≠ .panic msg)
    (early : List (String × ν)) (build : List (String × ν) → ν) :
    ∃ st av, extract r attrs = .ok (st, av) ∧
      ∀ msg, finishOuter r st av validate lateParts early build ≠ .panic msg := by
  obtain ⟨st, av, he, hg, hav⟩ := extract_returns r hc hw attrs
  refine ⟨st, av, he, fun msg => ?_⟩
  unfold finishOuter
  cases validate with
  | panic m => exact absurd rfl (hv m)
  | ok u => exact finishChecked_returns r hc st av hg hav lateParts hl early build msg
  | err e =>
      exact finishChecked_returns r hc (st.push e) av (good_push _ _) (fun _ _ => by simp [PState.push]) lateParts hl early build msg

/-! ### the same argument for FromMeta struct receivers (no distinctness hypothesis needed) -/

theorem coreLoop_good (s : SStruct ν) (hc : ConvsReturn s) (items : List NestedMeta) (st : PState ν) (hg : Good st) :
    ∃ st', coreLoop s st items = .ok st' ∧ Good st' := by
  have := runAtoms_good s hc (items.map .item) st hg
  rwa [C08.runAtoms_items] at this

/-- `require_fields` … `Ok(Self { .. })` of a struct parser returns from every good state -/
theorem finishStruct_returns (s : SStruct ν) (hc : ConvsReturn s) (flattenHere : Bool) (loc : Option String)
    (st : PState ν) (hg : Good st) : ∀ msg, finishStruct s flattenHere loc st ≠ .panic msg := by
  intro msg
  unfold finishStruct
  have h1 : ∃ st1, (if flattenHere then flattenInit s st else Except.ok st) = .ok st1 ∧ Good st1 := by
    cases flattenHere with
    | true => obtain ⟨st1, h, g, _⟩ := flattenInit_good s hc st hg; exact ⟨st1, by simpa using h, g⟩
    | false => exact ⟨st, rfl, hg⟩
  obtain ⟨st1, h1e, g1⟩ := h1
  simp only [h1e]
  obtain ⟨_, _⟩ := checkMissing_good s.fields st1 g1
  have hck := checkMissing_checked s.fields st1 g1
  cases he : (checkMissing s.fields st1).errs with
  | cons e es =>
      simp only []
      have hb := bundleErr_returns (ν := ν) (e :: es) (by simp)
      cases loc with
      | none => exact hb msg
      | some l =>
          simp only []
          intro h
          cases hbe : (Err.bundleErr (e :: es) : Outcome ν) with
          | ok v => rw [hbe] at h; cases h
          | err e' => rw [hbe] at h; cases h
          | panic m => exact hb m hbe
  | nil =>
      simp only []
      have hin := initFields_returns s hc (checkMissing s.fields st1) s.fields (fun _ h => h)
        (fun f hf hm hd => by
          rcases hck f hf hm hd with h | h
          · exact absurd he h
          · exact h)
      cases hI : initFields s (checkMissing s.fields st1) s.fields with
      | ok kvs => simpa using hc.post _ msg
      | err e => simp
      | panic m => exact absurd hI (hin m)

/-- **A derived struct `FromMeta` receiver returns on every item list**, given only that its
    converters, list hooks and post-transform return and inherited defaults have a source -/
theorem struct_fromList_returns (s : SStruct ν) (hc : ConvsReturn s) (items : List NestedMeta) :
    (Derive.fromList s items).Returns := by
  intro msg
  unfold Derive.fromList
  obtain ⟨st, h, g⟩ := coreLoop_good s hc items {} good_init
  rw [h]
  exact finishStruct_returns s hc true none st g msg

/-- body conversion returns when the entry converters do (`C16.data_fails_iff`), unions included -/
theorem data_returns (fconv : FieldD → Outcome ν) (vconv : VariantD → Outcome ν)
    (mkStruct : Style → List ν → ν) (mkEnum : List ν → ν) (b : BodyD) (hnp : C16.BodyNoPanic fconv vconv b) (msg : String) :
    dataTryFrom fconv vconv mkStruct mkEnum b ≠ .panic msg := by
  have := (C16.data_fails_iff fconv vconv mkStruct mkEnum b hnp).2
  intro h; rw [h] at this; cases this

end C07
