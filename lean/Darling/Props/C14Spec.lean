import Darling.FromMeta.Maps
import Darling.Lemmas.Error
import Darling.Props.C07Universe
/-
  C14, declarative form — written from the property text, not from the `map!` loop.

  Vocabulary (no loop state; `Maps.step` / `Maps.loop` are never called by a definition):
    * `KeyConv k p key`       what "key conversion" is for the three key kinds (`keyOf_ok_iff`)
    * `keyAt k it`, `keysOf`  the converted key of an item (none for literals / unconvertible keys)
    * `EntryOf k h it kv`     `kv` is the entry item `it` stands for: its converted key and the value
                              the element type produces for it;  `Entries` = one per item, in order
    * `Accepted k h items kvs`  one entry per item, keys pairwise distinct
    * `Acceptable k h items`    the text's success condition: every item named, every key converts,
                              keys pairwise distinct after conversion, every value converts
    * `report k h earlier it` what item `it` contributes to the error, given the items before it:
                              literal item / unconvertible key / repeated occurrence / unconvertible
                              value located under its key
    * `positional f items`    "for every position, apply `f` to the items before it and the item
                              at it, and concatenate"; `expected = positional report`
    * `firstPanic h items`    the element type's first panic (the only way not to return)
    * `isLit`, `badKey`, `isRepeat`/`repeats`, `badValue`, `valueLeaves`   what is counted

  Theorems (all for every key kind, every element implementor and every list; no size bound):
    * `loop_run`                 the loop invariant: accumulated errors = `expected`, seen keys = `keysOf`
    * `clean_iff_acceptable`     nothing to report and no panic ⟺ `Acceptable`
    * `fromList_ok_iff`          `fromList = ok kvs` ⟺ `Accepted … kvs`            (no hypothesis)
    * `fromList_succeeds_iff`    `fromList` succeeds ⟺ `Acceptable`                 (no hypothesis)
    * `fromList_reports`         otherwise (no panic) the result is the bundle of `expected`
    * `fromList_panic`, `fromList_cases`   the panic case and the trichotomy
    * `leaf_count`, `error_leaves`, `repeats_add_distinct`, `value_leaves_located`
                                 the error leaf by leaf: count, order, location under the key
    * `one_leaf_per_mistake_partial`   the literal "one leaf per unconvertible value", which needs a
                                 side condition (`nested_value_two_leaves` shows why)
    * `map_fromMeta_list`, `map_fromMeta_ok_iff`   the `from_meta` entry point on `name(items…)`
    * `universe_spec`, `hash_ordered_same`, `firstPanic_none_of_np`   the whole type universe, without
                                 side condition; hash = ordered in the model
    * `expected_eq_mistakes`     agreement with the positional spec of `Darling/Spec/C14.lean`
-/
open Maps

namespace C14
variable {α : Type}

/-! ## 0. key conversion, from the text ("String / Ident / Path keys", "multi-segment keys") -/

/-- `key` is the converted key of the item name `p` -/
inductive KeyConv : KeyKind → Path → String → Prop
  /-- a String key is the `::`-joined segments (a leading `::` is not part of it) -/
  | string (p : Path) : KeyConv .string p ("::".intercalate p.segs)
  /-- a Path key is the path itself (identified by its printed tokens) -/
  | path (p : Path) : KeyConv .path p p.toks
  /-- an Ident key exists only for a single plain segment without leading `::` -/
  | ident (p : Path) (s : String) : p.global = false → p.segs = [s] → p.plain = true →
      KeyConv .ident p s

theorem getIdent_eq_some (p : Path) (s : String) :
    p.getIdent = some s ↔ (p.global = false ∧ p.segs = [s] ∧ p.plain = true) := by
  unfold Path.getIdent
  split
  · rename_i s' hg hs hp
    constructor
    · intro h; cases h; exact ⟨hg, hs, hp⟩
    · rintro ⟨_, h2, _⟩; rw [hs] at h2; cases h2; rfl
  · rename_i hne
    constructor
    · intro h; cases h
    · rintro ⟨h1, h2, h3⟩; exact absurd h3 (hne s h1 h2)

theorem keyOf_ok_iff (k : KeyKind) (p : Path) (key : String) :
    keyOf k p = .ok key ↔ KeyConv k p key := by
  cases k with
  | string =>
      simp only [keyOf, Except.ok.injEq]
      constructor
      · intro h; subst h; exact .string p
      · intro h; cases h; rfl
  | path =>
      simp only [keyOf, Except.ok.injEq]
      constructor
      · intro h; subst h; exact .path p
      · intro h; cases h; rfl
  | ident =>
      simp only [keyOf]
      cases hg : p.getIdent with
      | some i =>
          simp only [Except.ok.injEq]
          obtain ⟨h1, h2, h3⟩ := (getIdent_eq_some p i).1 hg
          constructor
          · intro h; subst h; exact .ident p i h1 h2 h3
          · intro h; cases h with
            | ident _ _ _ h2' _ => rw [h2] at h2'; cases h2'; rfl
      | none =>
          constructor
          · intro h; cases h
          · intro h; cases h with
            | ident _ _ h1 h2 h3 =>
                have := (getIdent_eq_some p key).2 ⟨h1, h2, h3⟩
                rw [hg] at this; cases this

/-- only Ident keys can fail to convert, and exactly on names that are not one plain identifier -/
theorem keyOf_error_iff (k : KeyKind) (p : Path) :
    (∃ e, keyOf k p = .error e) ↔ (k = .ident ∧ ¬ ∃ s, KeyConv .ident p s) := by
  constructor
  · rintro ⟨e, he⟩
    cases k with
    | string => simp [keyOf] at he
    | path => simp [keyOf] at he
    | ident =>
        refine ⟨rfl, ?_⟩
        rintro ⟨s, hs⟩
        rw [(keyOf_ok_iff .ident p s).2 hs] at he; cases he
  · rintro ⟨hk, hn⟩
    subst hk
    cases h : keyOf .ident p with
    | error e => exact ⟨e, rfl⟩
    | ok key => exact absurd ⟨key, (keyOf_ok_iff .ident p key).1 h⟩ hn

/-! ## 1. vocabulary -/

/-- the converted key of an item: literal items and items whose name does not convert have none -/
def keyAt (k : KeyKind) : NestedMeta → Option String
  | .item m => (match keyOf k m.path' with
      | .ok key => some key
      | .error _ => none)
  | .lit _ => none

/-- the converted keys of a list, in item order -/
def keysOf (k : KeyKind) (items : List NestedMeta) : List String := items.filterMap (keyAt k)

/-- `kv` is the entry that item `it` stands for: a named item, its converted key, and the value
    the element type produces for it -/
inductive EntryOf (k : KeyKind) (h : Hooks α) : NestedMeta → String × α → Prop
  | mk (m : Meta) (key : String) (v : α) :
      keyOf k m.path' = .ok key → h.fromMeta m = .ok v → EntryOf k h (.item m) (key, v)

/-- one entry per item, in item order -/
inductive Entries (k : KeyKind) (h : Hooks α) : List NestedMeta → List (String × α) → Prop
  | nil : Entries k h [] []
  | cons {it kv items kvs} : EntryOf k h it kv → Entries k h items kvs → Entries k h (it :: items) (kv :: kvs)

/-- the map the text promises: exactly one entry per item (here: in item order), holding the
    value the element type produces, all keys pairwise distinct -/
structure Accepted (k : KeyKind) (h : Hooks α) (items : List NestedMeta) (kvs : List (String × α)) :
    Prop where
  entries : Entries k h items kvs
  distinct : (kvs.map Prod.fst).Pairwise (· ≠ ·)

/-- the text's success condition, on the input alone -/
structure Acceptable (k : KeyKind) (h : Hooks α) (items : List NestedMeta) : Prop where
  /-- every item is a named item -/
  named : ∀ it ∈ items, ∃ m, it = .item m
  /-- every key converts … -/
  keys : ∀ m, NestedMeta.item m ∈ items → ∃ key, keyOf k m.path' = .ok key
  /-- … and the converted keys are pairwise distinct -/
  distinct : (keysOf k items).Pairwise (· ≠ ·)
  /-- every value converts -/
  values : ∀ m, NestedMeta.item m ∈ items → ∃ v, h.fromMeta m = .ok v

/-! ## 2. what is reported -/

/-- the report of a repeated key: names the key, points at the repeated name -/
def dupReport (k : KeyKind) (key : String) (p : Path) : Err :=
  (Err.new (.duplicateField (keyDisplay k key p))).withSpan p.span

/-- the report of a key problem of the name of `m`, given the items before it -/
def keyReport (k : KeyKind) (earlier : List NestedMeta) (m : Meta) : List Err :=
  match keyOf k m.path' with
  | .error ke => [ke]                                                    -- unconvertible key
  | .ok key => if key ∈ keysOf k earlier then [dupReport k key m.path'] else []   -- repeat

/-- the report of a value problem: the element type's error, located under the item's name -/
def valueReport (h : Hooks α) (m : Meta) : List Err :=
  match h.fromMeta m with
  | .err e => [e.at m.path'.toStr]
  | _ => []

/-- everything item `it` contributes to the error, given the items before it -/
def report (k : KeyKind) (h : Hooks α) (earlier : List NestedMeta) : NestedMeta → List Err
  | .lit _ => [Err.unsupportedFormat "expression"]
  | .item m => keyReport k earlier m ++ valueReport h m

/-- for every position: `f (items before it) (item at it)`, concatenated in item order -/
def positional {β : Type} (f : List NestedMeta → NestedMeta → List β) (items : List NestedMeta) : List β :=
  (List.range items.length).flatMap (fun i =>
    match items[i]? with
    | some it => f (items.take i) it
    | none => [])

/-- the reports of a whole list -/
def expected (k : KeyKind) (h : Hooks α) (items : List NestedMeta) : List Err :=
  positional (report k h) items

/-- the panic message of the element type on an item, if it panics -/
def panicOf (h : Hooks α) : NestedMeta → Option String
  | .item m => (match h.fromMeta m with
      | .panic msg => some msg
      | _ => none)
  | .lit _ => none

/-- the first panic of the element type over a list -/
def firstPanic (h : Hooks α) (items : List NestedMeta) : Option String := items.findSome? (panicOf h)

/-! ## 3. list plumbing -/

theorem snoc_induction {β : Type} {P : List β → Prop} (nil : P [])
    (snoc : ∀ l a, P l → P (l ++ [a])) : ∀ l, P l := by
  intro l
  have h : ∀ r : List β, P r.reverse := by
    intro r
    induction r with
    | nil => exact nil
    | cons a r ih => rw [List.reverse_cons]; exact snoc _ _ ih
  have := h l.reverse
  rwa [List.reverse_reverse] at this

theorem flatMap_congr_mem {β γ : Type} (l : List β) (f g : β → List γ) (hfg : ∀ a ∈ l, f a = g a) :
    l.flatMap f = l.flatMap g := by
  induction l with
  | nil => rfl
  | cons a l ih =>
      rw [List.flatMap_cons, List.flatMap_cons, hfg a (List.mem_cons_self ..),
        ih (fun b hb => hfg b (List.mem_cons_of_mem _ hb))]

theorem positional_nil {β : Type} (f : List NestedMeta → NestedMeta → List β) : positional f [] = [] := rfl

theorem positional_snoc {β : Type} (f : List NestedMeta → NestedMeta → List β) (l : List NestedMeta)
    (it : NestedMeta) : positional f (l ++ [it]) = positional f l ++ f l it := by
  unfold positional
  rw [List.length_append, List.length_singleton, List.range_succ, List.flatMap_append]
  congr 1
  · apply flatMap_congr_mem
    intro i hi
    have hi' : i < l.length := List.mem_range.1 hi
    rw [List.getElem?_append_left hi', List.take_append_of_le_length (Nat.le_of_lt hi')]
  · simp

/-! ## 4. the loop computes the positional reports -/

theorem loop_snoc (k : KeyKind) (h : Hooks α) : ∀ (l : List NestedMeta) (s : St α) (it : NestedMeta),
    loop k h s (l ++ [it]) = (match loop k h s l with
      | .cont s' => step k h s' it
      | .panic m => .panic m) := by
  intro l
  induction l with
  | nil => intro s it; simp only [List.nil_append, loop]; cases step k h s it <;> rfl
  | cons a l ih =>
      intro s it
      simp only [List.cons_append, loop]
      cases step k h s a with
      | cont s' => exact ih s' it
      | panic m => rfl

theorem step_panic (k : KeyKind) (h : Hooks α) (s : St α) (it : NestedMeta) (msg : String)
    (hp : panicOf h it = some msg) : step k h s it = .panic msg := by
  cases it with
  | lit l => simp [panicOf] at hp
  | item m =>
      simp only [panicOf] at hp
      cases hv : h.fromMeta m with
      | ok v => simp [hv] at hp
      | err e => simp [hv] at hp
      | panic m' =>
          simp only [hv, Option.some.injEq] at hp
          subst hp
          simp only [step, hv, Outcome.mapErr]

/-- one step of the code = the report of that item, given what came before -/
theorem step_cont (k : KeyKind) (h : Hooks α) (s : St α) (earlier : List NestedMeta) (it : NestedMeta)
    (hseen : s.seen = keysOf k earlier) (hp : panicOf h it = none) :
    ∃ s', step k h s it = .cont s' ∧ s'.errs = s.errs ++ report k h earlier it ∧
      s'.seen = s.seen ++ (keyAt k it).toList ∧
      (report k h earlier it = [] → ∃ kv, EntryOf k h it kv ∧ s'.map = s.map ++ [kv]) := by
  cases it with
  | lit l =>
      refine ⟨_, rfl, rfl, ?_, ?_⟩
      · simp [keyAt]
      · intro hr; simp [report] at hr
  | item m =>
      have hmem : ∀ key, s.seen.contains key = decide (key ∈ keysOf k earlier) := by
        intro key; rw [hseen]
        by_cases hk : key ∈ keysOf k earlier
        · simp [hk]
        · simp [hk]
      cases hv : h.fromMeta m with
      | panic m' => simp [panicOf, hv] at hp
      | ok v =>
          cases hk : keyOf k m.path' with
          | error ke =>
              refine ⟨_, by simp only [step, hv, Outcome.mapErr, hk]; rfl, ?_, ?_, ?_⟩
              · simp [report, keyReport, valueReport, hk, hv]
              · simp [keyAt, hk]
              · intro hr; simp [report, keyReport, hk] at hr
          | ok key =>
              by_cases hin : key ∈ keysOf k earlier
              · refine ⟨_, by simp only [step, hv, Outcome.mapErr, hk, hmem, hin, decide_true, if_true]; rfl, ?_, ?_, ?_⟩
                · simp [report, keyReport, valueReport, hk, hv, hin, dupReport]
                · simp [keyAt, hk]
                · intro hr; simp [report, keyReport, hk, hin] at hr
              · refine ⟨_, by simp only [step, hv, Outcome.mapErr, hk, hmem, hin, decide_false, Bool.false_eq_true, if_false]; rfl, ?_, ?_, ?_⟩
                · simp [report, keyReport, valueReport, hk, hv, hin]
                · simp [keyAt, hk]
                · intro _; exact ⟨(key, v), .mk m key v hk hv, rfl⟩
      | err e =>
          cases hk : keyOf k m.path' with
          | error ke =>
              refine ⟨_, by simp only [step, hv, Outcome.mapErr, hk]; rfl, ?_, ?_, ?_⟩
              · simp [report, keyReport, valueReport, hk, hv]
              · simp [keyAt, hk]
              · intro hr; simp [report, keyReport, hk] at hr
          | ok key =>
              by_cases hin : key ∈ keysOf k earlier
              · refine ⟨_, by simp only [step, hv, Outcome.mapErr, hk, hmem, hin, decide_true, if_true]; rfl, ?_, ?_, ?_⟩
                · simp [report, keyReport, valueReport, hk, hv, hin, dupReport]
                · simp [keyAt, hk]
                · intro hr; simp [report, keyReport, hk, hin] at hr
              · refine ⟨_, by simp only [step, hv, Outcome.mapErr, hk, hmem, hin, decide_false, Bool.false_eq_true, if_false]; rfl, ?_, ?_, ?_⟩
                · simp [report, keyReport, valueReport, hk, hv, hin]
                · simp [keyAt, hk]
                · intro hr; simp [report, valueReport, hv] at hr


theorem entries_snoc {k : KeyKind} {h : Hooks α} {l : List NestedMeta} {kvs : List (String × α)}
    {it : NestedMeta} {kv : String × α} (hl : Entries k h l kvs) (hit : EntryOf k h it kv) :
    Entries k h (l ++ [it]) (kvs ++ [kv]) := by
  induction hl with
  | nil => exact .cons hit .nil
  | cons h1 _ ih => exact .cons h1 ih

theorem firstPanic_snoc (h : Hooks α) (l : List NestedMeta) (it : NestedMeta) :
    firstPanic h (l ++ [it]) = (firstPanic h l).or (panicOf h it) := by
  unfold firstPanic
  rw [List.findSome?_append]
  congr 1
  simp only [List.findSome?_cons, List.findSome?_nil]
  cases panicOf h it <;> rfl

theorem keysOf_snoc (k : KeyKind) (l : List NestedMeta) (it : NestedMeta) :
    keysOf k (l ++ [it]) = keysOf k l ++ (keyAt k it).toList := by
  unfold keysOf
  rw [List.filterMap_append]
  congr 1

/-- the state the loop reaches: a panic iff the element type panics somewhere (the first one
    wins); otherwise the accumulated errors are the positional reports, the seen keys are the
    converted keys, and a report-free list has produced one entry per item -/
theorem loop_run (k : KeyKind) (h : Hooks α) : ∀ items : List NestedMeta,
    (∀ msg, firstPanic h items = some msg → loop k h {} items = .panic msg) ∧
    (firstPanic h items = none → ∃ s, loop k h {} items = .cont s ∧ s.errs = expected k h items ∧
      s.seen = keysOf k items ∧ (expected k h items = [] → Entries k h items s.map)) := by
  apply snoc_induction
  · refine ⟨fun msg hm => by simp [firstPanic] at hm, fun _ => ⟨{}, rfl, rfl, rfl, fun _ => .nil⟩⟩
  · intro l a ih
    rw [firstPanic_snoc, loop_snoc]
    cases hfp : firstPanic h l with
    | some msg0 =>
        refine ⟨fun msg hm => ?_, fun hn => by simp at hn⟩
        simp only [Option.some_or, Option.some.injEq] at hm
        subst hm
        rw [ih.1 msg0 hfp]
    | none =>
        obtain ⟨s, hl, herrs, hseen, hent⟩ := ih.2 hfp
        rw [hl]
        simp only [Option.none_or]
        refine ⟨fun msg hm => step_panic k h s a msg hm, fun hn => ?_⟩
        obtain ⟨s', hst, he', hs', hm'⟩ := step_cont k h s l a hseen hn
        refine ⟨s', hst, ?_, ?_, ?_⟩
        · rw [he', herrs]; unfold expected; rw [positional_snoc]
        · rw [hs', hseen, keysOf_snoc]
        · intro hex
          unfold expected at hex
          rw [positional_snoc, List.append_eq_nil_iff] at hex
          obtain ⟨kv, hkv, hmap⟩ := hm' hex.2
          rw [hmap]
          exact entries_snoc (hent hex.1) hkv


/-! ## 5. the success condition of the text ⟺ nothing to report -/

/-- item `it` is fine after `earlier`: named, key converts to a key not used before, value converts -/
def Good (k : KeyKind) (h : Hooks α) (earlier : List NestedMeta) (it : NestedMeta) : Prop :=
  ∃ m key v, it = .item m ∧ keyOf k m.path' = .ok key ∧ key ∉ keysOf k earlier ∧ h.fromMeta m = .ok v

theorem good_iff (k : KeyKind) (h : Hooks α) (earlier : List NestedMeta) (it : NestedMeta) :
    (report k h earlier it = [] ∧ panicOf h it = none) ↔ Good k h earlier it := by
  constructor
  · rintro ⟨hr, hp⟩
    cases it with
    | lit l => simp [report] at hr
    | item m =>
        simp only [report, List.append_eq_nil_iff] at hr
        obtain ⟨hkr, hvr⟩ := hr
        cases hv : h.fromMeta m with
        | panic msg => simp [panicOf, hv] at hp
        | err e => simp [valueReport, hv] at hvr
        | ok v =>
            cases hk : keyOf k m.path' with
            | error ke => simp [keyReport, hk] at hkr
            | ok key =>
                by_cases hin : key ∈ keysOf k earlier
                · simp [keyReport, hk, hin] at hkr
                · exact ⟨m, key, v, rfl, hk, hin, hv⟩
  · rintro ⟨m, key, v, rfl, hk, hin, hv⟩
    constructor
    · simp [report, keyReport, valueReport, hk, hin, hv]
    · simp [panicOf, hv]

theorem acceptable_nil (k : KeyKind) (h : Hooks α) : Acceptable k h [] :=
  { named := fun _ hm => (nomatch hm), keys := fun _ hm => (nomatch hm), distinct := List.Pairwise.nil,
    values := fun _ hm => (nomatch hm) }

theorem acceptable_snoc (k : KeyKind) (h : Hooks α) (l : List NestedMeta) (a : NestedMeta) :
    Acceptable k h (l ++ [a]) ↔ (Acceptable k h l ∧ Good k h l a) := by
  constructor
  · intro hacc
    have hd := hacc.distinct
    rw [keysOf_snoc, List.pairwise_append] at hd
    refine ⟨⟨fun it hm => hacc.named it (List.mem_append_left _ hm),
             fun m hm => hacc.keys m (List.mem_append_left _ hm), hd.1,
             fun m hm => hacc.values m (List.mem_append_left _ hm)⟩, ?_⟩
    obtain ⟨m, rfl⟩ := hacc.named a (List.mem_append_right _ (List.mem_singleton.2 rfl))
    obtain ⟨key, hk⟩ := hacc.keys m (List.mem_append_right _ (List.mem_singleton.2 rfl))
    obtain ⟨v, hv⟩ := hacc.values m (List.mem_append_right _ (List.mem_singleton.2 rfl))
    refine ⟨m, key, v, rfl, hk, ?_, hv⟩
    intro hin
    exact hd.2.2 key hin key (by simp [keyAt, hk]) rfl
  · rintro ⟨hacc, m, key, v, rfl, hk, hin, hv⟩
    refine ⟨?_, ?_, ?_, ?_⟩
    · intro it hm
      rcases List.mem_append.1 hm with hm | hm
      · exact hacc.named it hm
      · exact ⟨m, List.mem_singleton.1 hm⟩
    · intro m' hm
      rcases List.mem_append.1 hm with hm | hm
      · exact hacc.keys m' hm
      · cases List.mem_singleton.1 hm; exact ⟨key, hk⟩
    · rw [keysOf_snoc, List.pairwise_append]
      refine ⟨hacc.distinct, by cases keyAt k (.item m) <;> simp, ?_⟩
      intro x hx y hy hxy
      simp only [keyAt, hk, Option.toList_some, List.mem_singleton] at hy
      subst hy; subst hxy; exact hin hx
    · intro m' hm
      rcases List.mem_append.1 hm with hm | hm
      · exact hacc.values m' hm
      · cases List.mem_singleton.1 hm; exact ⟨v, hv⟩

/-- **nothing to report and no panic ⟺ the text's success condition** -/
theorem clean_iff_acceptable (k : KeyKind) (h : Hooks α) : ∀ items : List NestedMeta,
    (expected k h items = [] ∧ firstPanic h items = none) ↔ Acceptable k h items := by
  apply snoc_induction
  · exact ⟨fun _ => acceptable_nil k h, fun _ => ⟨rfl, rfl⟩⟩
  · intro l a ih
    rw [acceptable_snoc, ← ih, ← good_iff, firstPanic_snoc]
    unfold expected
    rw [positional_snoc, List.append_eq_nil_iff]
    cases firstPanic h l with
    | none =>
        simp only [Option.none_or]
        constructor
        · rintro ⟨⟨h1, h2⟩, h3⟩; exact ⟨⟨h1, trivial⟩, h2, h3⟩
        · rintro ⟨⟨h1, _⟩, h2, h3⟩; exact ⟨⟨h1, h2⟩, h3⟩
    | some msg => simp


/-! ## 6. the conversion, end to end -/

theorem bundleErr_ne_ok {β : Type} (es : List Err) (x : β) : (Err.bundleErr es : Outcome β) ≠ .ok x := by
  match es with
  | [] => simp [Err.bundleErr, Err.multiple]
  | [e] => simp [Err.bundleErr, Err.multiple]
  | e1 :: e2 :: r => simp [Err.bundleErr, Err.multiple]

/-- a non-empty bundle is an error (never a panic): the one report itself, or a fresh bundle -/
theorem bundleErr_of_ne_nil {β : Type} (es : List Err) (hne : es ≠ []) :
    ∃ e, (Err.bundleErr es : Outcome β) = .err e ∧ Err.multiple es = .ok e := by
  match es, hne with
  | [e], _ => exact ⟨e, by simp [Err.bundleErr, Err.multiple]⟩
  | e1 :: e2 :: r, _ => exact ⟨.multi (e1 :: e2 :: r) [] none, by simp [Err.bundleErr, Err.multiple]⟩

theorem entries_keys {k : KeyKind} {h : Hooks α} {items : List NestedMeta} {kvs : List (String × α)}
    (he : Entries k h items kvs) : kvs.map Prod.fst = keysOf k items := by
  induction he with
  | nil => rfl
  | cons h1 _ ih =>
      cases h1 with
      | mk m key v hk hv =>
          simp only [List.map_cons, keysOf, List.filterMap_cons, keyAt, hk]
          rw [ih]; rfl

theorem entries_unique {k : KeyKind} {h : Hooks α} {items : List NestedMeta} {a b : List (String × α)}
    (ha : Entries k h items a) (hb : Entries k h items b) : a = b := by
  induction ha generalizing b with
  | nil => cases hb; rfl
  | cons h1 _ ih =>
      cases hb with
      | cons h2 hb' =>
          rw [ih hb']
          cases h1 with
          | mk m key v hk hv =>
              cases h2 with
              | mk _ key' v' hk' hv' =>
                  rw [hk] at hk'; rw [hv] at hv'
                  cases hk'; cases hv'; rfl

theorem entries_length {k : KeyKind} {h : Hooks α} {items : List NestedMeta} {kvs : List (String × α)}
    (he : Entries k h items kvs) : kvs.length = items.length := by
  induction he with
  | nil => rfl
  | cons _ _ ih => simp only [List.length_cons, ih]

theorem entries_mem {k : KeyKind} {h : Hooks α} {items : List NestedMeta} {kvs : List (String × α)}
    (he : Entries k h items kvs) : ∀ it ∈ items, ∃ kv, EntryOf k h it kv := by
  induction he with
  | nil => intro it hm; cases hm
  | cons h1 _ ih =>
      intro it hm
      rcases List.mem_cons.1 hm with rfl | hm
      · exact ⟨_, h1⟩
      · exact ih it hm

/-- an accepted list satisfies the text's success condition -/
theorem Accepted.acceptable {k : KeyKind} {h : Hooks α} {items : List NestedMeta}
    {kvs : List (String × α)} (hacc : Accepted k h items kvs) : Acceptable k h items where
  named := fun it hm => by
    obtain ⟨kv, hkv⟩ := entries_mem hacc.entries it hm
    cases hkv with
    | mk m key v hk hv => exact ⟨m, rfl⟩
  keys := fun m hm => by
    obtain ⟨kv, hkv⟩ := entries_mem hacc.entries _ hm
    cases hkv with
    | mk m key v hk hv => exact ⟨key, hk⟩
  distinct := by rw [← entries_keys hacc.entries]; exact hacc.distinct
  values := fun m hm => by
    obtain ⟨kv, hkv⟩ := entries_mem hacc.entries _ hm
    cases hkv with
    | mk m key v hk hv => exact ⟨v, hv⟩

/-- **C14 (panic).**  The conversion panics exactly when the element type does; the first panic
    is the one that surfaces. -/
theorem fromList_panic (k : KeyKind) (h : Hooks α) (items : List NestedMeta) (msg : String)
    (hp : firstPanic h items = some msg) : fromList k h items = .panic msg := by
  simp only [fromList, (loop_run k h items).1 msg hp]

/-- **C14 (failure).**  If the element type returns on every item and there is something to
    report, the result is the bundle of exactly the positional reports, in item order. -/
theorem fromList_reports (k : KeyKind) (h : Hooks α) (items : List NestedMeta)
    (hp : firstPanic h items = none) (hne : expected k h items ≠ []) :
    fromList k h items = Err.bundleErr (expected k h items) := by
  obtain ⟨s, hl, he, _, _⟩ := (loop_run k h items).2 hp
  simp only [fromList, hl, he]
  rw [if_neg]
  simpa using hne

/-- **C14 (success, with the content of the map).**  The conversion yields the map `kvs` exactly
    when `kvs` has one entry per item — the item's converted key with the value the element type
    produces for it — and the keys are pairwise distinct. -/
theorem fromList_ok_iff (k : KeyKind) (h : Hooks α) (items : List NestedMeta) (kvs : List (String × α)) :
    fromList k h items = .ok kvs ↔ Accepted k h items kvs := by
  constructor
  · intro hok
    cases hp : firstPanic h items with
    | some msg => rw [fromList_panic k h items msg hp] at hok; cases hok
    | none =>
        obtain ⟨s, hl, he, hs, hent⟩ := (loop_run k h items).2 hp
        by_cases hex : expected k h items = []
        · simp only [fromList, hl, he, hex, List.isEmpty_nil, if_true, Outcome.ok.injEq] at hok
          subst hok
          have hacc := (clean_iff_acceptable k h items).1 ⟨hex, hp⟩
          exact ⟨hent hex, by rw [entries_keys (hent hex)]; exact hacc.distinct⟩
        · rw [fromList_reports k h items hp hex] at hok
          exact absurd hok (bundleErr_ne_ok _ _)
  · intro hacc
    obtain ⟨hex, hp⟩ := (clean_iff_acceptable k h items).2 hacc.acceptable
    obtain ⟨s, hl, he, hs, hent⟩ := (loop_run k h items).2 hp
    simp only [fromList, hl, he, hex, List.isEmpty_nil, if_true, Outcome.ok.injEq]
    exact entries_unique (hent hex) hacc.entries

/-- **C14 (success, on the input alone).**  The conversion succeeds exactly when every item is a
    named item, every key converts, the converted keys are pairwise distinct, and every value
    converts. -/
theorem fromList_succeeds_iff (k : KeyKind) (h : Hooks α) (items : List NestedMeta) :
    (∃ kvs, fromList k h items = .ok kvs) ↔ Acceptable k h items := by
  constructor
  · rintro ⟨kvs, hok⟩
    exact ((fromList_ok_iff k h items kvs).1 hok).acceptable
  · intro hacc
    obtain ⟨hex, hp⟩ := (clean_iff_acceptable k h items).2 hacc
    obtain ⟨s, hl, he, hs, hent⟩ := (loop_run k h items).2 hp
    exact ⟨s.map, by simp only [fromList, hl, he, hex, List.isEmpty_nil, if_true]⟩

/-- the map has exactly one entry per item -/
theorem ok_length (k : KeyKind) (h : Hooks α) (items : List NestedMeta) (kvs : List (String × α))
    (hok : fromList k h items = .ok kvs) : kvs.length = items.length := by
  exact entries_length ((fromList_ok_iff k h items kvs).1 hok).entries

/-- **C14 (trichotomy).**  Every run is one of: the element type's first panic; the accepted map;
    the bundle of the positional reports of a list that is not acceptable. -/
theorem fromList_cases (k : KeyKind) (h : Hooks α) (items : List NestedMeta) :
    (∃ msg, firstPanic h items = some msg ∧ fromList k h items = .panic msg) ∨
    (firstPanic h items = none ∧ Acceptable k h items ∧ expected k h items = [] ∧
      ∃ kvs, Accepted k h items kvs ∧ fromList k h items = .ok kvs) ∨
    (firstPanic h items = none ∧ ¬ Acceptable k h items ∧ expected k h items ≠ [] ∧
      ∃ e, fromList k h items = .err e ∧ Err.multiple (expected k h items) = .ok e) := by
  cases hp : firstPanic h items with
  | some msg => exact .inl ⟨msg, rfl, fromList_panic k h items msg hp⟩
  | none =>
      by_cases hex : expected k h items = []
      · have hacc := (clean_iff_acceptable k h items).1 ⟨hex, hp⟩
        obtain ⟨kvs, hok⟩ := (fromList_succeeds_iff k h items).2 hacc
        exact .inr (.inl ⟨rfl, hacc, hex, kvs, (fromList_ok_iff k h items kvs).1 hok, hok⟩)
      · refine .inr (.inr ⟨rfl, fun hacc => hex ((clean_iff_acceptable k h items).2 hacc).1, hex, ?_⟩)
        rw [fromList_reports k h items hp hex]
        exact bundleErr_of_ne_nil _ hex


/-! ## 7. the leaves of the error -/

/-- a literal item -/
def isLit : NestedMeta → Bool
  | .lit _ => true
  | .item _ => false

/-- a named item whose key does not convert -/
def badKey (k : KeyKind) : NestedMeta → Bool
  | .item m => (match keyOf k m.path' with
      | .error _ => true
      | .ok _ => false)
  | .lit _ => false

/-- a repeated occurrence: the item's converted key is the converted key of an earlier item -/
def isRepeat (k : KeyKind) (earlier : List NestedMeta) (it : NestedMeta) : Bool :=
  match keyAt k it with
  | some key => decide (key ∈ keysOf k earlier)
  | none => false

/-- the number of repeated occurrences in a list -/
def repeats (k : KeyKind) (items : List NestedMeta) : Nat :=
  (positional (fun earlier it => if isRepeat k earlier it then [()] else []) items).length

/-- the repeated occurrences are the keyed items beyond the first of each key: their number is
    the number of converted keys minus the number of distinct ones -/
theorem repeats_add_distinct (k : KeyKind) : ∀ items : List NestedMeta,
    repeats k items + (keysOf k items).eraseDups.length = (keysOf k items).length := by
  apply snoc_induction
  · rfl
  · intro l a ih
    unfold repeats at *
    rw [positional_snoc, keysOf_snoc, List.length_append, List.length_append, List.eraseDups_append,
      List.length_append]
    cases hk : keyAt k a with
    | none =>
        have hrep : isRepeat k l a = false := by simp [isRepeat, hk]
        simp [hrep]; exact ih
    | some key =>
        by_cases hin : key ∈ keysOf k l
        · have hrep : isRepeat k l a = true := by simp [isRepeat, hk, hin]
          simp [hrep, hin, List.removeAll]; omega
        · have hrep : isRepeat k l a = false := by simp [isRepeat, hk, hin]
          simp [hrep, hin, List.removeAll, List.eraseDups_cons]; omega

/-- a named item whose value does not convert -/
def badValue (h : Hooks α) : NestedMeta → Bool
  | .item m => (match h.fromMeta m with
      | .err _ => true
      | _ => false)
  | .lit _ => false

/-- the number of leaves of the element type's error for an item (0 if the value converts) -/
def valueLeaves (h : Hooks α) : NestedMeta → Nat
  | .item m => (match h.fromMeta m with
      | .err e => e.len
      | _ => 0)
  | .lit _ => 0

theorem len_at (e : Err) (s : String) : (e.at s).len = e.len := by
  cases e <;> simp [Err.at]

theorem keyOf_error_leaf (k : KeyKind) (p : Path) (e : Err) (he : keyOf k p = .error e) : e.len = 1 := by
  cases k with
  | string => simp [keyOf] at he
  | path => simp [keyOf] at he
  | ident =>
      simp only [keyOf] at he
      cases hg : p.getIdent with
      | some i => simp [hg] at he
      | none => simp only [hg, Except.error.injEq] at he; subst he; simp

theorem dupReport_leaf (k : KeyKind) (key : String) (p : Path) : (dupReport k key p).len = 1 := by
  simp [dupReport, Err.new, Err.withSpan]

/-- the leaves item `it` contributes: one if it is a literal, one if its key does not convert, one
    if it repeats a key, and those of the element type's error if its value does not convert -/
theorem report_leaves (k : KeyKind) (h : Hooks α) (earlier : List NestedMeta) (it : NestedMeta) :
    Err.lenList (report k h earlier it) =
      (if isLit it then 1 else 0) + (if badKey k it then 1 else 0)
        + (if isRepeat k earlier it then 1 else 0) + valueLeaves h it := by
  cases it with
  | lit l => simp [report, isLit, badKey, isRepeat, keyAt, valueLeaves, Err.unsupportedFormat, Err.new]
  | item m =>
      have hv : Err.lenList (valueReport h m) = valueLeaves h (.item m) := by
        simp only [valueReport, valueLeaves]
        cases h.fromMeta m with
        | ok v => simp
        | err e => simp [len_at]
        | panic msg => simp
      simp only [report, Err.lenList_append, hv, isLit]
      cases hk : keyOf k m.path' with
      | error ke =>
          simp [keyReport, hk, badKey, isRepeat, keyAt, keyOf_error_leaf k _ ke hk]
      | ok key =>
          by_cases hin : key ∈ keysOf k earlier
          · simp [keyReport, hk, badKey, isRepeat, keyAt, hin, dupReport_leaf]
          · simp [keyReport, hk, badKey, isRepeat, keyAt, hin]

/-- **C14 (leaf count).**  The reports of a list have one leaf per literal item, one per
    unconvertible key, one per repeated occurrence of a key, and the leaves of the element type's
    error for each unconvertible value. -/
theorem leaf_count (k : KeyKind) (h : Hooks α) : ∀ items : List NestedMeta,
    Err.lenList (expected k h items) =
      items.countP isLit + items.countP (badKey k) + repeats k items + (items.map (valueLeaves h)).sum := by
  apply snoc_induction
  · rfl
  · intro l a ih
    unfold expected repeats at *
    rw [positional_snoc, positional_snoc, Err.lenList_append, ih, report_leaves, List.countP_append,
      List.countP_append, List.length_append, List.map_append, List.sum_append]
    simp only [List.countP_cons, List.countP_nil, List.map_cons, List.map_nil, List.sum_cons, List.sum_nil]
    cases isLit a <;> cases badKey k a <;> cases isRepeat k l a <;> simp <;> omega

/-- on this list, the element type reports a single leaf for each value it rejects (true of
    `bool`, `u8`, `String`, `Expr` on every list; not of a nested map, see the examples) -/
def LeafErrorsOn (h : Hooks α) (items : List NestedMeta) : Prop :=
  ∀ m e, NestedMeta.item m ∈ items → h.fromMeta m = .err e → e.len = 1

theorem valueLeaves_of_leafErrors (h : Hooks α) (items : List NestedMeta) (hl : LeafErrorsOn h items) :
    (items.map (valueLeaves h)).sum = items.countP (badValue h) := by
  induction items with
  | nil => rfl
  | cons a l ih =>
      have ih' := ih (fun m e hm => hl m e (List.mem_cons_of_mem _ hm))
      simp only [List.map_cons, List.sum_cons, List.countP_cons, ih']
      cases a with
      | lit x => simp [valueLeaves, badValue]
      | item m =>
          cases hv : h.fromMeta m with
          | ok v => simp [valueLeaves, badValue, hv]
          | err e => simp [valueLeaves, badValue, hv, hl m e (List.mem_cons_self ..) hv]; omega
          | panic msg => simp [valueLeaves, badValue, hv]

theorem multiple_len (es : List Err) (e : Err) (hm : Err.multiple es = .ok e) : e.len = Err.lenList es := by
  match es, hm with
  | [x], hm => simp only [Err.multiple, Outcome.ok.injEq] at hm; subst hm; simp
  | x :: y :: r, hm => simp only [Err.multiple, Outcome.ok.injEq] at hm; subst hm; simp

theorem intoVecListP_flatMap (pre : List String) (sp : Option Span) (es : List Err) :
    Err.intoVecListP pre sp es = es.flatMap (Err.intoVecP pre sp) := by
  induction es with
  | nil => simp
  | cons c cs ih => simp [ih]

theorem multiple_intoVec (es : List Err) (e : Err) (hm : Err.multiple es = .ok e) :
    e.intoVec = es.flatMap Err.intoVec := by
  match es, hm with
  | [x], hm => simp only [Err.multiple, Outcome.ok.injEq] at hm; subst hm; simp
  | x :: y :: r, hm =>
      simp only [Err.multiple, Outcome.ok.injEq] at hm; subst hm
      simp only [Err.intoVec, Err.intoVecP_multi, List.append_nil, Option.or_none, intoVecListP_flatMap]
      rfl

/-- **C14 (the error, leaf by leaf).**  When the conversion fails, the flattened error is the
    concatenation, in item order, of the flattened positional reports, and its number of leaves is
    the count of the text. -/
theorem error_leaves (k : KeyKind) (h : Hooks α) (items : List NestedMeta) (e : Err)
    (he : fromList k h items = .err e) :
    e.intoVec = (expected k h items).flatMap Err.intoVec ∧
    e.len = items.countP isLit + items.countP (badKey k) + repeats k items
              + (items.map (valueLeaves h)).sum := by
  rcases fromList_cases k h items with ⟨msg, _, hp⟩ | ⟨_, _, _, kvs, _, hok⟩ | ⟨_, _, _, e', he', hm⟩
  · rw [hp] at he; cases he
  · rw [hok] at he; cases he
  · rw [he'] at he; cases he
    exact ⟨multiple_intoVec _ _ hm, by rw [multiple_len _ _ hm, leaf_count]⟩

/-- **C14 (one leaf per mistake), under a side condition.**  The literal reading of the text: one leaf per
    literal item, per unconvertible key, per repeated occurrence and per unconvertible value.
    It needs the side condition that the element type answers each bad value of this list with a
    single leaf; for a nested map it fails (`nested_value_two_leaves` below). -/
theorem one_leaf_per_mistake_partial (k : KeyKind) (h : Hooks α) (items : List NestedMeta) (e : Err)
    (hl : LeafErrorsOn h items) (he : fromList k h items = .err e) :
    e.len = items.countP isLit + items.countP (badKey k) + repeats k items + items.countP (badValue h) := by
  rw [(error_leaves k h items e he).2, valueLeaves_of_leafErrors h items hl]

mutual
theorem intoVecP_locs (pre : List String) (sp : Option Span) (e : Err) :
    ∀ x ∈ Err.intoVecP pre sp e, ∃ r, x.locs = pre ++ r := by
  cases e with
  | leaf kd ls s =>
      intro x hx
      obtain ⟨s', hs⟩ := Err.inheritSpan_leaf kd (pre ++ ls) s sp
      simp only [Err.intoVecP_leaf, hs, List.mem_singleton] at hx
      subst hx; exact ⟨ls, rfl⟩
  | multi cs ls s =>
      intro x hx
      simp only [Err.intoVecP_multi] at hx
      obtain ⟨r, hr⟩ := intoVecListP_locs (pre ++ ls) (s.or sp) cs x hx
      exact ⟨ls ++ r, by rw [hr, List.append_assoc]⟩
theorem intoVecListP_locs (pre : List String) (sp : Option Span) (es : List Err) :
    ∀ x ∈ Err.intoVecListP pre sp es, ∃ r, x.locs = pre ++ r := by
  cases es with
  | nil => intro x hx; simp at hx
  | cons c cs =>
      intro x hx
      simp only [Err.intoVecListP_cons, List.mem_append] at hx
      rcases hx with hx | hx
      · exact intoVecP_locs pre sp c x hx
      · exact intoVecListP_locs pre sp cs x hx
end

/-- **C14 (located under its key).**  Every leaf of a value report carries the item's name as the
    first component of its location. -/
theorem value_leaves_located (h : Hooks α) (m : Meta) :
    ∀ r ∈ valueReport h m, ∀ x ∈ r.intoVec, ∃ rest, x.locs = m.path'.toStr :: rest := by
  intro r hr x hx
  simp only [valueReport] at hr
  cases hv : h.fromMeta m with
  | ok v => simp [hv] at hr
  | panic msg => simp [hv] at hr
  | err e =>
      simp only [hv, List.mem_singleton] at hr
      subst hr
      cases e with
      | leaf kd ls s =>
          simp only [Err.at, Err.intoVec, Err.intoVecP_leaf, Err.inheritSpan, List.nil_append,
            List.mem_singleton] at hx
          subst hx; exact ⟨ls, rfl⟩
      | multi cs ls s =>
          simp only [Err.at, Err.intoVec, Err.intoVecP_multi, List.nil_append] at hx
          obtain ⟨rest, hrest⟩ := intoVecListP_locs _ _ cs x hx
          exact ⟨ls ++ rest, by rw [hrest]; rfl⟩


/-! ## 8. the entry points: `from_meta` on a list item, and the type universe -/

/-- converting a well-formed list item `name(items…)` is `from_list` on its items, with the item's
    span attached to a span-less error -/
theorem map_fromMeta_list {β : Type} (k : KeyKind) (inj : List (String × α) → β) (h : Hooks α) (p : Path)
    (items : List NestedMeta) (ts : Option Span) (toks : String) (sp : Span) :
    (mapHooks k inj h).fromMeta (.list p items none ts toks sp)
      = ((fromList k h items).map inj).mapErr (·.withSpan sp) := rfl

/-- … so it succeeds exactly on acceptable lists, with the accepted map -/
theorem map_fromMeta_ok_iff {β : Type} (k : KeyKind) (inj : List (String × α) → β) (h : Hooks α) (p : Path)
    (items : List NestedMeta) (ts : Option Span) (toks : String) (sp : Span) (b : β) :
    (mapHooks k inj h).fromMeta (.list p items none ts toks sp) = .ok b
      ↔ ∃ kvs, Accepted k h items kvs ∧ b = inj kvs := by
  rw [map_fromMeta_list]
  constructor
  · intro hok
    cases hf : fromList k h items with
    | ok kvs =>
        simp only [hf, Outcome.map, Outcome.mapErr, Outcome.ok.injEq] at hok
        exact ⟨kvs, (fromList_ok_iff k h items kvs).1 hf, hok.symm⟩
    | err e => simp [hf, Outcome.map, Outcome.mapErr] at hok
    | panic msg => simp [hf, Outcome.map, Outcome.mapErr] at hok
  · rintro ⟨kvs, hacc, rfl⟩
    rw [(fromList_ok_iff k h items kvs).2 hacc]; rfl

/-- an element type whose own methods return never makes the conversion panic -/
theorem firstPanic_none_of_np (h : Hooks α) (np : h.NP) (items : List NestedMeta) :
    firstPanic h items = none := by
  unfold firstPanic
  rw [List.findSome?_eq_none_iff]
  intro it _
  cases it with
  | lit l => rfl
  | item m =>
      simp only [panicOf]
      cases hv : h.fromMeta m with
      | ok v => rfl
      | err e => rfl
      | panic msg => exact absurd hv (np.fromMeta m msg)

/-- hash and ordered maps with the same key and value types are one and the same conversion in
    the model (the `ordered` flag is not consulted); that the five `map!` instantiations of the
    source behave like it is what the differential harness establishes -/
theorem hash_ordered_same (o : Oracle) (r : String → Hooks Val) (k : KeyKind) (t : Ty) :
    hooksOf o r (.map k true t) = hooksOf o r (.map k false t) := by
  simp only [hooksOf]

/-- **C14 over the type universe** (every built-in value type, nested maps included; hash or
    ordered): no side condition is left — the conversion returns the accepted map if the list is
    acceptable, and otherwise the bundle of the positional reports. -/
theorem universe_spec (o : Oracle) (r : String → Hooks Val) (hr : ∀ n, (r n).NP) (k : KeyKind) (ord : Bool)
    (t : Ty) (items : List NestedMeta) :
    (Acceptable k (hooksOf o r t) items ∧ ∃ kvs, Accepted k (hooksOf o r t) items kvs ∧
        (hooksOf o r (.map k ord t)).fromList items = .ok (.map kvs)) ∨
    (¬ Acceptable k (hooksOf o r t) items ∧ ∃ e, (hooksOf o r (.map k ord t)).fromList items = .err e ∧
        Err.multiple (expected k (hooksOf o r t) items) = .ok e) := by
  have hfl : (hooksOf o r (.map k ord t)).fromList items = (fromList k (hooksOf o r t) items).map Val.map := by
    simp only [hooksOf, Hooks.fromList, mapHooks]
  have hnp := firstPanic_none_of_np _ (C07.hooksOf_np o r hr t) items
  rcases fromList_cases k (hooksOf o r t) items with ⟨msg, hp, _⟩ | ⟨_, hacc, _, kvs, hk, hok⟩ | ⟨_, hna, _, e, he, hm⟩
  · rw [hnp] at hp; cases hp
  · exact .inl ⟨hacc, kvs, hk, by rw [hfl, hok]; rfl⟩
  · exact .inr ⟨hna, e, by rw [hfl, he]; rfl, hm⟩


/-! ## 9. examples: non-vacuity of every hypothesis, and where text and behaviour part -/

namespace Ex
def sp0 : Span := ⟨0, 0⟩
/-- the name `s` -/
def name (s : String) : Path := { global := false, segs := [s], plain := true, toks := s, span := sp0 }
/-- the name `::s` -/
def gname (s : String) : Path := { global := true, segs := [s], plain := true, toks := ":: " ++ s, span := sp0 }
/-- the name `a::b` -/
def name2 (a b : String) : Path :=
  { global := false, segs := [a, b], plain := true, toks := a ++ " :: " ++ b, span := sp0 }
/-- `p = true` -/
def setTrue (p : Path) : NestedMeta := .item (.nameValue p (.lit ⟨.bool true, "true", sp0⟩) "" sp0)
/-- `p = "maybe"`: not a bool -/
def setBad (p : Path) : NestedMeta := .item (.nameValue p (.lit ⟨.str "maybe", "\"maybe\"", sp0⟩) "" sp0)
/-- `p(items…)` -/
def group (p : Path) (items : List NestedMeta) : NestedMeta := .item (.list p items none none "" sp0)
/-- the literal item `"x"` -/
def litItem : NestedMeta := .lit ⟨.str "x", "\"x\"", sp0⟩
/-- element type `bool` -/
def boolH : Hooks Val := Scalars.boolHooks Val.bool
/-- element type `HashMap<String, bool>` -/
def nestedH : Hooks Val := mapHooks .string Val.map boolH
/-- an element type that panics -/
def boomH : Hooks Val := { fromMeta? := some (fun _ => .panic "boom") }
def badBool : Err := .leaf (.unknownValue "maybe") [] (some sp0)
end Ex
open Ex

/-! ### accepted: `a = true, b = true` -/
example : fromList .string boolH [setTrue (name "a"), setTrue (name "b")]
    = .ok [("a", .bool true), ("b", .bool true)] := rfl
example : Accepted .string boolH [setTrue (name "a"), setTrue (name "b")] [("a", .bool true), ("b", .bool true)] :=
  (fromList_ok_iff _ _ _ _).1 rfl
example : Acceptable .string boolH [setTrue (name "a"), setTrue (name "b")] :=
  (fromList_succeeds_iff _ _ _).1 ⟨_, rfl⟩
example : Acceptable .ident boolH [] := acceptable_nil _ _
/-- the empty list converts to the empty map -/
example : fromList .path boolH [] = .ok [] := rfl

/-! ### each way of not being acceptable, and what is reported -/
/-- a literal item -/
example : ¬ Acceptable .string boolH [litItem] := fun hacc => by
  obtain ⟨m, hm⟩ := hacc.named litItem (List.mem_singleton.2 rfl); cases hm
example : fromList .string boolH [litItem] = .err (Err.unsupportedFormat "expression") := rfl
/-- a repeated key: one report per repeated occurrence (`a, a, a` gives two) -/
example : ¬ Acceptable .string boolH [setTrue (name "a"), setTrue (name "a")] := fun hacc => by
  have := hacc.distinct; revert this; decide
example : fromList .string boolH [setTrue (name "a"), setTrue (name "a"), setTrue (name "a")]
    = .err (.multi [dupReport .string "a" (name "a"), dupReport .string "a" (name "a")] [] none) := rfl
example : repeats .string [setTrue (name "a"), setTrue (name "a"), setTrue (name "a")] = 2 := rfl
/-- an unconvertible key (multi-segment name, Ident keys) together with a bad value: both reported -/
example : ¬ Acceptable .ident boolH [setBad (name2 "a" "b")] := fun hacc => by
  obtain ⟨key, hk⟩ := hacc.keys _ (List.mem_singleton.2 rfl); cases hk
example : fromList .ident boolH [setBad (name2 "a" "b")]
    = .err (.multi [.leaf (.custom "Key must be an identifier") [] (some sp0), badBool.at "a::b"] [] none) := rfl
/-- an unconvertible value, located under its key -/
example : fromList .string boolH [setTrue (name "a"), setBad (name "b")] = .err (badBool.at "b") := rfl
example : (badBool.at "b").locs = ["b"] := rfl

/-! ### hypotheses of the main theorems are satisfiable (and so are their negations) -/
/-- `fromList_panic`: a first panic exists … -/
example : firstPanic boomH [setTrue (name "a")] = some "boom" := rfl
example : fromList .string boomH [setTrue (name "a")] = .panic "boom" := rfl
/-- … `fromList_reports`: no panic, something to report -/
example : firstPanic boolH [setBad (name "a")] = none ∧ expected .string boolH [setBad (name "a")] ≠ [] :=
  ⟨rfl, by decide⟩
/-- `firstPanic_none_of_np`, `universe_spec`: the side conditions hold for the built-in types -/
example : boolH.NP := C07.bool_np _
example : ∀ n : String, ((fun _ => {}) n : Hooks Val).NP := fun _ => C07.empty_np
/-- `error_leaves`: a failing run -/
example : ∃ e, fromList .string boolH [setBad (name "a"), litItem] = .err e := ⟨_, rfl⟩
/-- `one_leaf_per_mistake_partial`: `bool` answers with single leaves on a list with a bad value -/
example : LeafErrorsOn boolH [setBad (name "a"), litItem] ∧
    ([setBad (name "a"), litItem] : List NestedMeta).countP (badValue boolH) = 1 := by
  refine ⟨?_, rfl⟩
  intro m e hm hv
  simp only [List.mem_cons, List.mem_nil_iff, or_false, litItem, setBad, NestedMeta.item.injEq, reduceCtorEq] at hm
  subst hm
  have : boolH.fromMeta (.nameValue (name "a") (.lit ⟨.str "maybe", "\"maybe\"", sp0⟩) "" sp0) = .err badBool := rfl
  rw [this] at hv; cases hv; rfl

/-! ### where the literal text and the behaviour part (reproduced on the real library) -/

/-- **one unconvertible value, two leaves.**  `a(x = "maybe", y = "maybe")` into a map of maps: the
    list has no literal item, no unconvertible key, no repeat and exactly one unconvertible value
    (that of `a`), yet the error has two leaves — one per mistake *inside* the nested map, both
    located under `a`.  The text's "one leaf per unconvertible value" holds only for element
    types that answer with a single leaf (`one_leaf_per_mistake_partial`). -/
theorem nested_value_two_leaves :
    let items := [group (name "a") [setBad (name "x"), setBad (name "y")]]
    (∃ e, fromList .string nestedH items = .err e ∧ e.len = 2
        ∧ e.intoVec.map Err.locs = [["a", "x"], ["a", "y"]])
    ∧ items.countP isLit = 0 ∧ items.countP (badKey .string) = 0 ∧ repeats .string items = 0
    ∧ items.countP (badValue nestedH) = 1
    ∧ ¬ LeafErrorsOn nestedH items := by
  refine ⟨⟨_, rfl, rfl, rfl⟩, rfl, rfl, rfl, rfl, ?_⟩
  intro hl
  have := hl _ _ (List.mem_singleton.2 rfl)
    (show nestedH.fromMeta _ = .err (.multi [badBool.at "x", badBool.at "y"] [] (some sp0)) from rfl)
  revert this; decide

/-- **"distinct after key conversion" depends on the key type.**  `::a = true, a = true` is a
    repeat for String keys (the leading `::` is not part of the key), two distinct keys for Path
    keys, and an unconvertible key for Ident keys; for Path keys the two *distinct* keys are shown
    and located by the *same* string `a`. -/
theorem leading_colon_keys :
    fromList .string boolH [setTrue (gname "a"), setTrue (name "a")] = .err (dupReport .string "a" (name "a"))
    ∧ fromList .path boolH [setTrue (gname "a"), setTrue (name "a")]
        = .ok [(":: a", .bool true), ("a", .bool true)]
    ∧ fromList .ident boolH [setTrue (gname "a"), setTrue (name "a")]
        = .err (.leaf (.custom "Key must be an identifier") [] (some sp0))
    ∧ fromList .path boolH [setBad (gname "a"), setBad (name "a")]
        = .err (.multi [badBool.at "a", badBool.at "a"] [] none) := ⟨rfl, rfl, rfl, rfl⟩


/-! ## 10. cross-check with the positional specification of `Darling/Spec/C14.lean` -/

/-- the reports of this file are the `mistakes` of the existing specification (for an element
    type that returns); both are what the loop accumulates -/
theorem expected_eq_mistakes (k : KeyKind) (h : Hooks α) (hnp : NoPanic h) (items : List NestedMeta) :
    Spec.C14.mistakes (keyOf k) (C14.dupErr k) (conv h) [] items = expected k h items := by
  have hp : firstPanic h items = none := by
    unfold firstPanic
    rw [List.findSome?_eq_none_iff]
    intro it _
    cases it with
    | lit l => rfl
    | item m =>
        simp only [panicOf]
        cases hv : h.fromMeta m with
        | ok v => rfl
        | err e => rfl
        | panic msg => exact absurd hv (hnp m msg)
  obtain ⟨s, hl, he, _, _⟩ := (loop_run k h items).2 hp
  obtain ⟨s', hl', he', _⟩ := loop_spec k h hnp items [] {} (by intro x; simp [Spec.C14.repeated])
  rw [hl] at hl'
  cases hl'
  rw [← he, he']; rfl


end C14
