import Darling.Accum
import Darling.Spec.C05
/-
  C05 — Accumulator: Ok iff nothing was recorded; nothing recorded is ever lost.
  All theorems are for every finite history (any length, any mix of operations).
-/
open Spec.C05 Accum

namespace C05

/-- which errors an operation records -/
def records : AOp → List Err
  | .push e => [e]
  | .handleErr e => [e]
  | .handleInErr e => [e]
  | .extend es => es
  | _ => []

/-- what the caller sees from a borrowing operation (independent of the accumulator's content) -/
def opOut : AOp → AOut
  | .push _ => .unit
  | .handleOk v => .some v
  | .handleErr _ => .none
  | .handleInOk v => .some v
  | .handleInErr _ => .none
  | .extend _ => .unit
  | .checkpoint => .fresh

def isCheckpoint : AOp → Bool
  | .checkpoint => true
  | _ => false

abbrev recorded := recordedBy records

@[simp] theorem recorded_nil : recorded [] = [] := rfl
@[simp] theorem recorded_cons (op ops) : recorded (op :: ops) = records op ++ recorded ops := by
  simp [recorded, recordedBy]

/-! ### `handle` returns the value exactly when given Ok, and records exactly the error otherwise -/

theorem handle_ok (errs v) : Accum.handle errs (.ok v) = (errs, .some v) := rfl
theorem handle_err (errs e) : Accum.handle errs (.error e) = (errs ++ [e], .none) := rfl
theorem handle_some_iff (errs) (r : Except Err Nat) (v : Nat) :
    (Accum.handle errs r).2 = .some v ↔ r = .ok v := by
  cases r <;> simp [Accum.handle]

/-! ### finishing -/

theorem finishWith_nil (out) : finishWith [] out = out := rfl

/-- a non-empty accumulator finishes with an error that bundles exactly its content, in order;
    in particular `Error::multiple` is never reached with an empty vector (no panic) -/
theorem finishWith_bundles (errs : List Err) (h : errs ≠ []) (out) :
    ∃ e, finishWith errs out = .err e ∧ Bundles e errs := by
  match errs, h with
  | [x], _ => exact ⟨x, rfl, by simp [Bundles]⟩
  | x :: y :: r, _ =>
      refine ⟨.multi (x :: y :: r) [] none, rfl, ?_⟩
      simp [Bundles]

theorem finishWith_ok_iff (errs : List Err) (v : Nat) : finishWith errs (.ok v) = .ok v ↔ errs = [] := by
  constructor
  · intro h
    cases errs with
    | nil => rfl
    | cons x xs =>
        obtain ⟨e, he, _⟩ := finishWith_bundles (x :: xs) (by simp) (.ok v)
        rw [he] at h; cases h
  · intro h; subst h; rfl

theorem finish_okUnit_iff (errs : List Err) : finishWith errs .okUnit = .okUnit ↔ errs = [] := by
  constructor
  · intro h
    cases errs with
    | nil => rfl
    | cons x xs =>
        obtain ⟨e, he, _⟩ := finishWith_bundles (x :: xs) (by simp) .okUnit
        rw [he] at h; cases h
  · intro h; subst h; rfl

/-! ### segments without a checkpoint -/

/-- a history without checkpoints: every borrowing operation answers independently of what was
    recorded, and the end sees exactly everything recorded, in recording order -/
theorem run_segment (errs : List Err) (ops : List AOp) (e : AEnd)
    (h : ∀ op ∈ ops, isCheckpoint op = false) :
    run errs ops e = ops.map opOut ++ [finishOp (errs ++ recorded ops) e] := by
  induction ops generalizing errs with
  | nil => simp [run]
  | cons op ops ih =>
      have hrest : ∀ o ∈ ops, isCheckpoint o = false := fun o ho => h o (by simp [ho])
      have hop := h op (by simp)
      cases op with
      | checkpoint => simp [isCheckpoint] at hop
      | push x => simp [run, ih _ hrest, opOut, records, List.append_assoc]
      | handleOk v => simp [run, ih _ hrest, opOut, records]
      | handleErr x => simp [run, ih _ hrest, opOut, records, List.append_assoc]
      | handleInOk v => simp [run, ih _ hrest, opOut, records]
      | handleInErr x => simp [run, ih _ hrest, opOut, records, List.append_assoc]
      | extend xs => simp [run, ih _ hrest, opOut, records, List.append_assoc]

/-- `checkpoint`: either fails with everything recorded so far (and that ends the history), or
    hands back a fresh armed accumulator (the rest runs from empty) -/
theorem run_checkpoint (errs : List Err) (pre post : List AOp) (e : AEnd)
    (h : ∀ op ∈ pre, isCheckpoint op = false) :
    run errs (pre ++ .checkpoint :: post) e =
      if errs ++ recorded pre = [] then pre.map opOut ++ .fresh :: run [] post e
      else pre.map opOut ++ [finishWith (errs ++ recorded pre) .okUnit] := by
  induction pre generalizing errs with
  | nil =>
      simp only [List.nil_append, recorded_nil, List.append_nil, List.map_nil, run]
      cases errs with
      | nil => simp [finishWith]
      | cons x xs =>
          obtain ⟨b, hb, _⟩ := finishWith_bundles (x :: xs) (by simp) .okUnit
          simp [hb]
  | cons op ops ih =>
      have hrest : ∀ o ∈ ops, isCheckpoint o = false := fun o ho => h o (by simp [ho])
      have hop := h op (by simp)
      cases op with
      | checkpoint => simp [isCheckpoint] at hop
      | push x => simp [run, ih _ hrest, opOut, records, List.append_assoc]
      | handleOk v => simp [run, ih _ hrest, opOut, records]; split <;> simp
      | handleErr x => simp [run, ih _ hrest, opOut, records, List.append_assoc]
      | handleInOk v => simp [run, ih _ hrest, opOut, records]; split <;> simp
      | handleInErr x => simp [run, ih _ hrest, opOut, records, List.append_assoc]
      | extend xs => simp [run, ih _ hrest, opOut, records, List.append_assoc]; split <;> simp

/-! ### the headline: Ok iff nothing was ever recorded, over whole histories (checkpoints included) -/

theorem run_ne_nil (errs ops e) : run errs ops e ≠ [] := by
  cases ops with
  | nil => simp [run]
  | cons op ops =>
      cases op <;> simp [run]
      split <;> simp

theorem getLast_cons_run (x : AOut) (errs ops e) :
    (x :: run errs ops e).getLast? = (run errs ops e).getLast? := by
  have := run_ne_nil errs ops e
  cases h : run errs ops e with
  | nil => exact absurd h this
  | cons y ys => simp [List.getLast?_cons_cons]

/-- finishing a history with `finish_with(v)` yields `Ok(v)` if and only if no error was ever
    pushed, handled or extended into the accumulator -/
theorem finish_with_ok_iff (errs : List Err) (ops : List AOp) (v : Nat) :
    (run errs ops (.finishWith v)).getLast? = some (.ok v) ↔ errs ++ recorded ops = [] := by
  induction ops generalizing errs with
  | nil => simp [run, finishOp, finishWith_ok_iff]
  | cons op ops ih =>
      cases op with
      | push x => simp [run, getLast_cons_run, ih, records]
      | handleOk w => simp [run, getLast_cons_run, ih, records]
      | handleErr x => simp [run, getLast_cons_run, ih, records]
      | handleInOk w => simp [run, getLast_cons_run, ih, records]
      | handleInErr x => simp [run, getLast_cons_run, ih, records]
      | extend xs => simp [run, getLast_cons_run, ih, records, List.append_assoc]
      | checkpoint =>
          cases errs with
          | nil => simp [run, finishWith, getLast_cons_run, ih, records]
          | cons x xs =>
              obtain ⟨b, hb, _⟩ := finishWith_bundles (x :: xs) (by simp) .okUnit
              simp [run, hb]

theorem finish_with_ok_iff' (ops : List AOp) (v : Nat) :
    (run [] ops (.finishWith v)).getLast? = some (.ok v) ↔ recorded ops = [] := by
  simpa using finish_with_ok_iff [] ops v

/-- the trace of any history ending in `finish`/`finish_with` never contains a panic:
    `Error::multiple` is only ever called on a non-empty vector -/
theorem no_panic_when_finished (errs : List Err) (ops : List AOp) (e : AEnd)
    (he : e = .finish ∨ (∃ v, e = .finishWith v) ∨ e = .intoInner) :
    ∀ o ∈ run errs ops e, ∀ m, o ≠ .panic m := by
  induction ops generalizing errs with
  | nil =>
      intro o ho m
      simp [run] at ho; subst ho
      rcases he with h | ⟨v, h⟩ | h <;> subst h
      · cases errs with
        | nil => simp [finishOp, finishWith]
        | cons x xs => obtain ⟨b, hb, _⟩ := finishWith_bundles (x :: xs) (by simp) .okUnit; simp [finishOp, hb]
      · cases errs with
        | nil => simp [finishOp, finishWith]
        | cons x xs => obtain ⟨b, hb, _⟩ := finishWith_bundles (x :: xs) (by simp) (.ok v); simp [finishOp, hb]
      · simp [finishOp]
  | cons op ops ih =>
      intro o ho m
      cases op with
      | checkpoint =>
          cases errs with
          | nil =>
              simp [run, finishWith] at ho
              rcases ho with h | h
              · subst h; simp
              · exact ih [] o h m
          | cons x xs =>
              obtain ⟨b, hb, _⟩ := finishWith_bundles (x :: xs) (by simp) .okUnit
              simp [run, hb] at ho; subst ho; simp
      | push x => simp [run] at ho; rcases ho with h | h; (subst h; simp); exact ih _ o h m
      | handleOk w => simp [run] at ho; rcases ho with h | h; (subst h; simp); exact ih _ o h m
      | handleErr x => simp [run] at ho; rcases ho with h | h; (subst h; simp); exact ih _ o h m
      | handleInOk w => simp [run] at ho; rcases ho with h | h; (subst h; simp); exact ih _ o h m
      | handleInErr x => simp [run] at ho; rcases ho with h | h; (subst h; simp); exact ih _ o h m
      | extend xs => simp [run] at ho; rcases ho with h | h; (subst h; simp); exact ih _ o h m

/-! ### `into_inner` and the drop bomb -/

theorem intoInner_returns_recorded (ops : List AOp) (h : ∀ op ∈ ops, isCheckpoint op = false) :
    (run [] ops .intoInner).getLast? = some (.errs (recorded ops)) := by
  rw [run_segment [] ops _ h]; simp [finishOp]

/-- an armed accumulator that goes out of scope panics unless the thread is already unwinding —
    even when empty — and the message states the number of lost errors when there are any -/
theorem drop_panics (errs : List Err) :
    ∃ m, dropOut (some errs) false = .panic m
      ∧ (errs = [] → m = "darling::error::Accumulator dropped without being finished")
      ∧ (errs ≠ [] → m = "darling::error::Accumulator dropped without being finished. "
            ++ toString errs.length ++ " errors were lost.") := by
  cases errs with
  | nil => exact ⟨_, rfl, fun _ => rfl, fun h => absurd rfl h⟩
  | cons x xs => exact ⟨_, rfl, fun h => by simp at h, fun _ => rfl⟩

theorem drop_unwinding_quiet (st : Option (List Err)) : dropOut st true = .quiet := rfl
theorem drop_defused_quiet (u : Bool) : dropOut none u = .quiet := by cases u <;> rfl

/-! ### non-vacuity -/
def e1 : Err := .leaf (.custom "a") [] none
def e2 : Err := .leaf (.missingField "b") [] none

example : run [] [.push e1, .handleOk 3, .handleErr e2] (.finishWith 7)
    = [.unit, .some 3, .none, .err (.multi [e1, e2] [] none)] := by
  simp [run, finishOp, finishWith, Err.multiple]
example : run [] [.handleOk 3, .checkpoint, .extend []] (.finishWith 7) = [.some 3, .fresh, .unit, .ok 7] := by
  simp [run, finishOp, finishWith]
example : run [] [.push e1, .checkpoint, .handleOk 1] .finish = [.unit, .err e1] := by
  simp [run, finishWith, Err.multiple]

end C05
