import Darling.Usage
/-
  C19 — an independent, positional specification of the usage analysis, written from the
  property text, and the end-to-end theorems `model = specification`.

  The specification never folds over the syntax.  It consists of three small tables

  * `Child`  — which immediate components of a piece of syntax the text tells the analysis to
               look *through* (references, pointers, slices, arrays, tuples, function and
               trait-object types, generic arguments; a qualified self only for declaration
               purposes),
  * `Leads`  — where a name stands as the *unqualified leading segment* of a path,
  * `LtAt`   — where a lifetime is written as a use (reference lifetime, lifetime argument,
               lifetime bound, bound of a `for<..>` binder entry),

  and of one definition: a name is used by a type iff some node *reachable* through `Child`
  edges carries it (`Reach` is the reflexive-transitive closure of `Child`).
-/
open Usage

namespace C19

/-! ## 1. Syntax as a graph -/

/-- the syntactic categories of the mirror of `syn::Type` -/
inductive Node where
  | ty (t : SType)
  | path (p : SPath)
  | args (a : SArgs)
  | garg (g : SGArg)
  | bound (b : SBound)

/-- `Child declare n m`: `m` is an immediate component of `n` that the analysis must look
    through.  One rule per phrase of the property text. -/
inductive Child (declare : Bool) : Node → Node → Prop
  /- a path type: its path … -/
  | typePath {q p} : Child declare (.ty (.path q p)) (.path p)
  /- … and "inside a qualified-self only when asked for declaration purposes" -/
  | qself {q p} : declare = true → Child declare (.ty (.path (some q) p)) (.ty q)
  /- "through references, pointers, slices, arrays, tuples" -/
  | ref {lt e} : Child declare (.ty (.ref lt e)) (.ty e)
  | ptr {e} : Child declare (.ty (.ptr e)) (.ty e)
  | slice {e} : Child declare (.ty (.slice e)) (.ty e)
  | array {e} : Child declare (.ty (.array e)) (.ty e)
  | tupleElem {es t} : t ∈ es → Child declare (.ty (.tuple es)) (.ty t)
  /- parentheses and invisible groups are transparent -/
  | paren {e} : Child declare (.ty (.paren e)) (.ty e)
  | group {e} : Child declare (.ty (.group e)) (.ty e)
  /- "function … types": every input and the output -/
  | fnInput {ins out t} : t ∈ ins → Child declare (.ty (.bareFn ins out)) (.ty t)
  | fnOutput {ins o} : Child declare (.ty (.bareFn ins (some o))) (.ty o)
  /- "… and trait-object types" (and `impl Trait`): every bound, a trait bound's path -/
  | objBound {bs b} : b ∈ bs → Child declare (.ty (.traitObject bs)) (.bound b)
  | implBound {bs b} : b ∈ bs → Child declare (.ty (.implTrait bs)) (.bound b)
  | boundPath {binder p} : Child declare (.bound (.trait binder p)) (.path p)
  /- "inside generic arguments": the arguments of *every* segment of a path -/
  | segArgs {g segs i a} : SSeg.mk i a ∈ segs → Child declare (.path (.mk g segs)) (.args a)
  | angleArg {as a} : a ∈ as → Child declare (.args (.angle as)) (.garg a)
  | parenInput {ins out t} : t ∈ ins → Child declare (.args (.paren ins out)) (.ty t)
  | parenOutput {ins o} : Child declare (.args (.paren ins (some o))) (.ty o)
  | argTy {t} : Child declare (.garg (.ty t)) (.ty t)
  | argAssoc {t} : Child declare (.garg (.assocTy t)) (.ty t)
  | argConstraint {bs b} : b ∈ bs → Child declare (.garg (.constraint bs)) (.bound b)
  /- no rule for: macro bodies / verbatim / `_` / `!` (`opaque`), const-expression arguments
     (`SGArg.other`), array lengths (not even represented): the text's non-use positions -/

/-- reflexive-transitive closure of `Child` -/
inductive Reach (declare : Bool) : Node → Node → Prop
  | here {n} : Reach declare n n
  | step {n m k} : Child declare n m → Reach declare m k → Reach declare n k

/-- "as an unqualified leading path segment": the path is not global and the name is its
    first segment.  Later segments ("path tails") and global paths carry no name. -/
def Leads : Node → String → Prop
  | .path (.mk false (.mk i _ :: _)), x => x = i
  | _, _ => False

/-- where a lifetime is written as a *use*: on a reference, as a generic argument, as a
    lifetime bound, as a bound of an entry of a `for<..>` binder -/
def LtAt : Node → String → Prop
  | .ty (.ref (some l) _), x => x = l
  | .garg (.lifetime l), x => x = l
  | .bound (.lifetime l), x => x = l
  | .bound (.trait binder _), x => ∃ e, e ∈ binder ∧ x ∈ e.2
  | _, _ => False

/-- where a `for<..>` binder *declares* a lifetime (not a use of any parameter) -/
def BinderDecl : Node → String → Prop
  | .bound (.trait binder _), x => ∃ e, e ∈ binder ∧ x = e.1
  | _, _ => False

/-! ## 2. The specification -/

/-- the name `x` is written at a place of `t` where a type parameter can be meant -/
def UsesLit (declare : Bool) (t : SType) (x : String) : Prop :=
  ∃ m, Reach declare (.ty t) m ∧ Leads m x

/- Rust identifies a raw identifier with the plain one: `r#T` *is* `T` (`Usage.unraw`,
   the mirror of `Ident::unraw`, strips the prefix). -/

/-- the written name `i` denotes the parameter `p` -/
def Denotes (i p : String) : Prop := unraw i = unraw p

instance (i p : String) : Decidable (Denotes i p) := inferInstanceAs (Decidable (unraw i = unraw p))

/-- **what the answer must be (type parameters)**: `p` occurs in `t` where it denotes the
    parameter -/
def Uses (declare : Bool) (t : SType) (p : String) : Prop :=
  ∃ i, UsesLit declare t i ∧ Denotes i p

/-- the lifetime `l` is written as a use somewhere in `t` -/
def LtUsed (declare : Bool) (t : SType) (l : String) : Prop :=
  ∃ m, Reach declare (.ty t) m ∧ LtAt m l

/-- some `for<..>` binder inside `t` declares a lifetime called `x` -/
def Rebinds (declare : Bool) (t : SType) (x : String) : Prop :=
  ∃ m, Reach declare (.ty t) m ∧ BinderDecl m x

/-! ## 3. The engine: a one-step characterisation determines the whole answer -/

theorem child_size {d : Bool} {n m : Node} (h : Child d n m) : sizeOf m < sizeOf n := by
  cases h with
  | tupleElem hm | fnInput hm | objBound hm | implBound hm | segArgs hm | angleArg hm
  | parenInput hm | argConstraint hm =>
      have := List.sizeOf_lt_of_mem hm
      simp at this ⊢; omega
  | _ => simp <;> omega

section engine
variable {d : Bool} (f : Node → List String) (Q : Node → String → Prop)
  (step : ∀ n p, p ∈ f n ↔ Q n p ∨ ∃ m, Child d n m ∧ p ∈ f m)
include step

theorem engine_mp : ∀ (n : Node) (p : String), p ∈ f n → ∃ m, Reach d n m ∧ Q m p
  | n, p, h => by
      rcases (step n p).mp h with hq | ⟨m, hc, hm⟩
      · exact ⟨n, .here, hq⟩
      · have _ := child_size hc
        obtain ⟨k, hr, hk⟩ := engine_mp m p hm
        exact ⟨k, .step hc hr, hk⟩
termination_by n => sizeOf n

theorem engine_mpr {n m : Node} {p : String} (hr : Reach d n m) (hq : Q m p) : p ∈ f n := by
  induction hr with
  | here => exact (step _ _).mpr (.inl hq)
  | step hc _ ih => exact (step _ _).mpr (.inr ⟨_, hc, ih hq⟩)

theorem engine (n : Node) (p : String) : p ∈ f n ↔ ∃ m, Reach d n m ∧ Q m p :=
  ⟨engine_mp f Q step n p, fun ⟨_, hr, hq⟩ => engine_mpr f Q step hr hq⟩
end engine

/-! ## 4. Inversion of the `Child` table (one lemma per syntactic form) -/

section inversion
variable {d : Bool} {m : Node}

theorem child_path {q p} : Child d (.ty (.path q p)) m ↔
    m = .path p ∨ (d = true ∧ ∃ q', q = some q' ∧ m = .ty q') := by
  constructor
  · intro h; cases h with
    | typePath => exact .inl rfl
    | qself hd => exact .inr ⟨hd, _, rfl, rfl⟩
  · rintro (rfl | ⟨hd, q', rfl, rfl⟩)
    · exact .typePath
    · exact .qself hd
theorem child_ref {lt e} : Child d (.ty (.ref lt e)) m ↔ m = .ty e :=
  ⟨fun h => by cases h; rfl, fun h => h ▸ .ref⟩
theorem child_ptr {e} : Child d (.ty (.ptr e)) m ↔ m = .ty e :=
  ⟨fun h => by cases h; rfl, fun h => h ▸ .ptr⟩
theorem child_slice {e} : Child d (.ty (.slice e)) m ↔ m = .ty e :=
  ⟨fun h => by cases h; rfl, fun h => h ▸ .slice⟩
theorem child_array {e} : Child d (.ty (.array e)) m ↔ m = .ty e :=
  ⟨fun h => by cases h; rfl, fun h => h ▸ .array⟩
theorem child_paren {e} : Child d (.ty (.paren e)) m ↔ m = .ty e :=
  ⟨fun h => by cases h; rfl, fun h => h ▸ .paren⟩
theorem child_group {e} : Child d (.ty (.group e)) m ↔ m = .ty e :=
  ⟨fun h => by cases h; rfl, fun h => h ▸ .group⟩
theorem child_tuple {es} : Child d (.ty (.tuple es)) m ↔ ∃ t, t ∈ es ∧ m = .ty t :=
  ⟨fun h => by cases h with | tupleElem hm => exact ⟨_, hm, rfl⟩,
   fun ⟨_, hm, h⟩ => h ▸ .tupleElem hm⟩
theorem child_bareFn {ins out} : Child d (.ty (.bareFn ins out)) m ↔
    (∃ t, t ∈ ins ∧ m = .ty t) ∨ ∃ o, out = some o ∧ m = .ty o := by
  constructor
  · intro h; cases h with
    | fnInput hm => exact .inl ⟨_, hm, rfl⟩
    | fnOutput => exact .inr ⟨_, rfl, rfl⟩
  · rintro (⟨t, hm, rfl⟩ | ⟨o, rfl, rfl⟩)
    · exact .fnInput hm
    · exact .fnOutput
theorem child_traitObject {bs} : Child d (.ty (.traitObject bs)) m ↔ ∃ b, b ∈ bs ∧ m = .bound b :=
  ⟨fun h => by cases h with | objBound hm => exact ⟨_, hm, rfl⟩,
   fun ⟨_, hm, h⟩ => h ▸ .objBound hm⟩
theorem child_implTrait {bs} : Child d (.ty (.implTrait bs)) m ↔ ∃ b, b ∈ bs ∧ m = .bound b :=
  ⟨fun h => by cases h with | implBound hm => exact ⟨_, hm, rfl⟩,
   fun ⟨_, hm, h⟩ => h ▸ .implBound hm⟩
theorem child_opaque : ¬ Child d (.ty .opaque) m := fun h => by cases h
theorem child_boundTrait {binder p} : Child d (.bound (.trait binder p)) m ↔ m = .path p :=
  ⟨fun h => by cases h; rfl, fun h => h ▸ .boundPath⟩
theorem child_boundLifetime {l} : ¬ Child d (.bound (.lifetime l)) m := fun h => by cases h
theorem child_pathNode {g segs} : Child d (.path (.mk g segs)) m ↔
    ∃ i a, SSeg.mk i a ∈ segs ∧ m = .args a :=
  ⟨fun h => by cases h with | segArgs hm => exact ⟨_, _, hm, rfl⟩,
   fun ⟨_, _, hm, h⟩ => h ▸ .segArgs hm⟩
theorem child_argsNone : ¬ Child d (.args .none) m := fun h => by cases h
theorem child_argsAngle {as} : Child d (.args (.angle as)) m ↔ ∃ a, a ∈ as ∧ m = .garg a :=
  ⟨fun h => by cases h with | angleArg hm => exact ⟨_, hm, rfl⟩,
   fun ⟨_, hm, h⟩ => h ▸ .angleArg hm⟩
theorem child_argsParen {ins out} : Child d (.args (.paren ins out)) m ↔
    (∃ t, t ∈ ins ∧ m = .ty t) ∨ ∃ o, out = some o ∧ m = .ty o := by
  constructor
  · intro h; cases h with
    | parenInput hm => exact .inl ⟨_, hm, rfl⟩
    | parenOutput => exact .inr ⟨_, rfl, rfl⟩
  · rintro (⟨t, hm, rfl⟩ | ⟨o, rfl, rfl⟩)
    · exact .parenInput hm
    · exact .parenOutput
theorem child_gargTy {t} : Child d (.garg (.ty t)) m ↔ m = .ty t :=
  ⟨fun h => by cases h; rfl, fun h => h ▸ .argTy⟩
theorem child_gargAssoc {t} : Child d (.garg (.assocTy t)) m ↔ m = .ty t :=
  ⟨fun h => by cases h; rfl, fun h => h ▸ .argAssoc⟩
theorem child_gargConstraint {bs} : Child d (.garg (.constraint bs)) m ↔ ∃ b, b ∈ bs ∧ m = .bound b :=
  ⟨fun h => by cases h with | argConstraint hm => exact ⟨_, hm, rfl⟩,
   fun ⟨_, hm, h⟩ => h ▸ .argConstraint hm⟩
theorem child_gargLifetime {l} : ¬ Child d (.garg (.lifetime l)) m := fun h => by cases h
theorem child_gargOther : ¬ Child d (.garg .other) m := fun h => by cases h

end inversion

/-! ## 5. Type parameters: the model satisfies the one-step characterisation -/

/-- the model's answer at a node (used in statements only; the specification never calls it) -/
def paramsAt (d : Bool) (S : List String) : Node → List String
  | .ty t => tyParams d S t
  | .path p => pathParams d S p
  | .args a => argsParams d S a
  | .garg g => gargParams d S g
  | .bound b => boundParams d S b

section
variable (d : Bool) (S : List String)
theorem paramsAt_ty (t) : paramsAt d S (.ty t) = tyParams d S t := rfl
theorem paramsAt_path (p) : paramsAt d S (.path p) = pathParams d S p := rfl
theorem paramsAt_args (a) : paramsAt d S (.args a) = argsParams d S a := rfl
theorem paramsAt_garg (g) : paramsAt d S (.garg g) = gargParams d S g := rfl
theorem paramsAt_bound (b) : paramsAt d S (.bound b) = boundParams d S b := rfl
end

theorem identHits_mem {S : List String} {i p : String} :
    p ∈ identHits S i ↔ p ∈ S ∧ Denotes i p := by
  simp only [identHits, List.mem_filter, beq_iff_eq, Denotes]
  exact ⟨fun ⟨h1, h2⟩ => ⟨h1, h2.symm⟩, fun ⟨h1, h2⟩ => ⟨h1, h2.symm⟩⟩

/-- "the answer for a collection is the union of its members' answers" — lists of types -/
theorem mem_tysParams (d : Bool) (S : List String) (p : String) : ∀ ts : List SType,
    p ∈ tysParams d S ts ↔ ∃ t, t ∈ ts ∧ p ∈ tyParams d S t
  | [] => by simp [tysParams]
  | t :: ts => by simp [tysParams, List.mem_append, mem_tysParams d S p ts]

/-- … optional members -/
theorem mem_optTyParams (d : Bool) (S : List String) (p : String) (o : Option SType) :
    p ∈ optTyParams d S o ↔ ∃ t, o = some t ∧ p ∈ tyParams d S t := by
  cases o <;> simp [optTyParams]

theorem mem_segsParams (d : Bool) (S : List String) (p : String) : ∀ ss : List SSeg,
    p ∈ segsParams d S ss ↔ ∃ i a, SSeg.mk i a ∈ ss ∧ p ∈ argsParams d S a
  | [] => by simp [segsParams]
  | .mk i a :: rest => by
      simp only [segsParams, List.mem_append, mem_segsParams d S p rest, List.mem_cons]
      constructor
      · rintro (h | ⟨i', a', hm, h⟩)
        · exact ⟨i, a, .inl rfl, h⟩
        · exact ⟨i', a', .inr hm, h⟩
      · rintro ⟨i', a', hm | hm, h⟩
        · cases hm; exact .inl h
        · exact .inr ⟨i', a', hm, h⟩

theorem mem_gargsParams (d : Bool) (S : List String) (p : String) : ∀ as : List SGArg,
    p ∈ gargsParams d S as ↔ ∃ a, a ∈ as ∧ p ∈ gargParams d S a
  | [] => by simp [gargsParams]
  | a :: as => by simp [gargsParams, List.mem_append, mem_gargsParams d S p as]

theorem mem_boundsParams (d : Bool) (S : List String) (p : String) : ∀ bs : List SBound,
    p ∈ boundsParams d S bs ↔ ∃ b, b ∈ bs ∧ p ∈ boundParams d S b
  | [] => by simp [boundsParams]
  | b :: bs => by simp [boundsParams, List.mem_append, mem_boundsParams d S p bs]

theorem exists_image {α : Type} {A : α → Prop} {g : α → Node} {P : Node → Prop} :
    (∃ m, (∃ t, A t ∧ m = g t) ∧ P m) ↔ ∃ t, A t ∧ P (g t) :=
  ⟨fun ⟨_, ⟨t, ha, hm⟩, hp⟩ => ⟨t, ha, hm ▸ hp⟩, fun ⟨t, ha, hp⟩ => ⟨_, ⟨t, ha, rfl⟩, hp⟩⟩

theorem exists_image₂ {α β : Type} {A : α → β → Prop} {g : β → Node} {P : Node → Prop} :
    (∃ m, (∃ i a, A i a ∧ m = g a) ∧ P m) ↔ ∃ i a, A i a ∧ P (g a) :=
  ⟨fun ⟨_, ⟨i, a, ha, hm⟩, hp⟩ => ⟨i, a, ha, hm ▸ hp⟩, fun ⟨i, a, ha, hp⟩ => ⟨_, ⟨i, a, ha, rfl⟩, hp⟩⟩

attribute [local simp] paramsAt_ty paramsAt_path paramsAt_args paramsAt_garg paramsAt_bound
  exists_image exists_image₂

/-- the name written as the leading segment of the path node `n` denotes `p` -/
def LeadsAs (n : Node) (p : String) : Prop := ∃ i, Leads n i ∧ Denotes i p

/-- the model, one step at a time: a name is in the answer at `n` iff it is a queried name
    denoted by the leading segment of the path `n`, or it is in the answer at a `Child` of `n` -/
theorem params_step (d : Bool) (S : List String) (n : Node) (p : String) :
    p ∈ paramsAt d S n ↔ (p ∈ S ∧ LeadsAs n p) ∨ ∃ m, Child d n m ∧ p ∈ paramsAt d S m := by
  unfold LeadsAs
  cases n with
  | ty t =>
      cases t with
      | path q pa =>
          simp only [paramsAt_ty, tyParams, Leads, child_path, List.mem_append]
          cases d
          · simp
          · simp [mem_optTyParams]
      | ref lt e => simp [tyParams, Leads, child_ref]
      | ptr e => simp [tyParams, Leads, child_ptr]
      | slice e => simp [tyParams, Leads, child_slice]
      | array e => simp [tyParams, Leads, child_array]
      | paren e => simp [tyParams, Leads, child_paren]
      | group e => simp [tyParams, Leads, child_group]
      | tuple es => simp [tyParams, Leads, child_tuple, mem_tysParams]
      | bareFn ins out =>
          simp [tyParams, Leads, child_bareFn, mem_tysParams, mem_optTyParams,
            or_and_right, exists_or]
      | traitObject bs => simp [tyParams, Leads, child_traitObject, mem_boundsParams]
      | implTrait bs => simp [tyParams, Leads, child_implTrait, mem_boundsParams]
      | «opaque» => simp [tyParams, Leads, child_opaque]
  | path pa =>
      obtain ⟨g, segs⟩ := pa
      simp only [paramsAt_path, pathParams, List.mem_append, child_pathNode, mem_segsParams,
        exists_image₂, paramsAt_args]
      cases segs with
      | nil => simp [Leads]
      | cons s rest =>
          obtain ⟨i, a⟩ := s
          cases g
          · simp [Leads, identHits_mem]
          · simp [Leads]
  | args a =>
      cases a with
      | none => simp [argsParams, Leads, child_argsNone]
      | angle as => simp [argsParams, Leads, child_argsAngle, mem_gargsParams]
      | paren ins out =>
          simp [argsParams, Leads, child_argsParen, mem_tysParams, mem_optTyParams,
            or_and_right, exists_or]
  | garg g =>
      cases g with
      | ty t => simp [gargParams, Leads, child_gargTy]
      | assocTy t => simp [gargParams, Leads, child_gargAssoc]
      | constraint bs => simp [gargParams, Leads, child_gargConstraint, mem_boundsParams]
      | lifetime l => simp [gargParams, Leads, child_gargLifetime]
      | other => simp [gargParams, Leads, child_gargOther]
  | bound b =>
      cases b with
      | trait binder pa => simp [boundParams, Leads, child_boundTrait]
      | lifetime l => simp [boundParams, Leads, child_boundLifetime]

/-! ## 6. Type parameters: end-to-end theorems -/

/-- the answer at any node: exactly the queried names denoted by the leading segment of a
    reachable path -/
theorem paramsAt_iff (d : Bool) (S : List String) (n : Node) (p : String) :
    p ∈ paramsAt d S n ↔ p ∈ S ∧ ∃ m, Reach d n m ∧ LeadsAs m p := by
  rw [engine (paramsAt d S) (fun n p => p ∈ S ∧ LeadsAs n p) (params_step d S) n p]
  constructor
  · rintro ⟨m, hr, hs, hl⟩; exact ⟨hs, m, hr, hl⟩
  · rintro ⟨hs, m, hr, hl⟩; exact ⟨m, hr, hs, hl⟩

theorem denotes_refl (p : String) : Denotes p p := rfl

/-- **exactness against the specification of the text** (no side condition): for every type,
    every query set and both purposes the analysis returns exactly those members of the set
    that occur where they denote the parameter -/
theorem params_spec (d : Bool) (S : List String) (t : SType) (p : String) :
    p ∈ tyParams d S t ↔ p ∈ S ∧ Uses d t p := by
  rw [← paramsAt_ty, paramsAt_iff]
  constructor
  · rintro ⟨hs, m, hr, i, hl, hd⟩; exact ⟨hs, i, ⟨m, hr, hl⟩, hd⟩
  · rintro ⟨hs, i, ⟨m, hr, hl⟩, hd⟩; exact ⟨hs, m, hr, i, hl, hd⟩

/-- a queried name written literally at a use position is reported -/
theorem params_of_literal (d : Bool) (S : List String) (t : SType) (p : String)
    (hs : p ∈ S) (h : UsesLit d t p) : p ∈ tyParams d S t :=
  (params_spec d S t p).mpr ⟨hs, p, h, denotes_refl p⟩

/-- "never a name outside the queried set" -/
theorem params_subset (d : Bool) (S : List String) (t : SType) (p : String)
    (h : p ∈ tyParams d S t) : p ∈ S := ((params_spec d S t p).mp h).1

/-- the answer does not depend on what else is in the query set -/
theorem params_query_independent (d : Bool) (S S' : List String) (t : SType) (p : String)
    (hS : p ∈ S) (hS' : p ∈ S') : p ∈ tyParams d S t ↔ p ∈ tyParams d S' t := by
  simp only [params_spec, hS, hS', true_and]

/-- "inside a qualified-self only when asked for declaration purposes", positive half: for
    `Declare` everything used by the qualified self is used by the path type -/
theorem qself_counts_when_declaring (q : SType) (pa : SPath) (x : String)
    (h : UsesLit true q x) : UsesLit true (.path (some q) pa) x := by
  obtain ⟨m, hr, hl⟩ := h
  exact ⟨m, .step (.qself rfl) hr, hl⟩

/-- … negative half: for `BoundImpl` the qualified self is invisible -/
theorem qself_invisible_when_bounding (q : Option SType) (pa : SPath) (x : String) :
    UsesLit false (.path q pa) x ↔ UsesLit false (.path none pa) x := by
  constructor
  · rintro ⟨m, hr, hl⟩
    cases hr with
    | here => simp [Leads] at hl
    | step hc hr' =>
        rcases child_path.mp hc with rfl | ⟨hd, _⟩
        · exact ⟨m, .step .typePath hr', hl⟩
        · cases hd
  · rintro ⟨m, hr, hl⟩
    cases hr with
    | here => simp [Leads] at hl
    | step hc hr' =>
        rcases child_path.mp hc with rfl | ⟨hd, _⟩
        · exact ⟨m, .step .typePath hr', hl⟩
        · cases hd

/-- the declaration purpose only ever adds uses -/
theorem child_mono {n m : Node} (h : Child false n m) : Child true n m := by
  cases h with
  | qself hd => cases hd
  | typePath => exact .typePath
  | ref => exact .ref
  | ptr => exact .ptr
  | slice => exact .slice
  | array => exact .array
  | tupleElem h => exact .tupleElem h
  | paren => exact .paren
  | group => exact .group
  | fnInput h => exact .fnInput h
  | fnOutput => exact .fnOutput
  | objBound h => exact .objBound h
  | implBound h => exact .implBound h
  | boundPath => exact .boundPath
  | segArgs h => exact .segArgs h
  | angleArg h => exact .angleArg h
  | parenInput h => exact .parenInput h
  | parenOutput => exact .parenOutput
  | argTy => exact .argTy
  | argAssoc => exact .argAssoc
  | argConstraint h => exact .argConstraint h

theorem reach_mono {n m : Node} (h : Reach false n m) : Reach true n m := by
  induction h with
  | here => exact .here
  | step hc _ ih => exact .step (child_mono hc) ih

theorem bounding_subset_declaring (S : List String) (t : SType) (p : String)
    (h : p ∈ tyParams false S t) : p ∈ tyParams true S t := by
  rw [params_spec] at h ⊢
  obtain ⟨hs, i, ⟨m, hr, hl⟩, hd⟩ := h
  exact ⟨hs, i, ⟨m, reach_mono hr, hl⟩, hd⟩

/-! ### collections -/

/-- a list of types (tuple members, function inputs, field types): the union -/
theorem params_list_union (d : Bool) (S : List String) (ts : List SType) (p : String) :
    p ∈ tysParams d S ts ↔ ∃ t, t ∈ ts ∧ p ∈ tyParams d S t := mem_tysParams d S p ts

/-- an optional type (`Option<T>` collection, return types): the union of zero or one answer -/
theorem params_option_union (d : Bool) (S : List String) (o : Option SType) (p : String) :
    p ∈ optTyParams d S o ↔ ∃ t, o = some t ∧ p ∈ tyParams d S t := mem_optTyParams d S p o

/-! ### bounds -/

/-- the body of a receiver as the bound computation sees it -/
inductive Body where
  | struct (fields : List BField)
  | enum (variants : List (Bool × List BField))

/-- the model's `used_type_params` on either kind of body -/
def usedBy (declared : List String) : Body → List String
  | .struct fs => usedInFields declared fs
  | .enum vs => usedInVariants declared vs

/-- "fields that are actually parsed (not skipped)": a field without `skip`, in a variant
    without `skip` -/
def Parsed : Body → BField → Prop
  | .struct fs, f => f ∈ fs ∧ f.skip = false
  | .enum vs, f => ∃ v, v ∈ vs ∧ v.1 = false ∧ f ∈ v.2 ∧ f.skip = false

theorem mem_usedInFields (declared : List String) (fs : List BField) (p : String) :
    p ∈ usedInFields declared fs ↔ ∃ f, (f ∈ fs ∧ f.skip = false) ∧ p ∈ tyParams false declared f.ty := by
  simp only [usedInFields, mem_tysParams, List.mem_map, List.mem_filter]
  constructor
  · rintro ⟨t, ⟨f, ⟨hf, hs⟩, rfl⟩, hp⟩
    exact ⟨f, ⟨hf, by simpa using hs⟩, hp⟩
  · rintro ⟨f, ⟨hf, hs⟩, hp⟩
    exact ⟨f.ty, ⟨f, ⟨hf, by simp [hs]⟩, rfl⟩, hp⟩

theorem mem_usedInVariants (declared : List String) (p : String) :
    ∀ vs : List (Bool × List BField), p ∈ usedInVariants declared vs ↔
      ∃ v, v ∈ vs ∧ v.1 = false ∧ p ∈ usedInFields declared v.2
  | [] => by simp [usedInVariants]
  | (sk, fs) :: rest => by
      simp only [usedInVariants, List.mem_append, mem_usedInVariants declared p rest, List.mem_cons]
      constructor
      · rintro (h | ⟨v, hv, h⟩)
        · cases sk
          · exact ⟨(false, fs), .inl rfl, rfl, by simpa using h⟩
          · simp at h
        · exact ⟨v, .inr hv, h⟩
      · rintro ⟨v, rfl | hv, hs, h⟩
        · simp only at hs h; subst hs; exact .inl (by simpa using h)
        · exact .inr ⟨v, hv, hs, h⟩

/-- the answer for a body is the union over its parsed fields -/
theorem usedBy_union (declared : List String) (b : Body) (p : String) :
    p ∈ usedBy declared b ↔ ∃ f, Parsed b f ∧ p ∈ tyParams false declared f.ty := by
  cases b with
  | struct fs => exact mem_usedInFields declared fs p
  | enum vs =>
      simp only [usedBy, mem_usedInVariants, mem_usedInFields, Parsed]
      constructor
      · rintro ⟨v, hv, hs, f, ⟨hf, hfs⟩, hp⟩; exact ⟨f, ⟨v, hv, hs, hf, hfs⟩, hp⟩
      · rintro ⟨f, ⟨v, hv, hs, hf, hfs⟩, hp⟩; exact ⟨v, hv, hs, f, ⟨hf, hfs⟩, hp⟩

/-- **what the bounds must be**: the declared type parameters that occur, where they denote
    the parameter, in the type of a parsed field (impl-bound purpose: not in a qualified self) -/
def NeedsBound (declared : List String) (b : Body) (p : String) : Prop :=
  p ∈ declared ∧ ∃ f, Parsed b f ∧ Uses false f.ty p

/-- **the bound goes to exactly the declared type parameters used by parsed fields**
    (no side condition; struct and enum bodies) -/
theorem bounds_spec (declared : List String) (b : Body) (p : String) :
    p ∈ boundedParams declared (usedBy declared b) ↔ NeedsBound declared b p := by
  simp only [boundedParams, List.mem_filter, List.contains_iff_mem, usedBy_union, params_spec,
    NeedsBound]
  constructor
  · rintro ⟨hd, f, hf, _, hu⟩; exact ⟨hd, f, hf, hu⟩
  · rintro ⟨hd, f, hf, hu⟩; exact ⟨hd, f, hf, hd, hu⟩

/-- the emitted parameter list is the declared one, in order, each parameter at most marked -/
theorem bounded_is_filter (declared used : List String) :
    boundedParams declared used = declared.filter (fun p => decide (p ∈ used)) := by
  simp [boundedParams]

/-! ## 7. Lifetimes -/

/-- the model's answer at a node (statements only) -/
def ltsAt (d : Bool) (L : List String) : Node → List String
  | .ty t => tyLts d L t
  | .path p => pathLts d L p
  | .args a => argsLts d L a
  | .garg g => gargLts d L g
  | .bound b => boundLts d L b

section
variable (d : Bool) (L : List String)
theorem ltsAt_ty (t) : ltsAt d L (.ty t) = tyLts d L t := rfl
theorem ltsAt_path (p) : ltsAt d L (.path p) = pathLts d L p := rfl
theorem ltsAt_args (a) : ltsAt d L (.args a) = argsLts d L a := rfl
theorem ltsAt_garg (g) : ltsAt d L (.garg g) = gargLts d L g := rfl
theorem ltsAt_bound (b) : ltsAt d L (.bound b) = boundLts d L b := rfl
end

theorem ltHits_mem {L : List String} {l x : String} : x ∈ ltHits L l ↔ x ∈ L ∧ x = l := by
  simp [ltHits, List.mem_filter]

theorem ltsHits_mem (L : List String) (x : String) : ∀ ls : List String,
    x ∈ ltsHits L ls ↔ x ∈ L ∧ x ∈ ls
  | [] => by simp [ltsHits]
  | l :: ls => by
      simp only [ltsHits, List.mem_append, ltHits_mem, ltsHits_mem L x ls, List.mem_cons]
      constructor
      · rintro (⟨h1, h2⟩ | ⟨h1, h2⟩)
        · exact ⟨h1, .inl h2⟩
        · exact ⟨h1, .inr h2⟩
      · rintro ⟨h1, h2 | h2⟩
        · exact .inl ⟨h1, h2⟩
        · exact .inr ⟨h1, h2⟩

theorem binderLts_mem (L : List String) (x : String) : ∀ b : List (String × List String),
    x ∈ binderLts L b ↔ x ∈ L ∧ ∃ e, e ∈ b ∧ (x = e.1 ∨ x ∈ e.2)
  | [] => by simp [binderLts]
  | (l, bs) :: rest => by
      simp only [binderLts, List.mem_append, ltHits_mem, ltsHits_mem, binderLts_mem L x rest,
        List.mem_cons]
      constructor
      · rintro ((⟨h1, h2⟩ | ⟨h1, h2⟩) | ⟨h1, e, he, h2⟩)
        · exact ⟨h1, (l, bs), .inl rfl, .inl h2⟩
        · exact ⟨h1, (l, bs), .inl rfl, .inr h2⟩
        · exact ⟨h1, e, .inr he, h2⟩
      · rintro ⟨h1, e, rfl | he, h2⟩
        · rcases h2 with h2 | h2
          · exact .inl (.inl ⟨h1, h2⟩)
          · exact .inl (.inr ⟨h1, h2⟩)
        · exact .inr ⟨h1, e, he, h2⟩

theorem mem_tysLts (d : Bool) (L : List String) (x : String) : ∀ ts : List SType,
    x ∈ tysLts d L ts ↔ ∃ t, t ∈ ts ∧ x ∈ tyLts d L t
  | [] => by simp [tysLts]
  | t :: ts => by simp [tysLts, List.mem_append, mem_tysLts d L x ts]

theorem mem_optTyLts (d : Bool) (L : List String) (x : String) (o : Option SType) :
    x ∈ optTyLts d L o ↔ ∃ t, o = some t ∧ x ∈ tyLts d L t := by
  cases o <;> simp [optTyLts]

theorem mem_segsLts (d : Bool) (L : List String) (x : String) : ∀ ss : List SSeg,
    x ∈ segsLts d L ss ↔ ∃ i a, SSeg.mk i a ∈ ss ∧ x ∈ argsLts d L a
  | [] => by simp [segsLts]
  | .mk i a :: rest => by
      simp only [segsLts, List.mem_append, mem_segsLts d L x rest, List.mem_cons]
      constructor
      · rintro (h | ⟨i', a', hm, h⟩)
        · exact ⟨i, a, .inl rfl, h⟩
        · exact ⟨i', a', .inr hm, h⟩
      · rintro ⟨i', a', hm | hm, h⟩
        · cases hm; exact .inl h
        · exact .inr ⟨i', a', hm, h⟩

theorem mem_gargsLts (d : Bool) (L : List String) (x : String) : ∀ as : List SGArg,
    x ∈ gargsLts d L as ↔ ∃ a, a ∈ as ∧ x ∈ gargLts d L a
  | [] => by simp [gargsLts]
  | a :: as => by simp [gargsLts, List.mem_append, mem_gargsLts d L x as]

theorem mem_boundsLts (d : Bool) (L : List String) (x : String) : ∀ bs : List SBound,
    x ∈ boundsLts d L bs ↔ ∃ b, b ∈ bs ∧ x ∈ boundLts d L b
  | [] => by simp [boundsLts]
  | b :: bs => by simp [boundsLts, List.mem_append, mem_boundsLts d L x bs]

attribute [local simp] ltsAt_ty ltsAt_path ltsAt_args ltsAt_garg ltsAt_bound

/-- the model, one step at a time -/
theorem lts_step (d : Bool) (L : List String) (n : Node) (x : String) :
    x ∈ ltsAt d L n ↔
      (x ∈ L ∧ (LtAt n x ∨ BinderDecl n x)) ∨ ∃ m, Child d n m ∧ x ∈ ltsAt d L m := by
  cases n with
  | ty t =>
      cases t with
      | path q pa =>
          simp only [ltsAt_ty, tyLts, LtAt, BinderDecl, or_self, and_false, false_or, child_path,
            List.mem_append]
          cases d
          · simp
          · simp [mem_optTyLts]
      | ref lt e =>
          cases lt with
          | none => simp [tyLts, LtAt, BinderDecl, child_ref]
          | some l => simp [tyLts, LtAt, BinderDecl, child_ref, ltHits_mem]
      | ptr e => simp [tyLts, LtAt, BinderDecl, child_ptr]
      | slice e => simp [tyLts, LtAt, BinderDecl, child_slice]
      | array e => simp [tyLts, LtAt, BinderDecl, child_array]
      | paren e => simp [tyLts, LtAt, BinderDecl, child_paren]
      | group e => simp [tyLts, LtAt, BinderDecl, child_group]
      | tuple es => simp [tyLts, LtAt, BinderDecl, child_tuple, mem_tysLts]
      | bareFn ins out =>
          simp [tyLts, LtAt, BinderDecl, child_bareFn, mem_tysLts, mem_optTyLts,
            or_and_right, exists_or]
      | traitObject bs => simp [tyLts, LtAt, BinderDecl, child_traitObject, mem_boundsLts]
      | implTrait bs => simp [tyLts, LtAt, BinderDecl, child_implTrait, mem_boundsLts]
      | «opaque» => simp [tyLts, LtAt, BinderDecl, child_opaque]
  | path pa =>
      obtain ⟨g, segs⟩ := pa
      simp [pathLts, child_pathNode, mem_segsLts, LtAt, BinderDecl]
  | args a =>
      cases a with
      | none => simp [argsLts, LtAt, BinderDecl, child_argsNone]
      | angle as => simp [argsLts, LtAt, BinderDecl, child_argsAngle, mem_gargsLts]
      | paren ins out =>
          simp [argsLts, LtAt, BinderDecl, child_argsParen, mem_tysLts, mem_optTyLts,
            or_and_right, exists_or]
  | garg g =>
      cases g with
      | ty t => simp [gargLts, LtAt, BinderDecl, child_gargTy]
      | assocTy t => simp [gargLts, LtAt, BinderDecl, child_gargAssoc]
      | constraint bs => simp [gargLts, LtAt, BinderDecl, child_gargConstraint, mem_boundsLts]
      | lifetime l => simp [gargLts, LtAt, BinderDecl, child_gargLifetime, ltHits_mem]
      | other => simp [gargLts, LtAt, BinderDecl, child_gargOther]
  | bound b =>
      cases b with
      | trait binder pa =>
          simp only [ltsAt_bound, boundLts, List.mem_append, binderLts_mem, LtAt, BinderDecl,
            child_boundTrait, exists_eq_left, ltsAt_path]
          constructor
          · rintro (h | ⟨hl, e, he, h | h⟩)
            · exact .inr h
            · exact .inl ⟨hl, .inr ⟨e, he, h⟩⟩
            · exact .inl ⟨hl, .inl ⟨e, he, h⟩⟩
          · rintro (⟨hl, ⟨e, he, h⟩ | ⟨e, he, h⟩⟩ | h)
            · exact .inr ⟨hl, e, he, .inr h⟩
            · exact .inr ⟨hl, e, he, .inl h⟩
            · exact .inl h
      | lifetime l => simp [boundLts, LtAt, BinderDecl, child_boundLifetime, ltHits_mem]

theorem ltsAt_iff (d : Bool) (L : List String) (n : Node) (x : String) :
    x ∈ ltsAt d L n ↔ x ∈ L ∧ ∃ m, Reach d n m ∧ (LtAt m x ∨ BinderDecl m x) := by
  rw [engine (ltsAt d L) (fun n x => x ∈ L ∧ (LtAt n x ∨ BinderDecl n x)) (lts_step d L) n x]
  constructor
  · rintro ⟨m, hr, hs, hl⟩; exact ⟨hs, m, hr, hl⟩
  · rintro ⟨hs, m, hr, hl⟩; exact ⟨m, hr, hs, hl⟩

/-- **exactness for lifetimes, the model as it is** (no side condition): the queried lifetimes
    written as a use *or declared by a `for<..>` binder* inside the type -/
theorem lifetimes_literal (d : Bool) (L : List String) (t : SType) (l : String) :
    l ∈ tyLts d L t ↔ l ∈ L ∧ (LtUsed d t l ∨ Rebinds d t l) := by
  rw [← ltsAt_ty, ltsAt_iff]
  constructor
  · rintro ⟨hl, m, hr, h | h⟩
    · exact ⟨hl, .inl ⟨m, hr, h⟩⟩
    · exact ⟨hl, .inr ⟨m, hr, h⟩⟩
  · rintro ⟨hl, ⟨m, hr, h⟩ | ⟨m, hr, h⟩⟩
    · exact ⟨hl, m, hr, .inl h⟩
    · exact ⟨hl, m, hr, .inr h⟩

/-- no `for<..>` binder inside `t` re-declares a queried lifetime (rustc enforces this for the
    receiver's own lifetimes: E0496).  Under this condition binder scopes are moot: no
    occurrence of a queried lifetime is captured by a binder. -/
def NoShadow (d : Bool) (L : List String) (t : SType) : Prop :=
  ∀ x, x ∈ L → ¬ Rebinds d t x

/-- **exactness against the specification of the text**: exactly the queried lifetimes that
    are written as a use — provided no binder re-declares a queried lifetime.  Without the
    proviso the model also reports the binder's own declaration, see `binder_discrepancy_*`. -/
theorem lifetimes_spec_partial (d : Bool) (L : List String) (t : SType) (h : NoShadow d L t)
    (l : String) : l ∈ tyLts d L t ↔ l ∈ L ∧ LtUsed d t l := by
  rw [lifetimes_literal]
  constructor
  · rintro ⟨hl, hu | hb⟩
    · exact ⟨hl, hu⟩
    · exact absurd hb (h l hl)
  · rintro ⟨hl, hu⟩; exact ⟨hl, .inl hu⟩

theorem lifetimes_subset (d : Bool) (L : List String) (t : SType) (l : String)
    (h : l ∈ tyLts d L t) : l ∈ L := ((lifetimes_literal d L t l).mp h).1

theorem lifetimes_list_union (d : Bool) (L : List String) (ts : List SType) (l : String) :
    l ∈ tysLts d L ts ↔ ∃ t, t ∈ ts ∧ l ∈ tyLts d L t := mem_tysLts d L l ts

theorem lifetimes_option_union (d : Bool) (L : List String) (o : Option SType) (l : String) :
    l ∈ optTyLts d L o ↔ ∃ t, o = some t ∧ l ∈ tyLts d L t := mem_optTyLts d L l o


/-! ## 7b. The specification on the text's non-use positions (proved from the tables alone,
    without the model) -/

/-- macro bodies, verbatim, `_`, `!`: nothing is used -/
theorem spec_opaque (d : Bool) (x : String) : ¬ UsesLit d .opaque x := by
  rintro ⟨m, hr, hl⟩
  cases hr with
  | here => simp [Leads] at hl
  | step hc _ => exact child_opaque hc

/-- path tails: in `a::b` only `a` can be meant -/
theorem spec_path_tail (d : Bool) (a b x : String) :
    UsesLit d (.path none (.mk false [.mk a .none, .mk b .none])) x ↔ x = a := by
  constructor
  · rintro ⟨m, hr, hl⟩
    cases hr with
    | here => simp [Leads] at hl
    | step hc hr =>
      rcases child_path.mp hc with rfl | ⟨_, q', hq, _⟩
      · cases hr with
        | here => exact hl
        | step hc hr =>
          obtain ⟨i, a', hm, rfl⟩ := child_pathNode.mp hc
          have : a' = .none := by
            simp only [List.mem_cons, SSeg.mk.injEq, List.mem_nil_iff, or_false] at hm
            rcases hm with ⟨_, h⟩ | ⟨_, h⟩ <;> exact h
          subst this
          cases hr with
          | here => simp [Leads] at hl
          | step hc _ => exact absurd hc child_argsNone
      · cases hq
  · rintro rfl
    exact ⟨_, .step .typePath .here, rfl⟩

/-- global paths: in `::a` nothing is used -/
theorem spec_global (d : Bool) (a x : String) :
    ¬ UsesLit d (.path none (.mk true [.mk a .none])) x := by
  rintro ⟨m, hr, hl⟩
  cases hr with
  | here => simp [Leads] at hl
  | step hc hr =>
    rcases child_path.mp hc with rfl | ⟨_, q', hq, _⟩
    · cases hr with
      | here => simp [Leads] at hl
      | step hc hr =>
        obtain ⟨i, a', hm, rfl⟩ := child_pathNode.mp hc
        simp only [List.mem_singleton, SSeg.mk.injEq] at hm
        obtain ⟨rfl, rfl⟩ := hm
        cases hr with
        | here => simp [Leads] at hl
        | step hc _ => exact absurd hc child_argsNone
    · cases hq

/-- const-expression arguments: in `Arr<{ .. }>` only `Arr` can be meant -/
theorem spec_const_arg (d : Bool) (c x : String) :
    UsesLit d (.path none (.mk false [.mk c (.angle [.other])])) x ↔ x = c := by
  constructor
  · rintro ⟨m, hr, hl⟩
    cases hr with
    | here => simp [Leads] at hl
    | step hc hr =>
      rcases child_path.mp hc with rfl | ⟨_, q', hq, _⟩
      · cases hr with
        | here => exact hl
        | step hc hr =>
          obtain ⟨i, a', hm, rfl⟩ := child_pathNode.mp hc
          simp only [List.mem_singleton, SSeg.mk.injEq] at hm
          obtain ⟨rfl, rfl⟩ := hm
          cases hr with
          | here => simp [Leads] at hl
          | step hc hr =>
            obtain ⟨g, hg, rfl⟩ := child_argsAngle.mp hc
            simp only [List.mem_singleton] at hg; subst hg
            cases hr with
            | here => simp [Leads] at hl
            | step hc _ => exact absurd hc child_gargOther
      · cases hq
  · rintro rfl
    exact ⟨_, .step .typePath .here, rfl⟩

/-! ## 8. Raw identifiers (repaired) and the one remaining discrepancy (binders) -/

def tyName (x : String) : SType := .path none (.mk false [.mk x .none])
def tyApp (c : String) (a : SType) : SType := .path none (.mk false [.mk c (.angle [.ty a])])

/-- `Option<r#T>` -/
def optRawT : SType := tyApp "Option" (tyName "r#T")

/-- formerly a discrepancy (the library compared spellings; repaired): `T` is used by
    `Option<r#T>`, and `r#T` by `Option<T>`, under both purposes … -/
example : tyParams false ["T"] optRawT = ["T"] := by decide
example : tyParams true ["T"] optRawT = ["T"] := by decide
example : tyParams false ["r#T"] (tyApp "Option" (tyName "T")) = ["r#T"] := by decide

/-- … as the text demands: `r#T` occurs inside generic arguments as an unqualified leading
    segment and denotes the parameter `T` -/
theorem raw_uses : Uses false optRawT "T" :=
  ((params_spec false ["T"] optRawT "T").mp (by decide)).2

/-- the same fact straight from the tables (no model involved) -/
example : Uses false optRawT "T" :=
  ⟨"r#T",
   ⟨_, .step .typePath (.step (.segArgs (List.mem_singleton.mpr rfl))
        (.step (.angleArg (List.mem_singleton.mpr rfl)) (.step .argTy (.step .typePath .here)))),
    rfl⟩,
   by decide⟩

/-- consequence for the emitted bounds: `struct R<T> { a: Option<r#T> }` gets the bound on `T` -/
example : boundedParams ["T"] (usedBy ["T"] (.struct [⟨optRawT, false⟩])) = ["T"] := by decide
theorem raw_bound : NeedsBound ["T"] (.struct [⟨optRawT, false⟩]) "T" :=
  ⟨by decide, ⟨optRawT, false⟩, ⟨by simp, rfl⟩, raw_uses⟩

/-- `dyn for<'a> Tr` -/
def dynForA : SType := .traitObject [.trait [("'a", [])] (.mk false [.mk "Tr" .none])]

/-- the model: `'a` is used by `dyn for<'a> Tr` … -/
example : tyLts false ["'a"] dynForA = ["'a"] := by decide

/-- … the text: nowhere in `dyn for<'a> Tr` is `'a` written as a use; the binder declares a
    fresh lifetime -/
theorem binder_discrepancy_not_used : ¬ LtUsed false dynForA "'a" := by
  rintro ⟨m, hr, hl⟩
  unfold dynForA at hr
  cases hr with
  | here => simp [LtAt] at hl
  | step hc hr =>
    obtain ⟨b, hb, rfl⟩ := child_traitObject.mp hc
    simp only [List.mem_singleton] at hb; subst hb
    cases hr with
    | here => simp [LtAt] at hl
    | step hc hr =>
      have := child_boundTrait.mp hc; subst this
      cases hr with
      | here => simp [LtAt] at hl
      | step hc hr =>
        obtain ⟨i, a, hm, rfl⟩ := child_pathNode.mp hc
        simp only [List.mem_singleton, SSeg.mk.injEq] at hm
        obtain ⟨rfl, rfl⟩ := hm
        cases hr with
        | here => simp [LtAt] at hl
        | step hc _ => exact child_argsNone hc

theorem binder_discrepancy_rebinds : Rebinds false dynForA "'a" :=
  ⟨_, .step (.objBound (List.mem_singleton.mpr rfl)) .here, ("'a", []), List.mem_singleton.mpr rfl, rfl⟩

theorem binder_discrepancy_shadow : ¬ NoShadow false ["'a"] dynForA := fun h =>
  h "'a" (by decide) binder_discrepancy_rebinds


/-! ## 8b. Two positions the mirror types cannot even name

  The text says "inside generic arguments … through … function … types".  Two such positions
  exist in `syn` but have no field in `UsageTypes.lean`, so neither the model nor this
  specification can speak about them; the library ignores both (reproduced, see the report):

  * the generic arguments *of an associated-type binding or constraint itself*:
    `Box<dyn Lend<Item<T> = u8>>`, `Lend<Item<'a> = u8>`, `Lend<Item<T>: Clone>`
    (`syn::AssocType::generics`, `syn::Constraint::generics`; `SGArg.assocTy` keeps the
    right-hand side only).  Library: `T` / `'a` not reported, no bound emitted.
  * the `for<..>` binder of a function-pointer type: `for<'x: 'a> fn(&'x u8)`
    (`syn::TypeBareFn::lifetimes`; `SType.bareFn` has inputs and output only).  Library: `'a`
    not reported, although the same binder on a trait bound (`dyn for<'x: 'a> Fn(&'x u8)`)
    is searched.

  What the mirror makes of the first input — the binding's `<T>` is gone before the model runs: -/

/-- `Box<dyn Lend<Item<T> = u8>>` as encoded by the harness -/
def gatMirror : SType :=
  tyApp "Box" (.traitObject [.trait [] (.mk false [.mk "Lend" (.angle [.assocTy (tyName "u8")])])])

example : tyParams false ["T"] gatMirror = [] := by decide

/-! ## 9. Non-vacuity of every hypothesis -/

/-- `Vec<T>` -/
def vecT : SType := tyApp "Vec" (tyName "T")
/-- `<U as Iterator>::Item` -/
def assocU : SType := .path (some (tyName "U")) (.mk false [.mk "Iterator" .none, .mk "Item" .none])

/-- the specification is met with a non-empty answer, and with a queried name left out -/
example : "T" ∈ tyParams false ["T", "U"] vecT ∧ "U" ∉ tyParams false ["T", "U"] vecT := by decide
example : Uses false vecT "T" := ((params_spec false ["T", "U"] vecT "T").mp (by decide)).2
example : ¬ Uses false vecT "U" := fun h =>
  absurd ((params_spec false ["T", "U"] vecT "U").mpr ⟨by decide, h⟩) (by decide)

/-- the purpose matters on `<U as Iterator>::Item` -/
example : tyParams false ["T", "U"] assocU = [] ∧ tyParams true ["T", "U"] assocU = ["U"] := by decide
example : UsesLit true assocU "U" := qself_counts_when_declaring _ _ _ ⟨_, .step .typePath .here, rfl⟩

/-- an enum with a skipped variant and a skipped field -/
def bodyExample : Body :=
  .enum [(false, [⟨vecT, false⟩, ⟨tyName "U", true⟩]), (true, [⟨tyName "V", false⟩])]

example : boundedParams ["T", "U", "V"] (usedBy ["T", "U", "V"] bodyExample) = ["T"] := by decide

example : NeedsBound ["T", "U", "V"] bodyExample "T" := (bounds_spec _ _ "T").mp (by decide)
example : ¬ NeedsBound ["T", "U", "V"] bodyExample "U" := fun h =>
  absurd ((bounds_spec _ _ "U").mpr h) (by decide)
example : ¬ NeedsBound ["T", "U", "V"] bodyExample "V" := fun h =>
  absurd ((bounds_spec _ _ "V").mpr h) (by decide)

/-- `'x`-binder plus a genuine use of `'a`: `dyn for<'x> Tr + 'a` -/
def dynForX : SType := .traitObject [.trait [("'x", [])] (.mk false [.mk "Tr" .none]), .lifetime "'a"]

theorem noShadow_example : NoShadow false ["'a"] dynForX := by
  intro x hx ⟨m, hr, hb⟩
  simp only [List.mem_singleton] at hx; subst hx
  unfold dynForX at hr
  cases hr with
  | here => simp [BinderDecl] at hb
  | step hc hr =>
    obtain ⟨b, hb', rfl⟩ := child_traitObject.mp hc
    simp only [List.mem_cons, List.mem_nil_iff, or_false] at hb'
    rcases hb' with rfl | rfl
    · cases hr with
      | here => simp [BinderDecl] at hb
      | step hc hr =>
        have := child_boundTrait.mp hc; subst this
        cases hr with
        | here => simp [BinderDecl] at hb
        | step hc hr =>
          obtain ⟨i, a, hm, rfl⟩ := child_pathNode.mp hc
          simp only [List.mem_singleton, SSeg.mk.injEq] at hm
          obtain ⟨rfl, rfl⟩ := hm
          cases hr with
          | here => simp [BinderDecl] at hb
          | step hc _ => exact child_argsNone hc
    · cases hr with
      | here => simp [BinderDecl] at hb
      | step hc _ => exact child_boundLifetime hc

example : tyLts false ["'a"] dynForX = ["'a"] := by decide
example : LtUsed false dynForX "'a" :=
  ((lifetimes_spec_partial false ["'a"] dynForX noShadow_example "'a").mp (by decide)).2

end C19
