import Darling.Props.C10
/-
  C10, positional form — the derive-time reading of the *field* and *variant* options, stated
  without a loop state: every item is judged by looking at the items written before it.

  Field options (`InputField::parse_nested`, `Options.fieldStep`):
    * `fieldKw` / `fieldRead` / `fieldReadErr`   what one item is, whatever its position
    * `effective o pre sl`       the earlier item that holds slot `sl`: the first one addressing it
                                 whose read succeeded (`map` and `and_then` share the slot `post`)
    * `fieldPush o pre mi`       the one error (if any) item `mi` pushes after the items `pre`;
      `fieldVerdict o pre mi`    the same as a list
    * `fieldState o pre`         the options in force after `pre` (value of each effective item)
    * `fieldStep_spec`           one step of the code = the positional verdict
    * `fieldItems_spec`          the fold over one attribute computes exactly state and verdicts
    * `field_accepts_iff`        no diagnostic ⟺ every verdict empty ⟺ (item by item, spelled out)
    * `FieldWellFormed`, `verdicts_nil_iff_wf`, `field_accepts_iff_wf`
                                 … ⟺ a condition on the list that does not mention order
  Variant options (`InputVariant::parse_nested`, `Options.variantStep`): the same with
  `variantKw`, `vEffective`, `variantPush`/`variantVerdict`, `variantState`, `variantItems_spec`,
  `variant_accepts_iff`, `VariantWellFormed`, `variant_accepts_iff_wf`.
  Several `#[darling(..)]` attributes on one element (`parse_attributes`): `parseAttributes_spec`,
  `fieldAttrs_spec`, `field_decl_accepts_iff(_wf)`, `variant_decl_accepts_iff(_wf)` — the state runs
  through all attributes, so the items of all of them are judged as one list; only the bundling of
  the errors is per attribute.

  The verdict functions never call `fieldStep` / `variantStep`; they call the readers and the
  error constructors only.
-/
open Options Wrappers Scalars SynTypes

namespace C10

/-! ## one item, whatever its position -/

inductive FieldKw where
  | rename | default | with_ | skip | map | andThen | multiple | flatten
  deriving DecidableEq, Repr

/-- the option's spelling -/
def FieldKw.name : FieldKw → String
  | .rename => "rename" | .default => "default" | .with_ => "with" | .skip => "skip"
  | .map => "map" | .andThen => "and_then" | .multiple => "multiple" | .flatten => "flatten"

/-- which option an item spells (same tests, same order as `InputField::parse_nested`) -/
def fieldKw (mi : Meta) : Option FieldKw :=
  if mi.path'.isIdent "rename" then some .rename
  else if mi.path'.isIdent "default" then some .default
  else if mi.path'.isIdent "with" then some .with_
  else if mi.path'.isIdent "skip" then some .skip
  else if mi.path'.isIdent "map" then some .map
  else if mi.path'.isIdent "and_then" then some .andThen
  else if mi.path'.isIdent "multiple" then some .multiple
  else if mi.path'.isIdent "flatten" then some .flatten
  else none

/-- the storage an option writes: `map` and `and_then` share one (`post_transform`) -/
inductive FieldSlot where
  | rename | default | with_ | skip | post | multiple | flatten
  deriving DecidableEq, Repr

def FieldKw.slot : FieldKw → FieldSlot
  | .rename => .rename | .default => .default | .with_ => .with_ | .skip => .skip
  | .map => .post | .andThen => .post | .multiple => .multiple | .flatten => .flatten

/-- what an option's reader hands back -/
inductive FieldVal where
  | rename (v : Option String)
  | default (v : DefaultExpr)
  | with_ (v : String)
  | skip (v : Option (Bool × Option Span))
  | post (f : String)
  | multiple (v : Option Bool)
  | flatten (v : Option Span)

/-- the reader of option `k` applied to the item -/
def fieldReadR (o : Oracle) (k : FieldKw) (mi : Meta) : Outcome FieldVal :=
  match k with
  | .rename => (readOptString mi).map .rename
  | .default => (defaultFromMeta o mi).map .default
  | .with_ => (readCallable mi).map .with_
  | .skip => (readOptSpannedBool mi).map .skip
  | .map => (readPath o mi).map .post
  | .andThen => (readPath o mi).map .post
  | .multiple => (readOptBool mi).map .multiple
  | .flatten => (readFlag mi).map .flatten

/-- the value of an item whose option is known and whose reader succeeds -/
def fieldRead (o : Oracle) (mi : Meta) : Option FieldVal :=
  match fieldKw mi with
  | some k => (match fieldReadR o k mi with | .ok v => some v | _ => none)
  | none => none

/-- the reader's complaint when it fails -/
def fieldReadErr (o : Oracle) (mi : Meta) : Option Err :=
  match fieldKw mi with
  | some k => (match fieldReadR o k mi with | .err e => some e | _ => none)
  | none => none

/-- the slot an item fills when it is the first to reach it: known option, successful read -/
def fieldWrites (o : Oracle) (mi : Meta) : Option FieldSlot :=
  match fieldKw mi with
  | some k => if (fieldRead o mi).isSome then some k.slot else none
  | none => none

/-! ## an item among the items before it -/

/-- the **effective** earlier occurrence for a slot: the first item that fills it.  (An item whose
    read failed leaves the slot empty, so a later one is not a repeat.) -/
def effective (o : Oracle) (pre : List Meta) (sl : FieldSlot) : Option Meta :=
  pre.find? (fun m => fieldWrites o m == some sl)

/-- `true`-valued `skip` -/
def skipValTrue : Option (Bool × Option Span) → Bool
  | some (b, _) => b
  | none => false

/-- is an effective `skip = true` / `multiple = true` in force? -/
def skipInForce (o : Oracle) (pre : List Meta) : Bool :=
  match (effective o pre .skip).bind (fieldRead o) with
  | some (.skip v) => skipValTrue v
  | _ => false

def multipleInForce (o : Oracle) (pre : List Meta) : Bool :=
  match (effective o pre .multiple).bind (fieldRead o) with
  | some (.multiple v) => v == some true
  | _ => false

/-- the complaint about a repeat: `Duplicate field`, or "mutually exclusive" when the slot is held
    by the other transformer -/
def repeatErr (k : FieldKw) (holder mi : Meta) : Err :=
  match k, fieldKw holder with
  | .map, some .andThen => exclusiveErr "map" "and_then" mi
  | .andThen, some .map => exclusiveErr "and_then" "map" mi
  | _, _ => dupErr mi

/-- nothing, the single error, or the bundle (`Error::multiple`) -/
def bundleOpt : List Err → Option Err
  | [] => none
  | [e] => some e
  | es => some (.multi es [] none)

/-- what `flatten` collides with among the earlier items, in the order the code tests them -/
def flattenConflicts (o : Oracle) (pre : List Meta) (mi : Meta) : List Err :=
  (if multipleInForce o pre then [conflictErr "flatten" "multiple" mi] else []) ++
  (if (effective o pre .rename).isSome then [conflictErr "flatten" "rename" mi] else []) ++
  (if (effective o pre .with_).isSome then [conflictErr "flatten" "with" mi] else []) ++
  (if skipInForce o pre then [conflictErr "flatten" "skip" mi] else [])

/-- the conflict an accepted value runs into -/
def fieldConflict (o : Oracle) (pre : List Meta) (mi : Meta) : FieldVal → Option Err
  | .rename _ => if (effective o pre .flatten).isSome then some (conflictErr "flatten" "rename" mi) else none
  | .default _ => none
  | .with_ _ => if (effective o pre .flatten).isSome then some (conflictErr "flatten" "with" mi) else none
  | .skip v => if skipValTrue v && (effective o pre .flatten).isSome then some (conflictErr "flatten" "skip" mi) else none
  | .post _ => none
  | .multiple v => if v == some true && (effective o pre .flatten).isSome then some (conflictErr "flatten" "multiple" mi) else none
  | .flatten _ => bundleOpt (flattenConflicts o pre mi)

/-- the one error (if any) item `mi` pushes, given the items `pre` before it -/
def fieldPush (o : Oracle) (pre : List Meta) (mi : Meta) : Option Err :=
  match fieldKw mi with
  | none => some (unknownErr mi)
  | some k =>
      match effective o pre k.slot with
      | some holder => some (repeatErr k holder mi)
      | none =>
          match fieldRead o mi with
          | some v => fieldConflict o pre mi v
          | none => fieldReadErr o mi

/-- **the verdict on one item** -/
def fieldVerdict (o : Oracle) (pre : List Meta) (mi : Meta) : List Err := (fieldPush o pre mi).toList

/-- the options in force after `pre`: each is the value of its effective occurrence -/
def fieldState (o : Oracle) (pre : List Meta) : FieldOpts :=
  { attrName := match (effective o pre .rename).bind (fieldRead o) with | some (.rename v) => v | _ => none
    dflt := match (effective o pre .default).bind (fieldRead o) with | some (.default v) => some v | _ => none
    with_ := match (effective o pre .with_).bind (fieldRead o) with | some (.with_ v) => some v | _ => none
    skip := match (effective o pre .skip).bind (fieldRead o) with | some (.skip v) => v | _ => none
    post := match effective o pre .post with
      | some m => (match fieldRead o m with
          | some (.post f) => some ⟨if fieldKw m = some .map then "map" else "and_then", f⟩
          | _ => none)
      | none => none
    multiple := match (effective o pre .multiple).bind (fieldRead o) with | some (.multiple v) => v | _ => none
    flatten := match (effective o pre .flatten).bind (fieldRead o) with | some (.flatten v) => v | _ => none }

/-! ## the keyword tests -/

/-- `is_ident` on distinct names is exclusive -/
theorem isIdent_exclusive (p : Path) (a b : String) (ha : p.isIdent a = true) (hb : p.isIdent b = true) : a = b := by
  simp only [Path.isIdent, beq_iff_eq] at ha hb
  rw [ha] at hb
  exact Option.some.inj hb

/-- `is_ident` on distinct names is exclusive: an item spells option `k` iff its path is that ident -/
theorem getIdent_of_fieldKw (mi : Meta) (k : FieldKw) (h : fieldKw mi = some k) : mi.path'.getIdent = some k.name := by
  unfold fieldKw at h
  simp only [Path.isIdent, beq_iff_eq] at h
  repeat' split at h
  all_goals first | (cases h; assumption) | cases h

theorem fieldKw_of_getIdent (mi : Meta) (k : FieldKw) (h : mi.path'.getIdent = some k.name) : fieldKw mi = some k := by
  cases k <;> simp [fieldKw, Path.isIdent, h, FieldKw.name]

theorem fieldKw_eq_some_iff (mi : Meta) (k : FieldKw) : fieldKw mi = some k ↔ mi.path'.getIdent = some k.name :=
  ⟨getIdent_of_fieldKw mi k, fieldKw_of_getIdent mi k⟩

/-- the spellings are exactly the source's keyword table -/
theorem fieldKw_names : [FieldKw.rename, .default, .with_, .skip, .map, .andThen, .multiple, .flatten].map FieldKw.name = fieldKeywords := rfl

/-! ## `parse_nested`, one option at a time (any state) -/

theorem fieldStep_unknown (o : Oracle) (s : FieldOpts) (mi : Meta) (h : fieldKw mi = none) :
    fieldStep o s mi = .err s (unknownErr mi) := by
  unfold fieldKw at h
  repeat' split at h
  all_goals first | cases h | skip
  simp [fieldStep, *]

theorem fieldStep_rename (o : Oracle) (s : FieldOpts) (mi : Meta) (h : fieldKw mi = some .rename) :
    fieldStep o s mi =
      if s.attrName.isSome then .err s (dupErr mi) else
      withRead s (readOptString mi) fun v =>
        if s.flatten.isSome then .err { s with attrName := v } (conflictErr "flatten" "rename" mi)
        else .ok { s with attrName := v } := by
  have hg := getIdent_of_fieldKw mi _ h
  simp [fieldStep, Path.isIdent, hg, FieldKw.name]

theorem fieldStep_default (o : Oracle) (s : FieldOpts) (mi : Meta) (h : fieldKw mi = some .default) :
    fieldStep o s mi =
      if s.dflt.isSome then .err s (dupErr mi) else
      withRead s (defaultFromMeta o mi) fun v => .ok { s with dflt := some v } := by
  have hg := getIdent_of_fieldKw mi _ h
  simp [fieldStep, Path.isIdent, hg, FieldKw.name]

theorem fieldStep_with (o : Oracle) (s : FieldOpts) (mi : Meta) (h : fieldKw mi = some .with_) :
    fieldStep o s mi =
      if s.with_.isSome then .err s (dupErr mi) else
      withRead s (readCallable mi) fun v =>
        if s.flatten.isSome then .err { s with with_ := some v } (conflictErr "flatten" "with" mi)
        else .ok { s with with_ := some v } := by
  have hg := getIdent_of_fieldKw mi _ h
  simp [fieldStep, Path.isIdent, hg, FieldKw.name]

theorem fieldStep_skip (o : Oracle) (s : FieldOpts) (mi : Meta) (h : fieldKw mi = some .skip) :
    fieldStep o s mi =
      if s.skip.isSome then .err s (dupErr mi) else
      withRead s (readOptSpannedBool mi) fun v =>
        if skipValTrue v && s.flatten.isSome then .err { s with skip := v } (conflictErr "flatten" "skip" mi)
        else .ok { s with skip := v } := by
  have hg := getIdent_of_fieldKw mi _ h
  simp [fieldStep, Path.isIdent, hg, FieldKw.name, skipTrue, skipValTrue]
  try rfl

theorem fieldStep_map (o : Oracle) (s : FieldOpts) (mi : Meta) (h : fieldKw mi = some .map) :
    fieldStep o s mi =
      match s.post with
      | some pt => .err s (if "map" == pt.transformer then dupErr mi else exclusiveErr "map" pt.transformer mi)
      | none => withRead s (readPath o mi) fun f => .ok { s with post := some ⟨"map", f⟩ } := by
  have hg := getIdent_of_fieldKw mi _ h
  simp [fieldStep, Path.isIdent, hg, FieldKw.name]
  try rfl

theorem fieldStep_andThen (o : Oracle) (s : FieldOpts) (mi : Meta) (h : fieldKw mi = some .andThen) :
    fieldStep o s mi =
      match s.post with
      | some pt => .err s (if "and_then" == pt.transformer then dupErr mi else exclusiveErr "and_then" pt.transformer mi)
      | none => withRead s (readPath o mi) fun f => .ok { s with post := some ⟨"and_then", f⟩ } := by
  have hg := getIdent_of_fieldKw mi _ h
  simp [fieldStep, Path.isIdent, hg, FieldKw.name]
  try rfl

theorem fieldStep_multiple (o : Oracle) (s : FieldOpts) (mi : Meta) (h : fieldKw mi = some .multiple) :
    fieldStep o s mi =
      if s.multiple.isSome then .err s (dupErr mi) else
      withRead s (readOptBool mi) fun v =>
        if v == some true && s.flatten.isSome then .err { s with multiple := v } (conflictErr "flatten" "multiple" mi)
        else .ok { s with multiple := v } := by
  have hg := getIdent_of_fieldKw mi _ h
  simp [fieldStep, Path.isIdent, hg, FieldKw.name]
  try rfl

theorem fieldStep_flatten (o : Oracle) (s : FieldOpts) (mi : Meta) (h : fieldKw mi = some .flatten) :
    fieldStep o s mi =
      if s.flatten.isSome then .err s (dupErr mi) else
      withRead s (readFlag mi) fun v =>
        bundleStep { s with flatten := v }
          ((if s.multiple == some true then [conflictErr "flatten" "multiple" mi] else []) ++
           (if s.attrName.isSome then [conflictErr "flatten" "rename" mi] else []) ++
           (if s.with_.isSome then [conflictErr "flatten" "with" mi] else []) ++
           (if skipValTrue s.skip then [conflictErr "flatten" "skip" mi] else [])) := by
  have hg := getIdent_of_fieldKw mi _ h
  simp [fieldStep, Path.isIdent, hg, FieldKw.name, skipTrue, skipValTrue]
  try rfl

/-! ## the readers: a successful read of an `Option<_>` / `Flag` option is a present value -/

theorem optionOf_ok_some {α : Type} (h : Hooks α) (m : Meta) (v : Option α)
    (hr : (optionOf some none h).fromMeta m = .ok v) : ∃ x, v = some x := by
  have : (optionOf some none h).fromMeta m = (h.fromMeta m).map some := rfl
  rw [this] at hr
  cases hx : h.fromMeta m with
  | ok a => rw [hx] at hr; simp only [Outcome.map] at hr; cases hr; exact ⟨a, rfl⟩
  | err e => rw [hx] at hr; cases hr
  | panic p => rw [hx] at hr; cases hr

theorem readOptString_some (m : Meta) (v : Option String) (h : readOptString m = .ok v) : ∃ x, v = some x :=
  optionOf_ok_some _ m v h
theorem readOptBool_some (m : Meta) (v : Option Bool) (h : readOptBool m = .ok v) : ∃ x, v = some x :=
  optionOf_ok_some _ m v h
theorem readOptSpannedBool_some (m : Meta) (v : Option (Bool × Option Span)) (h : readOptSpannedBool m = .ok v) :
    ∃ x, v = some x := optionOf_ok_some _ m v h

theorem readFlag_some (m : Meta) (v : Option Span) (h : readFlag m = .ok v) : ∃ x, v = some x := by
  unfold readFlag at h
  cases m with
  | path p => simp [Hooks.fromMeta, flagHooks] at h; exact ⟨_, h.symm⟩
  | list p items bad ts t s =>
      simp only [Hooks.fromMeta, flagHooks] at h
      split at h <;> cases h
  | nameValue p e t s =>
      simp only [Hooks.fromMeta, flagHooks] at h
      split at h <;> cases h

/-- no reader panics (C06) -/
theorem fieldReadR_returns (o : Oracle) (k : FieldKw) (mi : Meta) : (fieldReadR o k mi).Returns := by
  cases k <;> simp only [fieldReadR]
  · exact (C06.readOptString_returns mi).map _
  · exact (C06.defaultFromMeta_returns o mi).map _
  · exact (C06.readCallable_returns mi).map _
  · exact (C06.readOptSpannedBool_returns mi).map _
  · exact (C06.readPath_returns o mi).map _
  · exact (C06.readPath_returns o mi).map _
  · exact (C06.readOptBool_returns mi).map _
  · exact (C06.readFlag_returns mi).map _

/-! ## the effective occurrence -/

theorem effective_snoc (o : Oracle) (pre : List Meta) (mi : Meta) (sl : FieldSlot) :
    effective o (pre ++ [mi]) sl = (effective o pre sl).or (if fieldWrites o mi = some sl then some mi else none) := by
  simp only [effective, List.find?_append, List.find?_cons, List.find?_nil]
  congr 1
  by_cases h : fieldWrites o mi = some sl
  · simp [h]
  · have : (fieldWrites o mi == some sl) = false := by simpa using h
    simp [h, this]

theorem effective_writes (o : Oracle) (pre : List Meta) (sl : FieldSlot) (m : Meta) (h : effective o pre sl = some m) :
    fieldWrites o m = some sl := by
  have := List.find?_some h
  simpa using this

theorem fieldWrites_eq_some (o : Oracle) (m : Meta) (sl : FieldSlot) (h : fieldWrites o m = some sl) :
    ∃ k v, fieldKw m = some k ∧ k.slot = sl ∧ fieldRead o m = some v ∧ fieldReadR o k m = .ok v := by
  unfold fieldWrites at h
  cases hk : fieldKw m with
  | none => rw [hk] at h; cases h
  | some k =>
      rw [hk] at h
      simp only [] at h
      cases hr : fieldRead o m with
      | none => rw [hr] at h; cases h
      | some v =>
          rw [hr] at h
          simp only [Option.isSome_some, if_true, Option.some.injEq] at h
          refine ⟨k, v, rfl, h, rfl, ?_⟩
          unfold fieldRead at hr
          rw [hk] at hr
          simp only [] at hr
          split at hr
          · cases hr; assumption
          · cases hr


theorem map_eq_ok {α β : Type} {x : Outcome α} {f : α → β} {v : β} (h : x.map f = .ok v) : ∃ a, x = .ok a ∧ v = f a := by
  cases x with
  | ok a => simp only [Outcome.map] at h; cases h; exact ⟨a, rfl, rfl⟩
  | err e => cases h
  | panic p => cases h

theorem held_rename (o : Oracle) (pre : List Meta) (m : Meta) (h : effective o pre .rename = some m) :
    ∃ x, fieldKw m = some .rename ∧ fieldRead o m = some (.rename (some x)) := by
  obtain ⟨k, v, hk, hsl, hrd, hR⟩ := fieldWrites_eq_some o m _ (effective_writes o pre _ m h)
  cases k <;> simp only [FieldKw.slot, reduceCtorEq] at hsl
  obtain ⟨a, ha, rfl⟩ := map_eq_ok hR
  obtain ⟨x, rfl⟩ := readOptString_some m a ha
  exact ⟨x, hk, hrd⟩

theorem held_default (o : Oracle) (pre : List Meta) (m : Meta) (h : effective o pre .default = some m) :
    ∃ x, fieldKw m = some .default ∧ fieldRead o m = some (.default x) := by
  obtain ⟨k, v, hk, hsl, hrd, hR⟩ := fieldWrites_eq_some o m _ (effective_writes o pre _ m h)
  cases k <;> simp only [FieldKw.slot, reduceCtorEq] at hsl
  obtain ⟨a, ha, rfl⟩ := map_eq_ok hR
  exact ⟨a, hk, hrd⟩

theorem held_with (o : Oracle) (pre : List Meta) (m : Meta) (h : effective o pre .with_ = some m) :
    ∃ x, fieldKw m = some .with_ ∧ fieldRead o m = some (.with_ x) := by
  obtain ⟨k, v, hk, hsl, hrd, hR⟩ := fieldWrites_eq_some o m _ (effective_writes o pre _ m h)
  cases k <;> simp only [FieldKw.slot, reduceCtorEq] at hsl
  obtain ⟨a, ha, rfl⟩ := map_eq_ok hR
  exact ⟨a, hk, hrd⟩

theorem held_skip (o : Oracle) (pre : List Meta) (m : Meta) (h : effective o pre .skip = some m) :
    ∃ x, fieldKw m = some .skip ∧ fieldRead o m = some (.skip (some x)) := by
  obtain ⟨k, v, hk, hsl, hrd, hR⟩ := fieldWrites_eq_some o m _ (effective_writes o pre _ m h)
  cases k <;> simp only [FieldKw.slot, reduceCtorEq] at hsl
  obtain ⟨a, ha, rfl⟩ := map_eq_ok hR
  obtain ⟨x, rfl⟩ := readOptSpannedBool_some m a ha
  exact ⟨x, hk, hrd⟩

theorem held_post (o : Oracle) (pre : List Meta) (m : Meta) (h : effective o pre .post = some m) :
    ∃ f, (fieldKw m = some .map ∨ fieldKw m = some .andThen) ∧ fieldRead o m = some (.post f) := by
  obtain ⟨k, v, hk, hsl, hrd, hR⟩ := fieldWrites_eq_some o m _ (effective_writes o pre _ m h)
  cases k <;> simp only [FieldKw.slot, reduceCtorEq] at hsl
  · obtain ⟨a, ha, rfl⟩ := map_eq_ok hR
    exact ⟨a, .inl hk, hrd⟩
  · obtain ⟨a, ha, rfl⟩ := map_eq_ok hR
    exact ⟨a, .inr hk, hrd⟩

theorem held_multiple (o : Oracle) (pre : List Meta) (m : Meta) (h : effective o pre .multiple = some m) :
    ∃ x, fieldKw m = some .multiple ∧ fieldRead o m = some (.multiple (some x)) := by
  obtain ⟨k, v, hk, hsl, hrd, hR⟩ := fieldWrites_eq_some o m _ (effective_writes o pre _ m h)
  cases k <;> simp only [FieldKw.slot, reduceCtorEq] at hsl
  obtain ⟨a, ha, rfl⟩ := map_eq_ok hR
  obtain ⟨x, rfl⟩ := readOptBool_some m a ha
  exact ⟨x, hk, hrd⟩

theorem held_flatten (o : Oracle) (pre : List Meta) (m : Meta) (h : effective o pre .flatten = some m) :
    ∃ x, fieldKw m = some .flatten ∧ fieldRead o m = some (.flatten (some x)) := by
  obtain ⟨k, v, hk, hsl, hrd, hR⟩ := fieldWrites_eq_some o m _ (effective_writes o pre _ m h)
  cases k <;> simp only [FieldKw.slot, reduceCtorEq] at hsl
  obtain ⟨a, ha, rfl⟩ := map_eq_ok hR
  obtain ⟨x, rfl⟩ := readFlag_some m a ha
  exact ⟨x, hk, hrd⟩

/-! the state, field by field -/

theorem state_attrName_isSome (o : Oracle) (pre : List Meta) :
    (fieldState o pre).attrName.isSome = (effective o pre .rename).isSome := by
  cases h : effective o pre .rename with
  | none => simp [fieldState, h]
  | some m => obtain ⟨x, _, hr⟩ := held_rename o pre m h; simp [fieldState, h, hr]

theorem state_dflt_isSome (o : Oracle) (pre : List Meta) :
    (fieldState o pre).dflt.isSome = (effective o pre .default).isSome := by
  cases h : effective o pre .default with
  | none => simp [fieldState, h]
  | some m => obtain ⟨x, _, hr⟩ := held_default o pre m h; simp [fieldState, h, hr]

theorem state_with_isSome (o : Oracle) (pre : List Meta) :
    (fieldState o pre).with_.isSome = (effective o pre .with_).isSome := by
  cases h : effective o pre .with_ with
  | none => simp [fieldState, h]
  | some m => obtain ⟨x, _, hr⟩ := held_with o pre m h; simp [fieldState, h, hr]

theorem state_skip_isSome (o : Oracle) (pre : List Meta) :
    (fieldState o pre).skip.isSome = (effective o pre .skip).isSome := by
  cases h : effective o pre .skip with
  | none => simp [fieldState, h]
  | some m => obtain ⟨x, _, hr⟩ := held_skip o pre m h; simp [fieldState, h, hr]

theorem state_multiple_isSome (o : Oracle) (pre : List Meta) :
    (fieldState o pre).multiple.isSome = (effective o pre .multiple).isSome := by
  cases h : effective o pre .multiple with
  | none => simp [fieldState, h]
  | some m => obtain ⟨x, _, hr⟩ := held_multiple o pre m h; simp [fieldState, h, hr]

theorem state_flatten_isSome (o : Oracle) (pre : List Meta) :
    (fieldState o pre).flatten.isSome = (effective o pre .flatten).isSome := by
  cases h : effective o pre .flatten with
  | none => simp [fieldState, h]
  | some m => obtain ⟨x, _, hr⟩ := held_flatten o pre m h; simp [fieldState, h, hr]

theorem state_skipTrue (o : Oracle) (pre : List Meta) :
    skipValTrue (fieldState o pre).skip = skipInForce o pre := by
  cases h : effective o pre .skip with
  | none => simp [fieldState, skipInForce, h, skipValTrue]
  | some m => obtain ⟨x, _, hr⟩ := held_skip o pre m h; simp [fieldState, skipInForce, h, hr]

theorem state_multipleTrue (o : Oracle) (pre : List Meta) :
    ((fieldState o pre).multiple == some true) = multipleInForce o pre := by
  cases h : effective o pre .multiple with
  | none => simp [fieldState, multipleInForce, h]
  | some m => obtain ⟨x, _, hr⟩ := held_multiple o pre m h; simp [fieldState, multipleInForce, h, hr]

theorem state_post (o : Oracle) (pre : List Meta) :
    (fieldState o pre).post = match effective o pre .post with
      | some m => (match fieldRead o m with
          | some (.post f) => some ⟨if fieldKw m = some .map then "map" else "and_then", f⟩
          | _ => none)
      | none => none := rfl

/-! the state after one more item -/

theorem fieldState_snoc_inert (o : Oracle) (pre : List Meta) (mi : Meta) (h : fieldWrites o mi = none) :
    fieldState o (pre ++ [mi]) = fieldState o pre := by
  simp [fieldState, effective_snoc, h]

theorem fieldState_snoc_held (o : Oracle) (pre : List Meta) (mi : Meta) (sl : FieldSlot) (h : fieldWrites o mi = some sl)
    (he : (effective o pre sl).isSome = true) : fieldState o (pre ++ [mi]) = fieldState o pre := by
  have key : ∀ sl', effective o (pre ++ [mi]) sl' = effective o pre sl' := by
    intro sl'
    rw [effective_snoc]
    by_cases hs : sl = sl'
    · subst hs
      obtain ⟨m, hm⟩ := Option.isSome_iff_exists.mp he
      simp [hm]
    · have : ¬ fieldWrites o mi = some sl' := by rw [h]; intro e; exact hs (Option.some.inj e)
      simp [this]
  simp only [fieldState, key]


def stepOf {σ : Type} (s : σ) : Option Err → StepR σ
  | none => .ok s
  | some e => .err s e

theorem bundleStep_eq {σ : Type} (s : σ) (l : List Err) : bundleStep s l = stepOf s (bundleOpt l) := by
  match l with
  | [] => rfl
  | [_] => rfl
  | _ :: _ :: _ => rfl

theorem map_eq_err {α β : Type} {x : Outcome α} {f : α → β} {e : Err} (h : x.map f = .err e) : x = .err e := by
  cases x with
  | ok a => cases h
  | err e' => simp only [Outcome.map] at h; cases h; rfl
  | panic p => cases h

theorem fieldRead_of_ok (o : Oracle) (mi : Meta) (k : FieldKw) (v : FieldVal) (hk : fieldKw mi = some k)
    (hr : fieldReadR o k mi = .ok v) : fieldRead o mi = some v ∧ fieldWrites o mi = some k.slot := by
  have h1 : fieldRead o mi = some v := by simp [fieldRead, hk, hr]
  exact ⟨h1, by simp [fieldWrites, hk, h1]⟩

theorem fieldRead_of_err (o : Oracle) (mi : Meta) (k : FieldKw) (e : Err) (hk : fieldKw mi = some k)
    (hr : fieldReadR o k mi = .err e) : fieldRead o mi = none ∧ fieldReadErr o mi = some e ∧ fieldWrites o mi = none := by
  have h1 : fieldRead o mi = none := by simp [fieldRead, hk, hr]
  exact ⟨h1, by simp [fieldReadErr, hk, hr], by simp [fieldWrites, hk, h1]⟩

/-- a repeat changes nothing and is reported as such -/
theorem repeat_case (o : Oracle) (pre : List Meta) (mi : Meta) (k : FieldKw) (holder : Meta) (hk : fieldKw mi = some k)
    (he : effective o pre k.slot = some holder) :
    fieldState o (pre ++ [mi]) = fieldState o pre ∧ fieldPush o pre mi = some (repeatErr k holder mi) := by
  refine ⟨?_, by simp [fieldPush, hk, he]⟩
  cases hR : fieldReadR o k mi with
  | ok v => exact fieldState_snoc_held o pre mi _ (fieldRead_of_ok o mi _ v hk hR).2 (by simp [he])
  | err e => exact fieldState_snoc_inert o pre mi (fieldRead_of_err o mi _ e hk hR).2.2
  | panic p => exact absurd hR (fieldReadR_returns o _ mi p)

/-- a failed read changes nothing and its error is the verdict -/
theorem failed_case (o : Oracle) (pre : List Meta) (mi : Meta) (k : FieldKw) (e : Err) (hk : fieldKw mi = some k)
    (he : effective o pre k.slot = none) (hR : fieldReadR o k mi = .err e) :
    fieldState o (pre ++ [mi]) = fieldState o pre ∧ fieldPush o pre mi = some e := by
  obtain ⟨h1, h2, h3⟩ := fieldRead_of_err o mi _ e hk hR
  exact ⟨fieldState_snoc_inert o pre mi h3, by simp [fieldPush, hk, he, h1, h2]⟩

theorem step_rename (o : Oracle) (pre : List Meta) (mi : Meta) (hk : fieldKw mi = some .rename) :
    fieldStep o (fieldState o pre) mi = stepOf (fieldState o (pre ++ [mi])) (fieldPush o pre mi) := by
  rw [fieldStep_rename o _ mi hk, state_attrName_isSome, state_flatten_isSome]
  cases he : effective o pre .rename with
  | some holder =>
      obtain ⟨h1, h2⟩ := repeat_case o pre mi _ holder hk he
      rw [h1, h2]; simp [repeatErr, stepOf]
  | none =>
      cases hR : fieldReadR o .rename mi with
      | ok v =>
        obtain ⟨h1, h2⟩ := fieldRead_of_ok o mi _ v hk hR
        obtain ⟨a, ha, rfl⟩ := map_eq_ok hR
        have hst : fieldState o (pre ++ [mi]) = { fieldState o pre with attrName := a } := by
          simp [fieldState, effective_snoc, h2, FieldKw.slot, he, h1]
        rw [hst]
        simp only [Option.isSome_none, Bool.false_eq_true, if_false, withRead, ha, fieldPush, hk, FieldKw.slot, he, h1, fieldConflict]
        split <;> rfl
      | err e =>
        obtain ⟨h1, h2⟩ := failed_case o pre mi _ e hk he hR
        rw [h1, h2]; simp [withRead, map_eq_err hR, stepOf]
      | panic p => exact absurd hR (fieldReadR_returns o _ mi p)

theorem step_default (o : Oracle) (pre : List Meta) (mi : Meta) (hk : fieldKw mi = some .default) :
    fieldStep o (fieldState o pre) mi = stepOf (fieldState o (pre ++ [mi])) (fieldPush o pre mi) := by
  rw [fieldStep_default o _ mi hk, state_dflt_isSome]
  cases he : effective o pre .default with
  | some holder =>
      obtain ⟨h1, h2⟩ := repeat_case o pre mi _ holder hk he
      rw [h1, h2]; simp [repeatErr, stepOf]
  | none =>
      cases hR : fieldReadR o .default mi with
      | ok v =>
        obtain ⟨h1, h2⟩ := fieldRead_of_ok o mi _ v hk hR
        obtain ⟨a, ha, rfl⟩ := map_eq_ok hR
        have hst : fieldState o (pre ++ [mi]) = { fieldState o pre with dflt := some a } := by
          simp [fieldState, effective_snoc, h2, FieldKw.slot, he, h1]
        rw [hst]
        simp only [Option.isSome_none, Bool.false_eq_true, if_false, withRead, ha, fieldPush, hk, FieldKw.slot, he, h1, fieldConflict]
        rfl
      | err e =>
        obtain ⟨h1, h2⟩ := failed_case o pre mi _ e hk he hR
        rw [h1, h2]; simp [withRead, map_eq_err hR, stepOf]
      | panic p => exact absurd hR (fieldReadR_returns o _ mi p)

theorem step_with (o : Oracle) (pre : List Meta) (mi : Meta) (hk : fieldKw mi = some .with_) :
    fieldStep o (fieldState o pre) mi = stepOf (fieldState o (pre ++ [mi])) (fieldPush o pre mi) := by
  rw [fieldStep_with o _ mi hk, state_with_isSome, state_flatten_isSome]
  cases he : effective o pre .with_ with
  | some holder =>
      obtain ⟨h1, h2⟩ := repeat_case o pre mi _ holder hk he
      rw [h1, h2]; simp [repeatErr, stepOf]
  | none =>
      cases hR : fieldReadR o .with_ mi with
      | ok v =>
        obtain ⟨h1, h2⟩ := fieldRead_of_ok o mi _ v hk hR
        obtain ⟨a, ha, rfl⟩ := map_eq_ok hR
        have hst : fieldState o (pre ++ [mi]) = { fieldState o pre with with_ := some a } := by
          simp [fieldState, effective_snoc, h2, FieldKw.slot, he, h1]
        rw [hst]
        simp only [Option.isSome_none, Bool.false_eq_true, if_false, withRead, ha, fieldPush, hk, FieldKw.slot, he, h1, fieldConflict]
        split <;> rfl
      | err e =>
        obtain ⟨h1, h2⟩ := failed_case o pre mi _ e hk he hR
        rw [h1, h2]; simp [withRead, map_eq_err hR, stepOf]
      | panic p => exact absurd hR (fieldReadR_returns o _ mi p)

theorem step_skip (o : Oracle) (pre : List Meta) (mi : Meta) (hk : fieldKw mi = some .skip) :
    fieldStep o (fieldState o pre) mi = stepOf (fieldState o (pre ++ [mi])) (fieldPush o pre mi) := by
  rw [fieldStep_skip o _ mi hk, state_skip_isSome, state_flatten_isSome]
  cases he : effective o pre .skip with
  | some holder =>
      obtain ⟨h1, h2⟩ := repeat_case o pre mi _ holder hk he
      rw [h1, h2]; simp [repeatErr, stepOf]
  | none =>
      cases hR : fieldReadR o .skip mi with
      | ok v =>
        obtain ⟨h1, h2⟩ := fieldRead_of_ok o mi _ v hk hR
        obtain ⟨a, ha, rfl⟩ := map_eq_ok hR
        have hst : fieldState o (pre ++ [mi]) = { fieldState o pre with skip := a } := by
          simp [fieldState, effective_snoc, h2, FieldKw.slot, he, h1]
        rw [hst]
        simp only [Option.isSome_none, Bool.false_eq_true, if_false, withRead, ha, fieldPush, hk, FieldKw.slot, he, h1, fieldConflict]
        split <;> rfl
      | err e =>
        obtain ⟨h1, h2⟩ := failed_case o pre mi _ e hk he hR
        rw [h1, h2]; simp [withRead, map_eq_err hR, stepOf]
      | panic p => exact absurd hR (fieldReadR_returns o _ mi p)

theorem step_multiple (o : Oracle) (pre : List Meta) (mi : Meta) (hk : fieldKw mi = some .multiple) :
    fieldStep o (fieldState o pre) mi = stepOf (fieldState o (pre ++ [mi])) (fieldPush o pre mi) := by
  rw [fieldStep_multiple o _ mi hk, state_multiple_isSome, state_flatten_isSome]
  cases he : effective o pre .multiple with
  | some holder =>
      obtain ⟨h1, h2⟩ := repeat_case o pre mi _ holder hk he
      rw [h1, h2]; simp [repeatErr, stepOf]
  | none =>
      cases hR : fieldReadR o .multiple mi with
      | ok v =>
        obtain ⟨h1, h2⟩ := fieldRead_of_ok o mi _ v hk hR
        obtain ⟨a, ha, rfl⟩ := map_eq_ok hR
        have hst : fieldState o (pre ++ [mi]) = { fieldState o pre with multiple := a } := by
          simp [fieldState, effective_snoc, h2, FieldKw.slot, he, h1]
        rw [hst]
        simp only [Option.isSome_none, Bool.false_eq_true, if_false, withRead, ha, fieldPush, hk, FieldKw.slot, he, h1, fieldConflict]
        split <;> rfl
      | err e =>
        obtain ⟨h1, h2⟩ := failed_case o pre mi _ e hk he hR
        rw [h1, h2]; simp [withRead, map_eq_err hR, stepOf]
      | panic p => exact absurd hR (fieldReadR_returns o _ mi p)

theorem step_flatten (o : Oracle) (pre : List Meta) (mi : Meta) (hk : fieldKw mi = some .flatten) :
    fieldStep o (fieldState o pre) mi = stepOf (fieldState o (pre ++ [mi])) (fieldPush o pre mi) := by
  rw [fieldStep_flatten o _ mi hk, state_flatten_isSome, state_attrName_isSome, state_with_isSome, state_skipTrue,
    state_multipleTrue]
  cases he : effective o pre .flatten with
  | some holder =>
      obtain ⟨h1, h2⟩ := repeat_case o pre mi _ holder hk he
      rw [h1, h2]; simp [repeatErr, stepOf]
  | none =>
      cases hR : fieldReadR o .flatten mi with
      | ok v =>
        obtain ⟨h1, h2⟩ := fieldRead_of_ok o mi _ v hk hR
        obtain ⟨a, ha, rfl⟩ := map_eq_ok hR
        have hst : fieldState o (pre ++ [mi]) = { fieldState o pre with flatten := a } := by
          simp [fieldState, effective_snoc, h2, FieldKw.slot, he, h1]
        rw [hst]
        simp only [Option.isSome_none, Bool.false_eq_true, if_false, withRead, ha, fieldPush, hk, FieldKw.slot, he, h1,
          fieldConflict, bundleStep_eq, flattenConflicts]
      | err e =>
        obtain ⟨h1, h2⟩ := failed_case o pre mi _ e hk he hR
        rw [h1, h2]; simp [withRead, map_eq_err hR, stepOf]
      | panic p => exact absurd hR (fieldReadR_returns o _ mi p)


theorem state_post_none (o : Oracle) (pre : List Meta) (he : effective o pre .post = none) :
    (fieldState o pre).post = none := by simp [fieldState, he]

theorem step_map (o : Oracle) (pre : List Meta) (mi : Meta) (hk : fieldKw mi = some .map) :
    fieldStep o (fieldState o pre) mi = stepOf (fieldState o (pre ++ [mi])) (fieldPush o pre mi) := by
  rw [fieldStep_map o _ mi hk]
  cases he : effective o pre .post with
  | some holder =>
      obtain ⟨h1, h2⟩ := repeat_case o pre mi _ holder hk he
      rw [h1, h2]
      obtain ⟨f, hkw, hrd⟩ := held_post o pre holder he
      have hp : (fieldState o pre).post = some ⟨if fieldKw holder = some .map then "map" else "and_then", f⟩ := by
        simp [fieldState, he, hrd]
      rw [hp]
      rcases hkw with hkw | hkw <;> simp [hkw, repeatErr, stepOf]
  | none =>
      rw [state_post_none o pre he]
      cases hR : fieldReadR o .map mi with
      | ok v =>
        obtain ⟨h1, h2⟩ := fieldRead_of_ok o mi _ v hk hR
        obtain ⟨a, ha, rfl⟩ := map_eq_ok hR
        have hst : fieldState o (pre ++ [mi]) = { fieldState o pre with post := some ⟨"map", a⟩ } := by
          simp [fieldState, effective_snoc, h2, FieldKw.slot, he, h1, hk]
        rw [hst]
        simp only [withRead, ha, fieldPush, hk, FieldKw.slot, he, h1, fieldConflict]
        rfl
      | err e =>
        obtain ⟨h1, h2⟩ := failed_case o pre mi _ e hk he hR
        rw [h1, h2]; simp [withRead, map_eq_err hR, stepOf]
      | panic p => exact absurd hR (fieldReadR_returns o _ mi p)

theorem step_andThen (o : Oracle) (pre : List Meta) (mi : Meta) (hk : fieldKw mi = some .andThen) :
    fieldStep o (fieldState o pre) mi = stepOf (fieldState o (pre ++ [mi])) (fieldPush o pre mi) := by
  rw [fieldStep_andThen o _ mi hk]
  cases he : effective o pre .post with
  | some holder =>
      obtain ⟨h1, h2⟩ := repeat_case o pre mi _ holder hk he
      rw [h1, h2]
      obtain ⟨f, hkw, hrd⟩ := held_post o pre holder he
      have hp : (fieldState o pre).post = some ⟨if fieldKw holder = some .map then "map" else "and_then", f⟩ := by
        simp [fieldState, he, hrd]
      rw [hp]
      rcases hkw with hkw | hkw <;> simp [hkw, repeatErr, stepOf]
  | none =>
      rw [state_post_none o pre he]
      cases hR : fieldReadR o .andThen mi with
      | ok v =>
        obtain ⟨h1, h2⟩ := fieldRead_of_ok o mi _ v hk hR
        obtain ⟨a, ha, rfl⟩ := map_eq_ok hR
        have hst : fieldState o (pre ++ [mi]) = { fieldState o pre with post := some ⟨"and_then", a⟩ } := by
          simp [fieldState, effective_snoc, h2, FieldKw.slot, he, h1, hk]
        rw [hst]
        simp only [withRead, ha, fieldPush, hk, FieldKw.slot, he, h1, fieldConflict]
        rfl
      | err e =>
        obtain ⟨h1, h2⟩ := failed_case o pre mi _ e hk he hR
        rw [h1, h2]; simp [withRead, map_eq_err hR, stepOf]
      | panic p => exact absurd hR (fieldReadR_returns o _ mi p)

/-- **one step of `InputField::parse_nested` is the positional verdict** -/
theorem fieldStep_spec (o : Oracle) (pre : List Meta) (mi : Meta) :
    fieldStep o (fieldState o pre) mi = stepOf (fieldState o (pre ++ [mi])) (fieldPush o pre mi) := by
  cases hk : fieldKw mi with
  | none =>
      rw [fieldStep_unknown o _ mi hk, fieldState_snoc_inert o pre mi (by simp [fieldWrites, hk])]
      simp [fieldPush, hk, stepOf]
  | some k =>
      cases k
      · exact step_rename o pre mi hk
      · exact step_default o pre mi hk
      · exact step_with o pre mi hk
      · exact step_skip o pre mi hk
      · exact step_map o pre mi hk
      · exact step_andThen o pre mi hk
      · exact step_multiple o pre mi hk
      · exact step_flatten o pre mi hk


/-! ## a whole attribute -/

/-- the items proper of a list (bare literals are not options) -/
def metasOf : List NestedMeta → List Meta
  | [] => []
  | .item m :: r => m :: metasOf r
  | .lit _ :: r => metasOf r

/-- `Error::unsupported_format("literal").with_span(lit)` -/
def litErr (l : Lit) : Err := (Err.unsupportedFormat "literal").withSpan l.span

/-- the verdict on one element of the list, given the items before it -/
def verdictN (push : List Meta → Meta → Option Err) (pre : List Meta) : NestedMeta → List Err
  | .item mi => (push pre mi).toList
  | .lit l => [litErr l]

/-- all verdicts, in source order -/
def verdicts (push : List Meta → Meta → Option Err) : List Meta → List NestedMeta → List Err
  | _, [] => []
  | pre, it :: rest => verdictN push pre it ++ verdicts push (pre ++ metasOf [it]) rest

theorem metasOf_append (a b : List NestedMeta) : metasOf (a ++ b) = metasOf a ++ metasOf b := by
  induction a with
  | nil => rfl
  | cons x r ih => cases x <;> simp [metasOf, ih]

/-- a step function that agrees with a positional description, folded over a list -/
theorem parseAttrItems_spec {σ : Type} (step : σ → Meta → StepR σ) (state : List Meta → σ)
    (push : List Meta → Meta → Option Err)
    (h : ∀ pre mi, step (state pre) mi = stepOf (state (pre ++ [mi])) (push pre mi)) :
    ∀ (items : List NestedMeta) (pre : List Meta) (errs0 : List Err),
      parseAttrItems step (state pre) errs0 items
        = .ok (state (pre ++ metasOf items), errs0 ++ verdicts push pre items) := by
  intro items
  induction items with
  | nil => intro pre errs0; simp [parseAttrItems, metasOf, verdicts]
  | cons it rest ih =>
      intro pre errs0
      cases it with
      | lit l =>
          simp only [parseAttrItems, metasOf, verdicts, verdictN, List.append_nil]
          rw [ih pre]
          simp [litErr]
      | item mi =>
          simp only [parseAttrItems, h pre mi]
          cases hp : push pre mi with
          | none =>
              simp only [stepOf]
              rw [ih (pre ++ [mi])]
              simp [metasOf, verdicts, verdictN, hp]
          | some e =>
              simp only [stepOf]
              rw [ih (pre ++ [mi])]
              simp [metasOf, verdicts, verdictN, hp]

theorem verdicts_nil_iff (push : List Meta → Meta → Option Err) (items : List NestedMeta) :
    ∀ pre, verdicts push pre items = [] ↔
      ∀ a it b, items = a ++ it :: b → verdictN push (pre ++ metasOf a) it = [] := by
  induction items with
  | nil => intro pre; simp [verdicts]
  | cons x rest ih =>
      intro pre
      simp only [verdicts, List.append_eq_nil_iff, ih]
      constructor
      · rintro ⟨h1, h2⟩ a it b hab
        cases a with
        | nil => simp only [List.nil_append, List.cons.injEq] at hab; obtain ⟨rfl, rfl⟩ := hab; simpa [metasOf] using h1
        | cons y a' =>
            simp only [List.cons_append, List.cons.injEq] at hab
            obtain ⟨rfl, rfl⟩ := hab
            have := h2 a' it b rfl
            have e : metasOf (x :: a') = metasOf [x] ++ metasOf a' := metasOf_append [x] a'
            rw [e, ← List.append_assoc]; exact this
      · intro h
        refine ⟨by simpa [metasOf] using h [] x rest rfl, ?_⟩
        intro a it b hab
        have := h (x :: a) it b (by rw [hab]; rfl)
        have e : metasOf (x :: a) = metasOf [x] ++ metasOf a := metasOf_append [x] a
        rw [e, ← List.append_assoc] at this; exact this


/-! ## field options: the theorems -/

/-- the verdict on one element of a field attribute's list -/
def fieldVerdictN (o : Oracle) (pre : List Meta) (it : NestedMeta) : List Err := verdictN (fieldPush o) pre it
/-- all verdicts of a field attribute's list, after the items `pre` of earlier attributes -/
def fieldVerdicts (o : Oracle) (pre : List Meta) (items : List NestedMeta) : List Err := verdicts (fieldPush o) pre items

theorem fieldVerdictN_item (o : Oracle) (pre : List Meta) (mi : Meta) :
    fieldVerdictN o pre (.item mi) = fieldVerdict o pre mi := rfl
theorem fieldVerdictN_lit (o : Oracle) (pre : List Meta) (l : Lit) :
    fieldVerdictN o pre (.lit l) = [(Err.unsupportedFormat "literal").withSpan l.span] := rfl

/-- no option read yet -/
structure FieldFresh (s : FieldOpts) : Prop where
  attrName : s.attrName = none
  dflt : s.dflt = none
  with_ : s.with_ = none
  skip : s.skip = none
  post : s.post = none
  multiple : s.multiple = none
  flatten : s.flatten = none

example : FieldFresh ({} : FieldOpts) := ⟨rfl, rfl, rfl, rfl, rfl, rfl, rfl⟩

theorem fieldState_nil (o : Oracle) : fieldState o [] = {} := rfl

theorem FieldFresh.eq_state (o : Oracle) {s : FieldOpts} (h : FieldFresh s) : s = fieldState o [] := by
  obtain ⟨h1, h2, h3, h4, h5, h6, h7⟩ := h
  cases s
  simp only at h1 h2 h3 h4 h5 h6 h7
  subst h1 h2 h3 h4 h5 h6 h7
  rfl

/-- the chain over the items of one attribute, continuing after the items `pre` already read -/
theorem fieldItems_spec_from (o : Oracle) (pre : List Meta) (errs0 : List Err) (items : List NestedMeta) :
    parseAttrItems (fieldStep o) (fieldState o pre) errs0 items
      = .ok (fieldState o (pre ++ metasOf items), errs0 ++ fieldVerdicts o pre items) :=
  parseAttrItems_spec (fieldStep o) (fieldState o) (fieldPush o) (fieldStep_spec o) items pre errs0

/-- **the field option chain computes exactly the positional verdicts**, for every item list -/
theorem fieldItems_spec (o : Oracle) (s0 : FieldOpts) (hs : FieldFresh s0) (errs0 : List Err) (items : List NestedMeta) :
    parseAttrItems (fieldStep o) s0 errs0 items
      = .ok (fieldState o (metasOf items), errs0 ++ fieldVerdicts o [] items) := by
  rw [hs.eq_state o]
  simpa using fieldItems_spec_from o [] errs0 items

/-- what an empty verdict says -/
theorem fieldVerdict_nil_iff (o : Oracle) (pre : List Meta) (mi : Meta) :
    fieldVerdict o pre mi = [] ↔
      ∃ k v, fieldKw mi = some k ∧ fieldRead o mi = some v ∧ effective o pre k.slot = none
        ∧ fieldConflict o pre mi v = none := by
  unfold fieldVerdict fieldPush
  cases hk : fieldKw mi with
  | none => simp
  | some k =>
      cases he : effective o pre k.slot with
      | some m => simp [he]
      | none =>
          cases hr : fieldRead o mi with
          | some v => simp [he]
          | none =>
              simp only [he]
              cases hR : fieldReadR o k mi with
              | ok v => simp [fieldRead, hk, hR] at hr
              | err e => simp [fieldReadErr, hk, hR]
              | panic p => exact absurd hR (fieldReadR_returns o _ mi p)

theorem fieldVerdictN_nil_iff (o : Oracle) (pre : List Meta) (it : NestedMeta) :
    fieldVerdictN o pre it = [] ↔
      ∃ mi k v, it = .item mi ∧ fieldKw mi = some k ∧ fieldRead o mi = some v ∧ effective o pre k.slot = none
        ∧ fieldConflict o pre mi v = none := by
  cases it with
  | lit l => simp [fieldVerdictN, verdictN]
  | item mi =>
      rw [fieldVerdictN_item, fieldVerdict_nil_iff]
      simp

/-- **accepted ⟺ every item's verdict is empty ⟺ (spelled out) every element is an item with a known
    option and a well-formed value, that does not repeat and does not collide with an effective
    earlier option** -/
theorem field_accepts_iff (o : Oracle) (s0 : FieldOpts) (hs : FieldFresh s0) (items : List NestedMeta) :
    ((∃ s, parseAttrItems (fieldStep o) s0 [] items = .ok (s, [])) ↔
      ∀ a it b, items = a ++ it :: b → fieldVerdictN o (metasOf a) it = []) ∧
    ((∀ a it b, items = a ++ it :: b → fieldVerdictN o (metasOf a) it = []) ↔
      ∀ a it b, items = a ++ it :: b →
        ∃ mi k v, it = .item mi ∧ fieldKw mi = some k ∧ fieldRead o mi = some v
          ∧ effective o (metasOf a) k.slot = none ∧ fieldConflict o (metasOf a) mi v = none) := by
  constructor
  · rw [fieldItems_spec o s0 hs [] items]
    have := verdicts_nil_iff (fieldPush o) items []
    simp only [List.nil_append] at this
    simp only [Except.ok.injEq, Prod.mk.injEq, List.nil_append, exists_eq_left', fieldVerdictN]
    exact this
  · simp only [fieldVerdictN_nil_iff]


/-! ## variant options -/

inductive VariantKw where
  | rename | skip | word
  deriving DecidableEq, Repr

def VariantKw.name : VariantKw → String
  | .rename => "rename" | .skip => "skip" | .word => "word"

/-- which option an item spells (same tests, same order as `InputVariant::parse_nested`) -/
def variantKw (mi : Meta) : Option VariantKw :=
  if mi.path'.isIdent "rename" then some .rename
  else if mi.path'.isIdent "skip" then some .skip
  else if mi.path'.isIdent "word" then some .word
  else none

inductive VariantVal where
  | rename (v : Option String)
  | skip (v : Option Bool)
  | word (v : Option (Bool × Option Span))

def variantReadR (k : VariantKw) (mi : Meta) : Outcome VariantVal :=
  match k with
  | .rename => (readOptString mi).map .rename
  | .skip => (readOptBool mi).map .skip
  | .word => (readOptSpannedBool mi).map .word

def variantRead (mi : Meta) : Option VariantVal :=
  match variantKw mi with
  | some k => (match variantReadR k mi with | .ok v => some v | _ => none)
  | none => none

def variantReadErr (mi : Meta) : Option Err :=
  match variantKw mi with
  | some k => (match variantReadR k mi with | .err e => some e | _ => none)
  | none => none

/-- `word` on a variant that has fields -/
def wordErr (mi : Meta) : Err :=
  (Err.custom "Unexpected field: `word`. `#[darling(word)]` can only be applied to a unit variant").withSpan mi.span

/-- the option an item sets when it is the first to reach it: known option, successful read — and
    `word` only on a unit variant (elsewhere it is refused before it is read) -/
def variantWrites (isUnit : Bool) (mi : Meta) : Option VariantKw :=
  match variantKw mi with
  | some k => if (k = .word ∧ isUnit = false) then none else if (variantRead mi).isSome then some k else none
  | none => none

/-- the effective earlier occurrence of option `k` -/
def vEffective (isUnit : Bool) (pre : List Meta) (k : VariantKw) : Option Meta :=
  pre.find? (fun m => variantWrites isUnit m == some k)

/-- the one error (if any) item `mi` pushes, given the items `pre` before it: unknown option;
    repeat; `word` where the variant is not a unit; the reader's complaint -/
def variantPush (isUnit : Bool) (pre : List Meta) (mi : Meta) : Option Err :=
  match variantKw mi with
  | none => some (unknownErr mi)
  | some k =>
      match vEffective isUnit pre k with
      | some _ => some (dupErr mi)
      | none =>
          if k = .word ∧ isUnit = false then some (wordErr mi) else
          match variantRead mi with
          | some _ => none
          | none => variantReadErr mi

/-- **the verdict on one item** -/
def variantVerdict (isUnit : Bool) (pre : List Meta) (mi : Meta) : List Err := (variantPush isUnit pre mi).toList

/-- the options in force after `pre` -/
def variantState (isUnit : Bool) (pre : List Meta) : VariantOpts :=
  { attrName := match (vEffective isUnit pre .rename).bind variantRead with | some (.rename v) => v | _ => none
    skip := match (vEffective isUnit pre .skip).bind variantRead with | some (.skip v) => v | _ => none
    word := match (vEffective isUnit pre .word).bind variantRead with | some (.word v) => v | _ => none }

def variantVerdictN (isUnit : Bool) (pre : List Meta) (it : NestedMeta) : List Err := verdictN (variantPush isUnit) pre it
def variantVerdicts (isUnit : Bool) (pre : List Meta) (items : List NestedMeta) : List Err :=
  verdicts (variantPush isUnit) pre items

/-! ### the keyword tests and `parse_nested`, one option at a time -/

theorem getIdent_of_variantKw (mi : Meta) (k : VariantKw) (h : variantKw mi = some k) : mi.path'.getIdent = some k.name := by
  unfold variantKw at h
  simp only [Path.isIdent, beq_iff_eq] at h
  repeat' split at h
  all_goals first | (cases h; assumption) | cases h

theorem variantKw_of_getIdent (mi : Meta) (k : VariantKw) (h : mi.path'.getIdent = some k.name) : variantKw mi = some k := by
  cases k <;> simp [variantKw, Path.isIdent, h, VariantKw.name]

theorem variantKw_names : [VariantKw.rename, .skip, .word].map VariantKw.name = variantKeywords := rfl

theorem variantStep_unknown (isUnit : Bool) (s : VariantOpts) (mi : Meta) (h : variantKw mi = none) :
    variantStep isUnit s mi = .err s (unknownErr mi) := by
  unfold variantKw at h
  repeat' split at h
  all_goals first | cases h | skip
  simp [variantStep, *]

theorem variantStep_rename (isUnit : Bool) (s : VariantOpts) (mi : Meta) (h : variantKw mi = some .rename) :
    variantStep isUnit s mi =
      if s.attrName.isSome then .err s (dupErr mi) else
      withRead s (readOptString mi) fun v => .ok { s with attrName := v } := by
  have hg := getIdent_of_variantKw mi _ h
  simp [variantStep, Path.isIdent, hg, VariantKw.name]

theorem variantStep_skip (isUnit : Bool) (s : VariantOpts) (mi : Meta) (h : variantKw mi = some .skip) :
    variantStep isUnit s mi =
      if s.skip.isSome then .err s (dupErr mi) else
      withRead s (readOptBool mi) fun v => .ok { s with skip := v } := by
  have hg := getIdent_of_variantKw mi _ h
  simp [variantStep, Path.isIdent, hg, VariantKw.name]

theorem variantStep_word (isUnit : Bool) (s : VariantOpts) (mi : Meta) (h : variantKw mi = some .word) :
    variantStep isUnit s mi =
      if s.word.isSome then .err s (dupErr mi) else
      if isUnit = false then .err s (wordErr mi) else
      withRead s (readOptSpannedBool mi) fun v => .ok { s with word := v } := by
  have hg := getIdent_of_variantKw mi _ h
  simp [variantStep, Path.isIdent, hg, VariantKw.name, wordErr]

theorem variantReadR_returns (k : VariantKw) (mi : Meta) : (variantReadR k mi).Returns := by
  cases k <;> simp only [variantReadR]
  · exact (C06.readOptString_returns mi).map _
  · exact (C06.readOptBool_returns mi).map _
  · exact (C06.readOptSpannedBool_returns mi).map _

/-! ### the effective occurrence and the state -/

theorem vEffective_snoc (isUnit : Bool) (pre : List Meta) (mi : Meta) (k : VariantKw) :
    vEffective isUnit (pre ++ [mi]) k
      = (vEffective isUnit pre k).or (if variantWrites isUnit mi = some k then some mi else none) := by
  simp only [vEffective, List.find?_append, List.find?_cons, List.find?_nil]
  congr 1
  by_cases h : variantWrites isUnit mi = some k
  · simp [h]
  · have : (variantWrites isUnit mi == some k) = false := by simpa using h
    simp [h, this]

theorem vEffective_writes (isUnit : Bool) (pre : List Meta) (k : VariantKw) (m : Meta) (h : vEffective isUnit pre k = some m) :
    variantWrites isUnit m = some k := by
  have := List.find?_some h
  simpa using this

theorem variantWrites_eq_some (isUnit : Bool) (m : Meta) (k : VariantKw) (h : variantWrites isUnit m = some k) :
    ∃ v, variantKw m = some k ∧ variantRead m = some v ∧ variantReadR k m = .ok v ∧ ¬ (k = .word ∧ isUnit = false) := by
  unfold variantWrites at h
  cases hk : variantKw m with
  | none => rw [hk] at h; cases h
  | some k' =>
      rw [hk] at h
      simp only [] at h
      split at h
      · cases h
      · rename_i hw
        cases hr : variantRead m with
        | none => rw [hr] at h; cases h
        | some v =>
            rw [hr] at h
            simp only [Option.isSome_some, if_true, Option.some.injEq] at h
            subst h
            refine ⟨v, rfl, rfl, ?_, hw⟩
            unfold variantRead at hr
            rw [hk] at hr
            simp only [] at hr
            split at hr
            · cases hr; assumption
            · cases hr

theorem vheld_rename (isUnit : Bool) (pre : List Meta) (m : Meta) (h : vEffective isUnit pre .rename = some m) :
    ∃ x, variantRead m = some (.rename (some x)) := by
  obtain ⟨v, hk, hrd, hR, _⟩ := variantWrites_eq_some isUnit m _ (vEffective_writes isUnit pre _ m h)
  obtain ⟨a, ha, rfl⟩ := map_eq_ok hR
  obtain ⟨x, rfl⟩ := readOptString_some m a ha
  exact ⟨x, hrd⟩

theorem vheld_skip (isUnit : Bool) (pre : List Meta) (m : Meta) (h : vEffective isUnit pre .skip = some m) :
    ∃ x, variantRead m = some (.skip (some x)) := by
  obtain ⟨v, hk, hrd, hR, _⟩ := variantWrites_eq_some isUnit m _ (vEffective_writes isUnit pre _ m h)
  obtain ⟨a, ha, rfl⟩ := map_eq_ok hR
  obtain ⟨x, rfl⟩ := readOptBool_some m a ha
  exact ⟨x, hrd⟩

theorem vheld_word (isUnit : Bool) (pre : List Meta) (m : Meta) (h : vEffective isUnit pre .word = some m) :
    ∃ x, variantRead m = some (.word (some x)) := by
  obtain ⟨v, hk, hrd, hR, _⟩ := variantWrites_eq_some isUnit m _ (vEffective_writes isUnit pre _ m h)
  obtain ⟨a, ha, rfl⟩ := map_eq_ok hR
  obtain ⟨x, rfl⟩ := readOptSpannedBool_some m a ha
  exact ⟨x, hrd⟩

theorem vstate_attrName_isSome (isUnit : Bool) (pre : List Meta) :
    (variantState isUnit pre).attrName.isSome = (vEffective isUnit pre .rename).isSome := by
  cases h : vEffective isUnit pre .rename with
  | none => simp [variantState, h]
  | some m => obtain ⟨x, hr⟩ := vheld_rename isUnit pre m h; simp [variantState, h, hr]

theorem vstate_skip_isSome (isUnit : Bool) (pre : List Meta) :
    (variantState isUnit pre).skip.isSome = (vEffective isUnit pre .skip).isSome := by
  cases h : vEffective isUnit pre .skip with
  | none => simp [variantState, h]
  | some m => obtain ⟨x, hr⟩ := vheld_skip isUnit pre m h; simp [variantState, h, hr]

theorem vstate_word_isSome (isUnit : Bool) (pre : List Meta) :
    (variantState isUnit pre).word.isSome = (vEffective isUnit pre .word).isSome := by
  cases h : vEffective isUnit pre .word with
  | none => simp [variantState, h]
  | some m => obtain ⟨x, hr⟩ := vheld_word isUnit pre m h; simp [variantState, h, hr]

theorem variantState_snoc_inert (isUnit : Bool) (pre : List Meta) (mi : Meta) (h : variantWrites isUnit mi = none) :
    variantState isUnit (pre ++ [mi]) = variantState isUnit pre := by
  simp [variantState, vEffective_snoc, h]

theorem variantState_snoc_held (isUnit : Bool) (pre : List Meta) (mi : Meta) (k : VariantKw)
    (h : variantWrites isUnit mi = some k) (he : (vEffective isUnit pre k).isSome = true) :
    variantState isUnit (pre ++ [mi]) = variantState isUnit pre := by
  have key : ∀ k', vEffective isUnit (pre ++ [mi]) k' = vEffective isUnit pre k' := by
    intro k'
    rw [vEffective_snoc]
    by_cases hs : k = k'
    · subst hs
      obtain ⟨m, hm⟩ := Option.isSome_iff_exists.mp he
      simp [hm]
    · have : ¬ variantWrites isUnit mi = some k' := by rw [h]; intro e; exact hs (Option.some.inj e)
      simp [this]
  simp only [variantState, key]

theorem variantWrites_cases (isUnit : Bool) (mi : Meta) (k : VariantKw) (hk : variantKw mi = some k) :
    variantWrites isUnit mi = none ∨ variantWrites isUnit mi = some k := by
  unfold variantWrites
  rw [hk]
  simp only []
  split
  · exact .inl rfl
  · split
    · exact .inr rfl
    · exact .inl rfl

theorem vrepeat_case (isUnit : Bool) (pre : List Meta) (mi : Meta) (k : VariantKw) (holder : Meta)
    (hk : variantKw mi = some k) (he : vEffective isUnit pre k = some holder) :
    variantState isUnit (pre ++ [mi]) = variantState isUnit pre ∧ variantPush isUnit pre mi = some (dupErr mi) := by
  refine ⟨?_, by simp [variantPush, hk, he]⟩
  rcases variantWrites_cases isUnit mi k hk with h | h
  · exact variantState_snoc_inert isUnit pre mi h
  · exact variantState_snoc_held isUnit pre mi k h (by simp [he])

theorem variantRead_of_ok (mi : Meta) (k : VariantKw) (v : VariantVal) (hk : variantKw mi = some k)
    (hr : variantReadR k mi = .ok v) : variantRead mi = some v := by simp [variantRead, hk, hr]

theorem variantRead_of_err (isUnit : Bool) (mi : Meta) (k : VariantKw) (e : Err) (hk : variantKw mi = some k)
    (hr : variantReadR k mi = .err e) :
    variantRead mi = none ∧ variantReadErr mi = some e ∧ variantWrites isUnit mi = none := by
  have h1 : variantRead mi = none := by simp [variantRead, hk, hr]
  exact ⟨h1, by simp [variantReadErr, hk, hr], by simp [variantWrites, hk, h1]⟩

theorem vstep_rename (isUnit : Bool) (pre : List Meta) (mi : Meta) (hk : variantKw mi = some .rename) :
    variantStep isUnit (variantState isUnit pre) mi
      = stepOf (variantState isUnit (pre ++ [mi])) (variantPush isUnit pre mi) := by
  rw [variantStep_rename isUnit _ mi hk, vstate_attrName_isSome]
  cases he : vEffective isUnit pre .rename with
  | some holder =>
      obtain ⟨h1, h2⟩ := vrepeat_case isUnit pre mi _ holder hk he
      rw [h1, h2]; simp [stepOf]
  | none =>
      cases hR : variantReadR .rename mi with
      | ok v =>
        have h1 := variantRead_of_ok mi _ v hk hR
        have h2 : variantWrites isUnit mi = some .rename := by simp [variantWrites, hk, h1]
        obtain ⟨a, ha, rfl⟩ := map_eq_ok hR
        have hst : variantState isUnit (pre ++ [mi]) = { variantState isUnit pre with attrName := a } := by
          simp [variantState, vEffective_snoc, h2, he, h1]
        rw [hst]
        simp [withRead, ha, variantPush, hk, he, h1, stepOf]
      | err e =>
        obtain ⟨h1, h2, h3⟩ := variantRead_of_err isUnit mi _ e hk hR
        rw [variantState_snoc_inert isUnit pre mi h3]
        simp [withRead, map_eq_err hR, variantPush, hk, he, h1, h2, stepOf]
      | panic p => exact absurd hR (variantReadR_returns _ mi p)

theorem vstep_skip (isUnit : Bool) (pre : List Meta) (mi : Meta) (hk : variantKw mi = some .skip) :
    variantStep isUnit (variantState isUnit pre) mi
      = stepOf (variantState isUnit (pre ++ [mi])) (variantPush isUnit pre mi) := by
  rw [variantStep_skip isUnit _ mi hk, vstate_skip_isSome]
  cases he : vEffective isUnit pre .skip with
  | some holder =>
      obtain ⟨h1, h2⟩ := vrepeat_case isUnit pre mi _ holder hk he
      rw [h1, h2]; simp [stepOf]
  | none =>
      cases hR : variantReadR .skip mi with
      | ok v =>
        have h1 := variantRead_of_ok mi _ v hk hR
        have h2 : variantWrites isUnit mi = some .skip := by simp [variantWrites, hk, h1]
        obtain ⟨a, ha, rfl⟩ := map_eq_ok hR
        have hst : variantState isUnit (pre ++ [mi]) = { variantState isUnit pre with skip := a } := by
          simp [variantState, vEffective_snoc, h2, he, h1]
        rw [hst]
        simp [withRead, ha, variantPush, hk, he, h1, stepOf]
      | err e =>
        obtain ⟨h1, h2, h3⟩ := variantRead_of_err isUnit mi _ e hk hR
        rw [variantState_snoc_inert isUnit pre mi h3]
        simp [withRead, map_eq_err hR, variantPush, hk, he, h1, h2, stepOf]
      | panic p => exact absurd hR (variantReadR_returns _ mi p)

theorem vstep_word (isUnit : Bool) (pre : List Meta) (mi : Meta) (hk : variantKw mi = some .word) :
    variantStep isUnit (variantState isUnit pre) mi
      = stepOf (variantState isUnit (pre ++ [mi])) (variantPush isUnit pre mi) := by
  rw [variantStep_word isUnit _ mi hk, vstate_word_isSome]
  cases he : vEffective isUnit pre .word with
  | some holder =>
      obtain ⟨h1, h2⟩ := vrepeat_case isUnit pre mi _ holder hk he
      rw [h1, h2]; simp [stepOf]
  | none =>
      cases isUnit with
      | false =>
          have h3 : variantWrites false mi = none := by simp [variantWrites, hk]
          rw [variantState_snoc_inert false pre mi h3]
          simp [variantPush, hk, he, stepOf]
      | true =>
        cases hR : variantReadR .word mi with
        | ok v =>
          have h1 := variantRead_of_ok mi _ v hk hR
          have h2 : variantWrites true mi = some .word := by simp [variantWrites, hk, h1]
          obtain ⟨a, ha, rfl⟩ := map_eq_ok hR
          have hst : variantState true (pre ++ [mi]) = { variantState true pre with word := a } := by
            simp [variantState, vEffective_snoc, h2, he, h1]
          rw [hst]
          simp [withRead, ha, variantPush, hk, he, h1, stepOf]
        | err e =>
          obtain ⟨h1, h2, h3⟩ := variantRead_of_err true mi _ e hk hR
          rw [variantState_snoc_inert true pre mi h3]
          simp [withRead, map_eq_err hR, variantPush, hk, he, h1, h2, stepOf]
        | panic p => exact absurd hR (variantReadR_returns _ mi p)

/-- **one step of `InputVariant::parse_nested` is the positional verdict** -/
theorem variantStep_spec (isUnit : Bool) (pre : List Meta) (mi : Meta) :
    variantStep isUnit (variantState isUnit pre) mi
      = stepOf (variantState isUnit (pre ++ [mi])) (variantPush isUnit pre mi) := by
  cases hk : variantKw mi with
  | none =>
      rw [variantStep_unknown isUnit _ mi hk, variantState_snoc_inert isUnit pre mi (by simp [variantWrites, hk])]
      simp [variantPush, hk, stepOf]
  | some k =>
      cases k
      · exact vstep_rename isUnit pre mi hk
      · exact vstep_skip isUnit pre mi hk
      · exact vstep_word isUnit pre mi hk

/-! ### variant options: the theorems -/

structure VariantFresh (s : VariantOpts) : Prop where
  attrName : s.attrName = none
  skip : s.skip = none
  word : s.word = none

example : VariantFresh ({} : VariantOpts) := ⟨rfl, rfl, rfl⟩

theorem VariantFresh.eq_state (isUnit : Bool) {s : VariantOpts} (h : VariantFresh s) : s = variantState isUnit [] := by
  obtain ⟨h1, h2, h3⟩ := h
  cases s
  simp only at h1 h2 h3
  subst h1 h2 h3
  rfl

theorem variantItems_spec_from (isUnit : Bool) (pre : List Meta) (errs0 : List Err) (items : List NestedMeta) :
    parseAttrItems (variantStep isUnit) (variantState isUnit pre) errs0 items
      = .ok (variantState isUnit (pre ++ metasOf items), errs0 ++ variantVerdicts isUnit pre items) :=
  parseAttrItems_spec (variantStep isUnit) (variantState isUnit) (variantPush isUnit) (variantStep_spec isUnit) items pre errs0

/-- **the variant option chain computes exactly the positional verdicts** -/
theorem variantItems_spec (isUnit : Bool) (s0 : VariantOpts) (hs : VariantFresh s0) (errs0 : List Err)
    (items : List NestedMeta) :
    parseAttrItems (variantStep isUnit) s0 errs0 items
      = .ok (variantState isUnit (metasOf items), errs0 ++ variantVerdicts isUnit [] items) := by
  rw [hs.eq_state isUnit]
  simpa using variantItems_spec_from isUnit [] errs0 items

theorem variantVerdict_nil_iff (isUnit : Bool) (pre : List Meta) (mi : Meta) :
    variantVerdict isUnit pre mi = [] ↔
      ∃ k v, variantKw mi = some k ∧ variantRead mi = some v ∧ vEffective isUnit pre k = none
        ∧ (k = .word → isUnit = true) := by
  unfold variantVerdict variantPush
  cases hk : variantKw mi with
  | none => simp
  | some k =>
      cases he : vEffective isUnit pre k with
      | some m => simp [he]
      | none =>
          by_cases hw : k = .word ∧ isUnit = false
          · obtain ⟨rfl, rfl⟩ := hw
            simp [he]
          · cases hr : variantRead mi with
            | some v =>
                have hw' : k = .word → isUnit = true := by simpa using hw
                simp [he, hw]
                exact hw'
            | none =>
                simp only [he, hw, if_false]
                cases hR : variantReadR k mi with
                | ok v => simp [variantRead, hk, hR] at hr
                | err e => simp [variantReadErr, hk, hR]
                | panic p => exact absurd hR (variantReadR_returns _ mi p)

theorem variantVerdictN_nil_iff (isUnit : Bool) (pre : List Meta) (it : NestedMeta) :
    variantVerdictN isUnit pre it = [] ↔
      ∃ mi k v, it = .item mi ∧ variantKw mi = some k ∧ variantRead mi = some v ∧ vEffective isUnit pre k = none
        ∧ (k = .word → isUnit = true) := by
  cases it with
  | lit l => simp [variantVerdictN, verdictN]
  | item mi =>
      have : variantVerdictN isUnit pre (.item mi) = variantVerdict isUnit pre mi := rfl
      rw [this, variantVerdict_nil_iff]
      simp

/-- **accepted ⟺ every item's verdict is empty ⟺ every element is an item with a known option and a
    well-formed value that does not repeat, `word` only on a unit variant** -/
theorem variant_accepts_iff (isUnit : Bool) (s0 : VariantOpts) (hs : VariantFresh s0) (items : List NestedMeta) :
    ((∃ s, parseAttrItems (variantStep isUnit) s0 [] items = .ok (s, [])) ↔
      ∀ a it b, items = a ++ it :: b → variantVerdictN isUnit (metasOf a) it = []) ∧
    ((∀ a it b, items = a ++ it :: b → variantVerdictN isUnit (metasOf a) it = []) ↔
      ∀ a it b, items = a ++ it :: b →
        ∃ mi k v, it = .item mi ∧ variantKw mi = some k ∧ variantRead mi = some v
          ∧ vEffective isUnit (metasOf a) k = none ∧ (k = .word → isUnit = true)) := by
  constructor
  · rw [variantItems_spec isUnit s0 hs [] items]
    have := verdicts_nil_iff (variantPush isUnit) items []
    simp only [List.nil_append] at this
    simp only [Except.ok.injEq, Prod.mk.injEq, List.nil_append, exists_eq_left', variantVerdictN]
    exact this
  · simp only [variantVerdictN_nil_iff]


/-! ## several `#[darling(..)]` attributes on one element -/

/-- what an attribute contributes: the list of a `#[darling(<list>)]` that parsed -/
def attrItems (a : Attr) : List NestedMeta :=
  if isDarling a then
    match a.body with
    | .list _ items none _ _ _ => items
    | _ => []
  else []

def attrMetas (a : Attr) : List Meta := metasOf (attrItems a)

/-- the one error (if any) `parse_attributes` records for an attribute, given the items `pre` of the
    attributes before it: another attribute — nothing; not a list — `non-list`; a list that did not
    parse — that error; otherwise the verdicts of its items, bundled -/
def attrPush (push : List Meta → Meta → Option Err) (pre : List Meta) (a : Attr) : Option Err :=
  if isDarling a then
    match a.body with
    | .list _ items bad _ _ _ =>
        (match bad with
         | some (msg, sp) => some (.leaf (.custom msg) [] (some sp))
         | none => bundleOpt (verdicts push pre items))
    | other => some ((Err.unsupportedFormat "non-list").withSpan other.span)
  else none

def attrsMetas : List Attr → List Meta
  | [] => []
  | a :: rest => attrMetas a ++ attrsMetas rest

def attrVerdicts (push : List Meta → Meta → Option Err) : List Meta → List Attr → List Err
  | _, [] => []
  | pre, a :: rest => (attrPush push pre a).toList ++ attrVerdicts push (pre ++ attrMetas a) rest

theorem parseAttr_spec {σ : Type} (step : σ → Meta → StepR σ) (state : List Meta → σ)
    (push : List Meta → Meta → Option Err)
    (h : ∀ pre mi, step (state pre) mi = stepOf (state (pre ++ [mi])) (push pre mi))
    (pre : List Meta) (a : Attr) (hd : isDarling a = true) :
    parseAttr step (state pre) a = .ok (state (pre ++ attrMetas a), attrPush push pre a) := by
  unfold parseAttr attrMetas attrItems attrPush
  simp only [hd, if_true]
  cases hb : a.body with
  | path p => simp [metasOf]
  | nameValue p e t s => simp [metasOf]
  | list p items bad ts t sp =>
      cases bad with
      | some b => obtain ⟨msg, sp'⟩ := b; simp [metasOf]
      | none =>
          simp only [parseAttrItems_spec step state push h items pre [], List.nil_append]
          match hv : verdicts push pre items with
          | [] => simp [bundleOpt]
          | [e] => simp [bundleOpt, Err.multiple]
          | e1 :: e2 :: r => simp [bundleOpt, Err.multiple]

/-- `parse_attributes` over a step function that agrees with a positional description -/
theorem parseAttributes_spec {σ : Type} (step : σ → Meta → StepR σ) (state : List Meta → σ)
    (push : List Meta → Meta → Option Err)
    (h : ∀ pre mi, step (state pre) mi = stepOf (state (pre ++ [mi])) (push pre mi)) :
    ∀ (attrs : List Attr) (pre : List Meta) (errs0 : List Err),
      parseAttributes step (state pre) errs0 attrs
        = .ok (state (pre ++ attrsMetas attrs), errs0 ++ attrVerdicts push pre attrs) := by
  intro attrs
  induction attrs with
  | nil => intro pre errs0; simp [parseAttributes, attrsMetas, attrVerdicts]
  | cons a rest ih =>
      intro pre errs0
      simp only [parseAttributes]
      by_cases hd : isDarling a = true
      · simp only [hd, if_true, parseAttr_spec step state push h pre a hd]
        cases hp : attrPush push pre a with
        | none => simp only []; rw [ih]; simp [attrsMetas, attrVerdicts, hp]
        | some e => simp only []; rw [ih]; simp [attrsMetas, attrVerdicts, hp]
      · have hm : attrMetas a = [] := by simp [attrMetas, attrItems, hd, metasOf]
        have hp : attrPush push pre a = none := by simp [attrPush, hd]
        simp only [hd]
        rw [ih]
        simp [attrsMetas, attrVerdicts, hm, hp]


/-! ### splitting the options over several attributes changes nothing but the bundling -/

def attrsItems : List Attr → List NestedMeta
  | [] => []
  | a :: rest => attrItems a ++ attrsItems rest

theorem attrsMetas_eq (attrs : List Attr) : attrsMetas attrs = metasOf (attrsItems attrs) := by
  induction attrs with
  | nil => rfl
  | cons a rest ih => simp [attrsMetas, attrsItems, metasOf_append, ih, attrMetas]

theorem verdicts_append (push : List Meta → Meta → Option Err) (a b : List NestedMeta) :
    ∀ pre, verdicts push pre (a ++ b) = verdicts push pre a ++ verdicts push (pre ++ metasOf a) b := by
  induction a with
  | nil => intro pre; simp [verdicts, metasOf]
  | cons x r ih =>
      intro pre
      have e : metasOf (x :: r) = metasOf [x] ++ metasOf r := metasOf_append [x] r
      simp only [List.cons_append, verdicts, ih, e, List.append_assoc]

theorem bundleOpt_eq_none (l : List Err) : bundleOpt l = none ↔ l = [] := by
  match l with
  | [] => simp [bundleOpt]
  | [_] => simp [bundleOpt]
  | _ :: _ :: _ => simp [bundleOpt]

/-- a `#[darling ..]` attribute must be a list that parses -/
def AttrListOk (a : Attr) : Prop :=
  isDarling a = true → ∃ p items ts t sp, a.body = .list p items none ts t sp

theorem attrPush_none_iff (push : List Meta → Meta → Option Err) (pre : List Meta) (a : Attr) :
    attrPush push pre a = none ↔ AttrListOk a ∧ verdicts push pre (attrItems a) = [] := by
  unfold attrPush attrItems AttrListOk
  by_cases hd : isDarling a = true
  · simp only [hd, if_true, true_implies]
    cases hb : a.body with
    | path p => simp
    | nameValue p e t s => simp
    | list p items bad ts t sp =>
        cases bad with
        | some b => obtain ⟨msg, sp'⟩ := b; simp
        | none => simp [bundleOpt_eq_none]
  · simp [hd, verdicts]

theorem attrVerdicts_nil_iff (push : List Meta → Meta → Option Err) (attrs : List Attr) :
    ∀ pre, attrVerdicts push pre attrs = [] ↔
      (∀ a ∈ attrs, AttrListOk a) ∧ verdicts push pre (attrsItems attrs) = [] := by
  induction attrs with
  | nil => intro pre; simp [attrVerdicts, attrsItems, verdicts]
  | cons a rest ih =>
      intro pre
      simp only [attrVerdicts, List.append_eq_nil_iff, Option.toList_eq_nil_iff, attrPush_none_iff, ih, attrsItems,
        verdicts_append, List.mem_cons, forall_eq_or_imp, attrMetas]
      constructor
      · rintro ⟨⟨h1, h2⟩, h3, h4⟩; exact ⟨⟨h1, h3⟩, h2, h4⟩
      · rintro ⟨⟨h1, h3⟩, h2, h4⟩; exact ⟨⟨h1, h2⟩, h3, h4⟩

/-! ### field and variant declarations -/

theorem fieldAttrs_spec (o : Oracle) (pre : List Meta) (errs0 : List Err) (attrs : List Attr) :
    parseAttributes (fieldStep o) (fieldState o pre) errs0 attrs
      = .ok (fieldState o (pre ++ attrsMetas attrs), errs0 ++ attrVerdicts (fieldPush o) pre attrs) :=
  parseAttributes_spec (fieldStep o) (fieldState o) (fieldPush o) (fieldStep_spec o) attrs pre errs0

theorem variantAttrs_spec (isUnit : Bool) (pre : List Meta) (errs0 : List Err) (attrs : List Attr) :
    parseAttributes (variantStep isUnit) (variantState isUnit pre) errs0 attrs
      = .ok (variantState isUnit (pre ++ attrsMetas attrs), errs0 ++ attrVerdicts (variantPush isUnit) pre attrs) :=
  parseAttributes_spec (variantStep isUnit) (variantState isUnit) (variantPush isUnit) (variantStep_spec isUnit) attrs pre errs0

/-- the options of a field declaration (all its attributes): accepted exactly when every
    `#[darling ..]` attribute is a list that parses and — reading the items of all of them as one
    list — every verdict is empty; then the options are `fieldState` of all the items -/
theorem field_decl_accepts_iff (o : Oracle) (attrs : List Attr) :
    ((∃ s, finishWith (parseAttributes (fieldStep o) {} [] attrs) = .ok s) ↔
      (∀ a ∈ attrs, AttrListOk a) ∧ fieldVerdicts o [] (attrsItems attrs) = []) ∧
    (∀ s, finishWith (parseAttributes (fieldStep o) {} [] attrs) = .ok s → s = fieldState o (attrsMetas attrs)) := by
  have h := fieldAttrs_spec o [] [] attrs
  rw [fieldState_nil] at h
  simp only [List.nil_append] at h
  rw [h]
  refine ⟨?_, ?_⟩
  · rw [finishWith_ok_iff, attrVerdicts_nil_iff]; rfl
  · intro s hs
    match hv : attrVerdicts (fieldPush o) [] attrs with
    | [] => rw [hv] at hs; simp only [finishWith] at hs; cases hs; rfl
    | [x] => rw [hv] at hs; simp [finishWith, Err.bundleErr, Err.multiple] at hs
    | x :: y :: r => rw [hv] at hs; simp [finishWith, Err.bundleErr, Err.multiple] at hs

theorem variantState_nil (isUnit : Bool) : variantState isUnit [] = {} := rfl

theorem variant_decl_accepts_iff (isUnit : Bool) (attrs : List Attr) :
    ((∃ s, finishWith (parseAttributes (variantStep isUnit) {} [] attrs) = .ok s) ↔
      (∀ a ∈ attrs, AttrListOk a) ∧ variantVerdicts isUnit [] (attrsItems attrs) = []) ∧
    (∀ s, finishWith (parseAttributes (variantStep isUnit) {} [] attrs) = .ok s →
      s = variantState isUnit (attrsMetas attrs)) := by
  have h := variantAttrs_spec isUnit [] [] attrs
  rw [variantState_nil] at h
  simp only [List.nil_append] at h
  rw [h]
  refine ⟨?_, ?_⟩
  · rw [finishWith_ok_iff, attrVerdicts_nil_iff]; rfl
  · intro s hs
    match hv : attrVerdicts (variantPush isUnit) [] attrs with
    | [] => rw [hv] at hs; simp only [finishWith] at hs; cases hs; rfl
    | [x] => rw [hv] at hs; simp [finishWith, Err.bundleErr, Err.multiple] at hs
    | x :: y :: r => rw [hv] at hs; simp [finishWith, Err.bundleErr, Err.multiple] at hs


/-! ## well-formedness, without reference to order -/

/-- the slot an item addresses -/
def fieldSlotOf (mi : Meta) : Option FieldSlot := (fieldKw mi).map FieldKw.slot

/-- does this (well-formed) item exclude `flatten`?  `rename`, `with`, `skip = true`, `multiple = true` -/
def clashesWithFlatten (o : Oracle) (mi : Meta) : Bool :=
  match fieldRead o mi with
  | some (.rename _) => true
  | some (.with_ _) => true
  | some (.skip v) => skipValTrue v
  | some (.multiple v) => v == some true
  | _ => false

/-- **a well-formed field option list**: every item is a known option with a well-formed value; no
    slot is addressed twice (so: no option twice, not both `map` and `and_then`); `flatten` comes
    with none of `rename` / `with` / `skip = true` / `multiple = true` -/
structure FieldWellFormed (o : Oracle) (ms : List Meta) : Prop where
  readable : ∀ m ∈ ms, (fieldRead o m).isSome = true
  once : (ms.map fieldSlotOf).Nodup
  flattenAlone : (∃ m ∈ ms, fieldKw m = some .flatten) → ∀ m ∈ ms, clashesWithFlatten o m = false

theorem writes_eq_slotOf (o : Oracle) (m : Meta) (h : (fieldRead o m).isSome = true) : fieldWrites o m = fieldSlotOf m := by
  unfold fieldWrites fieldSlotOf
  cases hk : fieldKw m with
  | none => rfl
  | some k => simp [h]

theorem nodup_map_inj {α β : Type} (f : α → β) : ∀ (l : List α), (l.map f).Nodup → ∀ a ∈ l, ∀ b ∈ l, f a = f b → a = b := by
  intro l
  induction l with
  | nil => intro _ a ha; cases ha
  | cons x r ih =>
      intro hn a ha b hb hab
      simp only [List.map_cons, List.nodup_cons, List.mem_map, not_exists, not_and] at hn
      obtain ⟨hx, hr⟩ := hn
      simp only [List.mem_cons] at ha hb
      rcases ha with rfl | ha <;> rcases hb with rfl | hb
      · rfl
      · exact absurd hab.symm (hx b hb)
      · exact absurd hab (hx a ha)
      · exact ih hr a ha b hb hab

theorem effective_isSome_iff (o : Oracle) (pre : List Meta) (sl : FieldSlot) :
    (effective o pre sl).isSome = true ↔ ∃ m ∈ pre, fieldWrites o m = some sl := by
  simp [effective, List.find?_isSome]

theorem effective_eq_none_iff (o : Oracle) (pre : List Meta) (sl : FieldSlot) :
    effective o pre sl = none ↔ ∀ m ∈ pre, fieldWrites o m ≠ some sl := by
  simp [effective, List.find?_eq_none]

theorem effective_mem (o : Oracle) (pre : List Meta) (sl : FieldSlot) (m : Meta) (h : effective o pre sl = some m) : m ∈ pre :=
  List.mem_of_find?_eq_some h

/-- in a well-formed list the holder of a slot is *the* item addressing it -/
theorem wf_holder (o : Oracle) (pre : List Meta) (wf : FieldWellFormed o pre) (m : Meta) (hm : m ∈ pre) (sl : FieldSlot)
    (hs : fieldSlotOf m = some sl) : effective o pre sl = some m := by
  have hw : fieldWrites o m = some sl := by rw [writes_eq_slotOf o m (wf.readable m hm)]; exact hs
  obtain ⟨m', he⟩ := Option.isSome_iff_exists.mp ((effective_isSome_iff o pre sl).mpr ⟨m, hm, hw⟩)
  have hm' := effective_mem o pre sl m' he
  have hw' := effective_writes o pre sl m' he
  rw [writes_eq_slotOf o m' (wf.readable m' hm')] at hw'
  have : m' = m := nodup_map_inj fieldSlotOf pre wf.once m' hm' m hm (by rw [hw', hs])
  rw [he, this]


def FieldVal.slot : FieldVal → FieldSlot
  | .rename _ => .rename | .default _ => .default | .with_ _ => .with_ | .skip _ => .skip
  | .post _ => .post | .multiple _ => .multiple | .flatten _ => .flatten

theorem fieldRead_kw (o : Oracle) (m : Meta) (v : FieldVal) (h : fieldRead o m = some v) :
    ∃ k, fieldKw m = some k ∧ k.slot = v.slot := by
  unfold fieldRead at h
  cases hk : fieldKw m with
  | none => rw [hk] at h; cases h
  | some k =>
      rw [hk] at h
      simp only [] at h
      cases hR : fieldReadR o k m with
      | ok v' =>
          rw [hR] at h
          cases h
          refine ⟨k, rfl, ?_⟩
          cases k <;> (obtain ⟨a, _, rfl⟩ := map_eq_ok hR; rfl)
      | err e => rw [hR] at h; cases h
      | panic p => rw [hR] at h; cases h

theorem fieldRead_slot (o : Oracle) (m : Meta) (v : FieldVal) (h : fieldRead o m = some v) : fieldSlotOf m = some v.slot := by
  obtain ⟨k, hk, hs⟩ := fieldRead_kw o m v h
  simp [fieldSlotOf, hk, hs]

theorem flattenConflicts_nil_iff (o : Oracle) (pre : List Meta) (x : Meta) :
    flattenConflicts o pre x = [] ↔
      multipleInForce o pre = false ∧ effective o pre .rename = none ∧ effective o pre .with_ = none
        ∧ skipInForce o pre = false := by
  unfold flattenConflicts
  cases multipleInForce o pre <;> cases effective o pre .rename <;> cases effective o pre .with_ <;>
    cases skipInForce o pre <;> simp

theorem wf_flatten_present (o : Oracle) (pre : List Meta) (wf : FieldWellFormed o pre) :
    (effective o pre .flatten).isSome = true ↔ ∃ m ∈ pre, fieldKw m = some .flatten := by
  constructor
  · intro h
    obtain ⟨m, hm⟩ := Option.isSome_iff_exists.mp h
    obtain ⟨x, hk, _⟩ := held_flatten o pre m hm
    exact ⟨m, effective_mem o pre _ m hm, hk⟩
  · rintro ⟨m, hm, hk⟩
    rw [wf_holder o pre wf m hm .flatten (by simp [fieldSlotOf, hk, FieldKw.slot])]
    rfl

/-- the four tests `flatten` makes are exactly: no earlier item excludes it -/
theorem wf_flattenConflicts (o : Oracle) (pre : List Meta) (wf : FieldWellFormed o pre) (x : Meta) :
    flattenConflicts o pre x = [] ↔ ∀ m ∈ pre, clashesWithFlatten o m = false := by
  rw [flattenConflicts_nil_iff]
  constructor
  · rintro ⟨h1, h2, h3, h4⟩ m hm
    cases hc : clashesWithFlatten o m with
    | false => rfl
    | true =>
      exfalso
      unfold clashesWithFlatten at hc
      cases hr : fieldRead o m with
      | none => simp [hr] at hc
      | some v =>
          have hh := wf_holder o pre wf m hm v.slot (fieldRead_slot o m v hr)
          cases v with
          | rename a => simp [FieldVal.slot, h2] at hh
          | with_ a => simp [FieldVal.slot, h3] at hh
          | skip a =>
              simp only [hr] at hc
              simp [skipInForce, show effective o pre .skip = some m from hh, hr, hc] at h4
          | multiple a =>
              simp only [hr] at hc
              simp [multipleInForce, show effective o pre .multiple = some m from hh, hr] at h1
              simp at hc
              exact h1 hc
          | default a => simp [hr] at hc
          | post a => simp [hr] at hc
          | flatten a => simp [hr] at hc
  · intro h
    refine ⟨?_, ?_, ?_, ?_⟩
    · cases hf : multipleInForce o pre with
      | false => rfl
      | true =>
        exfalso
        unfold multipleInForce at hf
        cases he : effective o pre .multiple with
        | none => simp [he] at hf
        | some m =>
            obtain ⟨b, _, hr⟩ := held_multiple o pre m he
            have := h m (effective_mem o pre _ m he)
            simp [he, hr] at hf
            simp [clashesWithFlatten, hr, hf] at this
    · cases he : effective o pre .rename with
      | none => rfl
      | some m =>
          exfalso
          obtain ⟨b, _, hr⟩ := held_rename o pre m he
          have := h m (effective_mem o pre _ m he)
          simp [clashesWithFlatten, hr] at this
    · cases he : effective o pre .with_ with
      | none => rfl
      | some m =>
          exfalso
          obtain ⟨b, _, hr⟩ := held_with o pre m he
          have := h m (effective_mem o pre _ m he)
          simp [clashesWithFlatten, hr] at this
    · cases hf : skipInForce o pre with
      | false => rfl
      | true =>
        exfalso
        unfold skipInForce at hf
        cases he : effective o pre .skip with
        | none => simp [he] at hf
        | some m =>
            obtain ⟨b, _, hr⟩ := held_skip o pre m he
            have := h m (effective_mem o pre _ m he)
            simp [he, hr] at hf
            simp [clashesWithFlatten, hr, hf] at this


/-- the conflict test of an accepted item that is not `flatten`: it excludes `flatten`, and one is
    in force -/
theorem fieldConflict_other (o : Oracle) (pre : List Meta) (x : Meta) (v : FieldVal) (hr : fieldRead o x = some v)
    (hnf : v.slot ≠ .flatten) :
    fieldConflict o pre x v = none ↔ ((effective o pre .flatten).isSome = true → clashesWithFlatten o x = false) := by
  cases v with
  | flatten a => exact absurd rfl hnf
  | rename a => simp [fieldConflict, clashesWithFlatten, hr]
  | default a => simp [fieldConflict, clashesWithFlatten, hr]
  | with_ a => simp [fieldConflict, clashesWithFlatten, hr]
  | post a => simp [fieldConflict, clashesWithFlatten, hr]
  | skip a =>
      cases h1 : skipValTrue a <;> cases h2 : (effective o pre .flatten).isSome <;>
        simp [fieldConflict, clashesWithFlatten, hr, h1, h2]
  | multiple a =>
      cases h1 : (a == some true) <;> cases h2 : (effective o pre .flatten).isSome <;>
        simp [fieldConflict, clashesWithFlatten, hr, h1, h2]

theorem clashes_flatten_item (o : Oracle) (x : Meta) (a : Option Span) (hr : fieldRead o x = some (.flatten a)) :
    clashesWithFlatten o x = false := by simp [clashesWithFlatten, hr]

theorem FieldWellFormed.nil (o : Oracle) : FieldWellFormed o [] :=
  ⟨(by intro m hm; cases hm), (by simp), (by rintro ⟨m, hm, _⟩; cases hm)⟩

theorem FieldWellFormed.prefix (o : Oracle) (a b : List Meta) (wf : FieldWellFormed o (a ++ b)) : FieldWellFormed o a := by
  refine ⟨fun m hm => wf.readable m (List.mem_append_left _ hm), ?_, ?_⟩
  · have := wf.once
    rw [List.map_append, List.nodup_append] at this
    exact this.1
  · rintro ⟨m, hm, hk⟩ m' hm'
    exact wf.flattenAlone ⟨m, List.mem_append_left _ hm, hk⟩ m' (List.mem_append_left _ hm')

/-- **one more item keeps the list well-formed exactly when its verdict is empty** -/
theorem wf_snoc (o : Oracle) (pre : List Meta) (wf : FieldWellFormed o pre) (x : Meta) :
    fieldVerdict o pre x = [] ↔ FieldWellFormed o (pre ++ [x]) := by
  rw [fieldVerdict_nil_iff]
  constructor
  · rintro ⟨k, v, hk, hr, he, hc⟩
    obtain ⟨k', hk', hsl⟩ := fieldRead_kw o x v hr
    rw [hk] at hk'; cases hk'
    have hsx : fieldSlotOf x = some k.slot := by simp [fieldSlotOf, hk]
    refine ⟨?_, ?_, ?_⟩
    · intro m hm
      rcases List.mem_append.mp hm with hm | hm
      · exact wf.readable m hm
      · simp only [List.mem_singleton] at hm; subst hm; simp [hr]
    · rw [List.map_append, List.nodup_append]
      refine ⟨wf.once, by simp, ?_⟩
      intro a ha b hb
      simp only [List.map_cons, List.map_nil, List.mem_singleton] at hb
      subst hb
      obtain ⟨m, hm, rfl⟩ := List.mem_map.mp ha
      rw [hsx, ← writes_eq_slotOf o m (wf.readable m hm)]
      exact (effective_eq_none_iff o pre k.slot).mp he m hm
    · rintro ⟨mf, hmf, hkf⟩ m hm
      by_cases hfl : v.slot = .flatten
      · -- `x` is the `flatten`
        cases v with
        | flatten a =>
            simp only [fieldConflict, bundleOpt_eq_none] at hc
            rcases List.mem_append.mp hm with hm | hm
            · exact (wf_flattenConflicts o pre wf x).mp hc m hm
            · simp only [List.mem_singleton] at hm; subst hm; exact clashes_flatten_item o m a hr
        | _ => simp [FieldVal.slot] at hfl
      · -- the `flatten` is an earlier item
        have hmf' : mf ∈ pre := by
          rcases List.mem_append.mp hmf with h | h
          · exact h
          · simp only [List.mem_singleton] at h; subst h
            rw [hk] at hkf; cases hkf
            exact absurd hsl.symm hfl
        rcases List.mem_append.mp hm with hm | hm
        · exact wf.flattenAlone ⟨mf, hmf', hkf⟩ m hm
        · simp only [List.mem_singleton] at hm; subst hm
          exact (fieldConflict_other o pre m v hr hfl).mp hc ((wf_flatten_present o pre wf).mpr ⟨mf, hmf', hkf⟩)
  · intro wf'
    have hx : x ∈ pre ++ [x] := by simp
    obtain ⟨v, hr⟩ := Option.isSome_iff_exists.mp (wf'.readable x hx)
    obtain ⟨k, hk, hsl⟩ := fieldRead_kw o x v hr
    have hsx : fieldSlotOf x = some k.slot := by simp [fieldSlotOf, hk]
    refine ⟨k, v, hk, hr, ?_, ?_⟩
    · rw [effective_eq_none_iff]
      intro m hm
      have := wf'.once
      rw [List.map_append, List.nodup_append] at this
      have h3 := this.2.2 (fieldSlotOf m) (List.mem_map.mpr ⟨m, hm, rfl⟩) (fieldSlotOf x) (by simp)
      rw [writes_eq_slotOf o m (wf.readable m hm), ← hsx]
      exact h3
    · by_cases hfl : v.slot = .flatten
      · cases v with
        | flatten a =>
            simp only [fieldConflict, bundleOpt_eq_none]
            rw [wf_flattenConflicts o pre wf x]
            intro m hm
            have hkx : fieldKw x = some .flatten := by
              rw [hk]; cases k <;> simp [FieldKw.slot, FieldVal.slot] at hsl; rfl
            exact wf'.flattenAlone ⟨x, hx, hkx⟩ m (List.mem_append_left _ hm)
        | _ => simp [FieldVal.slot] at hfl
      · rw [fieldConflict_other o pre x v hr hfl]
        intro hp
        obtain ⟨mf, hmf, hkf⟩ := (wf_flatten_present o pre wf).mp hp
        exact wf'.flattenAlone ⟨mf, List.mem_append_left _ hmf, hkf⟩ x hx

/-- every verdict empty ⟺ well-formed (continuing a well-formed prefix) -/
theorem wf_iff_from (o : Oracle) (ms : List Meta) :
    ∀ pre, FieldWellFormed o pre →
      ((∀ a m b, ms = a ++ m :: b → fieldVerdict o (pre ++ a) m = []) ↔ FieldWellFormed o (pre ++ ms)) := by
  induction ms with
  | nil => intro pre wf; simp [wf]
  | cons x r ih =>
      intro pre wf
      constructor
      · intro h
        have h1 : fieldVerdict o pre x = [] := by simpa using h [] x r rfl
        have wf1 := (wf_snoc o pre wf x).mp h1
        have := (ih (pre ++ [x]) wf1).mp (by
          intro a m b hab
          have := h (x :: a) m b (by rw [hab]; rfl)
          simpa using this)
        simpa using this
      · intro wf' a m b hab
        have wf1 : FieldWellFormed o (pre ++ [x]) := by
          apply FieldWellFormed.prefix o (pre ++ [x]) r
          simpa using wf'
        cases a with
        | nil =>
            simp only [List.nil_append, List.cons.injEq] at hab
            obtain ⟨rfl, rfl⟩ := hab
            simpa using (wf_snoc o pre wf x).mpr wf1
        | cons y a' =>
            simp only [List.cons_append, List.cons.injEq] at hab
            obtain ⟨rfl, rfl⟩ := hab
            have := (ih (pre ++ [x]) wf1).mpr (by simpa using wf') a' m b rfl
            simpa using this

/-- **every verdict is empty ⟺ the list is well-formed** (a statement without order) -/
theorem verdicts_nil_iff_wf (o : Oracle) (ms : List Meta) :
    (∀ a m b, ms = a ++ m :: b → fieldVerdict o a m = []) ↔ FieldWellFormed o ms := by
  simpa using wf_iff_from o ms [] (FieldWellFormed.nil o)


/-! ### from the verdicts of a nested list to the verdicts of its items -/

/-- no bare literal among the elements -/
def AllItems (items : List NestedMeta) : Prop := ∀ it ∈ items, ∃ mi, it = .item mi

theorem verdicts_nil_iff_items (push : List Meta → Meta → Option Err) (items : List NestedMeta) :
    ∀ pre, verdicts push pre items = [] ↔
      AllItems items ∧ ∀ a m b, metasOf items = a ++ m :: b → push (pre ++ a) m = none := by
  induction items with
  | nil => intro pre; simp [verdicts, AllItems, metasOf]
  | cons x r ih =>
      intro pre
      cases x with
      | lit l =>
          simp only [verdicts, verdictN, List.cons_append, List.nil_append, reduceCtorEq, false_iff, not_and]
          intro h
          obtain ⟨mi, hmi⟩ := h (.lit l) (by simp)
          cases hmi
      | item mi =>
          simp only [verdicts, verdictN, List.append_eq_nil_iff, Option.toList_eq_nil_iff, ih, metasOf]
          constructor
          · rintro ⟨h1, h2, h3⟩
            refine ⟨?_, ?_⟩
            · intro it hit
              rcases List.mem_cons.mp hit with rfl | hit
              · exact ⟨mi, rfl⟩
              · exact h2 it hit
            · intro a m b hab
              cases a with
              | nil => simp only [List.nil_append, List.cons.injEq] at hab; obtain ⟨rfl, rfl⟩ := hab; simpa using h1
              | cons y a' =>
                  simp only [List.cons_append, List.cons.injEq] at hab
                  obtain ⟨rfl, hab⟩ := hab
                  simpa using h3 a' m b hab
          · rintro ⟨h1, h2⟩
            refine ⟨by simpa using h2 [] mi (metasOf r) rfl, fun it hit => h1 it (List.mem_cons_of_mem _ hit), ?_⟩
            intro a m b hab
            simpa using h2 (mi :: a) m b (by rw [hab]; rfl)

/-- **a field attribute's list is accepted ⟺ it has no bare literal and its items are well-formed** -/
theorem field_accepts_iff_wf (o : Oracle) (s0 : FieldOpts) (hs : FieldFresh s0) (items : List NestedMeta) :
    (∃ s, parseAttrItems (fieldStep o) s0 [] items = .ok (s, [])) ↔
      AllItems items ∧ FieldWellFormed o (metasOf items) := by
  rw [fieldItems_spec o s0 hs [] items]
  simp only [Except.ok.injEq, Prod.mk.injEq, List.nil_append, exists_eq_left', fieldVerdicts]
  rw [verdicts_nil_iff_items, ← verdicts_nil_iff_wf]
  simp [fieldVerdict]

/-- **the options of a field declaration are accepted ⟺ every `#[darling ..]` attribute is a list
    that parses, none contains a bare literal, and all their items together are well-formed** -/
theorem field_decl_accepts_iff_wf (o : Oracle) (attrs : List Attr) :
    (∃ s, finishWith (parseAttributes (fieldStep o) {} [] attrs) = .ok s) ↔
      (∀ a ∈ attrs, AttrListOk a) ∧ AllItems (attrsItems attrs) ∧ FieldWellFormed o (attrsMetas attrs) := by
  rw [(field_decl_accepts_iff o attrs).1, fieldVerdicts, verdicts_nil_iff_items, attrsMetas_eq, ← verdicts_nil_iff_wf]
  simp [fieldVerdict]


/-! ### variants: well-formedness without reference to order -/

/-- **a well-formed variant option list**: every item is a known option with a well-formed value,
    none twice, and `word` only on a unit variant -/
structure VariantWellFormed (isUnit : Bool) (ms : List Meta) : Prop where
  readable : ∀ m ∈ ms, (variantRead m).isSome = true
  once : (ms.map variantKw).Nodup
  wordOnUnit : (∃ m ∈ ms, variantKw m = some .word) → isUnit = true

theorem VariantWellFormed.nil (isUnit : Bool) : VariantWellFormed isUnit [] :=
  ⟨(by intro m hm; cases hm), (by simp), (by rintro ⟨m, hm, _⟩; cases hm)⟩

theorem VariantWellFormed.prefix (isUnit : Bool) (a b : List Meta) (wf : VariantWellFormed isUnit (a ++ b)) :
    VariantWellFormed isUnit a := by
  refine ⟨fun m hm => wf.readable m (List.mem_append_left _ hm), ?_, ?_⟩
  · have := wf.once
    rw [List.map_append, List.nodup_append] at this
    exact this.1
  · rintro ⟨m, hm, hk⟩
    exact wf.wordOnUnit ⟨m, List.mem_append_left _ hm, hk⟩

theorem vwf_writes (isUnit : Bool) (ms : List Meta) (wf : VariantWellFormed isUnit ms) (m : Meta) (hm : m ∈ ms) :
    variantWrites isUnit m = variantKw m := by
  unfold variantWrites
  cases hk : variantKw m with
  | none => rfl
  | some k =>
      have h1 := wf.readable m hm
      have h2 : ¬ (k = .word ∧ isUnit = false) := by
        rintro ⟨rfl, hu⟩
        have := wf.wordOnUnit ⟨m, hm, hk⟩
        rw [this] at hu; cases hu
      simp [h1, h2]

theorem vEffective_eq_none_iff (isUnit : Bool) (pre : List Meta) (k : VariantKw) :
    vEffective isUnit pre k = none ↔ ∀ m ∈ pre, variantWrites isUnit m ≠ some k := by
  simp [vEffective, List.find?_eq_none]

theorem variantRead_kw (m : Meta) (v : VariantVal) (h : variantRead m = some v) : ∃ k, variantKw m = some k := by
  unfold variantRead at h
  cases hk : variantKw m with
  | none => rw [hk] at h; cases h
  | some k => exact ⟨k, rfl⟩

theorem vwf_snoc (isUnit : Bool) (pre : List Meta) (wf : VariantWellFormed isUnit pre) (x : Meta) :
    variantVerdict isUnit pre x = [] ↔ VariantWellFormed isUnit (pre ++ [x]) := by
  rw [variantVerdict_nil_iff]
  constructor
  · rintro ⟨k, v, hk, hr, he, hw⟩
    refine ⟨?_, ?_, ?_⟩
    · intro m hm
      rcases List.mem_append.mp hm with hm | hm
      · exact wf.readable m hm
      · simp only [List.mem_singleton] at hm; subst hm; simp [hr]
    · rw [List.map_append, List.nodup_append]
      refine ⟨wf.once, by simp, ?_⟩
      intro a ha b hb
      simp only [List.map_cons, List.map_nil, List.mem_singleton] at hb
      subst hb
      obtain ⟨m, hm, rfl⟩ := List.mem_map.mp ha
      rw [hk, ← vwf_writes isUnit pre wf m hm]
      exact (vEffective_eq_none_iff isUnit pre k).mp he m hm
    · rintro ⟨m, hm, hkm⟩
      rcases List.mem_append.mp hm with hm | hm
      · exact wf.wordOnUnit ⟨m, hm, hkm⟩
      · simp only [List.mem_singleton] at hm; subst hm
        rw [hk] at hkm; cases hkm
        exact hw rfl
  · intro wf'
    have hx : x ∈ pre ++ [x] := by simp
    obtain ⟨v, hr⟩ := Option.isSome_iff_exists.mp (wf'.readable x hx)
    obtain ⟨k, hk⟩ := variantRead_kw x v hr
    refine ⟨k, v, hk, hr, ?_, ?_⟩
    · rw [vEffective_eq_none_iff]
      intro m hm
      have := wf'.once
      rw [List.map_append, List.nodup_append] at this
      have h3 := this.2.2 (variantKw m) (List.mem_map.mpr ⟨m, hm, rfl⟩) (variantKw x) (by simp)
      rw [vwf_writes isUnit pre wf m hm, ← hk]
      exact h3
    · rintro rfl
      exact wf'.wordOnUnit ⟨x, hx, hk⟩

theorem vwf_iff_from (isUnit : Bool) (ms : List Meta) :
    ∀ pre, VariantWellFormed isUnit pre →
      ((∀ a m b, ms = a ++ m :: b → variantVerdict isUnit (pre ++ a) m = []) ↔ VariantWellFormed isUnit (pre ++ ms)) := by
  induction ms with
  | nil => intro pre wf; simp [wf]
  | cons x r ih =>
      intro pre wf
      constructor
      · intro h
        have h1 : variantVerdict isUnit pre x = [] := by simpa using h [] x r rfl
        have wf1 := (vwf_snoc isUnit pre wf x).mp h1
        have := (ih (pre ++ [x]) wf1).mp (by
          intro a m b hab
          have := h (x :: a) m b (by rw [hab]; rfl)
          simpa using this)
        simpa using this
      · intro wf' a m b hab
        have wf1 : VariantWellFormed isUnit (pre ++ [x]) := by
          apply VariantWellFormed.prefix isUnit (pre ++ [x]) r
          simpa using wf'
        cases a with
        | nil =>
            simp only [List.nil_append, List.cons.injEq] at hab
            obtain ⟨rfl, rfl⟩ := hab
            simpa using (vwf_snoc isUnit pre wf x).mpr wf1
        | cons y a' =>
            simp only [List.cons_append, List.cons.injEq] at hab
            obtain ⟨rfl, rfl⟩ := hab
            have := (ih (pre ++ [x]) wf1).mpr (by simpa using wf') a' m b rfl
            simpa using this

/-- **every verdict is empty ⟺ the list is well-formed** -/
theorem variant_verdicts_nil_iff_wf (isUnit : Bool) (ms : List Meta) :
    (∀ a m b, ms = a ++ m :: b → variantVerdict isUnit a m = []) ↔ VariantWellFormed isUnit ms := by
  simpa using vwf_iff_from isUnit ms [] (VariantWellFormed.nil isUnit)

/-- **a variant attribute's list is accepted ⟺ it has no bare literal and its items are well-formed** -/
theorem variant_accepts_iff_wf (isUnit : Bool) (s0 : VariantOpts) (hs : VariantFresh s0) (items : List NestedMeta) :
    (∃ s, parseAttrItems (variantStep isUnit) s0 [] items = .ok (s, [])) ↔
      AllItems items ∧ VariantWellFormed isUnit (metasOf items) := by
  rw [variantItems_spec isUnit s0 hs [] items]
  simp only [Except.ok.injEq, Prod.mk.injEq, List.nil_append, exists_eq_left', variantVerdicts]
  rw [verdicts_nil_iff_items, ← variant_verdicts_nil_iff_wf]
  simp [variantVerdict]

theorem variant_decl_accepts_iff_wf (isUnit : Bool) (attrs : List Attr) :
    (∃ s, finishWith (parseAttributes (variantStep isUnit) {} [] attrs) = .ok s) ↔
      (∀ a ∈ attrs, AttrListOk a) ∧ AllItems (attrsItems attrs) ∧ VariantWellFormed isUnit (attrsMetas attrs) := by
  rw [(variant_decl_accepts_iff isUnit attrs).1, variantVerdicts, verdicts_nil_iff_items, attrsMetas_eq,
    ← variant_verdicts_nil_iff_wf]
  simp [variantVerdict]


/-! ## sanity: concrete lists (non-vacuity of the verdicts) -/
namespace Ex
def word (n : String) (lo hi : Nat) : Meta :=
  .path { global := false, segs := [n], plain := true, toks := n, span := ⟨lo, hi⟩ }
def nv (n : String) (v : String) (lo hi : Nat) : Meta :=
  .nameValue { global := false, segs := [n], plain := true, toks := n, span := ⟨lo, lo + n.length⟩ }
    (.lit { v := .str v, toks := "\"" ++ v ++ "\"", span := ⟨hi - v.length - 2, hi⟩ }) (n ++ " = \"" ++ v ++ "\"") ⟨lo, hi⟩

/-- `n = v` with a path expression on the right -/
def nvp (n : String) (v : String) (lo hi : Nat) : Meta :=
  .nameValue { global := false, segs := [n], plain := true, toks := n, span := ⟨lo, lo + n.length⟩ }
    (.path { global := false, segs := [v], plain := true, toks := v, span := ⟨hi - v.length, hi⟩ } ⟨hi - v.length, hi⟩)
    (n ++ " = " ++ v) ⟨lo, hi⟩

def flatten1 : Meta := word "flatten" 0 7
def renameX : Meta := nv "rename" "x" 9 21
def renameY : Meta := nv "rename" "y" 23 35
def withF : Meta := nvp "with" "f" 40 48
def skipBad : Meta := nv "skip" "zzz" 0 12
def skipWord : Meta := word "skip" 14 18
def skipFalse : Meta := nv "skip" "false" 9 23
def mapF : Meta := nvp "map" "f" 0 7
def andThenG : Meta := nvp "and_then" "g" 11 23
def bogus : Meta := word "bogus" 0 5
def word1 : Meta := word "word" 0 4
def word2 : Meta := word "word" 6 10
def lit1 : Lit := { v := .int "1" "", toks := "1", span := ⟨0, 1⟩ }
end Ex
open Ex

/-- `flatten, rename = "x"`: the conflict is charged to `rename` -/
example : fieldVerdict {} [] flatten1 = [] ∧ fieldVerdict {} [flatten1] renameX = [conflictErr "flatten" "rename" renameX] :=
  ⟨rfl, rfl⟩
/-- `rename = "x", flatten`: the conflict is charged to `flatten` -/
example : fieldVerdict {} [] renameX = [] ∧ fieldVerdict {} [renameX] flatten1 = [conflictErr "flatten" "rename" flatten1] :=
  ⟨rfl, rfl⟩
/-- `rename = "x", with = "f", flatten`: both conflicts, in the code's order, as one bundle -/
example : fieldVerdict {} [renameX, withF] flatten1
    = [.multi [conflictErr "flatten" "rename" flatten1, conflictErr "flatten" "with" flatten1] [] none] := rfl
/-- `skip = "zzz", skip`: the first has a malformed value, so the second is *not* a repeat … -/
example : fieldVerdict {} [] skipBad = [(Err.unknownValue "zzz").withSpan ⟨7, 12⟩] ∧ fieldVerdict {} [skipBad] skipWord = [] :=
  ⟨rfl, rfl⟩
/-- … but a third one is -/
example : fieldVerdict {} [skipBad, skipWord] skipWord = [dupErr skipWord] := rfl
/-- `flatten, skip = false` is fine; `flatten, skip` is not -/
example : fieldVerdict {} [flatten1] skipFalse = [] ∧ fieldVerdict {} [flatten1] skipWord = [conflictErr "flatten" "skip" skipWord] :=
  ⟨rfl, rfl⟩
/-- a conflicting `rename` is still the effective one: a second `rename` repeats it -/
example : fieldVerdict {} [flatten1, renameX] renameY = [dupErr renameY] := rfl
/-- `map = "f", and_then = "g"`, and the reverse -/
example : fieldVerdict {} [mapF] andThenG = [exclusiveErr "and_then" "map" andThenG]
    ∧ fieldVerdict {} [andThenG] mapF = [exclusiveErr "map" "and_then" mapF]
    ∧ fieldVerdict {} [mapF] mapF = [dupErr mapF] := ⟨rfl, rfl, rfl⟩
example : fieldVerdict {} [] bogus = [unknownErr bogus] := rfl

/-- the whole chain on `flatten, 1, rename = "x"` — as computed by the code and as specified -/
example : parseAttrItems (fieldStep {}) {} [] [.item flatten1, .lit lit1, .item renameX]
    = .ok ({ attrName := some "x", flatten := some ⟨0, 7⟩ },
           [(Err.unsupportedFormat "literal").withSpan ⟨0, 1⟩, conflictErr "flatten" "rename" renameX]) := rfl
example : fieldVerdicts {} [] [.item flatten1, .lit lit1, .item renameX]
    = [(Err.unsupportedFormat "literal").withSpan ⟨0, 1⟩, conflictErr "flatten" "rename" renameX] := rfl
example : fieldState {} [flatten1, renameX] = { attrName := some "x", flatten := some ⟨0, 7⟩ } := rfl

/-- well-formed lists exist, and ill-formed ones are not well-formed -/
example : FieldWellFormed {} [renameX, skipWord] :=
  (wf_snoc {} [renameX] ((wf_snoc {} [] (FieldWellFormed.nil _) renameX).mp rfl) skipWord).mp rfl
example : ¬ FieldWellFormed {} [flatten1, renameX] := fun wf =>
  absurd (wf.flattenAlone ⟨flatten1, by simp, rfl⟩ renameX (by simp)) (by decide)

/-- two attributes: the state runs through, the conflict is found across them -/
def dPath : Path := { global := false, segs := ["darling"], plain := true, toks := "darling", span := ⟨2, 9⟩ }
def attrOf (items : List NestedMeta) : Attr :=
  { path := dPath, body := .list dPath items none none "" ⟨0, 0⟩, toks := "", span := ⟨0, 0⟩ }
example : attrVerdicts (fieldPush {}) [] [attrOf [.item flatten1], attrOf [.item renameX]]
    = [conflictErr "flatten" "rename" renameX] := rfl
example : finishWith (parseAttributes (fieldStep {}) {} [] [attrOf [.item flatten1], attrOf [.item renameX]])
    = .err (conflictErr "flatten" "rename" renameX) := rfl
example : finishWith (parseAttributes (fieldStep {}) {} [] [attrOf [.item renameX], attrOf [.item skipFalse]])
    = .ok (fieldState {} [renameX, skipFalse]) := rfl

/-- variants: `word` on a variant with fields is refused each time (never as a repeat); on a unit
    variant the second one is a repeat -/
example : variantVerdict false [] word1 = [wordErr word1] ∧ variantVerdict false [word1] word2 = [wordErr word2] := ⟨rfl, rfl⟩
example : variantVerdict true [] word1 = [] ∧ variantVerdict true [word1] word2 = [dupErr word2] := ⟨rfl, rfl⟩
example : variantVerdict true [] flatten1 = [unknownErr flatten1] := rfl
example : VariantWellFormed true [word1, renameX] :=
  (vwf_snoc true [word1] ((vwf_snoc true [] (VariantWellFormed.nil _) word1).mp rfl) renameX).mp rfl

end C10
