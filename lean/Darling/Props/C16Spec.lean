import Darling.Props.C07OuterRun
/-
  C16 — Magic fields and body conversion mirror the input element faithfully.

  An independent, positional specification written from the property text, and the theorems tying
  the model to it for all inputs (no bound on sizes, no hypothesis on entry converters unless stated).

  Part 1  vocabulary: what a conversion did (`okOf` / `errOf` / `panicOf`), "located by its name"
          (`atName`), the individual errors of an error (`leaves` = `Error::flatten`)
  Part 2  body conversion (`Fields::try_from`, `Data::try_from`):
            `walkSpec`, `*_eq_walkSpec`        the accumulating walk in closed (filter / find) form
            `data_ok_iff_mirrors`              succeeds exactly with the mirror of the input body
            `data_err_iff`                     fails exactly when an entry fails or the body is a union
            `data_err_leaves`                  all failures reported, named fields located by name
            `data_panic_iff`, `data_trichotomy` a panic is the first panic of an entry converter
  Part 3  `print_roundtrip`: re-printing reproduces the original list up to the trailing comma
  Part 4  `genericsMirror_ok_iff`: one mirrored entry per parameter in order + the where-clause
  Part 5  end to end on the run-time model of derived receivers (`Env.runOuter` / `Env.outerRunF`):
            `mainArm_literal`                  the members of the struct literal, by origin
            `magic_member_exact`               ident / vis / ty / discriminant / bounds / default
            `data_member`, `fields_member`, `generics_member`, `fields_err_iff`, `fields_err_leaves`
            `deriveOuter_wellFormed`, `deriveOuter_magic`   the derive links (magic names are never
                                               ordinary fields; `r.magic` = the declared magic fields)
            `outerRunF_ok`, `C16_magic`, `C16_data`, `C16_fields`   every receiver of every corpus
            `struct_leaves_by_list_kind_partial`  the one place where model and code part ways
  Part 6  non-vacuity examples for every hypothesis; the discrepancy examples
-/
open Derive Options

namespace C16
variable {ν : Type}

/-! ## Part 1: vocabulary -/

/-- the value a conversion produced, if it produced one -/
def okOf {α : Type} : Outcome α → Option α
  | .ok v => some v
  | _ => none

/-- the error a conversion returned, if it returned one -/
def errOf {α : Type} : Outcome α → Option Err
  | .err e => some e
  | _ => none

/-- the message a conversion panicked with, if it panicked -/
def panicOf {α : Type} : Outcome α → Option String
  | .panic m => some m
  | _ => none

theorem okOf_ok {α : Type} (v : α) : okOf (Outcome.ok v) = some v := rfl
theorem okOf_err {α : Type} (e : Err) : okOf (Outcome.err e : Outcome α) = none := rfl
theorem okOf_panic {α : Type} (m : String) : okOf (Outcome.panic m : Outcome α) = none := rfl
theorem errOf_ok {α : Type} (v : α) : errOf (Outcome.ok v) = none := rfl
theorem errOf_err {α : Type} (e : Err) : errOf (Outcome.err e : Outcome α) = some e := rfl
theorem errOf_panic {α : Type} (m : String) : errOf (Outcome.panic m : Outcome α) = none := rfl
theorem panicOf_ok {α : Type} (v : α) : panicOf (Outcome.ok v) = none := rfl
theorem panicOf_err {α : Type} (e : Err) : panicOf (Outcome.err e : Outcome α) = none := rfl
theorem panicOf_panic {α : Type} (m : String) : panicOf (Outcome.panic m : Outcome α) = some m := rfl

/-- "located by their name": the name goes in front of the location path; a field without a
    name is left as it is -/
def atName : Option String → Err → Err
  | some n, e => e.at n
  | none, e => e

/-- the individual errors of an error (`Error::flatten`) -/
abbrev leaves (e : Err) : List Err := e.intoVec

/-! ### flattening commutes with locating -/

theorem inheritSpan_at_leaf (k : Kind) (ls : List String) (s sp : Option Span) (n : String) :
    ((Err.leaf k ls s).inheritSpan sp).at n = (Err.leaf k (n :: ls) s).inheritSpan sp := by
  cases sp with
  | none => rfl
  | some x => cases s <;> rfl

mutual
theorem intoVecP_cons (n : String) (pre : List String) (sp : Option Span) :
    ∀ e : Err, Err.intoVecP (n :: pre) sp e = (Err.intoVecP pre sp e).map (·.at n)
  | .leaf k ls s => by
      simp only [Err.intoVecP, List.map_cons, List.map_nil, List.cons_append]
      rw [inheritSpan_at_leaf]
  | .multi cs ls s => by
      simp only [Err.intoVecP, List.cons_append]
      exact intoVecListP_cons n (pre ++ ls) (s.or sp) cs
theorem intoVecListP_cons (n : String) (pre : List String) (sp : Option Span) :
    ∀ es : List Err, Err.intoVecListP (n :: pre) sp es = (Err.intoVecListP pre sp es).map (·.at n)
  | [] => rfl
  | c :: cs => by
      simp only [Err.intoVecListP, List.map_append]
      rw [intoVecP_cons n pre sp c, intoVecListP_cons n pre sp cs]
end

/-- flattening an error located at `n` gives the flattened errors, each located at `n` -/
theorem leaves_at (e : Err) (n : String) : leaves (e.at n) = (leaves e).map (·.at n) := by
  cases e with
  | leaf k ls s =>
      simp only [leaves, Err.intoVec, Err.at, Err.intoVecP, List.nil_append, List.map_cons, List.map_nil]
      rfl
  | multi cs ls s =>
      simp only [leaves, Err.intoVec, Err.at, Err.intoVecP, List.nil_append]
      exact intoVecListP_cons n ls (s.or none) cs

theorem leaves_atName (name : Option String) (e : Err) :
    leaves (atName name e) = (leaves e).map (atName name) := by
  cases name with
  | none => simp only [atName]; exact (List.map_id' _).symm
  | some n => simp only [atName]; exact leaves_at e n

/-- flattening a bundle of two or more errors concatenates their flattened errors -/
theorem intoVecListP_nil_eq_flatMap (es : List Err) :
    Err.intoVecListP [] none es = es.flatMap leaves := by
  induction es with
  | nil => rfl
  | cons c cs ih => simp only [Err.intoVecListP, List.flatMap_cons, ih, leaves, Err.intoVec]

/-- **what an accumulator hands back**: a non-empty list of collected errors is returned as one
    error whose individual errors are those of the collected ones, in order -/
theorem bundleErr_leaves {α : Type} (errs : List Err) (h : errs ≠ []) :
    ∃ E, (Err.bundleErr errs : Outcome α) = .err E ∧ leaves E = errs.flatMap leaves := by
  cases errs with
  | nil => exact absurd rfl h
  | cons e es =>
      cases es with
      | nil =>
          refine ⟨e, rfl, ?_⟩
          simp only [List.flatMap_cons, List.flatMap_nil, List.append_nil]
      | cons e2 es =>
          refine ⟨.multi (e :: e2 :: es) [] none, rfl, ?_⟩
          simp only [leaves, Err.intoVec, Err.intoVecP, List.nil_append]
          exact intoVecListP_nil_eq_flatMap _

/-! ## Part 2: body conversion -/

/-- **the accumulating walk over the entries of a body, said positionally.**
    If some conversion panics, the walk stops at the first such entry (a Rust panic unwinds).
    Otherwise *every* entry has been converted: the values are those of the entries that
    converted, the errors are those of the entries that failed (each passed through `loc`, which
    is where a named field's error gets its name), both in source order. -/
def walkSpec {α : Type} (conv : α → Outcome ν) (loc : α → Err → Err) (xs : List α) :
    Except String (List ν × List Err) :=
  match xs.findSome? (fun x => panicOf (conv x)) with
  | some m => .error m
  | none => .ok (xs.filterMap (fun x => okOf (conv x)),
                 xs.filterMap (fun x => (errOf (conv x)).map (loc x)))

theorem walkSpec_nil {α : Type} (conv : α → Outcome ν) (loc : α → Err → Err) :
    walkSpec conv loc [] = .ok ([], []) := rfl

theorem walkSpec_cons {α : Type} (conv : α → Outcome ν) (loc : α → Err → Err) (x : α) (xs : List α) :
    walkSpec conv loc (x :: xs) =
      (match conv x with
       | .panic m => .error m
       | .ok v => (walkSpec conv loc xs).map (fun r => (v :: r.1, r.2))
       | .err e => (walkSpec conv loc xs).map (fun r => (r.1, loc x e :: r.2))) := by
  unfold walkSpec
  generalize hp : List.findSome? (fun x => panicOf (conv x)) xs = p
  cases hc : conv x with
  | ok v =>
      have h1 : panicOf (conv x) = none := by rw [hc]; rfl
      have h2 : okOf (conv x) = some v := by rw [hc]; rfl
      have h3 : errOf (conv x) = none := by rw [hc]; rfl
      simp only [List.findSome?_cons, List.filterMap_cons, h1, h2, h3, Option.map_none, hp]
      cases p <;> rfl
  | err e =>
      have h1 : panicOf (conv x) = none := by rw [hc]; rfl
      have h2 : okOf (conv x) = none := by rw [hc]; rfl
      have h3 : errOf (conv x) = some e := by rw [hc]; rfl
      simp only [List.findSome?_cons, List.filterMap_cons, h1, h2, h3, Option.map_some, hp]
      cases p <;> rfl
  | panic m =>
      have h1 : panicOf (conv x) = some m := by rw [hc]; rfl
      simp only [List.findSome?_cons, h1]

theorem fieldsTryFrom_eq_walkSpec (conv : FieldD → Outcome ν) (fs : List FieldD) (vs : List ν) (errs : List Err) :
    fieldsTryFrom conv fs vs errs =
      (walkSpec conv (fun f => atName f.ident) fs).map (fun r => (vs ++ r.1, errs ++ r.2)) := by
  induction fs generalizing vs errs with
  | nil => simp only [fieldsTryFrom, walkSpec_nil, Except.map, List.append_nil]
  | cons f rest ih =>
      unfold fieldsTryFrom
      rw [walkSpec_cons]
      cases hc : conv f with
      | ok v =>
          simp only []
          rw [ih]
          cases walkSpec conv (fun f => atName f.ident) rest <;>
            simp only [Except.map, List.append_assoc, List.cons_append, List.nil_append]
      | err e =>
          simp only []
          rw [ih]
          have hl : located f e = atName f.ident e := by
            unfold located atName; cases f.ident <;> rfl
          cases walkSpec conv (fun f => atName f.ident) rest <;>
            simp only [Except.map, List.append_assoc, List.cons_append, List.nil_append, hl]
      | panic m => rfl

theorem variantsTryFrom_eq_walkSpec (conv : VariantD → Outcome ν) (xs : List VariantD) (vs : List ν) (errs : List Err) :
    variantsTryFrom conv xs vs errs =
      (walkSpec conv (fun _ e => e) xs).map (fun r => (vs ++ r.1, errs ++ r.2)) := by
  induction xs generalizing vs errs with
  | nil => simp only [variantsTryFrom, walkSpec_nil, Except.map, List.append_nil]
  | cons x rest ih =>
      unfold variantsTryFrom
      rw [walkSpec_cons]
      cases hc : conv x with
      | ok v =>
          simp only []
          rw [ih]
          cases walkSpec conv (fun _ e => e) rest <;>
            simp only [Except.map, List.append_assoc, List.cons_append, List.nil_append]
      | err e =>
          simp only []
          rw [ih]
          cases walkSpec conv (fun _ e => e) rest <;>
            simp only [Except.map, List.append_assoc, List.cons_append, List.nil_append]
      | panic m => rfl

/-! ### consequences of the positional description -/

/-- the walk ends without any error **exactly when** every entry converts, and then the values
    are the converted entries: one per input entry, in source order -/
theorem walkSpec_ok_iff {α : Type} (conv : α → Outcome ν) (loc : α → Err → Err) (xs : List α) (vs : List ν) :
    walkSpec conv loc xs = .ok (vs, []) ↔ xs.map conv = vs.map Outcome.ok := by
  induction xs generalizing vs with
  | nil =>
      rw [walkSpec_nil]
      cases vs with
      | nil => exact ⟨fun _ => rfl, fun _ => rfl⟩
      | cons v vs =>
          constructor
          · intro h; cases h
          · intro h; cases h
  | cons x rest ih =>
      rw [walkSpec_cons]
      cases hc : conv x with
      | ok v =>
          simp only [List.map_cons, hc]
          cases hw : walkSpec conv loc rest with
          | error m =>
              constructor
              · intro h; cases h
              · intro h
                cases vs with
                | nil => cases h
                | cons w ws =>
                    simp only [List.map_cons, List.cons.injEq] at h
                    have := (ih ws).mpr h.2
                    rw [hw] at this; cases this
          | ok r =>
              obtain ⟨a, b⟩ := r
              simp only [Except.map]
              constructor
              · intro h
                simp only [Except.ok.injEq, Prod.mk.injEq] at h
                obtain ⟨rfl, rfl⟩ := h
                simp only [List.map_cons, List.cons.injEq, true_and]
                exact (ih a).mp hw
              · intro h
                cases vs with
                | nil => cases h
                | cons w ws =>
                    simp only [List.map_cons, List.cons.injEq, Outcome.ok.injEq] at h
                    obtain ⟨rfl, h2⟩ := h
                    have := (ih ws).mpr h2
                    rw [hw] at this
                    simp only [Except.ok.injEq, Prod.mk.injEq] at this
                    obtain ⟨rfl, rfl⟩ := this
                    rfl
      | err e =>
          simp only [List.map_cons, hc]
          constructor
          · intro h
            cases hw : walkSpec conv loc rest with
            | error m => rw [hw] at h; cases h
            | ok r =>
                rw [hw] at h
                simp only [Except.map, Except.ok.injEq, Prod.mk.injEq] at h
                exact absurd h.2 (List.cons_ne_nil _ _)
          · intro h
            cases vs with
            | nil => cases h
            | cons w ws => simp only [List.map_cons, List.cons.injEq] at h; cases h.1
      | panic m =>
          simp only [List.map_cons, hc]
          constructor
          · intro h; cases h
          · intro h
            cases vs with
            | nil => cases h
            | cons w ws => simp only [List.map_cons, List.cons.injEq] at h; cases h.1

/-- the collected errors are empty exactly when no entry returned an error -/
theorem errs_nil_iff {α : Type} (conv : α → Outcome ν) (loc : α → Err → Err) (xs : List α) :
    xs.filterMap (fun x => (errOf (conv x)).map (loc x)) = [] ↔ ∀ x ∈ xs, ∀ e, conv x ≠ .err e := by
  induction xs with
  | nil => simp only [List.filterMap_nil, List.not_mem_nil, false_imp_iff, implies_true]
  | cons x rest ih =>
      simp only [List.filterMap_cons, List.mem_cons, forall_eq_or_imp]
      cases hc : conv x with
      | ok v =>
          simp only [errOf_ok, Option.map_none, ih]
          exact ⟨fun h => ⟨fun e he => (nomatch he), h⟩, fun h => h.2⟩
      | err e =>
          simp only [errOf_err, Option.map_some]
          exact ⟨fun h => (nomatch h), fun h => absurd rfl (h.1 e)⟩
      | panic m =>
          simp only [errOf_panic, Option.map_none, ih]
          exact ⟨fun h => ⟨fun e he => (nomatch he), h⟩, fun h => h.2⟩

/-- no entry panics -/
def NoneP {α : Type} (conv : α → Outcome ν) (xs : List α) : Prop := ∀ x ∈ xs, ∀ m, conv x ≠ .panic m

theorem findSome_panic_none_iff {α : Type} (conv : α → Outcome ν) (xs : List α) :
    xs.findSome? (fun x => panicOf (conv x)) = none ↔ NoneP conv xs := by
  unfold NoneP
  induction xs with
  | nil => simp only [List.findSome?_nil, List.not_mem_nil, false_imp_iff, implies_true]
  | cons x rest ih =>
      simp only [List.findSome?_cons, List.mem_cons, forall_eq_or_imp]
      cases hc : conv x with
      | ok v =>
          simp only [panicOf_ok, ih]
          exact ⟨fun h => ⟨fun m hm => (nomatch hm), h⟩, fun h => h.2⟩
      | err e =>
          simp only [panicOf_err, ih]
          exact ⟨fun h => ⟨fun m hm => (nomatch hm), h⟩, fun h => h.2⟩
      | panic m =>
          simp only [panicOf_panic]
          exact ⟨fun h => (nomatch h), fun h => absurd rfl (h.1 m)⟩

theorem errs_flatMap_leaves {α : Type} (conv : α → Outcome ν) (loc : α → Err → Err) (xs : List α) :
    (xs.filterMap (fun x => (errOf (conv x)).map (loc x))).flatMap leaves =
      xs.flatMap (fun x => match conv x with | .err e => leaves (loc x e) | _ => []) := by
  induction xs with
  | nil => rfl
  | cons x rest ih =>
      simp only [List.filterMap_cons, List.flatMap_cons]
      cases hc : conv x with
      | ok v => simp only [errOf_ok, Option.map_none, ih, List.nil_append]
      | err e => simp only [errOf_err, Option.map_some, List.flatMap_cons, ih]
      | panic m => simp only [errOf_panic, Option.map_none, ih, List.nil_append]

/-! ### the body: `Data::try_from` / `Fields::try_from` against the text -/

section body
variable (fconv : FieldD → Outcome ν) (vconv : VariantD → Outcome ν)
  (mkStruct : Style → List ν → ν) (mkEnum : List ν → ν)

/-- **"the same kind and style as the input body with exactly one converted entry per input field
    or variant, in source order"**: `v` is a struct body of the input's style (an enum body) whose
    entry list `es` is, position by position, the conversion of the input's field (variant) list.
    There is no mirror of a union. -/
def Mirrors : BodyD → ν → Prop
  | .struct style fs, v => ∃ es, fs.map fconv = es.map Outcome.ok ∧ v = mkStruct style es
  | .enum xs, v => ∃ es, xs.map vconv = es.map Outcome.ok ∧ v = mkEnum es
  | .union, _ => False

/-- **"fails exactly when some field or variant fails or the element is a union"**; a panicking
    entry converter is neither a success nor a failure of the conversion (the panic propagates) -/
def FailsByText : BodyD → Prop
  | .struct _ fs => NoneP fconv fs ∧ ∃ f ∈ fs, ∃ e, fconv f = .err e
  | .enum xs => NoneP vconv xs ∧ ∃ x ∈ xs, ∃ e, vconv x = .err e
  | .union => True

/-- **"all such failures are reported, named fields located by their name"**: the individual
    errors of the result are those of every failing entry, in source order, each one of a named
    field with the field's name in front of its location path -/
def failureLeaves : BodyD → List Err
  | .struct _ fs => fs.flatMap (fun f => match fconv f with
      | .err e => (leaves e).map (atName f.ident)
      | _ => [])
  | .enum xs => xs.flatMap (fun x => match vconv x with
      | .err e => leaves e
      | _ => [])
  | .union => [Err.custom "Unions are not supported"]

/-- the first panic of an entry converter, in source order -/
def firstPanic : BodyD → Option String
  | .struct _ fs => fs.findSome? (fun f => panicOf (fconv f))
  | .enum xs => xs.findSome? (fun x => panicOf (vconv x))
  | .union => none

theorem fieldsTryFrom_start (fs : List FieldD) :
    fieldsTryFrom fconv fs [] [] = walkSpec fconv (fun f => atName f.ident) fs := by
  rw [fieldsTryFrom_eq_walkSpec]
  cases walkSpec fconv (fun f => atName f.ident) fs with
  | error m => rfl
  | ok r => simp only [Except.map, List.nil_append]

theorem variantsTryFrom_start (xs : List VariantD) :
    variantsTryFrom vconv xs [] [] = walkSpec vconv (fun _ e => e) xs := by
  rw [variantsTryFrom_eq_walkSpec]
  cases walkSpec vconv (fun _ e => e) xs with
  | error m => rfl
  | ok r => simp only [Except.map, List.nil_append]

theorem bundleErr_ne_ok' {α : Type} (e : Err) (es : List Err) (v : α) : (Err.bundleErr (e :: es) : Outcome α) ≠ .ok v := by
  cases es <;> intro h <;> cases h

theorem bundleErr_ne_panic' {α : Type} (e : Err) (es : List Err) (m : String) :
    (Err.bundleErr (e :: es) : Outcome α) ≠ .panic m := by
  cases es <;> intro h <;> cases h

/-- what the three-way match of `Data::try_from` / `Fields::try_from` does with a finished walk -/
def finishWalk (mk : List ν → ν) : Except String (List ν × List Err) → Outcome ν
  | .error m => .panic m
  | .ok (vs, []) => .ok (mk vs)
  | .ok (_, errs) => Err.bundleErr errs

theorem dataTryFrom_eq (b : BodyD) :
    dataTryFrom fconv vconv mkStruct mkEnum b =
      (match b with
       | .union => .err (Err.custom "Unions are not supported")
       | .struct style fs => finishWalk (mkStruct style) (walkSpec fconv (fun f => atName f.ident) fs)
       | .enum xs => finishWalk mkEnum (walkSpec vconv (fun _ e => e) xs)) := by
  cases b with
  | union => rfl
  | struct style fs =>
      simp only [dataTryFrom, fieldsTryFrom_start]
      cases walkSpec fconv (fun f => atName f.ident) fs with
      | error m => rfl
      | ok r => obtain ⟨vs, errs⟩ := r; cases errs <;> rfl
  | «enum» xs =>
      simp only [dataTryFrom, variantsTryFrom_start]
      cases walkSpec vconv (fun _ e => e) xs with
      | error m => rfl
      | ok r => obtain ⟨vs, errs⟩ := r; cases errs <;> rfl

theorem finishWalk_ok_iff {α : Type} (conv : α → Outcome ν) (loc : α → Err → Err) (xs : List α)
    (mk : List ν → ν) (v : ν) :
    finishWalk mk (walkSpec conv loc xs) = .ok v ↔ ∃ es, xs.map conv = es.map Outcome.ok ∧ v = mk es := by
  constructor
  · intro h
    cases hw : walkSpec conv loc xs with
    | error m => rw [hw] at h; cases h
    | ok r =>
        obtain ⟨vs, errs⟩ := r
        rw [hw] at h
        cases errs with
        | nil =>
            simp only [finishWalk, Outcome.ok.injEq] at h
            exact ⟨vs, (walkSpec_ok_iff conv loc xs vs).mp hw, h.symm⟩
        | cons e es => exact absurd h (bundleErr_ne_ok' e es v)
  · rintro ⟨es, hm, rfl⟩
    rw [(walkSpec_ok_iff conv loc xs es).mpr hm]
    rfl

/-- **C16, body conversion succeeds exactly with the mirror of the input body** — for every entry
    converter (no hypothesis on it), every body, every value -/
theorem data_ok_iff_mirrors (b : BodyD) (v : ν) :
    dataTryFrom fconv vconv mkStruct mkEnum b = .ok v ↔ Mirrors fconv vconv mkStruct mkEnum b v := by
  rw [dataTryFrom_eq]
  cases b with
  | union => simp only [Mirrors, iff_false]; intro h; cases h
  | struct style fs => exact finishWalk_ok_iff fconv _ fs (mkStruct style) v
  | «enum» xs => exact finishWalk_ok_iff vconv _ xs mkEnum v

theorem finishWalk_err {α : Type} (conv : α → Outcome ν) (loc : α → Err → Err) (xs : List α)
    (mk : List ν → ν) (E : Err) (h : finishWalk mk (walkSpec conv loc xs) = .err E) :
    NoneP conv xs ∧ (∃ x ∈ xs, ∃ e, conv x = .err e) ∧
      leaves E = xs.flatMap (fun x => match conv x with | .err e => leaves (loc x e) | _ => []) := by
  unfold walkSpec at h
  cases hp : List.findSome? (fun x => panicOf (conv x)) xs with
  | some m => rw [hp] at h; cases h
  | none =>
      rw [hp] at h
      simp only [] at h
      have hnp := (findSome_panic_none_iff conv xs).mp hp
      cases hes : xs.filterMap (fun x => (errOf (conv x)).map (loc x)) with
      | nil => rw [hes] at h; cases h
      | cons e es =>
          have hne : ¬ ∀ x ∈ xs, ∀ e, conv x ≠ .err e := by
            intro hall
            have := (errs_nil_iff conv loc xs).mpr hall
            rw [hes] at this; cases this
          refine ⟨hnp, ?_, ?_⟩
          · apply Classical.byContradiction
            intro hno
            apply hne
            intro x hx e he
            exact hno ⟨x, hx, e, he⟩
          · rw [hes] at h
            obtain ⟨E', hE', hl⟩ := bundleErr_leaves (α := ν) (e :: es) (List.cons_ne_nil _ _)
            simp only [finishWalk] at h
            rw [hE'] at h
            cases h
            rw [hl, ← hes]
            exact errs_flatMap_leaves conv loc xs

theorem finishWalk_fails {α : Type} (conv : α → Outcome ν) (loc : α → Err → Err) (xs : List α)
    (mk : List ν → ν) (hnp : NoneP conv xs) (x : α) (hx : x ∈ xs) (e : Err) (he : conv x = .err e) :
    ∃ E, finishWalk mk (walkSpec conv loc xs) = .err E := by
  unfold walkSpec
  rw [(findSome_panic_none_iff conv xs).mpr hnp]
  simp only []
  cases hes : xs.filterMap (fun x => (errOf (conv x)).map (loc x)) with
  | nil =>
      exact absurd he ((errs_nil_iff conv loc xs).mp hes x hx e)
  | cons e1 es =>
      obtain ⟨E', hE', _⟩ := bundleErr_leaves (α := ν) (e1 :: es) (List.cons_ne_nil _ _)
      exact ⟨E', hE'⟩

/-- **C16, "fails exactly when"**: body conversion returns an error exactly when the element is
    a union, or some entry fails (and none panics) -/
theorem data_err_iff (b : BodyD) :
    (∃ E, dataTryFrom fconv vconv mkStruct mkEnum b = .err E) ↔ FailsByText fconv vconv b := by
  rw [dataTryFrom_eq]
  cases b with
  | union => simp only [FailsByText, iff_true]; exact ⟨_, rfl⟩
  | struct style fs =>
      simp only [FailsByText]
      constructor
      · rintro ⟨E, h⟩
        obtain ⟨h1, h2, _⟩ := finishWalk_err fconv _ fs (mkStruct style) E h
        exact ⟨h1, h2⟩
      · rintro ⟨h1, x, hx, e, he⟩
        exact finishWalk_fails fconv _ fs (mkStruct style) h1 x hx e he
  | «enum» xs =>
      simp only [FailsByText]
      constructor
      · rintro ⟨E, h⟩
        obtain ⟨h1, h2, _⟩ := finishWalk_err vconv _ xs mkEnum E h
        exact ⟨h1, h2⟩
      · rintro ⟨h1, x, hx, e, he⟩
        exact finishWalk_fails vconv _ xs mkEnum h1 x hx e he

/-- **C16, "all such failures are reported, named fields located by their name"** -/
theorem data_err_leaves (b : BodyD) (E : Err)
    (h : dataTryFrom fconv vconv mkStruct mkEnum b = .err E) :
    leaves E = failureLeaves fconv vconv b := by
  rw [dataTryFrom_eq] at h
  cases b with
  | union =>
      simp only [Outcome.err.injEq] at h
      subst h
      rfl
  | struct style fs =>
      obtain ⟨_, _, hl⟩ := finishWalk_err fconv _ fs (mkStruct style) E h
      rw [hl]
      simp only [failureLeaves]
      congr 1
      funext f
      cases fconv f with
      | err e => exact leaves_atName f.ident e
      | ok v => rfl
      | panic m => rfl
  | «enum» xs =>
      obtain ⟨_, _, hl⟩ := finishWalk_err vconv _ xs mkEnum E h
      rw [hl]
      rfl

/-- a panic of the conversion is the first panic of an entry converter, and nothing else -/
theorem data_panic_iff (b : BodyD) (m : String) :
    dataTryFrom fconv vconv mkStruct mkEnum b = .panic m ↔ firstPanic fconv vconv b = some m := by
  rw [dataTryFrom_eq]
  have key : ∀ {α : Type} (conv : α → Outcome ν) (loc : α → Err → Err) (xs : List α) (mk : List ν → ν),
      finishWalk mk (walkSpec conv loc xs) = .panic m ↔ xs.findSome? (fun x => panicOf (conv x)) = some m := by
    intro α conv loc xs mk
    unfold walkSpec
    cases hp : List.findSome? (fun x => panicOf (conv x)) xs with
    | some m' =>
        simp only [finishWalk, Outcome.panic.injEq, Option.some.injEq]
    | none =>
        simp only []
        cases hes : xs.filterMap (fun x => (errOf (conv x)).map (loc x)) with
        | nil => simp only [finishWalk]; constructor <;> intro h <;> cases h
        | cons e es =>
            simp only [finishWalk]
            constructor
            · intro h; exact absurd h (bundleErr_ne_panic' e es m)
            · intro h; cases h
  cases b with
  | union => simp only [firstPanic]; constructor <;> intro h <;> cases h
  | struct style fs => exact key fconv _ fs (mkStruct style)
  | «enum» xs => exact key vconv _ xs mkEnum

/-- the three outcomes are exhaustive and exclusive: success (the mirror), failure (by the text),
    or the propagated panic of an entry converter -/
theorem data_trichotomy (b : BodyD) :
    (∃ v, Mirrors fconv vconv mkStruct mkEnum b v) ∨ FailsByText fconv vconv b ∨
      (∃ m, firstPanic fconv vconv b = some m) := by
  cases h : dataTryFrom fconv vconv mkStruct mkEnum b with
  | ok v => exact .inl ⟨v, (data_ok_iff_mirrors fconv vconv mkStruct mkEnum b v).mp h⟩
  | err E => exact .inr (.inl ((data_err_iff fconv vconv mkStruct mkEnum b).mp ⟨E, h⟩))
  | panic m => exact .inr (.inr ⟨m, (data_panic_iff fconv vconv mkStruct mkEnum b m).mp h⟩)

end body

/-! ## Part 3: re-printing a converted field list -/

/-- how `syn` prints the ORIGINAL field list (white space removed): named fields in braces, tuple
    fields in parentheses, a unit body as nothing; `trailing` = the source had a trailing comma
    (only a non-empty list can have one) -/
def printOriginal (style : Style) (fields : List String) (trailing : Bool) : String :=
  match style with
  | .named => "{" ++ ",".intercalate fields ++ (if trailing then "," else "") ++ "}"
  | .tuple => "(" ++ ",".intercalate fields ++ (if trailing then "," else "") ++ ")"
  | .unit => ""

/-- equal, or differing by exactly one comma directly in front of the closing delimiter -/
def EqUpToTrailingComma (a b : String) : Prop :=
  a = b ∨ ∃ p c, (c = "}" ∨ c = ")") ∧
    ((a = p ++ "," ++ c ∧ b = p ++ c) ∨ (a = p ++ c ∧ b = p ++ "," ++ c))

/-- **C16, print round trip**: for every style, every list of printed fields and either comma
    convention of the source (no side condition), the re-printed converted list is the original
    list up to the trailing comma -/
theorem print_roundtrip (style : Style) (fields : List String) (trailing : Bool) :
    EqUpToTrailingComma (printFields style fields) (printOriginal style fields trailing) := by
  cases style with
  | unit => exact .inl rfl
  | named =>
      cases fields with
      | nil =>
          cases trailing with
          | false => exact .inl rfl
          | true => exact .inr ⟨"{", "}", .inl rfl, .inr ⟨rfl, rfl⟩⟩
      | cons f fs =>
          cases trailing with
          | true => exact .inl rfl
          | false =>
              refine .inr ⟨"{" ++ ",".intercalate (f :: fs), "}", .inl rfl, .inl ⟨?_, ?_⟩⟩
              · simp only [printFields, List.isEmpty_cons, Bool.false_eq_true, if_false]
              · simp only [printOriginal, Bool.false_eq_true, if_false, String.append_empty]
  | tuple =>
      cases trailing with
      | false => left; simp only [printFields, printOriginal, Bool.false_eq_true, if_false, String.append_empty]
      | true =>
          refine .inr ⟨"(" ++ ",".intercalate fields, ")", .inr rfl, .inr ⟨rfl, ?_⟩⟩
          simp only [printOriginal, if_true]

/-- a list converted with the clone instance (`F = syn::Field`) holds the printed fields themselves -/
theorem clone_entries (fs : List FieldD) :
    fs.map (fun f => (Outcome.ok (Val.toks f.toks) : Outcome Val)) = (fs.map (fun f => Val.toks f.toks)).map Outcome.ok := by
  simp only [List.map_map, Function.comp_def]

/-! ## Part 4: the `ast::Generics` mirror -/

/-- `collect::<Result<Vec<_>>>()` succeeds exactly with the list of all converted items -/
theorem collectFirst_ok_iff {β γ : Type} (f : β → Outcome γ) (xs : List β) (vs : List γ) :
    collectFirst f xs = .ok vs ↔ xs.map f = vs.map Outcome.ok := by
  induction xs generalizing vs with
  | nil =>
      cases vs with
      | nil => exact ⟨fun _ => rfl, fun _ => rfl⟩
      | cons v vs => exact ⟨fun h => (nomatch h), fun h => (nomatch h)⟩
  | cons x rest ih =>
      unfold collectFirst
      cases hx : f x with
      | ok v =>
          simp only [List.map_cons, hx]
          cases hr : collectFirst f rest with
          | ok ws =>
              simp only [Outcome.ok.injEq]
              constructor
              · rintro rfl
                simp only [List.map_cons, List.cons.injEq, true_and]
                exact (ih ws).mp hr
              · intro h
                cases vs with
                | nil => cases h
                | cons w ws' =>
                    simp only [List.map_cons, List.cons.injEq, Outcome.ok.injEq] at h
                    obtain ⟨rfl, h2⟩ := h
                    have := (ih ws').mpr h2
                    rw [hr] at this
                    cases this
                    rfl
          | err e =>
              simp only []
              constructor
              · intro h; cases h
              · intro h
                cases vs with
                | nil => cases h
                | cons w ws' =>
                    simp only [List.map_cons, List.cons.injEq] at h
                    have := (ih ws').mpr h.2
                    rw [hr] at this; cases this
          | panic m =>
              simp only []
              constructor
              · intro h; cases h
              · intro h
                cases vs with
                | nil => cases h
                | cons w ws' =>
                    simp only [List.map_cons, List.cons.injEq] at h
                    have := (ih ws').mpr h.2
                    rw [hr] at this; cases this
      | err e =>
          simp only [List.map_cons, hx]
          constructor
          · intro h; cases h
          · intro h
            cases vs with
            | nil => cases h
            | cons w ws' => simp only [List.map_cons, List.cons.injEq] at h; cases h.1
      | panic m =>
          simp only [List.map_cons, hx]
          constructor
          · intro h; cases h
          · intro h
            cases vs with
            | nil => cases h
            | cons w ws' => simp only [List.map_cons, List.cons.injEq] at h; cases h.1

/-- the where-clause member: present exactly when the input has a where-clause (even one
    without predicates), holding its tokens -/
def whereMirror (g : GenericsD) : Val := if g.hasWhere then .some (.toks g.whereToks) else .none

/-- **"generics (including where-clause) unchanged"** for the `ast::Generics<P>` mirror: it
    succeeds exactly with the record of one mirrored entry per parameter, in source order, and the
    input's where-clause — whether or not there are parameters -/
theorem genericsMirror_ok_iff (wrap : Option (TypeParamD → Outcome Val)) (g : GenericsD) (v : Val) :
    genericsMirror wrap g = .ok v ↔
      ∃ ps, g.params.map (gparamMirror wrap) = ps.map Outcome.ok ∧
        v = .record "Generics" [("params", .list ps), ("where_clause", whereMirror g)] := by
  unfold genericsMirror
  cases hc : collectFirst (gparamMirror wrap) g.params with
  | ok ps =>
      simp only [Outcome.ok.injEq]
      constructor
      · rintro rfl
        exact ⟨ps, (collectFirst_ok_iff _ _ _).mp hc, rfl⟩
      · rintro ⟨ps', hm, rfl⟩
        have := (collectFirst_ok_iff _ _ _).mpr hm
        rw [hc] at this
        cases this
        rfl
  | err e =>
      simp only []
      constructor
      · intro h; cases h
      · rintro ⟨ps', hm, _⟩
        have := (collectFirst_ok_iff _ _ _).mpr hm
        rw [hc] at this; cases this
  | panic m =>
      simp only []
      constructor
      · intro h; cases h
      · rintro ⟨ps', hm, _⟩
        have := (collectFirst_ok_iff _ _ _).mpr hm
        rw [hc] at this; cases this

/-- lifetimes and const parameters are mirrored by their own tokens and never fail; a type
    parameter is a clone (`syn::GenericParam`) or goes through the `FromTypeParam` conversion -/
theorem gparam_lifetime_clone (s : String) : gparamMirror none (.lifetime s) = .ok (.toks s) := rfl
theorem gparam_const_clone (s : String) : gparamMirror none (.const s) = .ok (.toks s) := rfl
theorem gparam_type_clone (t : TypeParamD) : gparamMirror none (.type t) = .ok (.toks t.toks) := rfl
theorem gparam_lifetime (c : TypeParamD → Outcome Val) (s : String) :
    gparamMirror (some c) (.lifetime s) = .ok (.variant "GenericParam" "Lifetime" (.toks s)) := rfl
theorem gparam_const (c : TypeParamD → Outcome Val) (s : String) :
    gparamMirror (some c) (.const s) = .ok (.variant "GenericParam" "Const" (.toks s)) := rfl
theorem gparam_type (c : TypeParamD → Outcome Val) (t : TypeParamD) :
    gparamMirror (some c) (.type t) = (c t).map (fun v => .variant "GenericParam" "Type" v) := rfl

/-- the clone instance never fails -/
theorem genericsMirror_clone_total (g : GenericsD) :
    genericsMirror none g = .ok (.record "Generics"
      [("params", .list (g.params.map (fun p => match p with
          | .type t => Val.toks t.toks | .lifetime s => .toks s | .const s => .toks s))),
       ("where_clause", whereMirror g)]) := by
  rw [genericsMirror_ok_iff]
  refine ⟨_, ?_, rfl⟩
  simp only [List.map_map]
  apply List.map_congr_left
  intro p _
  cases p <;> rfl

/-! ## Part 5: the magic members of a derived element-level receiver, end to end -/

/-! ### 5.1 the struct literal -/

theorem mem_sortKvs_ins (kv y : String × Val) (l : List (String × Val)) :
    y ∈ Env.sortKvs.ins kv l ↔ y = kv ∨ y ∈ l := by
  induction l with
  | nil => simp only [Env.sortKvs.ins, List.mem_singleton, List.not_mem_nil, or_false]
  | cons x xs ih =>
      unfold Env.sortKvs.ins
      split
      · simp only [List.mem_cons]
      · simp only [List.mem_cons, ih]
        constructor
        · rintro (h | h | h)
          · exact .inr (.inl h)
          · exact .inl h
          · exact .inr (.inr h)
        · rintro (h | h | h)
          · exact .inr (.inl h)
          · exact .inl h
          · exact .inr (.inr h)

/-- the record lists its members sorted by name; sorting neither drops, adds nor alters a member -/
theorem mem_sortKvs (y : String × Val) (l : List (String × Val)) : y ∈ Env.sortKvs l ↔ y ∈ l := by
  induction l with
  | nil => simp only [Env.sortKvs, List.foldr_nil]
  | cons x xs ih =>
      have : Env.sortKvs (x :: xs) = Env.sortKvs.ins x (Env.sortKvs xs) := rfl
      rw [this, mem_sortKvs_ins, ih, List.mem_cons]

theorem initFields_keys (r : SStruct ν) (st : PState ν) :
    ∀ (fs : List (SField ν)) (inits : List (String × ν)), initFields r st fs = .ok inits →
      inits.map (·.1) = fs.map (·.ident)
  | [], inits, h => by simp only [initFields, Outcome.ok.injEq] at h; subst h; rfl
  | f :: rest, inits, h => by
      unfold initFields at h
      cases hf : initField r st f with
      | ok v =>
          rw [hf] at h
          cases hr : initFields r st rest with
          | ok is =>
              rw [hr] at h
              simp only [Outcome.map, Outcome.ok.injEq] at h
              subst h
              simp only [List.map_cons, initFields_keys r st rest is hr]
          | err e => rw [hr] at h; cases h
          | panic m => rw [hr] at h; cases h
      | err e => rw [hf] at h; cases h
      | panic m => rw [hf] at h; cases h

theorem attrsPart_keys (r : SOuter ν) (av : Option ν) (a : List (String × ν)) (h : attrsPart r av = .ok a) :
    ∀ kv ∈ a, kv.1 = "attrs" := by
  unfold attrsPart at h
  split at h
  · cases h; intro kv hkv; cases hkv
  · cases h
    intro kv hkv
    simp only [List.mem_singleton] at hkv
    subst hkv; rfl
  · cases h

/-- **the literal of a successful receiver**: the members handed to the struct literal are, in
    this order, the pass-through members given (`early`), the `attrs` member if any, every `?`
    member (generics, body) — all of which succeeded — and one member per ordinary field -/
theorem finishOuter_literal (r : SOuter ν) (st : PState ν) (attrsVal : Option ν) (validate : Outcome Unit)
    (lateParts : List (String × Outcome ν)) (early : List (String × ν)) (build : List (String × ν) → ν) (v : ν)
    (h : finishOuter r st attrsVal validate lateParts early build = .ok v) :
    ∃ a l inits, lateParts = l.map (fun kv => (kv.1, Outcome.ok kv.2)) ∧
      (∀ kv ∈ a, kv.1 = "attrs") ∧
      inits.map (·.1) = r.fields.fields.map (·.ident) ∧
      r.fields.post (build (early ++ a ++ l ++ inits)) = .ok v := by
  have hs : ∃ st', assemble r st' attrsVal lateParts early build = .ok v := by
    unfold finishOuter at h
    cases validate with
    | panic m => cases h
    | err e => exact finishChecked_ok _ _ _ _ _ _ _ h
    | ok u => exact finishChecked_ok _ _ _ _ _ _ _ h
  obtain ⟨st', hs⟩ := hs
  unfold assemble at hs
  cases ha : attrsPart r attrsVal <;> cases hl : lateValues lateParts <;>
    cases hi : initFields r.fields st' r.fields.fields <;> rw [ha, hl, hi] at hs <;>
    simp only [reduceCtorEq] at hs
  rename_i a l inits
  exact ⟨a, l, inits, late_ok _ _ hl, attrsPart_keys r attrsVal a ha, initFields_keys _ _ _ _ hi, hs⟩

/-! ### 5.2 the parts of an input element (from the property text) -/

/-- **"identifier, visibility, type, discriminant, bounds, default — unchanged"**: the parts of
    each kind of input element a magic field can ask for, under the magic field's name, as the
    element's own tokens.  (Generics and the body are converted, not cloned: 5.4.) -/
def parts : Elem → List (String × Val)
  | .deriveInput d => [("ident", .toks d.ident), ("vis", .toks d.vis)]
  | .field f => [("ident", optToks f.ident), ("ty", .toks f.tyToks), ("vis", .toks f.vis)]
  | .variant v => [("ident", .toks v.ident), ("discriminant", optToks v.discriminant)]
  | .typeParam t => [("ident", .toks t.ident), ("bounds", .list (t.bounds.map .toks)),
                     ("default", optToks t.default)]
  | .attrs _ => []

/-- the pass-through members of the literal are exactly the declared ones among the parts -/
theorem earlyParts_eq_filter (has : String → Bool) (el : Elem) :
    earlyParts has el = (parts el).filter (fun kv => has kv.1) := by
  cases el with
  | deriveInput d =>
      simp only [earlyParts, parts, List.filter]
      cases has "ident" <;> cases has "vis" <;> rfl
  | field f =>
      simp only [earlyParts, parts, List.filter]
      cases has "ident" <;> cases has "ty" <;> cases has "vis" <;> rfl
  | variant v =>
      simp only [earlyParts, parts, List.filter]
      cases has "ident" <;> cases has "discriminant" <;> rfl
  | typeParam t =>
      simp only [earlyParts, parts, List.filter]
      cases has "ident" <;> cases has "bounds" <;> cases has "default" <;> rfl
  | attrs as => rfl

/-- the names of the parts of each kind of element -/
def partNames : Elem → List String
  | .deriveInput _ => ["ident", "vis"]
  | .field _ => ["ident", "ty", "vis"]
  | .variant _ => ["ident", "discriminant"]
  | .typeParam _ => ["ident", "bounds", "default"]
  | .attrs _ => []

theorem parts_names (el : Elem) : (parts el).map (·.1) = partNames el := by
  cases el <;> rfl

/-- every part has its own name: a name determines the part -/
theorem parts_functional (el : Elem) (m : String) (x y : Val)
    (hx : (m, x) ∈ parts el) (hy : (m, y) ∈ parts el) : x = y := by
  cases el with
  | deriveInput d =>
      simp only [parts, List.mem_cons, Prod.mk.injEq, List.not_mem_nil, or_false] at hx hy
      rcases hx with ⟨rfl, rfl⟩ | ⟨rfl, rfl⟩ <;> rcases hy with ⟨h, rfl⟩ | ⟨h, rfl⟩ <;>
        first | rfl | (exact absurd h (by decide))
  | field f =>
      simp only [parts, List.mem_cons, Prod.mk.injEq, List.not_mem_nil, or_false] at hx hy
      rcases hx with ⟨rfl, rfl⟩ | ⟨rfl, rfl⟩ | ⟨rfl, rfl⟩ <;>
        rcases hy with ⟨h, rfl⟩ | ⟨h, rfl⟩ | ⟨h, rfl⟩ <;>
        first | rfl | (exact absurd h (by decide))
  | variant v =>
      simp only [parts, List.mem_cons, Prod.mk.injEq, List.not_mem_nil, or_false] at hx hy
      rcases hx with ⟨rfl, rfl⟩ | ⟨rfl, rfl⟩ <;> rcases hy with ⟨h, rfl⟩ | ⟨h, rfl⟩ <;>
        first | rfl | (exact absurd h (by decide))
  | typeParam t =>
      simp only [parts, List.mem_cons, Prod.mk.injEq, List.not_mem_nil, or_false] at hx hy
      rcases hx with ⟨rfl, rfl⟩ | ⟨rfl, rfl⟩ | ⟨rfl, rfl⟩ <;>
        rcases hy with ⟨h, rfl⟩ | ⟨h, rfl⟩ | ⟨h, rfl⟩ <;>
        first | rfl | (exact absurd h (by decide))
  | attrs as => cases hx

/-- the table agrees with the one of `C16.component` (cross-check of two independent writings) -/
theorem parts_iff_component (el : Elem) (m : String) (x : Val) :
    (m, x) ∈ parts el ↔ component el m = some x := by
  constructor
  · intro h
    cases el with
    | deriveInput d =>
        simp only [parts, List.mem_cons, Prod.mk.injEq, List.not_mem_nil, or_false] at h
        rcases h with ⟨rfl, rfl⟩ | ⟨rfl, rfl⟩ <;> rfl
    | field f =>
        simp only [parts, List.mem_cons, Prod.mk.injEq, List.not_mem_nil, or_false] at h
        rcases h with ⟨rfl, rfl⟩ | ⟨rfl, rfl⟩ | ⟨rfl, rfl⟩ <;> rfl
    | variant v =>
        simp only [parts, List.mem_cons, Prod.mk.injEq, List.not_mem_nil, or_false] at h
        rcases h with ⟨rfl, rfl⟩ | ⟨rfl, rfl⟩ <;> rfl
    | typeParam t =>
        simp only [parts, List.mem_cons, Prod.mk.injEq, List.not_mem_nil, or_false] at h
        rcases h with ⟨rfl, rfl⟩ | ⟨rfl, rfl⟩ | ⟨rfl, rfl⟩ <;> rfl
    | attrs as => cases h
  · intro h
    have := earlyParts_complete (fun _ => true) el m x rfl h
    rw [earlyParts_eq_filter] at this
    exact (List.mem_filter.mp this).1

/-! ### 5.3 one derived receiver on one element -/

/-- the container-level `map` / `and_then` of the receiver, applied to the finished literal
    (user code; the identity when the receiver declares none) -/
def containerPost (r : ROuter) : Val → Outcome Val :=
  match r.base.post.bind Env.customPost with
  | some (_, g) => g
  | none => .ok

theorem soOf_post (env : Env.T) (r : ROuter) (fields : List RField) (el : Elem) :
    (C07.soOf env r fields el).fields.post = containerPost r := rfl

theorem soOf_idents (env : Env.T) (r : ROuter) (fields : List RField) (el : Elem) :
    (C07.soOf env r fields el).fields.fields.map (·.ident) = fields.map (·.ident) := by
  simp only [C07.soOf, C07.stOf, Env.semStruct, List.map_map]
  apply List.map_congr_left
  intro f _
  rfl

/-- the members of the struct literal of a receiver run on an element, said by their origin -/
structure Literal (env : Env.T) (conv : String → Elem → Outcome Val) (r : ROuter) (fields : List RField)
    (el : Elem) (members : List (String × Val)) : Prop where
  /-- every part of the element whose magic field the receiver declares is a member, unchanged -/
  magic : ∀ kv ∈ parts el, r.magic.contains kv.1 = true → kv ∈ members
  /-- every converted member (generics, body) succeeded and is a member with the converted value -/
  converted : ∀ p ∈ C07.lateOf env conv r el, ∃ x, p.2 = .ok x ∧ (p.1, x) ∈ members
  /-- and there is nothing else but the `attrs` member and the receiver's ordinary fields -/
  only : ∀ kv ∈ members,
    (kv ∈ parts el ∧ r.magic.contains kv.1 = true) ∨ kv.1 = "attrs" ∨
      (kv.1, Outcome.ok kv.2) ∈ C07.lateOf env conv r el ∨ kv.1 ∈ fields.map (·.ident)

/-- **C16, the literal, end to end on the run-time model of one receiver**: whenever the generated
    `from_*` returns a value, that value is the container post-transform of a record of the
    receiver's name whose members are described by `Literal` -/
theorem mainArm_literal (env : Env.T) (conv : String → Elem → Outcome Val) (r : ROuter)
    (fields : List RField) (el : Elem) (v : Val) (h : C07.mainArm env conv r fields el = .ok v) :
    ∃ members, containerPost r (.record r.base.ident members) = .ok v ∧
      Literal env conv r fields el members := by
  unfold C07.mainArm at h
  cases hx : extract (C07.soOf env r fields el) el.attrsOf with
  | error m => rw [hx] at h; cases h
  | ok pa =>
      obtain ⟨pst, av⟩ := pa
      rw [hx] at h
      simp only [] at h
      obtain ⟨a, l, inits, hl, ha, hi, hv⟩ := finishOuter_literal _ _ _ _ _ _ _ _ h
      rw [soOf_post] at hv
      rw [soOf_idents] at hi
      refine ⟨_, hv, ?_, ?_, ?_⟩
      · intro kv hkv hm
        rw [mem_sortKvs, earlyParts_eq_filter]
        simp only [List.mem_append, List.mem_filter]
        exact .inl (.inl (.inl ⟨hkv, hm⟩))
      · intro p hp
        rw [hl] at hp
        obtain ⟨kv, hkv, rfl⟩ := List.mem_map.mp hp
        refine ⟨kv.2, rfl, ?_⟩
        rw [mem_sortKvs]
        simp only [List.mem_append]
        exact .inl (.inr hkv)
      · intro kv hkv
        rw [mem_sortKvs, earlyParts_eq_filter] at hkv
        simp only [List.mem_append, List.mem_filter] at hkv
        rcases hkv with ((⟨h1, h2⟩ | h) | h) | h
        · exact .inl ⟨h1, h2⟩
        · exact .inr (.inl (ha kv h))
        · refine .inr (.inr (.inl ?_))
          rw [hl]
          exact List.mem_map.mpr ⟨kv, h, rfl⟩
        · refine .inr (.inr (.inr ?_))
          rw [← hi]
          exact List.mem_map.mpr ⟨kv, h, rfl⟩

/-! ### 5.4 each member holds exactly its part -/

/-- the kind of element each element-level trait receives -/
def ElemOf : Trait → Elem → Prop
  | .fromDeriveInput, .deriveInput _ => True
  | .fromField, .field _ => True
  | .fromVariant, .variant _ => True
  | .fromTypeParam, .typeParam _ => True
  | .fromAttributes, .attrs _ => True
  | _, _ => False

/-- what the derive guarantees about a receiver (`deriveOuter_wellFormed` below): a field bearing
    a magic name of the trait is never an ordinary field, and the body member is called `data` -/
structure WellFormed (r : ROuter) (fields : List RField) : Prop where
  ordinary : ∀ f ∈ fields, f.ident ∉ magicNames r.trait_
  dataName : ∀ fw, r.dataField = some fw → fw.ident = "data"

theorem partNames_sub (t : Trait) (el : Elem) (h : ElemOf t el) : ∀ m ∈ partNames el, m ∈ magicNames t := by
  cases t <;> cases el <;> first | exact absurd h id | (simp only [partNames, magicNames]; decide)

/-- the names of the converted members are magic names of the trait, are not names of parts, and
    are not `attrs` -/
theorem lateOf_keys (env : Env.T) (conv : String → Elem → Outcome Val) (r : ROuter) (fields : List RField)
    (el : Elem) (hwf : WellFormed r fields) (hel : ElemOf r.trait_ el) (k : String) (o : Outcome Val)
    (h : (k, o) ∈ C07.lateOf env conv r el) :
    k ∈ magicNames r.trait_ ∧ k ∉ partNames el ∧ k ≠ "attrs" := by
  cases el with
  | deriveInput d =>
      have ht : r.trait_ = .fromDeriveInput := by
        cases ht : r.trait_ <;> rw [ht] at hel <;> first | rfl | exact absurd hel id
      rw [ht]
      simp only [C07.lateOf, List.mem_append] at h
      rcases h with h | h
      · split at h
        · simp only [List.mem_singleton, Prod.mk.injEq] at h
          obtain ⟨rfl, _⟩ := h
          simp only [magicNames, partNames]; decide
        · cases h
      · cases hd : r.dataField with
        | none => rw [hd] at h; cases h
        | some fw =>
            rw [hd] at h
            simp only [List.mem_singleton, Prod.mk.injEq] at h
            obtain ⟨rfl, _⟩ := h
            rw [hwf.dataName fw hd]
            simp only [magicNames, partNames]; decide
  | variant x =>
      have ht : r.trait_ = .fromVariant := by
        cases ht : r.trait_ <;> rw [ht] at hel <;> first | rfl | exact absurd hel id
      rw [ht]
      simp only [C07.lateOf] at h
      split at h
      · simp only [List.mem_singleton, Prod.mk.injEq] at h
        obtain ⟨rfl, _⟩ := h
        simp only [magicNames, partNames]; decide
      · cases h
  | field f => cases h
  | typeParam t => cases h
  | attrs as => cases h

/-- a converted member's name determines it -/
theorem lateOf_functional (env : Env.T) (conv : String → Elem → Outcome Val) (r : ROuter) (fields : List RField)
    (el : Elem) (hwf : WellFormed r fields) (k : String) (o₁ o₂ : Outcome Val)
    (h₁ : (k, o₁) ∈ C07.lateOf env conv r el) (h₂ : (k, o₂) ∈ C07.lateOf env conv r el) : o₁ = o₂ := by
  cases el with
  | deriveInput d =>
      simp only [C07.lateOf, List.mem_append] at h₁ h₂
      have hne : ∀ fw, r.dataField = some fw → fw.ident ≠ "generics" := by
        intro fw hd; rw [hwf.dataName fw hd]; decide
      by_cases hg : r.magic.contains "generics" = true
      · simp only [hg, ↓reduceIte, List.mem_singleton, Prod.mk.injEq] at h₁ h₂
        cases hd : r.dataField with
        | none =>
            rw [hd] at h₁ h₂
            simp only [List.not_mem_nil, or_false] at h₁ h₂
            rw [h₁.2, h₂.2]
        | some fw =>
            rw [hd] at h₁ h₂
            simp only [List.mem_singleton, Prod.mk.injEq] at h₁ h₂
            rcases h₁ with ⟨rfl, rfl⟩ | ⟨rfl, rfl⟩ <;> rcases h₂ with ⟨h, rfl⟩ | ⟨h, rfl⟩
            · rfl
            · exact absurd h.symm (hne fw hd)
            · exact absurd h (hne fw hd)
            · rfl
      · simp only [hg, Bool.false_eq_true, ↓reduceIte, List.not_mem_nil, false_or] at h₁ h₂
        cases hd : r.dataField with
        | none => rw [hd] at h₁; cases h₁
        | some fw =>
            rw [hd] at h₁ h₂
            simp only [List.mem_singleton, Prod.mk.injEq] at h₁ h₂
            rw [h₁.2, h₂.2]
  | variant x =>
      simp only [C07.lateOf] at h₁ h₂
      by_cases hg : r.magic.contains "fields" = true
      · simp only [hg, ↓reduceIte, List.mem_singleton, Prod.mk.injEq] at h₁ h₂
        rw [h₁.2, h₂.2]
      · simp only [hg, Bool.false_eq_true, ↓reduceIte, List.not_mem_nil] at h₁
  | field f => cases h₁
  | typeParam t => cases h₁
  | attrs as => cases h₁

/-- **C16, magic fields**: the member named after a part of the element the receiver declares
    holds exactly that part — it is there, and it is the only member of that name -/
theorem magic_member_exact {env : Env.T} {conv : String → Elem → Outcome Val} {r : ROuter}
    {fields : List RField} {el : Elem} {members : List (String × Val)}
    (hlit : Literal env conv r fields el members) (hwf : WellFormed r fields) (hel : ElemOf r.trait_ el)
    (m : String) (x : Val) (hp : (m, x) ∈ parts el) (hm : r.magic.contains m = true) :
    (m, x) ∈ members ∧ ∀ y, (m, y) ∈ members → y = x := by
  refine ⟨hlit.magic _ hp hm, ?_⟩
  intro y hy
  have hmn : m ∈ partNames el := by
    rw [← parts_names]; exact List.mem_map.mpr ⟨(m, x), hp, rfl⟩
  rcases hlit.only _ hy with ⟨h, _⟩ | h | h | h
  · exact parts_functional el m y x h hp
  · simp only at h
    subst h
    cases el <;> simp only [partNames] at hmn <;> exact absurd hmn (by decide)
  · exact absurd hmn (lateOf_keys env conv r fields el hwf hel m _ h).2.1
  · obtain ⟨f, hf, hfm⟩ := List.mem_map.mp h
    simp only at hfm
    exact absurd (partNames_sub _ el hel m hmn) (hfm ▸ hwf.ordinary f hf)

/-- **C16, converted members (generics, body)**: the member is there with the converted value,
    the conversion succeeded, and it is the only member of that name -/
theorem converted_member_exact {env : Env.T} {conv : String → Elem → Outcome Val} {r : ROuter}
    {fields : List RField} {el : Elem} {members : List (String × Val)}
    (hlit : Literal env conv r fields el members) (hwf : WellFormed r fields) (hel : ElemOf r.trait_ el)
    (k : String) (o : Outcome Val) (hk : (k, o) ∈ C07.lateOf env conv r el) :
    ∃ x, o = .ok x ∧ (k, x) ∈ members ∧ ∀ y, (k, y) ∈ members → y = x := by
  obtain ⟨x, hx, hmem⟩ := hlit.converted _ hk
  simp only at hx hmem
  refine ⟨x, hx, hmem, ?_⟩
  intro y hy
  obtain ⟨hk1, hk2, hk3⟩ := lateOf_keys env conv r fields el hwf hel k o hk
  rcases hlit.only _ hy with ⟨h, _⟩ | h | h | h
  · refine absurd ?_ hk2
    rw [← parts_names]; exact List.mem_map.mpr ⟨(k, y), h, rfl⟩
  · exact absurd h hk3
  · have := lateOf_functional env conv r fields el hwf k _ _ h hk
    rw [hx] at this
    cases this; rfl
  · obtain ⟨f, hf, hfm⟩ := List.mem_map.mp h
    simp only at hfm
    exact absurd hk1 (hfm ▸ hwf.ordinary f hf)

/-! ### 5.5 the derive establishes well-formedness -/

theorem bind_ok {α β : Type} (x : Outcome α) (g : α → Outcome β) (b : β) (h : x.bind g = .ok b) :
    ∃ a, x = .ok a ∧ g a = .ok b := by
  cases x with
  | ok a => exact ⟨a, rfl, h⟩
  | err e => cases h
  | panic m => cases h

theorem fieldFromDecl_ident (o : Oracle) (core : CoreOpts) (f : FieldD) (rf : RField)
    (h : fieldFromDecl o core f = .ok rf) : rf.ident = f.ident.getD "__unnamed" := by
  unfold fieldFromDecl at h
  split at h
  · unfold resolveField at h
    obtain ⟨name, _, hg⟩ := bind_ok _ _ _ h
    simp only [Outcome.ok.injEq] at hg
    rw [← hg]
  · cases h
  · cases h

theorem forwardedFromField_ident (o : Oracle) (sim : String → Option (Nat × String)) (f : FieldD) (fw : Forwarded)
    (h : forwardedFromField o sim f = .ok fw) : f.ident = some fw.ident := by
  unfold forwardedFromField at h
  cases hi : f.ident with
  | none => rw [hi] at h; cases h
  | some id =>
      rw [hi] at h
      simp only [] at h
      split at h
      · simp only [Outcome.ok.injEq] at h; rw [← h]
      · cases h
      · cases h

/-- the invariant of the walk over the fields of a receiver declaration -/
def StInv (t : Trait) (st : BodySt) : Prop :=
  (∀ f ∈ st.fields, f.ident ∉ magicNames t) ∧ (∀ fw, st.dataField = some fw → fw.ident = "data")

theorem unnamed_not_magic (t : Trait) : "__unnamed" ∉ magicNames t := by
  cases t <;> simp only [magicNames] <;> decide

theorem parseFieldStep_inv (t : Trait) (o : Oracle) (sim : String → Option (Nat × String)) (core : CoreOpts)
    (st st' : BodySt) (f : FieldD) (hinv : StInv t st) (h : parseFieldStep t o sim core st f = .ok st') :
    StInv t st' := by
  unfold parseFieldStep at h
  -- an ordinary field: its identifier is not a magic name
  have ordinary : f.ident.getD "__unnamed" ∉ magicNames t →
      (match fieldFromDecl o core f with
        | .ok rf => (Except.ok { st with fields := st.fields ++ [rf] } : Except String BodySt)
        | .err e => .ok { st with errs := st.errs ++ [e] }
        | .panic m => .error m) = .ok st' → StInv t st' := by
    intro hnm h
    cases hf : fieldFromDecl o core f with
    | ok rf =>
        rw [hf] at h
        simp only [Except.ok.injEq] at h; subst h
        refine ⟨?_, hinv.2⟩
        intro g hg
        simp only [List.mem_append, List.mem_singleton] at hg
        rcases hg with hg | rfl
        · exact hinv.1 g hg
        · rw [fieldFromDecl_ident o core f g hf]; exact hnm
    | err e => rw [hf] at h; simp only [Except.ok.injEq] at h; subst h; exact hinv
    | panic m => rw [hf] at h; cases h
  cases hi : f.ident with
  | none =>
      simp only [hi, Bool.false_eq_true, ↓reduceIte] at h
      exact ordinary (by rw [hi]; exact unnamed_not_magic t) h
  | some id =>
      simp only [hi, Option.getD_some] at h
      by_cases hc : (magicNames t).contains id = true
      · simp only [hc, ↓reduceIte] at h
        by_cases hid : (id == "attrs" || id == "data") = true
        · simp only [hid, ↓reduceIte] at h
          cases hf : forwardedFromField o sim f with
          | ok fw =>
              rw [hf] at h
              have hfi := forwardedFromField_ident o sim f fw hf
              rw [hi] at hfi
              simp only [Option.some.injEq] at hfi
              simp only [Except.ok.injEq] at h; subst h
              split
              · exact hinv
              · rename_i hna
                refine ⟨hinv.1, ?_⟩
                intro fw' hfw'
                simp only [Option.some.injEq] at hfw'
                subst hfw'
                rw [← hfi]
                simp only [Bool.or_eq_true, beq_iff_eq] at hid hna
                rcases hid with h1 | h1
                · exact absurd h1 hna
                · exact h1
          | err e => rw [hf] at h; simp only [Except.ok.injEq] at h; subst h; exact hinv
          | panic m => rw [hf] at h; cases h
        · simp only [hid, Bool.false_eq_true, ↓reduceIte, Except.ok.injEq] at h
          subst h; exact hinv
      · simp only [hc, Bool.false_eq_true, ↓reduceIte] at h
        refine ordinary ?_ h
        rw [hi]
        simp only [Option.getD_some]
        intro hmem
        apply hc
        simp only [List.contains_eq_mem, decide_eq_true_eq]
        exact hmem

theorem parseFields_inv (t : Trait) (o : Oracle) (sim : String → Option (Nat × String)) (core : CoreOpts) :
    ∀ (fs : List FieldD) (st st' : BodySt), StInv t st → parseFields t o sim core st fs = .ok st' → StInv t st'
  | [], st, st', hinv, h => by simp only [parseFields, Except.ok.injEq] at h; subst h; exact hinv
  | f :: rest, st, st', hinv, h => by
      unfold parseFields at h
      cases hs : parseFieldStep t o sim core st f with
      | ok st1 =>
          rw [hs] at h
          exact parseFields_inv t o sim core rest st1 st' (parseFieldStep_inv t o sim core st st1 f hinv hs) h
      | error m => rw [hs] at h; cases h

theorem parseVariants_dataField (t : Trait) (o : Oracle) (core : CoreOpts) :
    ∀ (vs : List VariantD) (st st' : BodySt), parseVariants t o core st vs = .ok st' →
      st'.dataField = st.dataField
  | [], st, st', h => by simp only [parseVariants] at h; cases h; rfl
  | v :: rest, st, st', h => by
      simp only [parseVariants] at h
      split at h
      · cases hr : variantFromDecl o core v with
        | ok rv => rw [hr] at h; have h2 := parseVariants_dataField t o core rest _ st' h; exact h2
        | err e => rw [hr] at h; have h2 := parseVariants_dataField t o core rest _ st' h; exact h2
        | panic m => rw [hr] at h; cases h
      · have h2 := parseVariants_dataField t o core rest _ st' h; exact h2

/-- **the derive link**: every element-level receiver that the derive produces is a struct
    receiver of the requested trait and is well formed -/
theorem deriveOuter_wellFormed (t : Trait) (o : Oracle) (sim : String → Option (Nat × String)) (sp : DeclSpans)
    (d : DeclD) (r : ROuter) (h : deriveOuter t o sim sp d = .ok (.outer r)) :
    r.trait_ = t ∧ ∃ style fields, r.base.data = .struct style fields ∧ WellFormed r fields := by
  revert h
  unfold deriveOuter
  cases hb : d.body with
  | union => intro h; cases h
  | struct s fs =>
      simp only []
      intro h
      split at h
      · cases h
      · cases h
      · rename_i oo heq
        cases hst : parseFields t o sim oo.core {} fs with
        | error m => rw [hst] at h; cases h
        | ok st =>
            rw [hst] at h
            simp only [] at h
            have hinv := parseFields_inv t o sim oo.core fs {} st
              ⟨fun f hf => (nomatch hf), fun fw hfw => (nomatch hfw)⟩ hst
            split at h
            · split at h
              · cases h
              · simp only [Outcome.ok.injEq, Derived.outer.injEq] at h
                subst h
                exact ⟨rfl, _, _, rfl, hinv.1, hinv.2⟩
            · exact absurd h (C07.bundleErr_ne_ok _ _)
  | enum vs =>
      cases vs with
      | nil => intro h; cases h
      | cons v vs =>
        simp only []
        intro h
        split at h
        · cases h
        · cases h
        · rename_i oo heq
          cases hst : parseVariants t o oo.core {} (v :: vs) with
          | error m => rw [hst] at h; cases h
          | ok st =>
              rw [hst] at h
              simp only [] at h
              have hfe := C07.parseVariants_fields t o oo.core (v :: vs) {} st hst
              have hde := parseVariants_dataField t o oo.core (v :: vs) {} st hst
              split at h
              · split at h
                · cases h
                · simp only [Outcome.ok.injEq, Derived.outer.injEq] at h
                  subst h
                  refine ⟨rfl, _, _, rfl, ?_, ?_⟩
                  · intro f hf
                    simp only [hfe] at hf
                    cases hf
                  · intro fw hfw
                    simp only [hde] at hfw
                    cases hfw
              · exact absurd h (C07.bundleErr_ne_ok _ _)

/-- the magic fields a receiver declaration *declares*: the identifiers of its fields that are
    magic names of the trait, in source order (recognised by the Rust field name) -/
def declaredMagic (t : Trait) (fs : List FieldD) : List String :=
  fs.filterMap (fun f => match f.ident with
    | some id => if (magicNames t).contains id then some id else none
    | none => none)

theorem parseFieldStep_magic (t : Trait) (o : Oracle) (sim : String → Option (Nat × String)) (core : CoreOpts)
    (st st' : BodySt) (f : FieldD) (h : parseFieldStep t o sim core st f = .ok st') (he : st'.errs = []) :
    st.errs = [] ∧ st'.magic = st.magic ++ declaredMagic t [f] := by
  unfold parseFieldStep at h
  have ordinary : declaredMagic t [f] = [] →
      (match fieldFromDecl o core f with
        | .ok rf => (Except.ok { st with fields := st.fields ++ [rf] } : Except String BodySt)
        | .err e => .ok { st with errs := st.errs ++ [e] }
        | .panic m => .error m) = .ok st' → st.errs = [] ∧ st'.magic = st.magic ++ declaredMagic t [f] := by
    intro hdm h
    rw [hdm, List.append_nil]
    cases hf : fieldFromDecl o core f with
    | ok rf => rw [hf] at h; simp only [Except.ok.injEq] at h; subst h; exact ⟨he, rfl⟩
    | err e =>
        rw [hf] at h; simp only [Except.ok.injEq] at h; subst h
        exact absurd he (by simp only [List.append_eq_nil_iff, List.cons_ne_nil, and_false, not_false_eq_true])
    | panic m => rw [hf] at h; cases h
  cases hi : f.ident with
  | none =>
      simp only [hi, Bool.false_eq_true, ↓reduceIte] at h
      exact ordinary (by simp only [declaredMagic, List.filterMap_cons, hi, List.filterMap_nil]) h
  | some id =>
      simp only [hi, Option.getD_some] at h
      by_cases hc : (magicNames t).contains id = true
      · have hdm : declaredMagic t [f] = [id] := by
          simp only [declaredMagic, List.filterMap_cons, hi, hc, ↓reduceIte, List.filterMap_nil]
        rw [hdm]
        simp only [hc, ↓reduceIte] at h
        by_cases hid : (id == "attrs" || id == "data") = true
        · simp only [hid, ↓reduceIte] at h
          cases hf : forwardedFromField o sim f with
          | ok fw =>
              rw [hf] at h
              simp only [Except.ok.injEq] at h; subst h
              split at he <;> split <;> first | exact ⟨he, rfl⟩ | (rename_i h1 h2; exact absurd h1 h2) | (rename_i h1 h2; exact absurd h2 h1)
          | err e =>
              rw [hf] at h; simp only [Except.ok.injEq] at h; subst h
              exact absurd he (by simp only [List.append_eq_nil_iff, List.cons_ne_nil, and_false, not_false_eq_true])
          | panic m => rw [hf] at h; cases h
        · simp only [hid, Bool.false_eq_true, ↓reduceIte, Except.ok.injEq] at h
          subst h; exact ⟨he, rfl⟩
      · simp only [hc, Bool.false_eq_true, ↓reduceIte] at h
        refine ordinary ?_ h
        simp only [declaredMagic, List.filterMap_cons, hi, hc, Bool.false_eq_true, ↓reduceIte, List.filterMap_nil]

theorem declaredMagic_cons (t : Trait) (f : FieldD) (fs : List FieldD) :
    declaredMagic t (f :: fs) = declaredMagic t [f] ++ declaredMagic t fs := by
  simp only [declaredMagic, List.filterMap_cons, List.filterMap_nil]
  split <;> rfl

theorem parseFields_magic (t : Trait) (o : Oracle) (sim : String → Option (Nat × String)) (core : CoreOpts) :
    ∀ (fs : List FieldD) (st st' : BodySt), parseFields t o sim core st fs = .ok st' → st'.errs = [] →
      st.errs = [] ∧ st'.magic = st.magic ++ declaredMagic t fs
  | [], st, st', h, he => by
      simp only [parseFields, Except.ok.injEq] at h; subst h
      exact ⟨he, by simp only [declaredMagic, List.filterMap_nil, List.append_nil]⟩
  | f :: rest, st, st', h, he => by
      unfold parseFields at h
      cases hs : parseFieldStep t o sim core st f with
      | ok st1 =>
          rw [hs] at h
          obtain ⟨he1, hm1⟩ := parseFields_magic t o sim core rest st1 st' h he
          obtain ⟨he0, hm0⟩ := parseFieldStep_magic t o sim core st st1 f hs he1
          refine ⟨he0, ?_⟩
          rw [hm1, hm0, declaredMagic_cons t f rest, List.append_assoc]
      | error m => rw [hs] at h; cases h

/-- **the derive link for the quantifier "receivers declaring any subset of magic fields"**: the
    magic members of a derived struct receiver are exactly the magic fields its declaration
    declares -/
theorem deriveOuter_magic (t : Trait) (o : Oracle) (sim : String → Option (Nat × String)) (sp : DeclSpans)
    (d : DeclD) (r : ROuter) (style : Style) (fs : List FieldD) (hb : d.body = .struct style fs)
    (h : deriveOuter t o sim sp d = .ok (.outer r)) : r.magic = declaredMagic t fs := by
  revert h
  unfold deriveOuter
  rw [hb]
  simp only []
  intro h
  split at h
  · cases h
  · cases h
  · rename_i oo heq
    cases hst : parseFields t o sim oo.core {} fs with
    | error m => rw [hst] at h; cases h
    | ok st =>
        rw [hst] at h
        simp only [] at h
        split at h
        · rename_i herrs
          have he : st.errs = [] := (List.append_eq_nil_iff.mp herrs).1
          obtain ⟨_, hm⟩ := parseFields_magic t o sim oo.core fs {} st hst he
          split at h
          · cases h
          · simp only [Outcome.ok.injEq, Derived.outer.injEq] at h
            subst h
            simp only [hm]
            rfl
        · exact absurd h (C07.bundleErr_ne_ok _ _)

/-! ### 5.6 the body members `data` / `fields` and the `generics` member -/

/-- the observed value of a converted struct body: kind `Struct`, the style by name, the entries -/
def dataStruct (style : Style) (es : List Val) : Val :=
  .variant "Data" "Struct" (.record (styleName style) [("entries", .list es)])
/-- the observed value of a converted enum body -/
def dataEnum (es : List Val) : Val := .variant "Data" "Enum" (.list es)
/-- the observed value of a converted field list (`ast::Fields<F>`) -/
def fieldsVal (style : Style) (es : List Val) : Val := .record (styleName style) [("entries", .list es)]

/-- the observed values keep kind, style and entries apart (so "same kind and style" is a
    statement about the value, not an artefact of its encoding) -/
theorem styleName_injective (a b : Style) (h : styleName a = styleName b) : a = b := by
  cases a <;> cases b <;> first | rfl | exact absurd h (by decide)

theorem dataStruct_injective (s s' : Style) (es es' : List Val) (h : dataStruct s es = dataStruct s' es') :
    s = s' ∧ es = es' := by
  simp only [dataStruct, Val.variant.injEq, Val.record.injEq, List.cons.injEq, Prod.mk.injEq,
    Val.list.injEq, true_and, and_true] at h
  exact ⟨styleName_injective _ _ h.1, h.2⟩

theorem dataStruct_ne_dataEnum (s : Style) (es es' : List Val) : dataStruct s es ≠ dataEnum es' := by
  intro h
  simp only [dataStruct, dataEnum, Val.variant.injEq] at h
  exact absurd h.2.1 (by decide)

theorem fieldsVal_injective (s s' : Style) (es es' : List Val) (h : fieldsVal s es = fieldsVal s' es') :
    s = s' ∧ es = es' := by
  simp only [fieldsVal, Val.record.injEq, List.cons.injEq, Prod.mk.injEq, Val.list.injEq, true_and, and_true] at h
  exact ⟨styleName_injective _ _ h.1, h.2⟩

/-- the library's own body conversion (no `with`) on a member declared `ast::Data<V, F>` -/
theorem dataPart_eq (conv : String → Elem → Outcome Val) (dataTy : String) (d : DeclD) (fw : Forwarded)
    (hw : fw.with_ = none) (vTy fTy : String) (hty : Env.typeArgs dataTy = [vTy, fTy]) :
    C07.dataPart conv dataTy d fw =
      dataTryFrom (fun f => conv fTy (.field f)) (fun x => conv vTy (.variant x)) dataStruct dataEnum d.body := by
  unfold C07.dataPart
  rw [hw]
  simp only [hty]
  rfl

/-- the library's conversion of a variant's field list on a member declared `ast::Fields<F>` -/
theorem fieldsPart_eq (conv : String → Elem → Outcome Val) (fieldsTy : String) (x : VariantD)
    (fTy : String) (hty : Env.typeArgs fieldsTy = [fTy]) :
    C07.fieldsPart conv fieldsTy x =
      finishWalk (fieldsVal x.style) (walkSpec (fun f => conv fTy (.field f)) (fun f => atName f.ident) x.fields) := by
  unfold C07.fieldsPart
  simp only [hty, fieldsTryFrom_start]
  cases walkSpec (fun f => conv fTy (.field f)) (fun f => atName f.ident) x.fields with
  | error m => rfl
  | ok r => obtain ⟨vs, errs⟩ := r; cases errs <;> rfl

/-- **C16, the `data` member of a `FromDeriveInput` receiver**: it is the mirror of the input
    body (same kind, same style, one converted entry per field / variant in source order), and it
    is the only member called `data` -/
theorem data_member {env : Env.T} {conv : String → Elem → Outcome Val} {r : ROuter}
    {fields : List RField} {d : DeclD} {members : List (String × Val)}
    (hlit : Literal env conv r fields (.deriveInput d) members) (hwf : WellFormed r fields)
    (hel : ElemOf r.trait_ (.deriveInput d))
    (fw : Forwarded) (hfw : r.dataField = some fw) (hw : fw.with_ = none)
    (vTy fTy : String) (hty : Env.typeArgs (C07.dataTyOf env r) = [vTy, fTy]) :
    ∃ dv, ("data", dv) ∈ members ∧ (∀ y, ("data", y) ∈ members → y = dv) ∧
      Mirrors (fun f => conv fTy (.field f)) (fun x => conv vTy (.variant x)) dataStruct dataEnum d.body dv := by
  have hk : (fw.ident, C07.dataPart conv (C07.dataTyOf env r) d fw) ∈ C07.lateOf env conv r (.deriveInput d) := by
    simp only [C07.lateOf, hfw, List.mem_append, List.mem_singleton, or_true]
  obtain ⟨dv, hdv, hmem, huniq⟩ := converted_member_exact hlit hwf hel _ _ hk
  rw [hwf.dataName fw hfw] at hmem huniq
  rw [dataPart_eq conv _ d fw hw vTy fTy hty] at hdv
  exact ⟨dv, hmem, huniq, (data_ok_iff_mirrors _ _ _ _ _ _).mp hdv⟩

/-- **C16, the `fields` member of a `FromVariant` receiver**: same style as the variant, one
    converted entry per field in source order; the only member called `fields` -/
theorem fields_member {env : Env.T} {conv : String → Elem → Outcome Val} {r : ROuter}
    {fields : List RField} {x : VariantD} {members : List (String × Val)}
    (hlit : Literal env conv r fields (.variant x) members) (hwf : WellFormed r fields)
    (hel : ElemOf r.trait_ (.variant x)) (hm : r.magic.contains "fields" = true)
    (fTy : String) (hty : Env.typeArgs (C07.memberTyOf env r "fields") = [fTy]) :
    ∃ es, ("fields", fieldsVal x.style es) ∈ members ∧
      (∀ y, ("fields", y) ∈ members → y = fieldsVal x.style es) ∧
      x.fields.map (fun f => conv fTy (.field f)) = es.map Outcome.ok := by
  have hk : ("fields", C07.fieldsPart conv (C07.memberTyOf env r "fields") x) ∈ C07.lateOf env conv r (.variant x) := by
    simp only [C07.lateOf, hm, ↓reduceIte, List.mem_singleton]
  obtain ⟨fv, hfv, hmem, huniq⟩ := converted_member_exact hlit hwf hel _ _ hk
  rw [fieldsPart_eq conv _ x fTy hty] at hfv
  obtain ⟨es, hes, rfl⟩ := (finishWalk_ok_iff _ _ _ _ _).mp hfv
  exact ⟨es, hmem, huniq, hes⟩

/-- **C16, the `generics` member of a `FromDeriveInput` receiver**: the conversion of the
    input's generics by the member's declared type (`C07.genPart`, characterised below) -/
theorem generics_member {env : Env.T} {conv : String → Elem → Outcome Val} {r : ROuter}
    {fields : List RField} {d : DeclD} {members : List (String × Val)}
    (hlit : Literal env conv r fields (.deriveInput d) members) (hwf : WellFormed r fields)
    (hel : ElemOf r.trait_ (.deriveInput d)) (hm : r.magic.contains "generics" = true) :
    ∃ gv, C07.genPart conv d (String.ofList ((C07.memberTyOf env r "generics").toList.filter (· != ' '))) = .ok gv ∧
      ("generics", gv) ∈ members ∧ ∀ y, ("generics", y) ∈ members → y = gv := by
  have hk : ("generics", C07.genPart conv d (String.ofList ((C07.memberTyOf env r "generics").toList.filter (· != ' '))))
      ∈ C07.lateOf env conv r (.deriveInput d) := by
    simp only [C07.lateOf, hm, ↓reduceIte, List.mem_append, List.mem_singleton, true_or]
  exact converted_member_exact hlit hwf hel _ _ hk

/-- a member declared `syn::Generics` (anything that is not `ast::Generics<..>`): the clone —
    the printed parameter list and the printed where-clause of the input, unchanged -/
theorem genBase_clone (conv : String → Elem → Outcome Val) (d : DeclD) (gTy : String)
    (h : C07.stripWrap "ast::Generics<" gTy = none) :
    C07.genBase conv d gTy = .ok (.toks (d.generics.toks ++ " | " ++ d.generics.whereToks)) := by
  unfold C07.genBase; rw [h]; rfl

/-- a member declared `ast::Generics<P>`: the mirror of Part 4, with type parameters cloned
    (`P = syn::GenericParam`) or converted (`P = ast::GenericParam<T>`) -/
theorem genBase_mirror (conv : String → Elem → Outcome Val) (d : DeclD) (gTy pTy : String)
    (h : C07.stripWrap "ast::Generics<" gTy = some pTy) :
    C07.genBase conv d gTy =
      (match C07.stripWrap "ast::GenericParam<" pTy with
       | none => genericsMirror none d.generics
       | some tTy => genericsMirror (some (fun t => conv tTy (.typeParam t))) d.generics) := by
  unfold C07.genBase; rw [h]; rfl

/-- a member wrapped in `darling::Result<..>` never makes the receiver fail: it holds the
    outcome of the inner conversion -/
theorem genPart_result (conv : String → Elem → Outcome Val) (d : DeclD) (gTy inner : String)
    (h : C07.stripWrap "darling::Result<" gTy = some inner) :
    C07.genPart conv d gTy =
      (match C07.genBase conv d inner with
       | .ok v => .ok (.okv v)
       | .err e => .ok (.errv e)
       | .panic m => .panic m) := by
  unfold C07.genPart; rw [h]; rfl

/-- a member wrapped in `WithOriginal<T, syn::Generics>` holds the inner conversion and the
    original generics, and fails exactly when the inner conversion fails -/
theorem genPart_withOriginal (conv : String → Elem → Outcome Val) (d : DeclD) (gTy args inner o : String)
    (h₁ : C07.stripWrap "darling::Result<" gTy = none) (h₂ : C07.stripWrap "WithOriginal<" gTy = some args)
    (h₃ : Env.typeArgs ("W<" ++ args ++ ">") = [inner, o]) :
    C07.genPart conv d gTy = (C07.genBase conv d inner).map (fun v => .withOrig v d.generics.toks) := by
  unfold C07.genPart; rw [h₁, h₂]; simp only [h₃]

theorem genPart_plain (conv : String → Elem → Outcome Val) (d : DeclD) (gTy : String)
    (h₁ : C07.stripWrap "darling::Result<" gTy = none) (h₂ : C07.stripWrap "WithOriginal<" gTy = none) :
    C07.genPart conv d gTy = C07.genBase conv d gTy := by
  unfold C07.genPart; rw [h₁, h₂]

/-! ### 5.6b failure of the `fields` conversion (`Fields::try_from` on a variant) -/

/-- **"fails exactly when some field fails"**, for the field list of a variant -/
theorem fields_err_iff (conv : String → Elem → Outcome Val) (fieldsTy : String) (x : VariantD)
    (fTy : String) (hty : Env.typeArgs fieldsTy = [fTy]) :
    (∃ E, C07.fieldsPart conv fieldsTy x = .err E) ↔
      NoneP (fun f => conv fTy (.field f)) x.fields ∧ ∃ f ∈ x.fields, ∃ e, conv fTy (.field f) = .err e := by
  rw [fieldsPart_eq conv _ x fTy hty]
  constructor
  · rintro ⟨E, h⟩
    obtain ⟨h1, h2, _⟩ := finishWalk_err _ _ x.fields _ E h
    exact ⟨h1, h2⟩
  · rintro ⟨h1, f, hf, e, he⟩
    exact finishWalk_fails _ _ x.fields _ h1 f hf e he

/-- **"all such failures are reported, named fields located by their name"**, for a variant -/
theorem fields_err_leaves (conv : String → Elem → Outcome Val) (fieldsTy : String) (x : VariantD)
    (fTy : String) (hty : Env.typeArgs fieldsTy = [fTy]) (E : Err)
    (h : C07.fieldsPart conv fieldsTy x = .err E) :
    leaves E = x.fields.flatMap (fun f => match conv fTy (.field f) with
      | .err e => (leaves e).map (atName f.ident)
      | _ => []) := by
  rw [fieldsPart_eq conv _ x fTy hty] at h
  obtain ⟨_, _, hl⟩ := finishWalk_err _ _ x.fields _ E h
  rw [hl]
  congr 1
  funext f
  cases conv fTy (.field f) with
  | err e => exact leaves_atName f.ident e
  | ok v => rfl
  | panic m => rfl

/-! ### 5.6c where the model and the code part ways: field lists that `syn` never parses

  The property text says "named fields located by their name"; the model (`Derive.located`) and the
  specification above (`atName`) read this as "a field that has an identifier".  The library
  (`Fields::try_from`, core/src/ast/data.rs) locates only inside a `syn::Fields::Named` list.  The two
  readings agree on every list `syn` can parse; they differ on a hand-built `Fields::Unnamed` list
  whose fields carry identifiers (reproduced against the library, see the audit report). -/

theorem flatMap_congr_mem {α β : Type} (xs : List α) (f g : α → List β) (h : ∀ x ∈ xs, f x = g x) :
    xs.flatMap f = xs.flatMap g := by
  induction xs with
  | nil => rfl
  | cons x rest ih =>
      simp only [List.flatMap_cons]
      rw [h x List.mem_cons_self, ih (fun y hy => h y (List.mem_cons_of_mem _ hy))]

/-- the location the *code* gives: by the kind of the list, not by the field -/
def atNameIn (style : Style) (name : Option String) (e : Err) : Err :=
  match style with
  | .named => atName name e
  | _ => e

/-- the reported errors as the code produces them -/
def failureLeavesByListKind (fconv : FieldD → Outcome ν) (style : Style) (fs : List FieldD) : List Err :=
  fs.flatMap (fun f => match fconv f with
    | .err e => (leaves e).map (atNameIn style f.ident)
    | _ => [])

/-- the model agrees with the code's reading **under the side condition** that an unnamed or
    unit list holds no field with an identifier (true of every parsed list) -/
theorem struct_leaves_by_list_kind_partial (fconv : FieldD → Outcome ν) (vconv : VariantD → Outcome ν)
    (mkStruct : Style → List ν → ν) (mkEnum : List ν → ν) (style : Style) (fs : List FieldD) (E : Err)
    (hshape : style ≠ .named → ∀ f ∈ fs, f.ident = none)
    (h : dataTryFrom fconv vconv mkStruct mkEnum (.struct style fs) = .err E) :
    leaves E = failureLeavesByListKind fconv style fs := by
  rw [data_err_leaves fconv vconv mkStruct mkEnum _ E h]
  simp only [failureLeaves, failureLeavesByListKind]
  apply flatMap_congr_mem
  intro f hf
  cases hc : fconv f with
  | ok v => rfl
  | panic m => rfl
  | err e =>
      simp only []
      cases style with
      | named => rfl
      | tuple =>
          have := hshape (by decide) f hf
          rw [this]; rfl
      | unit =>
          have := hshape (by decide) f hf
          rw [this]; rfl

/-! ### 5.7 every element-level receiver of a corpus, end to end -/

theorem deriveFromMeta_not_outer (o : Oracle) (sp : DeclSpans) (d : DeclD) (r : ROuter) :
    deriveFromMeta o sp d ≠ .ok (.outer r) := by
  unfold deriveFromMeta
  cases hb : d.body with
  | union => intro h; cases h
  | struct s fs =>
      simp only []
      intro h
      split at h
      · cases h
      · cases h
      · cases hst : parseFields .fromMeta o (fun _ => none) _ {} fs with
        | error m => rw [hst] at h; cases h
        | ok st =>
            rw [hst] at h
            simp only [] at h
            split at h
            · cases h
            · exact absurd h (C07.bundleErr_ne_ok _ _)
  | enum vs =>
      simp only []
      intro h
      split at h
      · cases h
      · cases h
      · cases hst : parseVariants .fromMeta o _ {} vs with
        | error m => rw [hst] at h; cases h
        | ok st =>
            rw [hst] at h
            simp only [] at h
            split at h
            · cases h
            · exact absurd h (C07.bundleErr_ne_ok _ _)

theorem derive_wellFormed (t : Trait) (o : Oracle) (sim : String → Option (Nat × String)) (sp : DeclSpans)
    (d : DeclD) (r : ROuter) (h : Options.derive t o sim sp d = .ok (.outer r)) :
    r.trait_ = t ∧ ∃ style fields, r.base.data = .struct style fields ∧ WellFormed r fields := by
  unfold Options.derive at h
  split at h
  · exact absurd h (deriveFromMeta_not_outer o sp d r)
  · exact deriveOuter_wellFormed t o sim sp d r h

theorem derive_magic (t : Trait) (o : Oracle) (sim : String → Option (Nat × String)) (sp : DeclSpans)
    (d : DeclD) (r : ROuter) (style : Style) (fs : List FieldD) (hb : d.body = .struct style fs)
    (h : Options.derive t o sim sp d = .ok (.outer r)) : r.magic = declaredMagic t fs := by
  unfold Options.derive at h
  split at h
  · exact absurd h (deriveFromMeta_not_outer o sp d r)
  · exact deriveOuter_magic t o sim sp d r style fs hb h

/-- the entry converter of a corpus at nesting depth `fuel` -/
abbrev corpusConv (env : Env.T) (fuel : Nat) : String → Elem → Outcome Val :=
  Env.entryConvF (Env.outerRunF fuel env) 8

/-- what "the receiver's own validator accepted the body" means for a `FromDeriveInput` proxy
    that declares `supports(..)`; every other proxy has no validator of its own -/
theorem newtypeValidate_supports (r : ROuter) (d : DeclD) (diss : DISS)
    (ht : r.trait_ = .fromDeriveInput) (hs : r.supports = some diss) :
    C07.newtypeValidate r (.deriveInput d) = diss.validateBody d.body.shape := by
  unfold C07.newtypeValidate; rw [ht, hs]

theorem newtypeValidate_none (r : ROuter) (el : Elem) (hs : r.supports = none) :
    C07.newtypeValidate r el = .ok () := by
  unfold C07.newtypeValidate; rw [hs]
  split
  · rename_i h; cases h
  · rfl

/-- **C16, end to end**: whenever the receiver `name` of a corpus returns a value `v` on an
    element, the receiver was derived from a declaration of the corpus, it is a well-formed struct
    receiver of that declaration's trait, and
      * either it is a newtype proxy — the receiver's own `supports(..)` validator accepted the
        body (`C07.newtypeValidate`) and `v` wraps what the inner receiver returns on the same
        element —
      * or `v` is the container post-transform of the record described by `Literal`
        (to which `magic_member_exact`, `data_member`, `fields_member`, `generics_member` apply). -/
theorem outerRunF_ok (fuel : Nat) (env : Env.T) (name : String) (el : Elem) (v : Val)
    (h : Env.outerRunF (fuel + 1) env name el = .ok v) :
    ∃ n t d sp r style fields,
      env.decls.find? (·.1 == name) = some (n, t, d, sp) ∧
      Options.derive t env.oracle
        (fun n => Suggest.didYouMean env.thr [("with", env.oracle.score n "with")]) sp d = .ok (.outer r) ∧
      r.trait_ = t ∧
      r.base.data = .struct style fields ∧ WellFormed r fields ∧
      ((∃ f inner w, style = .tuple ∧ fields = [f] ∧ C07.newtypeValidate r el = .ok () ∧
          f.ty = .recv inner ∧
          Env.outerRunF fuel env inner el = .ok w ∧ v = .record r.base.ident [("0", w)]) ∨
       ((∀ f, ¬ (style = .tuple ∧ fields = [f])) ∧
          ∃ members, containerPost r (.record r.base.ident members) = .ok v ∧
            Literal env (corpusConv env fuel) r fields el members)) := by
  unfold Env.outerRunF at h
  cases hfind : env.decls.find? (·.1 == name) with
  | none => rw [hfind] at h; cases h
  | some entry =>
      obtain ⟨n, t, d, sp⟩ := entry
      rw [hfind] at h
      simp only [] at h
      cases hder : Options.derive t env.oracle
          (fun n => Suggest.didYouMean env.thr [("with", env.oracle.score n "with")]) sp d with
      | err e => rw [hder] at h; cases h
      | panic m => rw [hder] at h; cases h
      | ok dv =>
          rw [hder] at h
          cases dv with
          | fromMeta fm => cases h
          | outer r =>
              simp only [] at h
              obtain ⟨ht, style, fields, hd, hwf⟩ := derive_wellFormed _ _ _ _ _ _ hder
              refine ⟨n, t, d, sp, r, style, fields, rfl, hder, ht, hd, hwf, ?_⟩
              rw [C07.runOuter_eq, hd] at h
              split at h
              · -- the newtype arm
                rename_i f heq
                simp only [RData.struct.injEq] at heq
                obtain ⟨rfl, rfl⟩ := heq
                left
                cases hnv : C07.newtypeValidate r el with
                | err e => rw [hnv] at h; cases h
                | panic m => rw [hnv] at h; cases h
                | ok u =>
                    rw [hnv] at h
                    simp only [] at h
                    split at h
                    · rename_i inner hty
                      cases hw : Env.outerRunF fuel env inner el with
                      | ok w =>
                          rw [hw] at h
                          simp only [Outcome.map, Outcome.ok.injEq] at h
                          exact ⟨f, inner, w, rfl, rfl, rfl, hty, hw, h.symm⟩
                      | err e => rw [hw] at h; cases h
                      | panic m => rw [hw] at h; cases h
                    · cases h
              · rename_i s' fields' hnot heq
                simp only [RData.struct.injEq] at heq
                obtain ⟨rfl, rfl⟩ := heq
                right
                refine ⟨?_, mainArm_literal env _ r fields el v h⟩
                rintro f ⟨rfl, rfl⟩
                exact hnot f rfl rfl
              · rename_i heq
                cases heq

/-- **C16, magic fields, for every receiver of every corpus**: if the (non-proxy) receiver
    declares the magic field `m` and the element has the part `m ↦ x`, the literal of every
    successful run has the member `m` holding exactly `x` -/
theorem C16_magic (fuel : Nat) (env : Env.T) (name : String) (el : Elem) (v : Val)
    (h : Env.outerRunF (fuel + 1) env name el = .ok v) :
    ∃ n t d sp r style fields,
      env.decls.find? (·.1 == name) = some (n, t, d, sp) ∧ r.trait_ = t ∧
      r.base.data = .struct style fields ∧
      ((∃ f, style = .tuple ∧ fields = [f]) ∨
       ∃ members, containerPost r (.record r.base.ident members) = .ok v ∧
         (ElemOf t el → ∀ m x, (m, x) ∈ parts el → r.magic.contains m = true →
            (m, x) ∈ members ∧ ∀ y, (m, y) ∈ members → y = x)) := by
  obtain ⟨n, t, d, sp, r, style, fields, hfind, _, ht, hd, hwf, hcase⟩ := outerRunF_ok fuel env name el v h
  refine ⟨n, t, d, sp, r, style, fields, hfind, ht, hd, ?_⟩
  rcases hcase with ⟨f, _, _, hs, hf, _⟩ | ⟨_, members, hv, hlit⟩
  · exact .inl ⟨f, hs, hf⟩
  · refine .inr ⟨members, hv, ?_⟩
    intro hel m x hp hm
    exact magic_member_exact hlit hwf (ht ▸ hel) m x hp hm

/-- **C16, the body member, for every receiver of every corpus**: on a derive input, the
    (non-proxy) receiver's `data` member — when converted by the library (no `with`) into a
    member declared `ast::Data<V, F>` — is the mirror of the input body, entry conversions being
    those of the corpus (`corpusConv`: built-in instances, wrappers, nested receivers) -/
theorem C16_data (fuel : Nat) (env : Env.T) (name : String) (d : DeclD) (v : Val)
    (h : Env.outerRunF (fuel + 1) env name (.deriveInput d) = .ok v) :
    ∃ n t decl sp r style fields,
      env.decls.find? (·.1 == name) = some (n, t, decl, sp) ∧ r.trait_ = t ∧
      r.base.data = .struct style fields ∧
      ((∃ f, style = .tuple ∧ fields = [f]) ∨
       ∃ members, containerPost r (.record r.base.ident members) = .ok v ∧
         (t = .fromDeriveInput → ∀ fw, r.dataField = some fw → fw.with_ = none →
            ∀ vTy fTy, Env.typeArgs (C07.dataTyOf env r) = [vTy, fTy] →
            ∃ dv, ("data", dv) ∈ members ∧ (∀ y, ("data", y) ∈ members → y = dv) ∧
              Mirrors (fun f => corpusConv env fuel fTy (.field f)) (fun x => corpusConv env fuel vTy (.variant x))
                dataStruct dataEnum d.body dv)) := by
  obtain ⟨n, t, decl, sp, r, style, fields, hfind, _, ht, hd, hwf, hcase⟩ :=
    outerRunF_ok fuel env name _ v h
  refine ⟨n, t, decl, sp, r, style, fields, hfind, ht, hd, ?_⟩
  rcases hcase with ⟨f, _, _, hs, hf, _⟩ | ⟨_, members, hv, hlit⟩
  · exact .inl ⟨f, hs, hf⟩
  · refine .inr ⟨members, hv, ?_⟩
    intro htt fw hfw hw vTy fTy hty
    have hel : ElemOf r.trait_ (.deriveInput d) := by rw [ht, htt]; exact True.intro
    exact data_member hlit hwf hel fw hfw hw vTy fTy hty

/-- **C16, the `fields` member, for every receiver of every corpus** -/
theorem C16_fields (fuel : Nat) (env : Env.T) (name : String) (x : VariantD) (v : Val)
    (h : Env.outerRunF (fuel + 1) env name (.variant x) = .ok v) :
    ∃ n t decl sp r style fields,
      env.decls.find? (·.1 == name) = some (n, t, decl, sp) ∧ r.trait_ = t ∧
      r.base.data = .struct style fields ∧
      ((∃ f, style = .tuple ∧ fields = [f]) ∨
       ∃ members, containerPost r (.record r.base.ident members) = .ok v ∧
         (t = .fromVariant → r.magic.contains "fields" = true →
            ∀ fTy, Env.typeArgs (C07.memberTyOf env r "fields") = [fTy] →
            ∃ es, ("fields", fieldsVal x.style es) ∈ members ∧
              (∀ y, ("fields", y) ∈ members → y = fieldsVal x.style es) ∧
              x.fields.map (fun f => corpusConv env fuel fTy (.field f)) = es.map Outcome.ok)) := by
  obtain ⟨n, t, decl, sp, r, style, fields, hfind, _, ht, hd, hwf, hcase⟩ :=
    outerRunF_ok fuel env name _ v h
  refine ⟨n, t, decl, sp, r, style, fields, hfind, ht, hd, ?_⟩
  rcases hcase with ⟨f, _, _, hs, hf, _⟩ | ⟨_, members, hv, hlit⟩
  · exact .inl ⟨f, hs, hf⟩
  · refine .inr ⟨members, hv, ?_⟩
    intro htt hm fTy hty
    have hel : ElemOf r.trait_ (.variant x) := by rw [ht, htt]; exact True.intro
    exact fields_member hlit hwf hel hm fTy hty

/-! ## Part 6: non-vacuity of every hypothesis, and the discrepancy examples -/

namespace Ex

def fa : FieldD := { ident := some "a", ty := default, tyToks := "u8", vis := "pub", attrs := [], toks := "pub a:u8" }
def fb : FieldD := { ident := some "b", ty := default, tyToks := "u16", vis := "", attrs := [], toks := "b:u16" }
def fc : FieldD := { ident := some "c", ty := default, tyToks := "u16", vis := "", attrs := [], toks := "c:u16" }
def tu : FieldD := { ident := none, ty := default, tyToks := "u32", vis := "", attrs := [], toks := "u32" }
/-- an entry converter that rejects `u16` fields and panics on `!` -/
def noU16 (f : FieldD) : Outcome Val :=
  if f.tyToks == "u16" then .err (Err.custom "no u16")
  else if f.tyToks == "!" then .panic "never"
  else .ok (.toks f.tyToks)
def vname (x : VariantD) : Outcome Val := .ok (.toks x.ident)

example : Mirrors noU16 vname dataStruct dataEnum (.struct .named [fa, tu]) (dataStruct .named [.toks "u8", .toks "u32"]) :=
  ⟨[.toks "u8", .toks "u32"], rfl, rfl⟩
example (v : Val) : ¬ Mirrors noU16 vname dataStruct dataEnum .union v := id
example : FailsByText noU16 vname (.struct .named [fb, fa, fc]) := by
  refine ⟨?_, fb, List.mem_cons_self, Err.custom "no u16", rfl⟩
  intro x hx m
  simp only [List.mem_cons, List.not_mem_nil, or_false] at hx
  rcases hx with rfl | rfl | rfl <;> intro h <;> cases h
example : dataTryFrom noU16 vname dataStruct dataEnum (.struct .named [fb, fa, fc]) =
    .err (.multi [(Err.custom "no u16").at "b", (Err.custom "no u16").at "c"] [] none) := rfl
example : failureLeaves noU16 vname (.struct .named [fb, fa, fc]) =
    [(Err.custom "no u16").at "b", (Err.custom "no u16").at "c"] := rfl

/-! discrepancy: a hand-built tuple list whose field has an identifier -/
example : dataTryFrom noU16 vname dataStruct dataEnum (.struct .tuple [fb]) = .err ((Err.custom "no u16").at "b") := rfl
example : (failureLeaves noU16 vname (.struct .tuple [fb])).map Err.locs = [["b"]] := rfl
example : (failureLeavesByListKind noU16 .tuple [fb]).map Err.locs = [[]] := rfl
example : ¬ (Style.tuple ≠ Style.named → ∀ f ∈ [fb], f.ident = none) := by
  intro h
  have := h (by decide) fb List.mem_cons_self
  cases this
example : Style.tuple ≠ Style.named → ∀ f ∈ [tu], f.ident = none := by
  intro _ f hf
  simp only [List.mem_singleton] at hf
  subst hf; rfl
/-! a unit body holding a field: representable in the model only -/
example : dataTryFrom noU16 vname dataStruct dataEnum (.struct .unit [fa]) = .ok (dataStruct .unit [.toks "u8"]) := rfl
/-! panic -/
def fn : FieldD := { ident := some "n", ty := default, tyToks := "!", vis := "", attrs := [] }
example : dataTryFrom noU16 vname dataStruct dataEnum (.struct .named [fb, fn, fa]) = .panic "never" := rfl
example : firstPanic noU16 vname (.struct .named [fb, fn, fa]) = some "never" := rfl
/-! print -/
example : printFields .named ["a:u8", "b:u16"] = "{a:u8,b:u16,}" := by decide
example : printOriginal .named ["a:u8", "b:u16"] false = "{a:u8,b:u16}" := by decide
example : printFields .tuple ["u8"] = "(u8)" := by decide
example : printOriginal .tuple ["u8"] true = "(u8,)" := by decide
/-- the relation is not vacuous: dropping a field is not "up to a trailing comma" -/
example : ¬ EqUpToTrailingComma "{a:u8}" "{a:u8,b:u8}" := by
  rintro (h | ⟨p, c, _, ⟨h1, h2⟩ | ⟨h1, h2⟩⟩)
  · exact absurd h (by decide)
  · have l1 := congrArg String.length h1
    have l2 := congrArg String.length h2
    simp only [String.length_append] at l1 l2
    have e1 : "{a:u8}".length = 6 := by decide
    have e2 : "{a:u8,b:u8}".length = 11 := by decide
    have e3 : ",".length = 1 := by decide
    omega
  · have l1 := congrArg String.length h1
    have l2 := congrArg String.length h2
    simp only [String.length_append] at l1 l2
    have e1 : "{a:u8}".length = 6 := by decide
    have e2 : "{a:u8,b:u8}".length = 11 := by decide
    have e3 : ",".length = 1 := by decide
    omega

/-! ### a corpus -/
/-- `#[derive(FromVariant)] struct V { ident: Ident, discriminant: Option<Expr>, fields: ast::Fields<syn::Type> }` -/
def declV : DeclD :=
  { ident := "V", attrs := [],
    body := .struct .named [
      { ident := some "ident", ty := default, tyToks := "syn::Ident", vis := "", attrs := [] },
      { ident := some "discriminant", ty := default, tyToks := "Option<syn::Expr>", vis := "", attrs := [] },
      { ident := some "fields", ty := default, tyToks := "ast::Fields<syn::Type>", vis := "", attrs := [] }] }
/-- `#[derive(FromDeriveInput)] struct R { ident, vis, generics: ast::Generics<syn::GenericParam>, data: ast::Data<V, syn::Type> }` -/
def declR : DeclD :=
  { ident := "R", attrs := [],
    body := .struct .named [
      { ident := some "ident", ty := default, tyToks := "syn::Ident", vis := "", attrs := [] },
      { ident := some "vis", ty := default, tyToks := "syn::Visibility", vis := "", attrs := [] },
      { ident := some "generics", ty := default, tyToks := "ast::Generics<syn::GenericParam>", vis := "", attrs := [] },
      { ident := some "data", ty := default, tyToks := "ast::Data<V, syn::Type>", vis := "", attrs := [] }] }
def env : Env.T := { decls := [("V", .fromVariant, declV, {}), ("R", .fromDeriveInput, declR, {})], oracle := {}, thr := 0 }
def inputS : DeclD :=
  { ident := "S", vis := "pub(crate)", attrs := [],
    generics := { toks := "<'a,T:Clone>", whereToks := "where T:Copy", hasWhere := true,
                  params := [.lifetime "'a", .type { ident := "T", attrs := [], bounds := ["Clone"], default := none, toks := "T:Clone" }] },
    body := .struct .named [fa, fb] }
def inputE : DeclD :=
  { ident := "E", attrs := [],
    body := .enum [{ ident := "A", style := .unit, fields := [], attrs := [], discriminant := some "1" },
                   { ident := "B", style := .tuple, fields := [tu], attrs := [], discriminant := none }] }
def vB : VariantD := { ident := "B", style := .tuple, fields := [tu, tu], attrs := [], discriminant := some "7" }

theorem isOk_exists {α : Type} {o : Outcome α} (h : o.isOk = true) : ∃ v, o = .ok v := by
  cases o with
  | ok v => exact ⟨v, rfl⟩
  | err e => cases h
  | panic m => cases h

/-- hypothesis of `outerRunF_ok` / `C16_magic`: successful runs exist (struct body, enum body through
    the nested variant receiver, a variant) -/
example : ∃ v, Env.outerRunF 3 env "R" (.deriveInput inputS) = .ok v := isOk_exists (by decide +kernel)
example : ∃ v, Env.outerRunF 3 env "R" (.deriveInput inputE) = .ok v := isOk_exists (by decide +kernel)
example : ∃ v, Env.outerRunF 3 env "V" (.variant vB) = .ok v := isOk_exists (by decide +kernel)

/-- hypothesis of `deriveOuter_wellFormed` / `derive_wellFormed` -/
example : ∃ r, deriveOuter .fromVariant {} (fun _ => none) {} declV = .ok (.outer r) := by
  have h : (match deriveOuter .fromVariant {} (fun _ => none) {} declV with
      | .ok (.outer _) => true | _ => false) = true := by decide +kernel
  split at h
  · rename_i r hr; exact ⟨r, hr⟩
  · cases h

/-- `deriveOuter_magic`: the declared magic fields of the two receivers of the corpus -/
example : (match declV.body with | .struct _ fs => declaredMagic .fromVariant fs | _ => []) =
    ["ident", "discriminant", "fields"] := by decide
example : (match declR.body with | .struct _ fs => declaredMagic .fromDeriveInput fs | _ => []) =
    ["ident", "vis", "generics", "data"] := by decide

/-- the value of the model on the example (evaluated by the kernel): every magic member holds
    its part, the body has the input's kind, style and entries in order -/
example : Env.outerRunF 3 env "V" (.variant vB) =
    .ok (.record "V" [("discriminant", .some (.toks "7")),
                      ("fields", fieldsVal .tuple [.toks "u32", .toks "u32"]),
                      ("ident", .toks "B")]) := by rfl

/-- the hypotheses of `magic_member_exact`, `converted_member_exact`, `data_member` and
    `generics_member` are jointly satisfiable (by the receiver `R` of the corpus on `inputS`) -/
example : ∃ (r : ROuter) (fields : List RField) (members : List (String × Val)) (fw : Forwarded),
    Literal env (corpusConv env 2) r fields (.deriveInput inputS) members ∧ WellFormed r fields ∧
    ElemOf r.trait_ (.deriveInput inputS) ∧ ("ident", Val.toks "S") ∈ parts (.deriveInput inputS) ∧
    r.magic.contains "ident" = true ∧ r.magic.contains "generics" = true ∧
    r.dataField = some fw ∧ fw.with_ = none ∧ Env.typeArgs (C07.dataTyOf env r) = ["V", "syn::Type"] := by
  obtain ⟨v, hv⟩ : ∃ v, Env.outerRunF 3 env "R" (.deriveInput inputS) = .ok v :=
    isOk_exists (by decide +kernel)
  obtain ⟨n, t, d, sp, r, style, fields, hfind, hder, ht, hd, hwf, hcase⟩ := outerRunF_ok 2 env "R" _ v hv
  have hf : env.decls.find? (·.1 == "R") = some ("R", .fromDeriveInput, declR, {}) := by rfl
  rw [hf] at hfind
  simp only [Option.some.injEq, Prod.mk.injEq] at hfind
  obtain ⟨rfl, rfl, rfl, rfl⟩ := hfind
  have hobs : (match Options.derive .fromDeriveInput env.oracle
        (fun n => Suggest.didYouMean env.thr [("with", env.oracle.score n "with")]) {} declR with
      | .ok (.outer r) =>
          r.magic.contains "ident" && r.magic.contains "generics" &&
          (match r.dataField with | some fw => fw.with_.isNone | none => false) &&
          (Env.typeArgs (C07.dataTyOf env r) == ["V", "syn::Type"]) &&
          (match r.base.data with | .struct .named _ => true | _ => false)
      | _ => false) = true := by decide +kernel
  rw [hder] at hobs
  simp only [Bool.and_eq_true, beq_iff_eq] at hobs
  obtain ⟨⟨⟨⟨h1, h2⟩, h3⟩, h4⟩, h5⟩ := hobs
  cases hdf : r.dataField with
  | none => rw [hdf] at h3; cases h3
  | some fw =>
      rw [hdf] at h3
      simp only [] at h3
      have hwn : fw.with_ = none := by
        cases hw : fw.with_ with
        | none => rfl
        | some w => rw [hw] at h3; cases h3
      rcases hcase with ⟨f, _, _, hs, _⟩ | ⟨_, members, _, hlit⟩
      · rw [hd, hs] at h5; cases h5
      · refine ⟨r, fields, members, fw, hlit, hwf, ?_, ?_, h1, h2, hdf, hwn, h4⟩
        · rw [ht]; exact True.intro
        · exact List.mem_cons_self

/-- the hypotheses of `fields_member` / `fields_err_iff` are jointly satisfiable (receiver `V` on `vB`) -/
example : ∃ (r : ROuter) (fields : List RField) (members : List (String × Val)),
    Literal env (corpusConv env 2) r fields (.variant vB) members ∧ WellFormed r fields ∧
    ElemOf r.trait_ (.variant vB) ∧ r.magic.contains "fields" = true ∧
    Env.typeArgs (C07.memberTyOf env r "fields") = ["syn::Type"] := by
  obtain ⟨v, hv⟩ : ∃ v, Env.outerRunF 3 env "V" (.variant vB) = .ok v := isOk_exists (by decide +kernel)
  obtain ⟨n, t, d, sp, r, style, fields, hfind, hder, ht, hd, hwf, hcase⟩ := outerRunF_ok 2 env "V" _ v hv
  have hf : env.decls.find? (·.1 == "V") = some ("V", .fromVariant, declV, {}) := by rfl
  rw [hf] at hfind
  simp only [Option.some.injEq, Prod.mk.injEq] at hfind
  obtain ⟨rfl, rfl, rfl, rfl⟩ := hfind
  have hobs : (match Options.derive .fromVariant env.oracle
        (fun n => Suggest.didYouMean env.thr [("with", env.oracle.score n "with")]) {} declV with
      | .ok (.outer r) =>
          r.magic.contains "fields" &&
          (Env.typeArgs (C07.memberTyOf env r "fields") == ["syn::Type"]) &&
          (match r.base.data with | .struct .named _ => true | _ => false)
      | _ => false) = true := by decide +kernel
  rw [hder] at hobs
  simp only [Bool.and_eq_true, beq_iff_eq] at hobs
  obtain ⟨⟨h1, h2⟩, h3⟩ := hobs
  rcases hcase with ⟨f, _, _, hs, _⟩ | ⟨_, members, _, hlit⟩
  · rw [hd, hs] at h3; cases h3
  · exact ⟨r, fields, members, hlit, hwf, by rw [ht]; exact True.intro, h1, h2⟩

/-- the type-reading hypotheses (`hty`, `stripWrap …`) hold for the spellings the corpus uses -/
example : Env.typeArgs "ast::Data<V, syn::Type>" = ["V", "syn::Type"] := by decide
example : Env.typeArgs "ast::Fields<syn::Type>" = ["syn::Type"] := by decide
example : C07.stripWrap "ast::Generics<" "syn::Generics" = none := by decide +kernel
example : C07.stripWrap "ast::Generics<" "ast::Generics<syn::GenericParam>" = some "syn::GenericParam" := by decide +kernel
example : C07.stripWrap "darling::Result<" "darling::Result<syn::Generics>" = some "syn::Generics" := by decide +kernel
example : C07.stripWrap "darling::Result<" "WithOriginal<syn::Generics,syn::Generics>" = none ∧
    C07.stripWrap "WithOriginal<" "WithOriginal<syn::Generics,syn::Generics>" = some "syn::Generics,syn::Generics" ∧
    Env.typeArgs ("W<" ++ "syn::Generics,syn::Generics" ++ ">") = ["syn::Generics", "syn::Generics"] := by
  decide +kernel

/-- the generics mirror on the example: one entry per parameter in order, the where-clause kept -/
example : genericsMirror none inputS.generics =
    .ok (.record "Generics" [("params", .list [.toks "'a", .toks "T:Clone"]),
                             ("where_clause", .some (.toks "where T:Copy"))]) := rfl
/-- a where-clause without parameters, and one without predicates, are mirrored -/
example : genericsMirror none { whereToks := "", hasWhere := true } =
    .ok (.record "Generics" [("params", .list []), ("where_clause", .some (.toks ""))]) := rfl

end Ex

end C16
