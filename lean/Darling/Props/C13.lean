import Darling.FromMeta.SynTypes
import Darling.Spec.C15
/-
  C13 — Syntax-typed values reproduce the user's tokens; quoted and bare forms agree.

  The grammar parsers of `syn` on string contents (`parse`) and the printer (`toks`, carried by
  the syntax mirror) are external.  What is proved here, for every parser `parse`, every value
  injection `tok` and every expression: *which* tokens each implementor returns — the bare
  expression's own tokens, or the parser's output on the string's contents — and that every
  other literal kind / expression kind is rejected with a span.  PARTIAL: that syn's printer and
  parser round-trip (`parse (toks e) = toks e`) is a hypothesis (`RoundTrips`), observed by the
  correspondence run, not proved.
-/
open SynTypes Spec.C15

namespace C13
variable {α : Type}

/-- a literal that is not a string -/
def notStr (l : Lit) : Prop := ∀ s, l.v ≠ .str s

/-! ### the shared string-literal path -/

theorem quoted_is_parsed (parse : String → Option String) (tok : String → α) (s t : String) (sp : Span) :
    parsedFromValue parse tok ⟨.str s, t, sp⟩ =
      match parse s with
      | some out => .ok (tok out)
      | none => .err (.leaf (.unknownValue s) [] (some sp)) := by
  simp only [parsedFromValue]
  cases parse s <;> rfl

theorem other_literal_rejected (parse : String → Option String) (tok : String → α) (l : Lit) (h : notStr l) :
    parsedFromValue parse tok l = .err (.leaf (.unexpectedType l.typeName) [] (some l.span)) := by
  obtain ⟨v, t, sp⟩ := l
  cases v <;> first | exact absurd rfl (h _) | rfl

/-! ### syn::Expr: the bare expression itself, or the contents of the string re-parsed -/

theorem expr_bare (parse : String → Option String) (tok : String → α) (e : Expr)
    (hs : ∀ l, ungroup e = .lit l → notStr l) :
    exprFromExpr parse tok e = .ok (tok (ungroup e).toks) := by
  induction e using ungroup.induct with
  | case1 g sp ih =>
      simp only [exprFromExpr, ungroup]
      exact ih (by intro l hl; exact hs l (by simpa [ungroup] using hl))
  | case2 e hng =>
      have hu : ungroup e = e := by
        cases e <;> first | rfl | exact absurd rfl (hng _ _)
      rw [hu] at hs ⊢
      cases e with
      | lit l =>
          have := hs l rfl
          obtain ⟨v, t, sp⟩ := l
          cases v <;> first | exact absurd rfl (this _) | rfl
      | group g sp => exact absurd rfl (hng g sp)
      | path _ _ => rfl
      | qpath _ _ _ => rfl
      | array _ _ _ => rfl
      | other _ _ _ => rfl

theorem expr_quoted (parse : String → Option String) (tok : String → α) (s t : String) (sp : Span) :
    exprFromExpr parse tok (.lit ⟨.str s, t, sp⟩) = parsedFromValue parse tok ⟨.str s, t, sp⟩ := rfl

/-- where both spellings are accepted they produce equal values — given that syn re-parses what
    it printed (`hrt`) -/
theorem expr_agree (parse : String → Option String) (tok : String → α) (e : Expr)
    (hs : ∀ l, ungroup e = .lit l → notStr l) (t : String) (sp : Span)
    (hrt : parse (ungroup e).toks = some (ungroup e).toks) :
    exprFromExpr parse tok e = exprFromExpr parse tok (.lit ⟨.str (ungroup e).toks, t, sp⟩) := by
  rw [expr_bare parse tok e hs, expr_quoted, quoted_is_parsed, hrt]

/-! ### syn::Path -/

theorem path_bare (parse : String → Option String) (tok : String → α) (p : Path) (sp : Span) :
    pathFromExpr parse tok (.path p sp) = .ok (tok (Expr.path p sp).toks) := rfl

theorem path_accepts_only (parse : String → Option String) (tok : String → α) (e : Expr) (v : α)
    (h : pathFromExpr parse tok e = .ok v) :
    (∃ p sp, ungroup e = .path p sp ∧ v = tok (ungroup e).toks)
      ∨ (∃ s t sp out, ungroup e = .lit ⟨.str s, t, sp⟩ ∧ parse s = some out ∧ v = tok out) := by
  induction e using ungroup.induct with
  | case1 g sp ih => simp only [pathFromExpr, ungroup] at h ⊢; exact ih h
  | case2 e hng =>
      have hu : ungroup e = e := by
        cases e <;> first | rfl | exact absurd rfl (hng _ _)
      rw [hu]
      cases e with
      | lit l =>
          obtain ⟨lv, t, sp⟩ := l
          cases lv with
          | str s =>
              simp only [pathFromExpr, parsedFromValue] at h
              cases hp : parse s with
              | none => simp [hp] at h
              | some out => simp [hp] at h; exact Or.inr ⟨s, t, sp, out, rfl, hp, h.symm⟩
          | _ => simp [pathFromExpr, parsedFromValue] at h
      | group g sp => exact absurd rfl (hng g sp)
      | path p sp => simp [pathFromExpr] at h; exact Or.inl ⟨p, sp, rfl, h.symm⟩
      | qpath _ _ _ => simp [pathFromExpr] at h
      | array _ _ _ => simp [pathFromExpr] at h
      | other _ _ _ => simp [pathFromExpr] at h

/-- every rejection by `syn::Path` carries a span -/
theorem path_reject_spanned (parse : String → Option String) (tok : String → α) (e : Expr) (err : Err)
    (h : pathFromExpr parse tok e = .err err) : err.span ≠ none := by
  induction e using ungroup.induct with
  | case1 g sp ih => simp only [pathFromExpr] at h; exact ih h
  | case2 e hng =>
      cases e with
      | lit l =>
          obtain ⟨lv, t, sp⟩ := l
          simp only [pathFromExpr, parsedFromValue] at h
          cases lv <;> simp at h
          case str s =>
            cases hp : parse s <;> simp [hp] at h
            subst h; simp [unknownLitStr, Err.unknownValue, Err.new, Err.withSpan, Err.span]
          all_goals (subst h; simp [Err.unexpectedLitType, Err.span])
      | group g sp => exact absurd rfl (hng g sp)
      | path p sp => simp [pathFromExpr] at h
      | qpath _ _ _ => simp [pathFromExpr] at h; subst h; simp [Err.unexpectedExprType, Err.span]
      | array _ _ _ => simp [pathFromExpr] at h; subst h; simp [Err.unexpectedExprType, Err.span]
      | other _ _ _ => simp [pathFromExpr] at h; subst h; simp [Err.unexpectedExprType, Err.span]

/-! ### ExprArray / ExprPath / ExprRange -/

theorem synExpr_bare (v : ExprVariant) (parse : String → Option String) (tok : String → α) (e : Expr)
    (hv : v.isVariant e = true) (hl : ∀ l, e ≠ .lit l) (hg : ∀ g s, e ≠ .group g s) :
    synExprFromExpr v parse tok e = .ok (tok e.toks) := by
  cases e with
  | lit l => exact absurd rfl (hl l)
  | group g s => exact absurd rfl (hg g s)
  | path _ _ => simp [synExprFromExpr, hv]
  | qpath _ _ _ => simp [synExprFromExpr, hv]
  | array _ _ _ => simp [synExprFromExpr, hv]
  | other _ _ _ => simp [synExprFromExpr, hv]

theorem synExpr_other_rejected (v : ExprVariant) (parse : String → Option String) (tok : String → α) (e : Expr)
    (hv : v.isVariant e = false) (hl : ∀ l, e ≠ .lit l) (hg : ∀ g s, e ≠ .group g s) :
    synExprFromExpr v parse tok e = .err (Err.unexpectedExprType e) := by
  cases e with
  | lit l => exact absurd rfl (hl l)
  | group g s => exact absurd rfl (hg g s)
  | path _ _ => simp [synExprFromExpr, hv]
  | qpath _ _ _ => simp [synExprFromExpr, hv]
  | array _ _ _ => simp [synExprFromExpr, hv]
  | other _ _ _ => simp [synExprFromExpr, hv]

theorem synExpr_group_transparent (v : ExprVariant) (parse : String → Option String) (tok : String → α) (g : Expr) (s : Span) :
    synExprFromExpr v parse tok (.group g s) = synExprFromExpr v parse tok g := by
  simp [synExprFromExpr]

/-! ### string-only syntax types (`from_syn_parse!`: types, visibility, where-clause) -/

theorem synParse_quoted (parse : String → Option String) (tok : String → α) (s t : String) (sp : Span) :
    (synParseHooks parse tok).fromValue ⟨.str s, t, sp⟩ =
      match parse s with
      | some out => .ok (tok out)
      | none => .err (.leaf (.unknownValue s) [] (some sp)) :=
  quoted_is_parsed parse tok s t sp

/-- a bare (non-literal) expression is rejected with a span -/
theorem synParse_bare_rejected (parse : String → Option String) (tok : String → α) (e : Expr)
    (hl : ∀ l, ungroup e ≠ .lit l) :
    ∃ err, (synParseHooks parse tok).fromExpr e = .err err ∧ err.span ≠ none := by
  show ∃ err, Hooks.fromExprD _ e = .err err ∧ _
  induction e using ungroup.induct with
  | case1 g sp ih =>
      obtain ⟨err, he, hs⟩ := ih (by intro l hl'; exact hl l (by simpa [ungroup] using hl'))
      refine ⟨err.withSpan sp, by simp [Hooks.fromExprD, he, Outcome.mapErr], ?_⟩
      cases err with
      | leaf k ls s => cases s <;> simp_all [Err.withSpan, Err.span]
      | multi cs ls s => cases s <;> simp_all [Err.withSpan, Err.span]
  | case2 e hng =>
      cases e with
      | lit l => exact absurd rfl (hl l)
      | group g sp => exact absurd rfl (hng g sp)
      | path _ _ => exact ⟨_, rfl, by simp [Err.unexpectedExprType, Err.withSpan, Err.span]⟩
      | qpath _ _ _ => exact ⟨_, rfl, by simp [Err.unexpectedExprType, Err.withSpan, Err.span]⟩
      | array _ _ _ => exact ⟨_, rfl, by simp [Err.unexpectedExprType, Err.withSpan, Err.span]⟩
      | other _ _ _ => exact ⟨_, rfl, by simp [Err.unexpectedExprType, Err.withSpan, Err.span]⟩

/-! ### literal kinds -/

theorem litKind_exact (k : LitKind) (tok : String → α) (l : Lit) :
    litKindFromValue k tok l =
      if k.matchesLit l then .ok (tok l.toks) else .err (.leaf (.unexpectedType l.typeName) [] (some l.span)) := rfl

theorem lit_any (tok : String → α) (l : Lit) : (litHooks tok).fromValue l = .ok (tok l.toks) := rfl

/-- whole meta items come back as written -/
theorem meta_identity (tok : String → α) (m : Meta) : (metaHooks tok).fromMeta m = .ok (tok m.toks) := rfl

/-! ### the two expression helpers differ only on string literals -/

/-- the test of `parse_str_literal`: the value, its invisible groups peeled, is a string literal -/
theorem strLitOf_some (e : Expr) (l : Lit) :
    strLitOf e = some l ↔ ungroup e = .lit l ∧ ∃ s, l.v = .str s := by
  induction e using ungroup.induct with
  | case1 g sp ih => simpa only [strLitOf, ungroup] using ih
  | case2 e hng =>
      have hu : ungroup e = e := by
        cases e <;> first | rfl | exact absurd rfl (hng _ _)
      rw [hu]
      cases e with
      | lit l' =>
          obtain ⟨v, t, sp⟩ := l'
          cases v <;> simp [strLitOf]
          case str s => intro h; subst h; exact ⟨s, rfl⟩
          all_goals (intro h; subst h; intro s hs; cases hs)
      | group g sp => exact absurd rfl (hng g sp)
      | path _ _ => simp [strLitOf]
      | qpath _ _ _ => simp [strLitOf]
      | array _ _ _ => simp [strLitOf]
      | other _ _ _ => simp [strLitOf]

theorem strLitOf_none (e : Expr) :
    strLitOf e = none ↔ ∀ s t sp, ungroup e ≠ .lit ⟨.str s, t, sp⟩ := by
  constructor
  · intro h s t sp hu
    have := (strLitOf_some e ⟨.str s, t, sp⟩).mpr ⟨hu, s, rfl⟩
    rw [h] at this; cases this
  · intro h
    cases hs : strLitOf e with
    | none => rfl
    | some l =>
        obtain ⟨hu, s, hv⟩ := (strLitOf_some e l).mp hs
        obtain ⟨v, t, sp⟩ := l
        simp only at hv; subst hv
        exact absurd hu (h s t sp)

/-- an invisible group prints as its contents -/
theorem toks_ungroup (e : Expr) : (ungroup e).toks = e.toks := by
  induction e using ungroup.induct with
  | case1 g sp ih => simpa only [ungroup, Expr.toks] using ih
  | case2 e hng =>
      have hu : ungroup e = e := by
        cases e <;> first | rfl | exact absurd rfl (hng _ _)
      rw [hu]

/-- off string literals — any other literal included, grouped or not — the two helpers return the
    same thing: the value as written -/
theorem helpers_agree_off_strings (parse : String → Option String) (tok : String → α) (m : Meta)
    (h : ∀ p e t' sp', m = .nameValue p e t' sp' → ∀ s t sp, ungroup e ≠ .lit ⟨.str s, t, sp⟩) :
    parseStrLiteral parse tok m = preserveStrLiteral tok m := by
  cases m with
  | path p => rfl
  | list _ _ _ _ _ _ => rfl
  | nameValue p e t sp =>
      have hn := (strLitOf_none e).mpr (h p e t sp rfl)
      simp only [parseStrLiteral, preserveStrLiteral, hn]

/-- in particular a literal that is not a string is returned as written by both -/
theorem helpers_agree_on_other_literals (parse : String → Option String) (tok : String → α)
    (p : Path) (l : Lit) (hl : notStr l) (t : String) (sp : Span) :
    parseStrLiteral parse tok (.nameValue p (.lit l) t sp) = .ok (tok l.toks) ∧
    preserveStrLiteral tok (.nameValue p (.lit l) t sp) = .ok (tok l.toks) := by
  refine ⟨?_, rfl⟩
  rw [helpers_agree_off_strings parse tok _ ?_]
  · rfl
  · intro p' e t' sp' hm s lt lsp hu
    cases hm
    simp only [ungroup] at hu
    cases hu
    exact hl s rfl

/-- on a string literal, at any depth of invisible groups, one helper keeps the literal … -/
theorem helper_preserve_keeps_string (tok : String → α) (p : Path) (e : Expr) (s t : String) (sp : Span)
    (he : ungroup e = .lit ⟨.str s, t, sp⟩) (t' : String) (sp' : Span) :
    preserveStrLiteral tok (.nameValue p e t' sp') = .ok (tok t) := by
  have : e.toks = t := by rw [← toks_ungroup e, he]; rfl
  simp only [preserveStrLiteral, this]

/-- … and the other parses its contents -/
theorem helper_parse_parses_string (parse : String → Option String) (tok : String → α) (p : Path)
    (e : Expr) (s t : String) (sp : Span) (he : ungroup e = .lit ⟨.str s, t, sp⟩) (t' : String) (sp' : Span) :
    parseStrLiteral parse tok (.nameValue p e t' sp') = parsedFromValue parse tok ⟨.str s, t, sp⟩ := by
  have hs := (strLitOf_some e ⟨.str s, t, sp⟩).mpr ⟨he, s, rfl⟩
  simp only [parseStrLiteral, hs]

/-- the parsing helper reads a value exactly like `syn::Expr::from_meta` reads it -/
theorem helper_parse_is_expr_target (parse : String → Option String) (tok : String → α) (p : Path)
    (e : Expr) (t : String) (sp : Span) :
    parseStrLiteral parse tok (.nameValue p e t sp) = exprFromExpr parse tok e := by
  cases hs : strLitOf e with
  | some l =>
      obtain ⟨hu, s, hv⟩ := (strLitOf_some e l).mp hs
      obtain ⟨v, lt, lsp⟩ := l
      simp only at hv; subst hv
      rw [helper_parse_parses_string parse tok p e s lt lsp hu]
      clear hs
      induction e using ungroup.induct with
      | case1 g gsp ih => simp only [exprFromExpr]; exact ih (by simpa only [ungroup] using hu)
      | case2 e hng =>
          have hu' : ungroup e = e := by
            cases e <;> first | rfl | exact absurd rfl (hng _ _)
          rw [hu'] at hu; subst hu; rfl
  | none =>
      have hn := (strLitOf_none e).mp hs
      rw [expr_bare parse tok e (by
        intro l hl s hv
        obtain ⟨v, lt, lsp⟩ := l
        simp only at hv; subst hv
        exact hn s lt lsp hl), toks_ungroup]
      simp only [parseStrLiteral, hs]

/-! ### non-vacuity -/
def pAB : Path := { global := false, segs := ["a", "b"], plain := true, toks := "a :: b", span := ⟨4, 8⟩ }
example : pathFromExpr (fun s => if s = "a::b" then some "a :: b" else none) id (.path pAB ⟨4, 8⟩) = .ok "a :: b" := rfl
example : pathFromExpr (fun s => if s = "a::b" then some "a :: b" else none) id
    (.lit ⟨.str "a::b", "\"a::b\"", ⟨4, 10⟩⟩) = .ok "a :: b" := by
  simp [pathFromExpr, parsedFromValue]
example : ∃ e, pathFromExpr (fun _ => none) (id : String → String) (.qpath pAB "< T > :: a :: b" ⟨4, 12⟩) = .err e := ⟨_, rfl⟩

end C13
