import Darling.Options
import Darling.Props.C07
import Darling.Spec.PanicInventory
/-
  C06 — The derive macros are total: they diagnose, they never crash.

  The derive-time model (`Options.derive`) returns `ok` (one impl block), `err e` (the compile
  errors of `e`, at least one) or — only where the code can panic — `panic`.  Proved here: no
  option chain, attribute loop or body rule panics, for every declaration; the one remaining
  panic source is the external crate `ident_case` (byte slicing in camelCase), isolated as the
  hypothesis `RenameOk`.
-/
open Options Wrappers Scalars SynTypes

namespace C06

/-! ### the option readers return -/

theorem readOptString_returns (m : Meta) : (readOptString m).Returns :=
  (C07.option_np some none _ (C07.string_np id)).fromMeta m
theorem readOptBool_returns (m : Meta) : (readOptBool m).Returns :=
  (C07.option_np some none _ (C07.bool_np id)).fromMeta m
theorem readOptSpannedBool_returns (m : Meta) : (readOptSpannedBool m).Returns :=
  (C07.option_np some none _ (C07.spanned_np _ _ (C07.bool_np id))).fromMeta m
theorem readFlag_returns (m : Meta) : (readFlag m).Returns := (C07.flag_np id).fromMeta m

theorem parsedFromValue_returns {α : Type} (parse : String → Option String) (tok : String → α) (l : Lit) :
    (parsedFromValue parse tok l).Returns := by
  unfold parsedFromValue
  cases l.v
  case str s => simp only []; split <;> first | exact Outcome.returns_ok _ | exact Outcome.returns_err _
  all_goals exact Outcome.returns_err _

theorem parsedFromString_returns {α : Type} (parse : String → Option String) (tok : String → α) (s : String) :
    (parsedFromString parse tok s).Returns := by
  unfold parsedFromString
  split <;> first | exact Outcome.returns_ok _ | exact Outcome.returns_err _

theorem pathFromExpr_returns {α : Type} (parse : String → Option String) (tok : String → α) :
    (e : Expr) → (pathFromExpr parse tok e).Returns
  | .lit l => by simp only [pathFromExpr]; exact parsedFromValue_returns parse tok l
  | .path _ _ => by simp only [pathFromExpr]; exact Outcome.returns_ok _
  | .group g _ => by simp only [pathFromExpr]; exact pathFromExpr_returns parse tok g
  | .qpath _ _ _ => by simp only [pathFromExpr]; exact Outcome.returns_err _
  | .array _ _ _ => by simp only [pathFromExpr]; exact Outcome.returns_err _
  | .other _ _ _ => by simp only [pathFromExpr]; exact Outcome.returns_err _

theorem path_np {α : Type} (parse : String → Option String) (tok : String → α) : (pathHooks parse tok).NP := by
  constructor <;> intro f hf <;> simp [pathHooks] at hf
  · subst hf; exact parsedFromValue_returns parse tok
  · subst hf; exact pathFromExpr_returns parse tok
  · subst hf; exact parsedFromString_returns parse tok

theorem callableFromExpr_returns {α : Type} (tok : String → α) :
    (e : Expr) → (callableFromExpr tok e).Returns
  | .group g _ => by simp only [callableFromExpr]; exact callableFromExpr_returns tok g
  | .other k t s => by
      unfold callableFromExpr
      split <;> first | exact Outcome.returns_ok _ | exact Outcome.returns_err _ | simp_all
  | .path _ _ => by simp only [callableFromExpr]; exact Outcome.returns_ok _
  | .qpath _ _ _ => by simp only [callableFromExpr]; exact Outcome.returns_ok _
  | .lit _ => by simp only [callableFromExpr]; exact Outcome.returns_err _
  | .array _ _ _ => by simp only [callableFromExpr]; exact Outcome.returns_err _

theorem callable_np {α : Type} (tok : String → α) : (callableHooks tok).NP := by
  constructor <;> intro f hf <;> simp [callableHooks] at hf
  subst hf; exact callableFromExpr_returns tok

theorem readCallable_returns (m : Meta) : (readCallable m).Returns := (callable_np id).fromMeta m
theorem readPath_returns (o : Oracle) (m : Meta) : (readPath o m).Returns := (path_np _ id).fromMeta m
theorem readOptPath_returns (o : Oracle) (m : Meta) : (readOptPath o m).Returns :=
  (C07.option_np some none _ (path_np _ id)).fromMeta m

theorem defaultFromMeta_returns (o : Oracle) (m : Meta) : (defaultFromMeta o m).Returns := by
  unfold defaultFromMeta
  cases m with
  | path _ => exact Outcome.returns_ok _
  | list _ _ _ _ _ _ => exact Outcome.returns_err _
  | nameValue _ e _ _ => exact (pathFromExpr_returns _ id e).map _

/-! ### no option chain panics -/

/-- a step result that is not a panic -/
def StepR.Returns {σ : Type} : StepR σ → Prop
  | .panic _ => False
  | _ => True

theorem withRead_returns {σ β : Type} (s : σ) (r : Outcome β) (k : β → StepR σ) (hr : r.Returns)
    (hk : ∀ b, StepR.Returns (k b)) : StepR.Returns (withRead s r k) := by
  unfold withRead
  cases r with
  | ok v => exact hk v
  | err e => trivial
  | panic m => exact absurd rfl (hr m)

theorem ite_returns {σ : Type} (c : Bool) (a b : StepR σ) (ha : StepR.Returns a) (hb : StepR.Returns b) :
    StepR.Returns (if c then a else b) := by cases c <;> simpa

/-- **field options** (`InputField::parse_nested`) never panic, whatever the item -/
theorem fieldStep_returns (o : Oracle) (s : FieldOpts) (mi : Meta) : StepR.Returns (fieldStep o s mi) := by
  unfold fieldStep
  simp only []
  split
  · split
    · trivial
    · exact withRead_returns _ _ _ (readOptString_returns mi) (fun v => by split <;> trivial)
  · split
    · split
      · trivial
      · exact withRead_returns _ _ _ (defaultFromMeta_returns o mi) (fun v => trivial)
    · split
      · split
        · trivial
        · exact withRead_returns _ _ _ (readCallable_returns mi) (fun v => by split <;> trivial)
      · split
        · split
          · trivial
          · exact withRead_returns _ _ _ (readOptSpannedBool_returns mi) (fun v => by split <;> trivial)
        · split
          · split
            · trivial
            · exact withRead_returns _ _ _ (readPath_returns o mi) (fun f => trivial)
          · split
            · split
              · trivial
              · exact withRead_returns _ _ _ (readOptBool_returns mi) (fun v => by split <;> trivial)
            · split
              · split
                · trivial
                · refine withRead_returns _ _ _ (readFlag_returns mi) (fun v => ?_)
                  simp only [bundleStep]
                  split <;> trivial
              · trivial

/-- variant options never panic -/
theorem variantStep_returns (isUnit : Bool) (s : VariantOpts) (mi : Meta) : StepR.Returns (variantStep isUnit s mi) := by
  unfold variantStep
  simp only []
  split
  · split
    · trivial
    · exact withRead_returns _ _ _ (readOptString_returns mi) (fun v => trivial)
  · split
    · split
      · trivial
      · exact withRead_returns _ _ _ (readOptBool_returns mi) (fun v => trivial)
    · split
      · split
        · trivial
        · split
          · trivial
          · exact withRead_returns _ _ _ (readOptSpannedBool_returns mi) (fun v => trivial)
      · trivial

/-! ### the attribute loops never panic (in particular: no unfinished accumulator) -/

theorem parseAttrItems_ok {σ : Type} (step : σ → Meta → StepR σ) (hstep : ∀ s m, StepR.Returns (step s m)) :
    ∀ (items : List NestedMeta) (s : σ) (errs : List Err), ∃ r, parseAttrItems step s errs items = .ok r := by
  intro items
  induction items with
  | nil => intro s errs; exact ⟨_, rfl⟩
  | cons it rest ih =>
      intro s errs
      cases it with
      | lit l => simp only [parseAttrItems]; exact ih _ _
      | item mi =>
          simp only [parseAttrItems]
          have := hstep s mi
          cases hs : step s mi with
          | ok s' => exact ih _ _
          | err s' e => exact ih _ _
          | panic m => rw [hs] at this; exact absurd this (by simp [StepR.Returns])

theorem parseAttr_ok {σ : Type} (step : σ → Meta → StepR σ) (hstep : ∀ s m, StepR.Returns (step s m)) (s : σ) (a : Attr) :
    ∃ r, parseAttr step s a = .ok r := by
  unfold parseAttr
  cases a.body with
  | path _ => exact ⟨_, rfl⟩
  | nameValue _ _ _ _ => exact ⟨_, rfl⟩
  | list p items bad ts t sp =>
      cases bad with
      | some b => exact ⟨_, rfl⟩
      | none =>
          simp only []
          obtain ⟨r, hr⟩ := parseAttrItems_ok step hstep items s []
          rw [hr]
          obtain ⟨s', errs⟩ := r
          match errs with
          | [] => exact ⟨_, rfl⟩
          | [x] => exact ⟨_, rfl⟩
          | x :: y :: r => exact ⟨_, rfl⟩

theorem parseAttributes_ok {σ : Type} (step : σ → Meta → StepR σ) (hstep : ∀ s m, StepR.Returns (step s m)) :
    ∀ (attrs : List Attr) (s : σ) (errs : List Err), ∃ r, parseAttributes step s errs attrs = .ok r := by
  intro attrs
  induction attrs with
  | nil => intro s errs; exact ⟨_, rfl⟩
  | cons a rest ih =>
      intro s errs
      simp only [parseAttributes]
      split
      · obtain ⟨r, hr⟩ := parseAttr_ok step hstep s a
        rw [hr]
        obtain ⟨s', oe⟩ := r
        cases oe with
        | none => exact ih _ _
        | some e => exact ih _ _
      · exact ih _ _

/-- `errors.finish_with(self)`: an impl-or-diagnostics result, never a panic -/
theorem finishWith_returns {σ : Type} (r : Except String (σ × List Err)) (h : ∃ x, r = .ok x) : (finishWith r).Returns := by
  obtain ⟨⟨s, errs⟩, rfl⟩ := h
  unfold finishWith
  match errs with
  | [] => exact Outcome.returns_ok _
  | [x] => intro m hm; simp [Err.bundleErr, Err.multiple] at hm
  | x :: y :: r => intro m hm; simp [Err.bundleErr, Err.multiple] at hm

/-- parsing the options of one field never panics: every malformed `#[darling ...]` attribute —
    bare, name-value, literal items, unparsable lists, unknown and conflicting options — is an error -/
theorem field_options_return (o : Oracle) (attrs : List Attr) :
    (finishWith (parseAttributes (fieldStep o) {} [] attrs)).Returns :=
  finishWith_returns _ (parseAttributes_ok _ (fieldStep_returns o) attrs _ _)

theorem variant_options_return (isUnit : Bool) (attrs : List Attr) :
    (finishWith (parseAttributes (variantStep isUnit) {} [] attrs)).Returns :=
  finishWith_returns _ (parseAttributes_ok _ (variantStep_returns isUnit) attrs _ _)

/-- **exclusive**: a derive-time result is an impl *or* a non-empty set of diagnostics -/
theorem bundle_is_diagnostics {σ : Type} (errs : List Err) (hne : errs ≠ []) :
    ∃ e, (Err.bundleErr errs : Outcome σ) = .err e := by
  match errs, hne with
  | [x], _ => exact ⟨x, rfl⟩
  | x :: y :: r, _ => exact ⟨_, rfl⟩

/-! ### the one external panic source, isolated -/

/-- the rename rule does not panic on this identifier (false only for `camelCase` on identifiers
    whose first character after Pascal-casing is missing or not ASCII — `ident_case`'s byte
    slicing; recorded as a known finding) -/
def RenameOk (rule : RenameRule) (ident : String) : Prop :=
  (rule.applyToField ident).Returns ∧ (rule.applyToVariant ident).Returns

theorem rename_ok_unless_camel (rule : RenameRule) (ident : String) (h : rule ≠ .camel) : RenameOk rule ident := by
  cases rule <;> first | exact absurd rfl h | (constructor <;> exact Outcome.returns_ok _)

/-- **Known finding F8**: without `RenameOk` the statement is false of the model — as of the code.
    `rename_all = "camelCase"` on a field named `__` panics (nothing is left after Pascal-casing),
    and so does a variant whose first character is not ASCII. -/
theorem F8_witness_underscores : ¬ RenameOk .camel "__" := by
  intro h
  exact h.1 "byte index 1 is out of bounds" rfl

theorem F8_witness_non_ascii : ¬ RenameOk .camel "Émile" := by
  intro h
  exact h.2 "byte index 1 is not a char boundary" rfl

theorem resolveField_returns (core : CoreOpts) (ident : String) (ty : Ty) (s : FieldOpts)
    (h : RenameOk core.renameRule ident) : (resolveField core ident ty s).Returns := by
  unfold resolveField
  cases s.attrName with
  | some n => exact Outcome.returns_ok _
  | none => exact h.1.bind _ (fun _ => Outcome.returns_ok _)

/-- a field declaration is read without panicking -/
theorem fieldFromDecl_returns (o : Oracle) (core : CoreOpts) (f : FieldD)
    (h : RenameOk core.renameRule (f.ident.getD "__unnamed")) : (fieldFromDecl o core f).Returns := by
  unfold fieldFromDecl
  have := field_options_return o f.attrs
  cases hf : finishWith (parseAttributes (fieldStep o) {} [] f.attrs) with
  | ok s => exact resolveField_returns core _ f.ty s h
  | err e => exact Outcome.returns_err _
  | panic m => exact absurd hf (this m)

/-! non-vacuity: the malformed attribute forms of the statement -/
def pD : Path := { global := false, segs := ["darling"], plain := true, toks := "darling", span := ⟨2, 9⟩ }
def bare : Attr := { path := pD, body := .path pD, toks := "#[darling]", span := ⟨0, 10⟩ }
example : ∃ e, finishWith (parseAttributes (fieldStep {}) ({} : FieldOpts) [] [bare]) = .err e := ⟨_, rfl⟩

/-- T3: the explicit panic sites of the current source are exactly the classified inventory -/
theorem inventory_current : Generated.panicSites = Spec.PanicInventory.sites.map (·.key) := by decide

end C06
