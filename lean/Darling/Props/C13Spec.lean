import Darling.FromMeta.Universe
import Darling.Props.C13
/-
  C13 — an independent, declarative reading of the property text, and `model ⊨ text` end to end.

  The text is rendered as a *table*: for every syntax-valued target
    * `grammar`   the grammar that re-parses the contents of a quoted value (none: no quoted spelling),
    * `keepsLit`  the literal kinds the target takes as they are written,
    * `takesBare` the bare (non-literal) expressions it takes as they are written,
  and one reading rule (`Scalar.read`): strip the invisible groups (they are not tokens the user
  wrote); a quoted value is the contents re-parsed by the grammar; an accepted literal / bare
  expression is itself, token for token; everything else is rejected with an error whose span is
  the written value (for the forms `name` and `name(..)`: the item).  Vectors, numeric arrays and
  path lists read their elements one by one (`readAll`: all values in order, or the first
  rejection).  Nothing here calls a step function of `Darling/FromMeta/SynTypes.lean`.

  `Meets r v` says that an outcome `r` of the model is what the text allows (`v`): the value, or
  an error *with that span*; a panic never meets anything.  `meets_unique`: the verdict is
  determined by the outcome.

  Main theorems (for every oracle `o` = syn's parsers, every item `m`, no bound on sizes):
    * `scalar_meets`            every one-node target but `Callable` (side condition only on the
                                mirror: a one-identifier path prints as that identifier);
    * `callable_meets`          Callable (invisible groups are looked through: D3, fixed)
    * `vecLit_meets`            vectors of each literal kind (bare array, quoted array, list form)
    * `numArray_meets`          numeric arrays (an element's groups are peeled to any depth: D4, fixed)
    * `pathList_meets`, `meta_meets`
    * `C13_meets`               all of the above as one statement over `Tgt`; `C13_verdict_iff`
                                (`Meets model v ↔ v = text`), `C13_rejections_spanned`; the only side
                                condition left (`Tgt.Side`) is the mirror's, for identifiers
    * `preserve_meets`, `parse_meets`   the two expression helpers, no side condition (D2, D6, fixed)
    * `agree_iff`, `agree`      quoted and bare spelling give equal values exactly when syn's grammar
                                maps the string to the tokens of the bare value (the external part)
    * `vec_agree`               the same for vectors and numeric arrays
    * `helpers_differ_only_on_strings`, `expr_target_is_parse_helper`
-/
open SynTypes

namespace C13

/-! ## vocabulary -/

/-- what the user wrote: invisible groups are not tokens -/
def written : Expr → Expr
  | .group g _ => written g
  | .lit l => .lit l
  | .path p s => .path p s
  | .qpath p t s => .qpath p t s
  | .array es t s => .array es t s
  | .other k t s => .other k t s

/-- what the text allows as the result of a conversion -/
inductive Verdict where
  | value (v : Val)
  | rejectedAt (sp : Span)

namespace Verdict
def isRejected : Verdict → Bool
  | .rejectedAt _ => true
  | .value _ => false
def value? : Verdict → Option Val
  | .value v => some v
  | .rejectedAt _ => none
end Verdict

/-- the model's outcome `r` is what the text allows -/
def Meets (r : Outcome Val) (v : Verdict) : Prop :=
  match r, v with
  | .ok a, .value b => a = b
  | .err e, .rejectedAt sp => e.span = some sp
  | _, _ => False

/-- the kind of a literal, as the text's "each literal kind" counts them -/
def kindOf (l : Lit) : Option LitKind :=
  match l.v with
  | .int _ _ => some .int
  | .float _ _ => some .float
  | .str _ => some .str
  | .byte => some .byte
  | .byteStr => some .byteStr
  | .char _ => some .char
  | .bool _ => some .bool
  | .verbatim => some .verbatim
  | .cstr => none

/-- the targets whose value is one syntax node -/
inductive Scalar where
  | expr | path | ident | identString
  | exprArray | exprPath | exprRange
  | parsed (kind : String)          -- types, visibility, where clause
  | wherePreds
  | punctuated (kind : String)
  | lit | litKind (k : LitKind)
  | callable
  deriving DecidableEq, Repr

namespace Scalar

def ty : Scalar → Ty
  | .expr => .synExpr
  | .path => .synPath
  | .ident => .synIdent
  | .identString => .identString
  | .exprArray => .synExprTy .array
  | .exprPath => .synExprTy .path
  | .exprRange => .synExprTy .range
  | .parsed k => .synParse k
  | .wherePreds => .wherePreds
  | .punctuated k => .punctuated k
  | .lit => .lit
  | .litKind k => .litKind k
  | .callable => .callable

/-- "the contents of the string re-parsed by the same grammar": the grammar of each target that
    has a quoted spelling (`o.parseSyn kind` is syn's parser for `kind`, printing the result) -/
def grammar (o : Oracle) : Scalar → Option (String → Option String)
  | .expr => some (o.parseSyn "Expr")
  | .path => some (o.parseSyn "Path")
  | .ident => some (o.parseSyn "Ident")
  | .identString => some (o.parseSyn "Ident")
  | .exprArray => some (o.parseSyn "ExprArray")
  | .exprPath => some (o.parseSyn "ExprPath")
  | .exprRange => some (o.parseSyn "ExprRange")
  | .parsed k => some (o.parseSyn k)
  | .wherePreds => some (fun s => o.parseSyn "WherePreds" ("where " ++ s))
  | .punctuated k => some (o.parseSyn k)
  | .lit => none
  | .litKind _ => none
  | .callable => none

/-- the literals a target takes as they are written (asked only when the literal is not the
    quoted spelling of the target) -/
def keepsLit : Scalar → Lit → Bool
  | .expr, _ => true
  | .lit, _ => true
  | .litKind k, l => decide (kindOf l = some k)
  | _, _ => false

/-- the bare (non-literal) expressions a target takes as they are written -/
def takesBare : Scalar → Expr → Bool
  | .expr, _ => true
  | .path, .path _ _ => true
  | .ident, .path p _ => p.getIdent.isSome
  | .identString, .path p _ => p.getIdent.isSome
  | .exprArray, .array _ _ _ => true
  | .exprPath, .path _ _ => true
  | .exprPath, .qpath _ _ _ => true
  | .exprRange, .other k _ _ => k == "range"
  | .callable, .path _ _ => true
  | .callable, .qpath _ _ _ => true
  | .callable, .other k _ _ => k == "closure"
  | _, _ => false

/-- a literal value: the quoted spelling (contents re-parsed), or a literal kept as written, or
    rejected at the literal -/
def readLit (o : Oracle) (T : Scalar) (l : Lit) : Verdict :=
  match T.grammar o with
  | some g =>
      (match l.v with
       | .str s =>
           (match g s with
            | some t => .value (.toks t)
            | none => .rejectedAt l.span)
       | _ => if T.keepsLit l then .value (.toks l.toks) else .rejectedAt l.span)
  | none => if T.keepsLit l then .value (.toks l.toks) else .rejectedAt l.span

/-- a written (group-free, non-literal) value: itself, or rejected at the value -/
def readBare (T : Scalar) (w : Expr) : Verdict :=
  if T.takesBare w then .value (.toks w.toks) else .rejectedAt w.span

/-- THE READING RULE of the text for a value `name = e` -/
def read (o : Oracle) (T : Scalar) (e : Expr) : Verdict :=
  match written e with
  | .lit l => T.readLit o l
  | w => T.readBare w

end Scalar

/-- "every other … meta form is rejected with a spanned error": the forms `name` and `name(..)`
    of a target that is written `name = value`; a list that is not even syntactically a list of
    items is rejected where the syntax error is -/
def metaVerdict (V : Expr → Verdict) : Meta → Verdict
  | .nameValue _ e _ _ => V e
  | .path p => .rejectedAt p.span
  | .list _ _ none _ _ sp => .rejectedAt sp
  | .list _ _ (some (_, bs)) _ _ _ => .rejectedAt bs

/-- end to end: `T::from_meta(m)` -/
def Scalar.expected (o : Oracle) (T : Scalar) (m : Meta) : Verdict := metaVerdict (T.read o) m

/-- element-wise reading: every element's value in order, or the first rejection -/
def readAll {β : Type} (f : β → Verdict) (xs : List β) : Verdict :=
  match xs.find? (fun x => (f x).isRejected) with
  | some x => f x
  | none => .value (.list (xs.filterMap (fun x => (f x).value?)))

/-- syn's `ExprArray` grammar on the contents of a string, as the list of element nodes -/
def arrayGrammar (o : Oracle) (s : String) : Option (List Expr) :=
  match o.parseArr s with
  | some (.array es _ _) => some es
  | _ => none

/-- the elements of an array value in either spelling: `[e₁, …]` or `"[e₁, …]"` -/
def arrayElems (o : Oracle) (e : Expr) : Option (List Expr) :=
  match written e with
  | .array es _ _ => some es
  | .lit l =>
      (match l.v with
       | .str s => arrayGrammar o s
       | _ => none)
  | _ => none

/-- a vector value: its elements read one by one; anything that is not an array is rejected -/
def vecRead (o : Oracle) (elem : Expr → Verdict) (e : Expr) : Verdict :=
  match arrayElems o e with
  | some es => readAll elem es
  | none => .rejectedAt (written e).span

/-- one item of the list form `name(i₁, i₂, …)` of a vector of literals -/
def litItem (o : Oracle) (k : LitKind) : NestedMeta → Verdict
  | .lit l => (Scalar.litKind k).readLit o l
  | .item m => (Scalar.litKind k).expected o m

/-- `Vec<LitKind>`: the array forms, or the list form -/
def vecLitExpected (o : Oracle) (k : LitKind) : Meta → Verdict
  | .nameValue _ e _ _ => vecRead o ((Scalar.litKind k).read o) e
  | .path p => .rejectedAt p.span
  | .list _ items none _ _ _ => readAll (litItem o k) items
  | .list _ _ (some (_, bs)) _ _ _ => .rejectedAt bs

/-- one element of a numeric array; `num l` is the number the literal `l` denotes for the element
    type (the subject of C11, taken as given) -/
def numVerdict (num : Lit → Option Val) (l : Lit) : Verdict :=
  match num l with
  | some v => .value v
  | none => .rejectedAt l.span

def numElemRead (num : Lit → Option Val) (e : Expr) : Verdict :=
  match written e with
  | .lit l => numVerdict num l
  | _ => .rejectedAt e.span

def numArrayExpected (o : Oracle) (num : Lit → Option Val) (m : Meta) : Verdict :=
  metaVerdict (vecRead o (numElemRead num)) m

/-- one member of a path list -/
def wordItem : NestedMeta → Verdict
  | .item (.path p) => .value (.toks p.toks)
  | n => .rejectedAt n.span

def pathListExpected : Meta → Verdict
  | .nameValue _ e _ _ => .rejectedAt (written e).span
  | .path p => .rejectedAt p.span
  | .list _ items none _ _ _ => readAll wordItem items
  | .list _ _ (some (_, bs)) _ _ _ => .rejectedAt bs

/-- a whole meta item comes back as written -/
def metaExpected (m : Meta) : Verdict := .value (.toks m.toks)

/-- the two expression helpers (`parses = true`: `parse_str_literal`): the value as written,
    except that the parsing helper re-parses the contents of a string literal -/
def helperExpected (o : Oracle) (parses : Bool) : Meta → Verdict
  | .nameValue _ e _ _ =>
      (match written e with
       | .lit l =>
           (match l.v with
            | .str s =>
                if parses then
                  (match o.parseSyn "Expr" s with
                   | some t => .value (.toks t)
                   | none => .rejectedAt l.span)
                else .value (.toks l.toks)
            | _ => .value (.toks l.toks))
       | w => .value (.toks w.toks))
  | .path p => .rejectedAt p.span
  | .list _ _ _ _ _ sp => .rejectedAt sp

/-! ## general facts -/

theorem meets_unique {r : Outcome Val} {v v' : Verdict} (h : Meets r v) (h' : Meets r v') : v = v' := by
  cases r with
  | ok a =>
      cases v with
      | value b => cases v' with
        | value b' => have h1 : a = b := h; have h2 : a = b' := h'; rw [← h1, ← h2]
        | rejectedAt _ => exact h'.elim
      | rejectedAt _ => exact h.elim
  | err e =>
      cases v with
      | value _ => exact h.elim
      | rejectedAt sp => cases v' with
        | value _ => exact h'.elim
        | rejectedAt sp' =>
            have h1 : e.span = some sp := h
            have h2 : e.span = some sp' := h'
            rw [h1] at h2; cases h2; rfl
  | panic _ => cases v <;> exact h.elim

/-- "rejected with a spanned error", and never a panic -/
theorem meets_err_spanned {r : Outcome Val} {v : Verdict} (h : Meets r v) (e : Err) (he : r = .err e) :
    e.span ≠ none := by
  subst he
  cases v with
  | value _ => exact h.elim
  | rejectedAt sp => have h1 : e.span = some sp := h; rw [h1]; intro h2; cases h2

theorem meets_not_panic {r : Outcome Val} {v : Verdict} (h : Meets r v) : r.isPanic = false := by
  cases r with
  | ok _ => rfl
  | err _ => rfl
  | panic _ => cases v <;> exact h.elim

theorem withSpan_of_spanned {e : Err} {sp : Span} (sp' : Span) (h : e.span = some sp) :
    e.withSpan sp' = e := by
  cases e with
  | leaf k ls s =>
      cases s with
      | none => cases (show (none : Option Span) = some sp from h)
      | some _ => rfl
  | multi cs ls s =>
      cases s with
      | none => cases (show (none : Option Span) = some sp from h)
      | some _ => rfl

/-- `with_span` applied further out changes nothing the text speaks about -/
theorem Meets.mapErr {r : Outcome Val} {v : Verdict} (sp : Span) (h : Meets r v) :
    Meets (r.mapErr (·.withSpan sp)) v := by
  cases r with
  | ok a => exact h
  | err e =>
      cases v with
      | value _ => exact h.elim
      | rejectedAt s =>
          have h1 : e.span = some s := h
          show (e.withSpan sp).span = some s
          rw [withSpan_of_spanned sp h1]; exact h1
  | panic _ => cases v <;> exact h.elim

theorem toks_written (e : Expr) : (written e).toks = e.toks := by
  induction e using written.induct with
  | case1 g sp ih => simp only [written, Expr.toks]; exact ih
  | case2 l => rfl
  | case3 p s => rfl
  | case4 p t s => rfl
  | case5 es t s => rfl
  | case6 k t s => rfl

theorem written_idem (e : Expr) : written (written e) = written e := by
  induction e using written.induct with
  | case1 g sp ih => simp only [written]; exact ih
  | case2 l => rfl
  | case3 p s => rfl
  | case4 p t s => rfl
  | case5 es t s => rfl
  | case6 k t s => rfl

theorem written_not_group (e : Expr) (g : Expr) (sp : Span) : written e ≠ .group g sp := by
  induction e using written.induct with
  | case1 g' sp' ih => simp only [written]; exact ih
  | case2 l => intro h; cases h
  | case3 p s => intro h; cases h
  | case4 p t s => intro h; cases h
  | case5 es t s => intro h; cases h
  | case6 k t s => intro h; cases h

/-! ## the routing of the trait's default bodies -/

/-- a target that is written `name = value` only: the default `from_meta` -/
theorem fromMetaD_meets (h : Hooks Val) (hw : h.fromWord? = none) (hl : h.fromList? = none)
    (V : Expr → Verdict) (m : Meta)
    (hV : ∀ p e t sp, m = .nameValue p e t sp → Meets (h.fromExpr e) (V e)) :
    Meets (h.fromMetaD m) (metaVerdict V m) := by
  cases m with
  | path p =>
      simp only [Hooks.fromMetaD, Hooks.fromWord, hw, metaVerdict]
      rfl
  | list p items bad ts t sp =>
      cases bad with
      | none =>
          simp only [Hooks.fromMetaD, Hooks.fromList, hl, metaVerdict]
          rfl
      | some b =>
          obtain ⟨msg, bs⟩ := b
          simp only [Hooks.fromMetaD, metaVerdict]
          rfl
  | nameValue p e t sp =>
      simp only [Hooks.fromMetaD, metaVerdict]
      exact (hV p e t sp rfl).mapErr _

/-- the general shape of a `from_expr`: transparent on groups, `L` on literals, `B` on the rest -/
theorem read_meets (o : Oracle) (T : Scalar) (F : Expr → Outcome Val) (P : Expr → Prop)
    (hg : ∀ g sp v, Meets (F g) v → Meets (F (.group g sp)) v)
    (hl : ∀ l, Meets (F (.lit l)) (T.readLit o l))
    (hb : ∀ w, P w → (∀ g sp, w ≠ .group g sp) → (∀ l, w ≠ .lit l) → Meets (F w) (T.readBare w))
    (e : Expr) (hP : P (written e)) : Meets (F e) (T.read o e) := by
  induction e using written.induct with
  | case1 g sp ih =>
      have : T.read o (.group g sp) = T.read o g := by simp only [Scalar.read, written]
      rw [this]; exact hg g sp _ (ih (by simpa only [written] using hP))
  | case2 l => exact hl l
  | case3 p s =>
      exact hb _ hP (fun _ _ h => by cases h) (fun _ h => by cases h)
  | case4 p t s =>
      exact hb _ hP (fun _ _ h => by cases h) (fun _ h => by cases h)
  | case5 es t s =>
      exact hb _ hP (fun _ _ h => by cases h) (fun _ h => by cases h)
  | case6 k t s =>
      exact hb _ hP (fun _ _ h => by cases h) (fun _ h => by cases h)

/-! ## one-node targets -/

/-- well-formedness of the syntax mirror (not of the library): a path that is one plain
    identifier prints as that identifier -/
def IdentPrints (w : Expr) : Prop :=
  ∀ p sp i, w = .path p sp → p.getIdent = some i → p.toks = i

/-- the string-parsed `from_value` shared by every quoted spelling -/
def quotedVerdict (g : String → Option String) (l : Lit) : Verdict :=
  match l.v with
  | .str s =>
      (match g s with
       | some t => .value (.toks t)
       | none => .rejectedAt l.span)
  | _ => .rejectedAt l.span

theorem parsed_meets (g : String → Option String) (l : Lit) :
    Meets (parsedFromValue g Val.toks l) (quotedVerdict g l) := by
  obtain ⟨v, t, sp⟩ := l
  cases v with
  | str s =>
      simp only [parsedFromValue, quotedVerdict]
      cases g s <;> rfl
  | _ => rfl

theorem readLit_quotedOnly (o : Oracle) (T : Scalar) (g : String → Option String)
    (hg : T.grammar o = some g) (hk : ∀ l, T.keepsLit l = false) (l : Lit) :
    T.readLit o l = quotedVerdict g l := by
  obtain ⟨v, t, sp⟩ := l
  cases v <;> simp [Scalar.readLit, hg, hk, quotedVerdict]

theorem default_read_meets (o : Oracle) (T : Scalar) (h : Hooks Val) (hx : h.fromExpr? = none)
    (hb : ∀ w, T.takesBare w = false)
    (hl : ∀ l, Meets (h.fromValue l) (T.readLit o l)) (e : Expr) :
    Meets (h.fromExpr e) (T.read o e) := by
  have hF : ∀ e, h.fromExpr e = h.fromExprD e := by
    intro e; simp only [Hooks.fromExpr, hx]
  rw [hF]
  refine read_meets o T (fun e => h.fromExprD e) (fun _ => True) ?_ ?_ ?_ e trivial
  · intro g sp v hv
    show Meets ((h.fromExprD g).mapErr _) v
    exact hv.mapErr sp
  · intro l
    show Meets ((h.fromValue l).mapErr _) _
    exact (hl l).mapErr _
  · intro w _ hng hnl
    have hr : T.readBare w = .rejectedAt w.span := by simp only [Scalar.readBare, hb w]; rfl
    rw [hr]
    cases w with
    | lit l => exact absurd rfl (hnl l)
    | group g sp => exact absurd rfl (hng g sp)
    | path _ _ => rfl
    | qpath _ _ _ => rfl
    | array _ _ _ => rfl
    | other _ _ _ => rfl

theorem isVariant_range (k t : String) (s : Span) :
    ExprVariant.isVariant .range (.other k t s) = (k == "range") := by
  by_cases hk : k = "range"
  · subst hk; rfl
  · unfold ExprVariant.isVariant
    split <;> simp_all

theorem matchesLit_eq (k : LitKind) (l : Lit) : k.matchesLit l = decide (kindOf l = some k) := by
  obtain ⟨v, t, sp⟩ := l
  cases k <;> cases v <;> rfl

theorem litKind_fromValue_meets (o : Oracle) (k : LitKind) (l : Lit) :
    Meets ((litKindHooks k Val.toks).fromValue l) ((Scalar.litKind k).readLit o l) := by
  have hm : k.matchesLit l = decide (kindOf l = some k) := matchesLit_eq k l
  show Meets (litKindFromValue k Val.toks l) _
  simp only [litKindFromValue, hm, Scalar.readLit, Scalar.grammar, Scalar.keepsLit]
  by_cases hd : decide (kindOf l = some k) = true
  · simp only [hd, ↓reduceIte]; rfl
  · simp only [hd]; rfl

/-- `from_expr` of every one-node target but Callable (and IdentString, which overrides `from_meta`) -/
theorem scalar_fromExpr_meets (o : Oracle) (rh : String → Hooks Val) (T : Scalar)
    (hT : T ≠ .callable) (hT' : T ≠ .identString) (e : Expr)
    (hwf : T = .ident → IdentPrints (written e)) :
    Meets ((hooksOf o rh T.ty).fromExpr e) (T.read o e) := by
  cases T with
  | callable => exact absurd rfl hT
  | identString => exact absurd rfl hT'
  | expr =>
      simp only [Scalar.ty, hooksOf]
      refine read_meets o .expr (exprFromExpr (o.parseSyn "Expr") Val.toks) (fun _ => True) ?_ ?_ ?_ e trivial
      · intro g sp v hv; simpa only [exprFromExpr] using hv
      · intro l
        obtain ⟨v, t, sp⟩ := l
        cases v with
        | str s =>
            simp only [exprFromExpr, parsedFromValue, Scalar.readLit, Scalar.grammar]
            cases o.parseSyn "Expr" s <;> rfl
        | _ => rfl
      · intro w _ hng hnl
        cases w with
        | lit l => exact absurd rfl (hnl l)
        | group g sp => exact absurd rfl (hng g sp)
        | path _ _ => rfl
        | qpath _ _ _ => rfl
        | array _ _ _ => rfl
        | other _ _ _ => rfl
  | path =>
      simp only [Scalar.ty, hooksOf]
      refine read_meets o .path (pathFromExpr (o.parseSyn "Path") Val.toks) (fun _ => True) ?_ ?_ ?_ e trivial
      · intro g sp v hv; simpa only [pathFromExpr] using hv
      · intro l
        rw [readLit_quotedOnly o .path _ rfl (fun _ => rfl)]
        exact parsed_meets _ l
      · intro w _ hng hnl
        cases w with
        | lit l => exact absurd rfl (hnl l)
        | group g sp => exact absurd rfl (hng g sp)
        | path _ _ => rfl
        | qpath _ _ _ => rfl
        | array _ _ _ => rfl
        | other _ _ _ => rfl
  | ident =>
      simp only [Scalar.ty, hooksOf]
      refine read_meets o .ident (identFromExpr (o.parseSyn "Ident") Val.toks) IdentPrints ?_ ?_ ?_ e
        (hwf rfl)
      · intro g sp v hv; simpa only [identFromExpr] using hv
      · intro l
        rw [readLit_quotedOnly o .ident _ rfl (fun _ => rfl)]
        exact parsed_meets _ l
      · intro w hp hng hnl
        cases w with
        | lit l => exact absurd rfl (hnl l)
        | group g sp => exact absurd rfl (hng g sp)
        | path p s =>
            cases hi : p.getIdent with
            | none =>
                simp only [identFromExpr, hi, Scalar.readBare, Scalar.takesBare]
                rfl
            | some i =>
                have := hp p s i rfl hi
                simp only [identFromExpr, hi, Scalar.readBare, Scalar.takesBare,
                  Expr.toks, this]
                rfl
        | qpath _ _ _ => rfl
        | array _ _ _ => rfl
        | other _ _ _ => rfl
  | exprArray =>
      simp only [Scalar.ty, hooksOf]
      refine read_meets o .exprArray (synExprFromExpr .array (o.parseSyn "ExprArray") Val.toks) (fun _ => True)
        ?_ ?_ ?_ e trivial
      · intro g sp v hv; simpa only [synExprFromExpr] using hv
      · intro l
        rw [readLit_quotedOnly o .exprArray _ rfl (fun _ => rfl)]
        exact parsed_meets _ l
      · intro w _ hng hnl
        cases w with
        | lit l => exact absurd rfl (hnl l)
        | group g sp => exact absurd rfl (hng g sp)
        | path _ _ => rfl
        | qpath _ _ _ => rfl
        | array _ _ _ => rfl
        | other _ _ _ => rfl
  | exprPath =>
      simp only [Scalar.ty, hooksOf]
      refine read_meets o .exprPath (synExprFromExpr .path (o.parseSyn "ExprPath") Val.toks) (fun _ => True)
        ?_ ?_ ?_ e trivial
      · intro g sp v hv; simpa only [synExprFromExpr] using hv
      · intro l
        rw [readLit_quotedOnly o .exprPath _ rfl (fun _ => rfl)]
        exact parsed_meets _ l
      · intro w _ hng hnl
        cases w with
        | lit l => exact absurd rfl (hnl l)
        | group g sp => exact absurd rfl (hng g sp)
        | path _ _ => rfl
        | qpath _ _ _ => rfl
        | array _ _ _ => rfl
        | other _ _ _ => rfl
  | exprRange =>
      simp only [Scalar.ty, hooksOf]
      refine read_meets o .exprRange (synExprFromExpr .range (o.parseSyn "ExprRange") Val.toks) (fun _ => True)
        ?_ ?_ ?_ e trivial
      · intro g sp v hv; simpa only [synExprFromExpr] using hv
      · intro l
        rw [readLit_quotedOnly o .exprRange _ rfl (fun _ => rfl)]
        exact parsed_meets _ l
      · intro w _ hng hnl
        cases w with
        | lit l => exact absurd rfl (hnl l)
        | group g sp => exact absurd rfl (hng g sp)
        | path _ _ => rfl
        | qpath _ _ _ => rfl
        | array _ _ _ => rfl
        | other k t s =>
            have hm : ExprVariant.isVariant .range (.other k t s) = (k == "range") := isVariant_range k t s
            have hs : Scalar.exprRange.takesBare (.other k t s) = (k == "range") := rfl
            cases hb : (k == "range") <;> rw [hb] at hm hs <;>
              simp only [synExprFromExpr, hm, Scalar.readBare, hs, ↓reduceIte, Bool.false_eq_true] <;> rfl
  | parsed k =>
      simp only [Scalar.ty, hooksOf]
      refine default_read_meets o (.parsed k) _ rfl (fun w => by cases w <;> rfl) ?_ e
      intro l
      rw [readLit_quotedOnly o (.parsed k) _ rfl (fun _ => rfl)]
      exact parsed_meets _ l
  | punctuated k =>
      simp only [Scalar.ty, hooksOf]
      refine default_read_meets o (.punctuated k) _ rfl (fun w => by cases w <;> rfl) ?_ e
      intro l
      rw [readLit_quotedOnly o (.punctuated k) _ rfl (fun _ => rfl)]
      exact parsed_meets _ l
  | wherePreds =>
      simp only [Scalar.ty, hooksOf]
      refine default_read_meets o .wherePreds _ rfl (fun w => by cases w <;> rfl) ?_ e
      intro l
      rw [readLit_quotedOnly o .wherePreds _ rfl (fun _ => rfl)]
      obtain ⟨v, t, sp⟩ := l
      cases v with
      | str s =>
          simp only [Hooks.fromValue, wherePredsHooks, quotedVerdict]
          cases o.parseSyn "WherePreds" ("where " ++ s) <;> rfl
      | _ => rfl
  | lit =>
      simp only [Scalar.ty, hooksOf]
      refine default_read_meets o .lit _ rfl (fun w => by cases w <;> rfl) ?_ e
      intro l; rfl
  | litKind k =>
      simp only [Scalar.ty, hooksOf]
      exact default_read_meets o (.litKind k) _ rfl (fun w => by cases w <;> rfl) (litKind_fromValue_meets o k) e

/-- the mirror's side condition, on an item -/
def ItemIdentPrints : Meta → Prop
  | .nameValue _ e _ _ => IdentPrints (written e)
  | _ => True

theorem read_identString (o : Oracle) (e : Expr) : Scalar.identString.read o e = Scalar.ident.read o e := by
  simp only [Scalar.read]
  cases written e <;> rfl

/-- MAIN THEOREM 1 — every one-node target but Callable, end to end (`T::from_meta`) -/
theorem scalar_meets (o : Oracle) (rh : String → Hooks Val) (T : Scalar) (hT : T ≠ .callable) (m : Meta)
    (hwf : (T = .ident ∨ T = .identString) → ItemIdentPrints m) :
    Meets ((hooksOf o rh T.ty).fromMeta m) (T.expected o m) := by
  have main : ∀ T : Scalar, T ≠ .callable → T ≠ .identString → (T = .ident → ItemIdentPrints m) →
      Meets ((hooksOf o rh T.ty).fromMeta m) (T.expected o m) := by
    intro T hT hT' hwf
    have h1 : (hooksOf o rh T.ty).fromMeta? = none := by
      cases T <;> first | rfl | exact absurd rfl hT | exact absurd rfl hT'
    have h2 : (hooksOf o rh T.ty).fromWord? = none := by
      cases T <;> first | rfl | exact absurd rfl hT | exact absurd rfl hT'
    have h3 : (hooksOf o rh T.ty).fromList? = none := by
      cases T <;> first | rfl | exact absurd rfl hT | exact absurd rfl hT'
    simp only [Hooks.fromMeta, h1, Scalar.expected]
    refine fromMetaD_meets _ h2 h3 _ m ?_
    intro p e t sp hm
    refine scalar_fromExpr_meets o rh T hT hT' e ?_
    intro hi
    have := hwf hi
    rw [hm] at this
    exact this
  by_cases hs : T = .identString
  · subst hs
    have h := main .ident (by intro h; cases h) (by intro h; cases h) (fun _ => hwf (Or.inr rfl))
    have he : Scalar.identString.expected o m = Scalar.ident.expected o m := by
      cases m <;> simp only [Scalar.expected, metaVerdict, read_identString]
    rw [he]
    simp only [Scalar.ty, hooksOf] at h ⊢
    exact h
  · exact main T hT hs (fun hi => hwf (Or.inl hi))

/-! ## Callable -/

theorem callable_other (k t : String) (s : Span) :
    callableFromExpr Val.toks (.other k t s) =
      if k == "closure" then .ok (.toks t) else .err (Err.unexpectedExprType (.other k t s)) := by
  by_cases hk : k = "closure"
  · subst hk; rfl
  · have : (k == "closure") = false := by simpa using hk
    simp only [this]
    unfold callableFromExpr
    split <;> simp_all

/-- `from_expr` of Callable: a path or a closure under any number of invisible groups -/
theorem callable_fromExpr_meets (o : Oracle) (e : Expr) :
    Meets (callableFromExpr Val.toks e) (Scalar.callable.read o e) := by
  refine read_meets o .callable (callableFromExpr Val.toks) (fun _ => True) ?_ ?_ ?_ e trivial
  · intro g sp v hv; simpa only [callableFromExpr] using hv
  · intro l; rfl
  · intro w _ hng hnl
    cases w with
    | lit l => exact absurd rfl (hnl l)
    | group g sp => exact absurd rfl (hng g sp)
    | path _ _ => rfl
    | qpath _ _ _ => rfl
    | array _ _ _ => rfl
    | other k t s =>
        rw [callable_other]
        have hs : Scalar.callable.readBare (.other k t s) =
            if k == "closure" then .value (.toks t) else .rejectedAt s := rfl
        rw [hs]
        cases k == "closure" <;> rfl

/-- MAIN THEOREM 2 — Callable, end to end, for every item (no side condition) -/
theorem callable_meets (o : Oracle) (rh : String → Hooks Val) (m : Meta) :
    Meets ((hooksOf o rh Scalar.callable.ty).fromMeta m) (Scalar.callable.expected o m) := by
  simp only [Scalar.ty, hooksOf, Scalar.expected]
  show Meets ((callableHooks Val.toks).fromMetaD m) _
  refine fromMetaD_meets _ rfl rfl _ m ?_
  intro p e t sp _
  exact callable_fromExpr_meets o e

/-! ## element-wise reading -/

theorem collect_none {β : Type} (F : β → Outcome Val) (f : β → Verdict) :
    ∀ xs : List β, (∀ x ∈ xs, Meets (F x) (f x)) →
      xs.find? (fun x => (f x).isRejected) = none →
      collectFirstErr F xs = .ok (xs.filterMap (fun x => (f x).value?))
  | [], _, _ => rfl
  | x :: xs, h, hn => by
      have hx := h x (List.mem_cons_self ..)
      have hrest : ∀ y ∈ xs, Meets (F y) (f y) := fun y hy => h y (List.mem_cons_of_mem _ hy)
      cases hf : f x with
      | rejectedAt sp =>
          simp only [List.find?_cons, hf, Verdict.isRejected] at hn
          cases hn
      | value v =>
          rw [hf] at hx
          have hn' : xs.find? (fun x => (f x).isRejected) = none := by
            simpa only [List.find?_cons, hf, Verdict.isRejected] using hn
          cases hF : F x with
          | ok a =>
              rw [hF] at hx
              have hav : a = v := hx
              subst hav
              simp only [collectFirstErr, hF, collect_none F f xs hrest hn', Outcome.map,
                List.filterMap_cons, hf, Verdict.value?]
          | err e => rw [hF] at hx; exact hx.elim
          | panic _ => rw [hF] at hx; exact hx.elim

theorem collect_some {β : Type} (F : β → Outcome Val) (f : β → Verdict) :
    ∀ xs : List β, (∀ x ∈ xs, Meets (F x) (f x)) → ∀ x₀,
      xs.find? (fun x => (f x).isRejected) = some x₀ →
      ∃ e sp, collectFirstErr F xs = .err e ∧ f x₀ = .rejectedAt sp ∧ e.span = some sp
  | [], _, _, hn => by cases hn
  | x :: xs, h, x₀, hn => by
      have hx := h x (List.mem_cons_self ..)
      have hrest : ∀ y ∈ xs, Meets (F y) (f y) := fun y hy => h y (List.mem_cons_of_mem _ hy)
      cases hf : f x with
      | rejectedAt sp =>
          simp only [List.find?_cons, hf, Verdict.isRejected] at hn
          cases hn
          rw [hf] at hx
          cases hF : F x with
          | ok a => rw [hF] at hx; exact hx.elim
          | err e =>
              rw [hF] at hx
              exact ⟨e, sp, by simp only [collectFirstErr, hF], hf, hx⟩
          | panic _ => rw [hF] at hx; exact hx.elim
      | value v =>
          rw [hf] at hx
          have hn' : xs.find? (fun x => (f x).isRejected) = some x₀ := by
            simpa only [List.find?_cons, hf, Verdict.isRejected] using hn
          obtain ⟨e, sp, he, hfx, hsp⟩ := collect_some F f xs hrest x₀ hn'
          cases hF : F x with
          | ok a =>
              exact ⟨e, sp, by simp only [collectFirstErr, hF, he, Outcome.map], hfx, hsp⟩
          | err e' => rw [hF] at hx; exact hx.elim
          | panic _ => rw [hF] at hx; exact hx.elim

/-- `.iter().map(F).collect::<Result<Vec<_>>>()` reads the elements one by one -/
theorem collect_meets {β : Type} (F : β → Outcome Val) (f : β → Verdict) (xs : List β)
    (h : ∀ x ∈ xs, Meets (F x) (f x)) :
    Meets ((collectFirstErr F xs).map Val.list) (readAll f xs) := by
  unfold readAll
  cases hfind : xs.find? (fun x => (f x).isRejected) with
  | none =>
      rw [collect_none F f xs h hfind]
      rfl
  | some x₀ =>
      obtain ⟨e, sp, he, hfx, hsp⟩ := collect_some F f xs h x₀ hfind
      rw [he]
      show Meets (Outcome.map Val.list (Outcome.err e)) (f x₀)
      rw [hfx]
      exact hsp

theorem arrayGrammar_some {o : Oracle} {s : String} {es : List Expr} (h : arrayGrammar o s = some es) :
    ∃ t sp, o.parseArr s = some (.array es t sp) := by
  unfold arrayGrammar at h
  split at h
  · cases h; exact ⟨_, _, by assumption⟩
  · cases h

/-- the general shape of a vector's `from_expr` -/
theorem vecRead_meets (o : Oracle) (E : Expr → Outcome Val) (elem : Expr → Verdict) (F : Expr → Outcome Val)
    (hg : ∀ g sp, F (.group g sp) = F g)
    (ha : ∀ es t s, F (.array es t s) = (collectFirstErr E es).map Val.list)
    (hq : ∀ s t sp es t' sp', o.parseArr s = some (.array es t' sp') →
        F (.lit ⟨.str s, t, sp⟩) = (collectFirstErr E es).map Val.list)
    (hq0 : ∀ s t sp, arrayGrammar o s = none → Meets (F (.lit ⟨.str s, t, sp⟩)) (.rejectedAt sp))
    (hl : ∀ l, (∀ s, l.v ≠ .str s) → Meets (F (.lit l)) (.rejectedAt l.span))
    (hw : ∀ w, (∀ g sp, w ≠ .group g sp) → (∀ l, w ≠ .lit l) → (∀ es t s, w ≠ .array es t s) →
        Meets (F w) (.rejectedAt w.span))
    (e : Expr) (hE : ∀ es, arrayElems o e = some es → ∀ x ∈ es, Meets (E x) (elem x)) :
    Meets (F e) (vecRead o elem e) := by
  induction e using written.induct with
  | case1 g sp ih =>
      have h1 : vecRead o elem (.group g sp) = vecRead o elem g := by
        simp only [vecRead, arrayElems, written]
      rw [h1, hg]
      exact ih (by simpa only [arrayElems, written] using hE)
  | case2 l =>
      obtain ⟨v, t, sp⟩ := l
      by_cases hs : ∃ s, v = .str s
      · obtain ⟨s, rfl⟩ := hs
        cases hag : arrayGrammar o s with
        | none =>
            have : vecRead o elem (.lit ⟨.str s, t, sp⟩) = .rejectedAt sp := by
              simp only [vecRead, arrayElems, written, hag]; rfl
            rw [this]; exact hq0 s t sp hag
        | some es =>
            obtain ⟨t', sp', hp⟩ := arrayGrammar_some hag
            have : vecRead o elem (.lit ⟨.str s, t, sp⟩) = readAll elem es := by
              simp only [vecRead, arrayElems, written, hag]
            rw [this, hq s t sp es t' sp' hp]
            exact collect_meets E elem es (hE es (by simp only [arrayElems, written, hag]))
      · have hns : ∀ s, v ≠ .str s := fun s h => hs ⟨s, h⟩
        have : vecRead o elem (.lit ⟨v, t, sp⟩) = .rejectedAt sp := by
          cases v <;> first | rfl | exact absurd rfl (hns _)
        rw [this]
        exact hl ⟨v, t, sp⟩ hns
  | case3 p s => exact hw _ (fun _ _ h => by cases h) (fun _ h => by cases h) (fun _ _ _ h => by cases h)
  | case4 p t s => exact hw _ (fun _ _ h => by cases h) (fun _ h => by cases h) (fun _ _ _ h => by cases h)
  | case5 es t s =>
      have : vecRead o elem (.array es t s) = readAll elem es := rfl
      rw [this, ha]
      exact collect_meets E elem es (hE es rfl)
  | case6 k t s => exact hw _ (fun _ _ h => by cases h) (fun _ h => by cases h) (fun _ _ _ h => by cases h)

/-! ## vectors of literals -/

theorem vecLit_fromExpr_meets (o : Oracle) (rh : String → Hooks Val) (k : LitKind) (e : Expr) :
    Meets (vecLitFromExpr k o.parseArr Val.toks Val.list e) (vecRead o ((Scalar.litKind k).read o) e) := by
  refine vecRead_meets o (fun e => (litKindHooks k Val.toks).fromExpr e) _ _ ?_ ?_ ?_ ?_ ?_ ?_ e ?_
  · intro g sp; simp only [vecLitFromExpr]
  · intro es t s; rfl
  · intro s t sp es t' sp' hp; simp only [vecLitFromExpr, hp]
  · intro s t sp h
    cases hp : o.parseArr s with
    | none => simp only [vecLitFromExpr, hp]; rfl
    | some ex =>
        cases ex with
        | array es t' s' => simp only [arrayGrammar, hp] at h; cases h
        | lit _ => simp only [vecLitFromExpr, hp]; rfl
        | path _ _ => simp only [vecLitFromExpr, hp]; rfl
        | qpath _ _ _ => simp only [vecLitFromExpr, hp]; rfl
        | group _ _ => simp only [vecLitFromExpr, hp]; rfl
        | other _ _ _ => simp only [vecLitFromExpr, hp]; rfl
  · intro l hl
    obtain ⟨v, t, sp⟩ := l
    cases v <;> first | rfl | exact absurd rfl (hl _)
  · intro w hng hnl hna
    cases w with
    | lit l => exact absurd rfl (hnl l)
    | group g sp => exact absurd rfl (hng g sp)
    | array es t s => exact absurd rfl (hna es t s)
    | path _ _ => rfl
    | qpath _ _ _ => rfl
    | other _ _ _ => rfl
  · intro es _ x _
    have := scalar_fromExpr_meets o rh (.litKind k) (by intro h; cases h) (by intro h; cases h) x
      (by intro h; cases h)
    simp only [Scalar.ty, hooksOf] at this
    exact this

/-- MAIN THEOREM 3 — `Vec<LitInt>`, `Vec<LitStr>`, …: bare array, quoted array, list form -/
theorem vecLit_meets (o : Oracle) (rh : String → Hooks Val) (k : LitKind) (m : Meta) :
    Meets ((hooksOf o rh (.vecLit k)).fromMeta m) (vecLitExpected o k m) := by
  simp only [hooksOf]
  show Meets ((vecLitHooks k o.parseArr Val.toks Val.list).fromMetaD m) _
  cases m with
  | path p => rfl
  | nameValue p e t sp =>
      simp only [Hooks.fromMetaD, vecLitExpected]
      exact (vecLit_fromExpr_meets o rh k e).mapErr _
  | list p items bad ts t sp =>
      cases bad with
      | some b => obtain ⟨msg, bs⟩ := b; rfl
      | none =>
          simp only [Hooks.fromMetaD, vecLitExpected]
          refine Meets.mapErr _ ?_
          show Meets ((collectFirstErr (fun n => (litKindHooks k Val.toks).fromNestedMeta n) items).map Val.list) _
          refine collect_meets _ _ items ?_
          intro n _
          cases n with
          | lit l =>
              show Meets (((litKindHooks k Val.toks).fromValue l).mapErr _) _
              exact (litKind_fromValue_meets o k l).mapErr _
          | item mi =>
              show Meets (((litKindHooks k Val.toks).fromMeta mi).mapErr _) _
              have := scalar_meets o rh (.litKind k) (by intro h; cases h) mi
                (by intro h; cases h with | inl h => cases h | inr h => cases h)
              simp only [Scalar.ty, hooksOf] at this
              exact this.mapErr _

/-! ## numeric arrays -/

/-- the literal under the invisible groups of an element is the literal the user wrote -/
theorem numElemLit_written (e : Expr) :
    numElemLit e = match written e with
      | .lit l => some l
      | _ => none := by
  induction e using written.induct with
  | case1 g sp ih => simpa only [numElemLit, written] using ih
  | case2 l => rfl
  | case3 p s => rfl
  | case4 p t s => rfl
  | case5 es t s => rfl
  | case6 k t s => rfl

theorem numElem_meets (sp : IntSpec) (num : Lit → Option Val)
    (hnum : ∀ l, Meets (Scalars.numFromValue sp Val.int l) (numVerdict num l))
    (e : Expr) : Meets (numElem sp Val.int e) (numElemRead num e) := by
  simp only [numElem, numElemRead, numElemLit_written]
  cases written e with
  | lit l => exact hnum l
  | group _ _ => rfl
  | path _ _ => rfl
  | qpath _ _ _ => rfl
  | array _ _ _ => rfl
  | other _ _ _ => rfl

/-- MAIN THEOREM 4 — numeric arrays, for every item (no side condition).  `num` is any account of
    how one literal denotes a number that the element conversion (C11) meets; `numOf` below is one. -/
theorem numArray_meets (o : Oracle) (rh : String → Hooks Val) (sp : IntSpec) (num : Lit → Option Val)
    (hnum : ∀ l, Meets (Scalars.numFromValue sp Val.int l) (numVerdict num l))
    (m : Meta) :
    Meets ((hooksOf o rh (.numArray sp)).fromMeta m) (numArrayExpected o num m) := by
  simp only [hooksOf, numArrayExpected]
  show Meets ((numArrayHooks sp o.parseArr Val.int Val.list).fromMetaD m) _
  refine fromMetaD_meets _ rfl rfl _ m ?_
  intro p e t s _
  show Meets (numArrayFromExpr sp o.parseArr Val.int Val.list e) _
  refine vecRead_meets o (numElem sp Val.int) _ _ ?_ ?_ ?_ ?_ ?_ ?_ e ?_
  · intro g sp; simp only [numArrayFromExpr]
  · intro es t s; rfl
  · intro s t sp es t' sp' hp; simp only [numArrayFromExpr, hp]
  · intro s t sp h
    cases hp : o.parseArr s with
    | none => simp only [numArrayFromExpr, hp]; rfl
    | some ex =>
        cases ex with
        | array es t' s' => simp only [arrayGrammar, hp] at h; cases h
        | lit _ => simp only [numArrayFromExpr, hp]; rfl
        | path _ _ => simp only [numArrayFromExpr, hp]; rfl
        | qpath _ _ _ => simp only [numArrayFromExpr, hp]; rfl
        | group _ _ => simp only [numArrayFromExpr, hp]; rfl
        | other _ _ _ => simp only [numArrayFromExpr, hp]; rfl
  · intro l hl
    obtain ⟨v, t, sp⟩ := l
    cases v <;> first | rfl | exact absurd rfl (hl _)
  · intro w hng hnl hna
    cases w with
    | lit l => exact absurd rfl (hnl l)
    | group g sp => exact absurd rfl (hng g sp)
    | array es t s => exact absurd rfl (hna es t s)
    | path _ _ => rfl
    | qpath _ _ _ => rfl
    | other _ _ _ => rfl
  · intro es _ x _
    exact numElem_meets sp num hnum x

/-- one account of the element conversion: whatever `from_value` of the integer type returns -/
def numOf (sp : IntSpec) (l : Lit) : Option Val :=
  match Scalars.numFromValue sp Val.int l with
  | .ok v => some v
  | _ => none

theorem numOf_sound (sp : IntSpec) (l : Lit) :
    Meets (Scalars.numFromValue sp Val.int l) (numVerdict (numOf sp) l) := by
  obtain ⟨v, t, s⟩ := l
  cases v with
  | str x =>
      simp only [numVerdict, numOf, Scalars.numFromValue, Scalars.numFromString]
      cases Scalars.parseIntStd sp x <;> rfl
  | int d sfx =>
      simp only [numVerdict, numOf, Scalars.numFromValue]
      cases Scalars.parseIntStd sp d <;> rfl
  | _ => rfl

/-! ## path lists, whole meta items -/

theorem pathList_collect (items : List NestedMeta) :
    pathListFromList (fun p => Val.toks p.toks) items =
      collectFirstErr (fun n => match n with
        | .item (.path p) => .ok (Val.toks p.toks)
        | n => .err ((Err.new (.unexpectedType "non-word")).withSpan n.span)) items := by
  induction items with
  | nil => rfl
  | cons n rest ih =>
      cases n with
      | lit l => rfl
      | item mi =>
          cases mi with
          | path p => simp only [pathListFromList, collectFirstErr, ih]
          | list _ _ _ _ _ _ => rfl
          | nameValue _ _ _ _ => rfl

/-- MAIN THEOREM 5 — `PathList` -/
theorem pathList_meets (o : Oracle) (rh : String → Hooks Val) (m : Meta) :
    Meets ((hooksOf o rh .pathList).fromMeta m) (pathListExpected m) := by
  simp only [hooksOf]
  show Meets ((pathListHooks Val.toks Val.list).fromMetaD m) _
  cases m with
  | path p => rfl
  | list p items bad ts t sp =>
      cases bad with
      | some b => obtain ⟨msg, bs⟩ := b; rfl
      | none =>
          simp only [Hooks.fromMetaD, pathListExpected]
          refine Meets.mapErr _ ?_
          show Meets ((pathListFromList (fun p => Val.toks p.toks) items).map Val.list) _
          rw [pathList_collect]
          refine collect_meets _ _ items ?_
          intro n _
          cases n with
          | lit l => rfl
          | item mi => cases mi <;> rfl
  | nameValue p e t sp =>
      simp only [Hooks.fromMetaD, pathListExpected]
      refine Meets.mapErr _ ?_
      show Meets ((pathListHooks Val.toks Val.list).fromExprD e) _
      induction e using written.induct with
      | case1 g s ih =>
          simp only [written]
          show Meets (((pathListHooks Val.toks Val.list).fromExprD g).mapErr _) _
          exact ih.mapErr _
      | case2 l =>
          obtain ⟨v, t', s⟩ := l
          cases v <;> rfl
      | case3 _ _ => rfl
      | case4 _ _ _ => rfl
      | case5 _ _ _ => rfl
      | case6 _ _ _ => rfl

/-- MAIN THEOREM 6 — `syn::Meta`: the whole item, whatever its form -/
theorem meta_meets (o : Oracle) (rh : String → Hooks Val) (m : Meta) :
    Meets ((hooksOf o rh .synMeta).fromMeta m) (metaExpected m) := rfl

/-! ## all targets of the property as one statement -/

inductive Tgt where
  | scalar (T : Scalar)
  | vecLit (k : LitKind)
  | numArray (sp : IntSpec)
  | wholeMeta
  | pathList
  deriving DecidableEq, Repr

namespace Tgt
def ty : Tgt → Ty
  | .scalar T => T.ty
  | .vecLit k => .vecLit k
  | .numArray sp => .numArray sp
  | .wholeMeta => .synMeta
  | .pathList => .pathList

/-- what the text demands of `T::from_meta(m)` -/
def expected (o : Oracle) : Tgt → Meta → Verdict
  | .scalar T, m => T.expected o m
  | .vecLit k, m => vecLitExpected o k m
  | .numArray sp, m => numArrayExpected o (numOf sp) m
  | .wholeMeta, m => metaExpected m
  | .pathList, m => pathListExpected m

/-- the one side condition: well-formedness of the mirror (a path that is one identifier prints as
    that identifier); nothing here restricts the library -/
def Side (T : Tgt) (m : Meta) : Prop :=
  (T = .scalar .ident ∨ T = .scalar .identString) → ItemIdentPrints m
end Tgt

/-- MAIN THEOREM — every target of C13, every item, every oracle: the model's outcome is the one
    the text demands (`Tgt.Side` is about the mirror only) -/
theorem C13_meets (o : Oracle) (rh : String → Hooks Val) (T : Tgt) (m : Meta) (hs : T.Side m) :
    Meets ((hooksOf o rh T.ty).fromMeta m) (T.expected o m) := by
  cases T with
  | scalar S =>
      by_cases hc : S = .callable
      · subst hc; exact callable_meets o rh m
      · refine scalar_meets o rh S hc m ?_
        intro hi
        exact hs (by cases hi with
          | inl h => exact Or.inl (by rw [h])
          | inr h => exact Or.inr (by rw [h]))
  | vecLit k => exact vecLit_meets o rh k m
  | numArray sp => exact numArray_meets o rh sp (numOf sp) (numOf_sound sp) m
  | wholeMeta => exact meta_meets o rh m
  | pathList => exact pathList_meets o rh m

/-- … and the text pins the outcome down: value, or span of the error -/
theorem C13_verdict_iff (o : Oracle) (rh : String → Hooks Val) (T : Tgt) (m : Meta) (hs : T.Side m)
    (v : Verdict) : Meets ((hooksOf o rh T.ty).fromMeta m) v ↔ v = T.expected o m :=
  ⟨fun h => meets_unique h (C13_meets o rh T m hs), fun h => h ▸ C13_meets o rh T m hs⟩

/-- "rejected with a spanned error" (and no panic), as a corollary -/
theorem C13_rejections_spanned (o : Oracle) (rh : String → Hooks Val) (T : Tgt) (m : Meta)
    (hs : T.Side m) :
    ((hooksOf o rh T.ty).fromMeta m).isPanic = false ∧
      ∀ e, (hooksOf o rh T.ty).fromMeta m = .err e → e.span ≠ none :=
  ⟨meets_not_panic (C13_meets o rh T m hs),
   fun e he => meets_err_spanned (C13_meets o rh T m hs) e he⟩

/-! ## quoted and bare spellings agree -/

theorem meets_value {r : Outcome Val} {v : Val} (h : Meets r (.value v)) : r = .ok v := by
  cases r with
  | ok a => have : a = v := h; rw [this]
  | err _ => exact h.elim
  | panic _ => exact h.elim

/-- an accepted value that is not a string literal is itself, token for token -/
theorem read_value_bare (o : Oracle) (T : Scalar) (e : Expr)
    (hb : ∀ s t sp, written e ≠ .lit ⟨.str s, t, sp⟩) (v : Val) (hv : T.read o e = .value v) :
    v = .toks (written e).toks := by
  unfold Scalar.read at hv
  cases hw : written e with
  | lit l =>
      rw [hw] at hv hb
      obtain ⟨lv, t, sp⟩ := l
      have hk : (if T.keepsLit ⟨lv, t, sp⟩ then Verdict.value (.toks t) else .rejectedAt sp) = .value v → v = .toks t := by
        intro h
        by_cases hc : T.keepsLit ⟨lv, t, sp⟩ = true
        · rw [if_pos hc] at h; cases h; rfl
        · rw [if_neg hc] at h; cases h
      cases hg : T.grammar o with
      | none =>
          simp only [Scalar.readLit, hg] at hv
          exact hk hv
      | some g =>
          cases lv with
          | str s => exact absurd rfl (hb s t sp)
          | _ =>
              simp only [Scalar.readLit, hg] at hv
              exact hk hv
  | group g sp => exact absurd hw (written_not_group e g sp)
  | path p s =>
      rw [hw] at hv
      simp only [Scalar.readBare] at hv
      by_cases hc : T.takesBare (.path p s) = true
      · rw [if_pos hc] at hv; cases hv; rfl
      · rw [if_neg hc] at hv; cases hv
  | qpath p t s =>
      rw [hw] at hv
      simp only [Scalar.readBare] at hv
      by_cases hc : T.takesBare (.qpath p t s) = true
      · rw [if_pos hc] at hv; cases hv; rfl
      · rw [if_neg hc] at hv; cases hv
  | array es t s =>
      rw [hw] at hv
      simp only [Scalar.readBare] at hv
      by_cases hc : T.takesBare (.array es t s) = true
      · rw [if_pos hc] at hv; cases hv; rfl
      · rw [if_neg hc] at hv; cases hv
  | other k t s =>
      rw [hw] at hv
      simp only [Scalar.readBare] at hv
      by_cases hc : T.takesBare (.other k t s) = true
      · rw [if_pos hc] at hv; cases hv; rfl
      · rw [if_neg hc] at hv; cases hv

/-- a quoted value is the contents re-parsed by the target's grammar -/
theorem read_quoted (o : Oracle) (T : Scalar) (g : String → Option String) (hg : T.grammar o = some g)
    (e : Expr) (s t : String) (sp : Span) (hq : written e = .lit ⟨.str s, t, sp⟩) :
    T.read o e = match g s with
      | some out => .value (.toks out)
      | none => .rejectedAt sp := by
  simp only [Scalar.read, hq, Scalar.readLit, hg]

/-- "Where both a bare and a quoted spelling are accepted they produce equal values" — exactly
    when syn's grammar maps the string's contents to the tokens of the bare value.  That
    condition is about syn alone (its parser and printer), not about darling. -/
theorem agree_iff (o : Oracle) (T : Scalar) (g : String → Option String) (hg : T.grammar o = some g)
    (eb eq : Expr) (s t : String) (sp : Span)
    (hq : written eq = .lit ⟨.str s, t, sp⟩)
    (hb : ∀ s' t' sp', written eb ≠ .lit ⟨.str s', t', sp'⟩)
    (vb vq : Val) (hvb : T.read o eb = .value vb) (hvq : T.read o eq = .value vq) :
    vb = vq ↔ g s = some (written eb).toks := by
  have h1 := read_value_bare o T eb hb vb hvb
  rw [read_quoted o T g hg eq s t sp hq] at hvq
  cases hgs : g s with
  | none => rw [hgs] at hvq; cases hvq
  | some out =>
      rw [hgs] at hvq
      cases hvq
      rw [h1]
      constructor
      · intro h; cases h; rfl
      · intro h; cases h; rfl

/-- the same on the model, end to end: if the string spells the tokens of an accepted bare value,
    the two items convert to the same value -/
theorem agree (o : Oracle) (rh : String → Hooks Val) (T : Scalar) (hT : T ≠ .callable)
    (g : String → Option String) (hg : T.grammar o = some g)
    (eb eq : Expr) (s t : String) (sp : Span)
    (hq : written eq = .lit ⟨.str s, t, sp⟩)
    (hb : ∀ s' t' sp', written eb ≠ .lit ⟨.str s', t', sp'⟩)
    (vb : Val) (hvb : T.read o eb = .value vb) (hsame : g s = some (written eb).toks)
    (hwf : (T = .ident ∨ T = .identString) → IdentPrints (written eb))
    (p p' : Path) (t₁ t₂ : String) (s₁ s₂ : Span) :
    (hooksOf o rh T.ty).fromMeta (.nameValue p eb t₁ s₁) = .ok vb ∧
    (hooksOf o rh T.ty).fromMeta (.nameValue p' eq t₂ s₂) = .ok vb := by
  have hvq : T.read o eq = .value vb := by
    rw [read_quoted o T g hg eq s t sp hq, hsame, read_value_bare o T eb hb vb hvb]
  constructor
  · have := scalar_meets o rh T hT (.nameValue p eb t₁ s₁) hwf
    simp only [Scalar.expected, metaVerdict, hvb] at this
    exact meets_value this
  · have := scalar_meets o rh T hT (.nameValue p' eq t₂ s₂)
      (fun _ => by
        show IdentPrints (written eq)
        intro q sq i h; rw [hq] at h; cases h)
    simp only [Scalar.expected, metaVerdict, hvq] at this
    exact meets_value this

/-- vectors and numeric arrays: the quoted array is read exactly like the bare array of the
    elements syn finds in the string -/
theorem vec_agree (o : Oracle) (elem : Expr → Verdict) (s t : String) (sp : Span) (es : List Expr)
    (h : arrayGrammar o s = some es) (t' : String) (sp' : Span) :
    vecRead o elem (.lit ⟨.str s, t, sp⟩) = vecRead o elem (.array es t' sp') := by
  simp only [vecRead, arrayElems, written, h]

/-! ## the two expression helpers -/

/-- `preserve_str_literal`: the value as written, whatever it is (no side condition) -/
theorem preserve_meets (o : Oracle) (m : Meta) :
    Meets (preserveStrLiteral Val.toks m) (helperExpected o false m) := by
  cases m with
  | path p => rfl
  | list _ _ _ _ _ _ => rfl
  | nameValue p e t sp =>
      have : helperExpected o false (.nameValue p e t sp) = .value (.toks e.toks) := by
        rw [← toks_written e]
        simp only [helperExpected]
        cases written e with
        | lit l => obtain ⟨v, t', s'⟩ := l; cases v <;> rfl
        | _ => rfl
      rw [this]
      rfl

/-- the test of `parse_str_literal` finds the string literal the user wrote, if the value is one -/
theorem strLitOf_written (e : Expr) :
    strLitOf e = match written e with
      | .lit l => (match l.v with
          | .str _ => some l
          | _ => none)
      | _ => none := by
  induction e using written.induct with
  | case1 g sp ih => simpa only [strLitOf, written] using ih
  | case2 l => rfl
  | case3 p s => rfl
  | case4 p t s => rfl
  | case5 es t s => rfl
  | case6 k t s => rfl

/-- `parse_str_literal`, for every item (no side condition): a string literal, grouped or not, is
    re-parsed; every other value — any other literal included — comes back as written -/
theorem parse_meets (o : Oracle) (m : Meta) :
    Meets (parseStrLiteral (o.parseSyn "Expr") Val.toks m) (helperExpected o true m) := by
  cases m with
  | path p => rfl
  | list _ _ _ _ _ _ => rfl
  | nameValue p e t sp =>
      simp only [parseStrLiteral, helperExpected, strLitOf_written]
      rw [← toks_written e]
      cases written e with
      | lit l =>
          obtain ⟨v, t', s'⟩ := l
          cases v with
          | str s =>
              simp only [parsedFromValue]
              cases o.parseSyn "Expr" s <;> rfl
          | _ => rfl
      | group _ _ => rfl
      | path _ _ => rfl
      | qpath _ _ _ => rfl
      | array _ _ _ => rfl
      | other _ _ _ => rfl

/-- the model's two helpers return the same thing unless the written value is a string literal -/
theorem helpers_model_differ_only_on_strings (o : Oracle) (m : Meta)
    (h : ∀ p e t sp, m = .nameValue p e t sp → ∀ s t' sp', written e ≠ .lit ⟨.str s, t', sp'⟩) :
    parseStrLiteral (o.parseSyn "Expr") Val.toks m = preserveStrLiteral Val.toks m := by
  cases m with
  | path p => rfl
  | list _ _ _ _ _ _ => rfl
  | nameValue p e t sp =>
      have hn := h p e t sp rfl
      have : strLitOf e = none := by
        rw [strLitOf_written]
        cases hw : written e with
        | lit l =>
            obtain ⟨v, t', s'⟩ := l
            cases v with
            | str x => exact absurd hw (hn x t' s')
            | _ => rfl
        | _ => rfl
      simp only [parseStrLiteral, preserveStrLiteral, this]

/-- "the two expression helpers differ only in that one keeps a string literal as a string and
    the other parses its contents" — on the text's side: off string literals they are the same … -/
theorem helpers_differ_only_on_strings (o : Oracle) (m : Meta)
    (h : ∀ p e t sp, m = .nameValue p e t sp → ∀ s t' sp', written e ≠ .lit ⟨.str s, t', sp'⟩) :
    helperExpected o true m = helperExpected o false m := by
  cases m with
  | path p => rfl
  | list _ _ _ _ _ _ => rfl
  | nameValue p e t sp =>
      have hn := h p e t sp rfl
      simp only [helperExpected]
      cases hw : written e with
      | lit l =>
          obtain ⟨v, t', s'⟩ := l
          cases v with
          | str x => exact absurd hw (hn x t' s')
          | _ => rfl
      | _ => rfl

/-- … and on a string literal one keeps it, the other re-parses its contents -/
theorem helpers_on_strings (o : Oracle) (p : Path) (e : Expr) (t : String) (sp : Span)
    (s t' : String) (sp' : Span) (hw : written e = .lit ⟨.str s, t', sp'⟩) :
    helperExpected o false (.nameValue p e t sp) = .value (.toks t') ∧
    helperExpected o true (.nameValue p e t sp) =
      (match o.parseSyn "Expr" s with
       | some out => .value (.toks out)
       | none => .rejectedAt sp') := by
  simp only [helperExpected, hw]
  exact ⟨rfl, rfl⟩

/-- the `syn::Expr` target itself reads a value like the parsing helper -/
theorem expr_target_is_parse_helper (o : Oracle) (p : Path) (e : Expr) (t : String) (sp : Span) :
    Scalar.expr.expected o (.nameValue p e t sp) = helperExpected o true (.nameValue p e t sp) := by
  simp only [Scalar.expected, metaVerdict, Scalar.read, helperExpected]
  cases written e with
  | lit l =>
      obtain ⟨v, t', s'⟩ := l
      cases v <;> rfl
  | _ => rfl

/-! ## the former DISCREPANCIES between the text and the model, and the one that is left

  D2, D3, D4 and D6 were found by this audit, reproduced on the library, and fixed there (one
  commit: "look through invisible groups in Callable, numeric arrays and parse_str_literal"); the
  model follows the fixed code and the examples below are now positive: on each former witness
  the model's outcome is the text's verdict.
  D2  `parse_str_literal` did not look through an invisible group: a grouped string literal was kept
      as a string (while `syn::Expr::from_meta` on the same item parses its contents).
  D6  `parse_str_literal` rejected a literal that is not a string (`x = 5`), `preserve_str_literal`
      and `syn::Expr` return it: the helpers did not "differ only" on string literals.
  D3  `Callable` did not look through an invisible group (every other target does).
  D4  an element of a numeric array was looked for under one invisible group, not under two.
  D1  (below, last; still open, out of scope of the fix) outer attributes on an array element are
      dropped by the library; the mirror cannot express them and the model predicts a rejection.
-/
namespace Ex

def rh0 : String → Hooks Val := fun _ => {}
def oE : Oracle :=
  { syns := [("Expr", "a + b", some "a + b"), ("Path", "foo::bar", some "foo :: bar")] }
def pX : Path := { global := false, segs := ["x"], plain := true, toks := "x", span := ⟨0, 1⟩ }
def pFoo : Path := { global := false, segs := ["foo"], plain := true, toks := "foo", span := ⟨4, 7⟩ }
def pFooBar : Path :=
  { global := false, segs := ["foo", "bar"], plain := true, toks := "foo :: bar", span := ⟨4, 12⟩ }
def sAB : Lit := ⟨.str "a + b", "\"a + b\"", ⟨4, 11⟩⟩
def sBad : Lit := ⟨.str "a +", "\"a +\"", ⟨4, 9⟩⟩
def five : Lit := ⟨.int "5" "", "5", ⟨4, 5⟩⟩
def yes : Lit := ⟨.bool true, "true", ⟨4, 8⟩⟩
def u8 : IntSpec := { name := "u8", signed := false, bits := 8, nonzero := false }

/-- `x = "a + b"` and the same with the literal inside one and two invisible groups -/
def mStr : Meta := .nameValue pX (.lit sAB) "x = \"a + b\"" ⟨0, 11⟩
def mStrG : Meta := .nameValue pX (.group (.lit sAB) ⟨4, 11⟩) "x = \"a + b\"" ⟨0, 11⟩
def mStrGG : Meta := .nameValue pX (.group (.group (.lit sAB) ⟨4, 11⟩) ⟨4, 11⟩) "x = \"a + b\"" ⟨0, 11⟩

/-! ### D2 (fixed): a grouped string literal is parsed -/
example : parseStrLiteral (oE.parseSyn "Expr") Val.toks mStr = .ok (.toks "a + b") := rfl
example : parseStrLiteral (oE.parseSyn "Expr") Val.toks mStrG = .ok (.toks "a + b") := rfl
example : parseStrLiteral (oE.parseSyn "Expr") Val.toks mStrGG = .ok (.toks "a + b") := rfl
example : helperExpected oE true mStrG = .value (.toks "a + b") := rfl
example : (hooksOf oE rh0 .synExpr).fromMeta mStrG = .ok (.toks "a + b") := rfl
example : Meets (parseStrLiteral (oE.parseSyn "Expr") Val.toks mStrG) (helperExpected oE true mStrG) :=
  parse_meets oE mStrG
/-- the other helper still keeps the string, grouped or not -/
example : preserveStrLiteral Val.toks mStrG = .ok (.toks "\"a + b\"") := rfl
/-- a grouped string that is not an expression is rejected at the literal -/
example : parseStrLiteral (oE.parseSyn "Expr") Val.toks
      (.nameValue pX (.group (.lit sBad) ⟨4, 9⟩) "x = \"a +\"" ⟨0, 9⟩) =
    .err (.leaf (.unknownValue "a +") [] (some ⟨4, 9⟩)) := rfl
/-- a grouped value that is not a literal comes back as written -/
example : parseStrLiteral (oE.parseSyn "Expr") Val.toks
      (.nameValue pX (.group (.path pFooBar ⟨4, 12⟩) ⟨4, 12⟩) "x = foo :: bar" ⟨0, 12⟩) =
    .ok (.toks "foo :: bar") := rfl

/-! ### D6 (fixed): a literal that is not a string is returned as written -/
def m5 : Meta := .nameValue pX (.lit five) "x = 5" ⟨0, 5⟩
def m5G : Meta := .nameValue pX (.group (.lit five) ⟨4, 5⟩) "x = 5" ⟨0, 5⟩
def mTrue : Meta := .nameValue pX (.lit yes) "x = true" ⟨0, 8⟩
example : preserveStrLiteral Val.toks m5 = .ok (.toks "5") := rfl
example : (hooksOf oE rh0 .synExpr).fromMeta m5 = .ok (.toks "5") := rfl
example : parseStrLiteral (oE.parseSyn "Expr") Val.toks m5 = .ok (.toks "5") := rfl
example : parseStrLiteral (oE.parseSyn "Expr") Val.toks m5G = .ok (.toks "5") := rfl
example : parseStrLiteral (oE.parseSyn "Expr") Val.toks mTrue = .ok (.toks "true") := rfl
example : helperExpected oE true m5 = .value (.toks "5") := rfl
example : helperExpected oE true m5 = helperExpected oE false m5 := rfl
example : Meets (parseStrLiteral (oE.parseSyn "Expr") Val.toks m5) (helperExpected oE true m5) :=
  parse_meets oE m5
example : parseStrLiteral (oE.parseSyn "Expr") Val.toks m5 = preserveStrLiteral Val.toks m5 := rfl

/-! ### D3 (fixed): Callable looks through invisible groups -/
def mCall : Meta := .nameValue pX (.path pFooBar ⟨4, 12⟩) "x = foo :: bar" ⟨0, 12⟩
def mCallG : Meta := .nameValue pX (.group (.path pFooBar ⟨4, 12⟩) ⟨4, 12⟩) "x = foo :: bar" ⟨0, 12⟩
def mCallGG : Meta :=
  .nameValue pX (.group (.group (.path pFooBar ⟨4, 12⟩) ⟨4, 12⟩) ⟨4, 12⟩) "x = foo :: bar" ⟨0, 12⟩
example : (hooksOf oE rh0 .callable).fromMeta mCall = .ok (.toks "foo :: bar") := rfl
example : (hooksOf oE rh0 .callable).fromMeta mCallG = .ok (.toks "foo :: bar") := rfl
example : (hooksOf oE rh0 .callable).fromMeta mCallGG = .ok (.toks "foo :: bar") := rfl
example : Scalar.callable.expected oE mCallG = .value (.toks "foo :: bar") := rfl
example : (hooksOf oE rh0 .synPath).fromMeta mCallG = .ok (.toks "foo :: bar") := rfl
example : Meets ((hooksOf oE rh0 Scalar.callable.ty).fromMeta mCallG) (Scalar.callable.expected oE mCallG) :=
  callable_meets oE rh0 mCallG
/-- a grouped closure; and a grouped literal is still rejected, at the value the user wrote -/
example : (hooksOf oE rh0 .callable).fromMeta
      (.nameValue pX (.group (.other "closure" "| x | x" ⟨4, 9⟩) ⟨4, 9⟩) "x = | x | x" ⟨0, 9⟩) =
    .ok (.toks "| x | x") := rfl
example : (hooksOf oE rh0 .callable).fromMeta m5G =
    .err (.leaf (.unexpectedType "lit") [] (some ⟨4, 5⟩)) := rfl
example : Scalar.callable.expected oE m5G = .rejectedAt ⟨4, 5⟩ := rfl

/-! ### D4 (fixed): the groups around an element of a numeric array are peeled to any depth -/
def one : Expr := .lit ⟨.int "1" "", "1", ⟨5, 6⟩⟩
def two : Expr := .lit ⟨.int "2" "", "2", ⟨8, 9⟩⟩
def mArr (e : Expr) : Meta := .nameValue pX (.array [one, e] "[1 , 2]" ⟨4, 10⟩) "x = [1 , 2]" ⟨0, 10⟩
example : (hooksOf oE rh0 (.numArray u8)).fromMeta (mArr two) = .ok (.list [.int 1, .int 2]) := rfl
example : (hooksOf oE rh0 (.numArray u8)).fromMeta (mArr (.group two ⟨8, 9⟩)) = .ok (.list [.int 1, .int 2]) := rfl
example : (hooksOf oE rh0 (.numArray u8)).fromMeta (mArr (.group (.group two ⟨8, 9⟩) ⟨8, 9⟩)) =
    .ok (.list [.int 1, .int 2]) := rfl
example : (hooksOf oE rh0 (.numArray u8)).fromMeta
      (mArr (.group (.group (.group two ⟨8, 9⟩) ⟨8, 9⟩) ⟨8, 9⟩)) = .ok (.list [.int 1, .int 2]) := rfl
example : numArrayExpected oE (numOf u8) (mArr (.group (.group two ⟨8, 9⟩) ⟨8, 9⟩)) =
    .value (.list [.int 1, .int 2]) := rfl
example : Meets ((hooksOf oE rh0 (.numArray u8)).fromMeta (mArr (.group (.group two ⟨8, 9⟩) ⟨8, 9⟩)))
    (numArrayExpected oE (numOf u8) (mArr (.group (.group two ⟨8, 9⟩) ⟨8, 9⟩))) :=
  numArray_meets oE rh0 u8 (numOf u8) (numOf_sound u8) _
/-- an element that is not a literal under its groups is rejected at the element as written -/
example : (hooksOf oE rh0 (.numArray u8)).fromMeta
      (mArr (.group (.group (.path pFoo ⟨8, 9⟩) ⟨8, 9⟩) ⟨7, 10⟩)) =
    .err (.leaf (.custom "Expected array of unsigned integers") [] (some ⟨7, 10⟩)) := rfl
example : numArrayExpected oE (numOf u8) (mArr (.group (.group (.path pFoo ⟨8, 9⟩) ⟨8, 9⟩) ⟨7, 10⟩)) =
    .rejectedAt ⟨7, 10⟩ := rfl
/-- the vector of literals next door looks through any number of groups, as before -/
example : (hooksOf oE rh0 (.vecLit .int)).fromMeta (mArr (.group (.group two ⟨8, 9⟩) ⟨8, 9⟩)) =
    .ok (.list [.toks "1", .toks "2"]) := rfl

/-! ### D1 (model and mirror against the library, not visible inside the model)
  The mirror has no place for outer attributes on an expression; the harness serialises
  `#[cfg(a)] 2` as an opaque node of kind "lit" (`harness/src/ser.rs`, `expr`: the `elit` / `epath`
  arms require `attrs.is_empty()`).  For `x = [1, #[cfg(a)] 2]` the model therefore predicts a
  rejection, while the library accepts and returns `[1, 2]` with the attribute dropped. -/
def twoAttr : Expr := .other "lit" "# [cfg (a)] 2" ⟨8, 19⟩
example : (hooksOf oE rh0 (.vecLit .int)).fromMeta (mArr twoAttr) =
    .err (.leaf (.unexpectedType "lit") [] (some ⟨8, 19⟩)) := rfl
example : (hooksOf oE rh0 (.numArray u8)).fromMeta (mArr twoAttr) =
    .err (.leaf (.custom "Expected array of unsigned integers") [] (some ⟨8, 19⟩)) := rfl

/-! ## non-vacuity of every hypothesis of the main theorems -/

-- `scalar_meets`: `hT`, `hwf`
example : Scalar.path ≠ .callable := by decide
def mIdent : Meta := .nameValue pX (.path pFoo ⟨4, 7⟩) "x = foo" ⟨0, 7⟩
example : ItemIdentPrints mIdent := by
  intro p sp i h hi
  cases h
  cases hi
  rfl
example : (hooksOf oE rh0 Scalar.ident.ty).fromMeta mIdent = .ok (.toks "foo") := rfl
/-- the condition is needed: a mirror path whose printed tokens are not its identifier -/
example : ¬ Meets ((hooksOf oE rh0 Scalar.ident.ty).fromMeta
      (.nameValue pX (.path { pFoo with toks := "bar" } ⟨4, 7⟩) "x = foo" ⟨0, 7⟩))
    (Scalar.ident.expected oE (.nameValue pX (.path { pFoo with toks := "bar" } ⟨4, 7⟩) "x = foo" ⟨0, 7⟩)) := by
  intro h
  have h1 : Val.toks "foo" = Val.toks "bar" := h
  exact absurd (Val.toks.inj h1) (by decide)

-- `callable_meets`, `parse_meets`: no hypothesis.  `numArray_meets`: `hnum` is `numOf_sound`

-- `C13_meets`: `hs` (vacuous off identifiers, the mirror's condition on them)
example : (Tgt.scalar .callable).Side mCallG := by
  intro h; cases h with
  | inl h => cases h
  | inr h => cases h
example : (Tgt.numArray u8).Side (mArr (.group (.group two ⟨8, 9⟩) ⟨8, 9⟩)) := by
  intro h; cases h with
  | inl h => cases h
  | inr h => cases h
example : (Tgt.scalar .ident).Side mIdent := by
  intro _ p sp i h hi
  cases h
  cases hi
  rfl
example : Meets ((hooksOf oE rh0 (Tgt.scalar .callable).ty).fromMeta mCallGG)
    ((Tgt.scalar .callable).expected oE mCallGG) :=
  C13_meets oE rh0 _ _ (by intro h; cases h with | inl h => cases h | inr h => cases h)

-- `helpers_differ_only_on_strings`, `helpers_model_differ_only_on_strings`: `h`
example : ∀ p e t sp, m5 = .nameValue p e t sp → ∀ s t' sp', written e ≠ .lit ⟨.str s, t', sp'⟩ := by
  intro p e t sp h s t' sp' hw
  cases h
  cases hw

-- `agree_iff` / `agree`: `hg`, `hq`, `hb`, `hvb`, `hvq`, `hsame`, `hwf`
def sFB : Lit := ⟨.str "foo::bar", "\"foo::bar\"", ⟨4, 14⟩⟩
example : Scalar.path.grammar oE = some (oE.parseSyn "Path") := rfl
example : written (.group (.lit sFB) ⟨4, 14⟩) = .lit ⟨.str "foo::bar", "\"foo::bar\"", ⟨4, 14⟩⟩ := rfl
example : ∀ s' t' sp', written (.path pFooBar ⟨4, 12⟩) ≠ .lit ⟨.str s', t', sp'⟩ := fun _ _ _ h => by cases h
example : Scalar.path.read oE (.path pFooBar ⟨4, 12⟩) = .value (.toks "foo :: bar") := rfl
example : Scalar.path.read oE (.group (.lit sFB) ⟨4, 14⟩) = .value (.toks "foo :: bar") := rfl
example : oE.parseSyn "Path" "foo::bar" = some (written (.path pFooBar ⟨4, 12⟩)).toks := rfl
example : (Scalar.path = .ident ∨ Scalar.path = .identString) → IdentPrints (written (.path pFooBar ⟨4, 12⟩)) :=
  fun h => by cases h with | inl h => cases h | inr h => cases h
/-- and a grammar that maps the string elsewhere makes the two spellings differ (the `iff`) -/
example : Scalar.path.read { syns := [("Path", "foo::bar", some "bar")] } (.lit sFB) = .value (.toks "bar") := rfl

-- `vec_agree`: `h`
def oA : Oracle := { arrs := [("[1, 2]", some (.array [one, two] "[1 , 2]" ⟨0, 6⟩))] }
example : arrayGrammar oA "[1, 2]" = some [one, two] := rfl
example : (hooksOf oA rh0 (.vecLit .int)).fromMeta
    (.nameValue pX (.lit ⟨.str "[1, 2]", "\"[1, 2]\"", ⟨4, 12⟩⟩) "x = \"[1, 2]\"" ⟨0, 12⟩) =
    .ok (.list [.toks "1", .toks "2"]) := rfl

/-! a few more readings of the table -/
example : Scalar.expr.read oE (.lit sAB) = .value (.toks "a + b") := rfl
example : Scalar.expr.read oE (.lit five) = .value (.toks "5") := rfl
example : (Scalar.litKind .int).read oE (.lit five) = .value (.toks "5") := rfl
example : (Scalar.litKind .str).read oE (.lit five) = .rejectedAt ⟨4, 5⟩ := rfl
example : (Scalar.litKind .str).read oE (.lit sAB) = .value (.toks "\"a + b\"") := rfl
example : (Scalar.parsed "Type").read oE (.path pFoo ⟨4, 7⟩) = .rejectedAt ⟨4, 7⟩ := rfl
example : Scalar.path.expected oE (.path pX) = .rejectedAt ⟨0, 1⟩ := rfl
example : pathListExpected (.list pX [.item (.path pFoo), .lit five, .item (.path pX)] none none "x(foo, 5, x)" ⟨0, 12⟩) =
    .rejectedAt ⟨4, 5⟩ := rfl
example : pathListExpected (.list pX [.item (.path pFoo), .item (.path pFooBar)] none none "x(foo, foo::bar)" ⟨0, 16⟩) =
    .value (.list [.toks "foo", .toks "foo :: bar"]) := rfl

end Ex

end C13
