import Darling.Error
import Darling.Spec.C04
import Darling.Lemmas.Error
import Darling.Props.C04
/-
  C04 — an independent, positional specification of error trees, written from the property text.

  The property speaks about *leaf errors*, their *left-to-right order*, and the *ancestors* of a
  leaf.  Here these notions are defined by position, not by the recursion of `into_vec`:

    * an address is the list of child indices walked from the root (`sub`);
    * the ancestors of the node at address `a` are the nodes at the prefixes of `a`, shortest
      (outermost) first (`prefixes`, `nodesAlong`);
    * the full path of that node is the concatenation of the locations of these nodes
      (`pathAt`), its effective span the innermost span among them (`spanAt`);
    * the leaves of a tree are the addresses at which a leaf sits, in lexicographic order —
      `leafAddrs` enumerates them and `leafAddrs_canonical` shows that membership and order
      determine that list uniquely, so the enumeration's own recursion carries no meaning.

  The end-to-end theorems then say: `len` is the number of leaf addresses, `flatten` returns the
  leaves at these addresses in this order with these paths, Display and the conversion to
  compiler diagnostics render them as the text prescribes.
-/
open Err

namespace C04

/-! ## positions -/

abbrev Addr := List Nat

/-- the subtree at an address (child indices from the root) -/
def sub : Err → Addr → Option Err
  | e, [] => some e
  | .leaf _ _ _, _ :: _ => none
  | .multi cs _ _, i :: a =>
      match cs[i]? with
      | some c => sub c a
      | none => none

/-- all prefixes of a list, shortest first -/
def prefixes {α : Type} : List α → List (List α)
  | [] => [[]]
  | x :: xs => [] :: (prefixes xs).map (x :: ·)

/-- the nodes met on the way from the root to address `a`, root first, the node at `a` last -/
def nodesAlong (e : Err) (a : Addr) : List Err := (prefixes a).filterMap (sub e)

/-- full outer-to-inner location path of the node at `a`: the locations of all its ancestors,
    outermost first, followed by its own -/
def pathAt (e : Err) (a : Addr) : List String := (nodesAlong e a).flatMap Err.locs

/-- the span that applies to the node at `a`: its own if it has one, else that of the nearest
    ancestor that has one -/
def spanAt (e : Err) (a : Addr) : Option Span := (nodesAlong e a).reverse.findSome? Err.span

/-- `a` is the position of a leaf error -/
def IsLeafAddr (e : Err) (a : Addr) : Prop := ∃ k ls s, sub e a = some (.leaf k ls s)

/-- kind of the leaf at `a` (arbitrary when `a` is not a leaf address) -/
def kindAt (e : Err) (a : Addr) : Kind :=
  match sub e a with
  | some (.leaf k _ _) => k
  | _ => .custom ""

/-- at a leaf position `kindAt` is the kind of the leaf that sits there (no default involved) -/
theorem kindAt_spec {e : Err} {a : Addr} (h : IsLeafAddr e a) :
    ∃ ls s, sub e a = some (.leaf (kindAt e a) ls s) := by
  obtain ⟨k, ls, s, hs⟩ := h
  exact ⟨ls, s, by simp only [kindAt, hs]⟩

/-- what flattening must deliver for the leaf at `a` -/
def leafAt (e : Err) (a : Addr) : Err := .leaf (kindAt e a) (pathAt e a) (spanAt e a)

mutual
/-- enumeration of the leaf addresses, left to right -/
def leafAddrs : Err → List Addr
  | .leaf _ _ _ => [[]]
  | .multi cs _ _ => leafAddrsFrom 0 cs
def leafAddrsFrom (i : Nat) : List Err → List Addr
  | [] => []
  | c :: cs => (leafAddrs c).map (i :: ·) ++ leafAddrsFrom (i + 1) cs
end

/-! ### sanity of the positional vocabulary -/

theorem mem_prefixes {α : Type} (p a : List α) : p ∈ prefixes a ↔ p <+: a := by
  induction a generalizing p with
  | nil => simp [prefixes]
  | cons x xs ih =>
      simp only [prefixes, List.mem_cons, List.mem_map, List.prefix_cons_iff]
      constructor
      · rintro (h | ⟨t, ht, rfl⟩)
        · exact Or.inl h
        · exact Or.inr ⟨t, rfl, (ih t).1 ht⟩
      · rintro (h | ⟨t, rfl, ht⟩)
        · exact Or.inl h
        · exact Or.inr ⟨t, (ih t).2 ht, rfl⟩

theorem prefixes_lengths {α : Type} (a : List α) :
    (prefixes a).map List.length = List.range (a.length + 1) := by
  induction a with
  | nil => rfl
  | cons x xs ih =>
      simp only [prefixes, List.map_cons, List.map_map, List.length_nil, List.length_cons]
      rw [List.range_succ_eq_map, ← ih, List.map_map]
      rfl

/-! ### how the positional notions unfold along an address -/

theorem sub_nil (e : Err) : sub e [] = some e := by cases e <;> rfl

theorem sub_leaf_cons (k ls s i) (a : Addr) : sub (.leaf k ls s) (i :: a) = none := rfl

theorem sub_multi_cons {cs : List Err} {c : Err} {i : Nat} (ls s) (a : Addr) (h : cs[i]? = some c) :
    sub (.multi cs ls s) (i :: a) = sub c a := by
  simp only [sub, h]

theorem sub_multi_cons_none {cs : List Err} {i : Nat} (ls s) (a : Addr) (h : cs[i]? = none) :
    sub (.multi cs ls s) (i :: a) = none := by
  simp only [sub, h]

theorem nodesAlong_nil (e : Err) : nodesAlong e [] = [e] := by
  simp only [nodesAlong, prefixes, List.filterMap_cons, sub_nil, List.filterMap_nil]

theorem nodesAlong_multi_cons {cs : List Err} {c : Err} {i : Nat} (ls s) (a : Addr)
    (h : cs[i]? = some c) :
    nodesAlong (.multi cs ls s) (i :: a) = .multi cs ls s :: nodesAlong c a := by
  simp only [nodesAlong, prefixes, List.filterMap_cons, sub_nil, List.filterMap_map]
  have hf : (sub (.multi cs ls s) ∘ fun x => i :: x) = sub c := by
    funext p
    exact sub_multi_cons ls s p h
  rw [hf]

theorem pathAt_nil (e : Err) : pathAt e [] = e.locs := by
  simp only [pathAt, nodesAlong_nil, List.flatMap_cons, List.flatMap_nil, List.append_nil]

theorem pathAt_multi_cons {cs : List Err} {c : Err} {i : Nat} (ls s) (a : Addr)
    (h : cs[i]? = some c) :
    pathAt (.multi cs ls s) (i :: a) = ls ++ pathAt c a := by
  simp only [pathAt, nodesAlong_multi_cons ls s a h, List.flatMap_cons, Err.locs]

theorem spanAt_nil (e : Err) : spanAt e [] = e.span := by
  simp only [spanAt, nodesAlong_nil, List.reverse_cons, List.reverse_nil, List.nil_append,
    List.findSome?_cons, List.findSome?_nil]
  cases e.span <;> rfl

theorem spanAt_multi_cons {cs : List Err} {c : Err} {i : Nat} (ls s) (a : Addr)
    (h : cs[i]? = some c) :
    spanAt (.multi cs ls s) (i :: a) = (spanAt c a).or s := by
  simp only [spanAt, nodesAlong_multi_cons ls s a h, List.reverse_cons, List.findSome?_append,
    List.findSome?_cons, List.findSome?_nil, Err.span]
  cases s <;> rfl

theorem kindAt_multi_cons {cs : List Err} {c : Err} {i : Nat} (ls s) (a : Addr)
    (h : cs[i]? = some c) :
    kindAt (.multi cs ls s) (i :: a) = kindAt c a := by
  simp only [kindAt, sub_multi_cons ls s a h]

theorem kindAt_leaf_nil (k ls s) : kindAt (.leaf k ls s) [] = k := rfl

/-! ### `leafAddrs` is *the* list of leaf positions in left-to-right order -/

theorem drop_eq_cons {α : Type} {l : List α} {i : Nat} {c : α} {cs : List α} (h : l.drop i = c :: cs) :
    l[i]? = some c ∧ l.drop (i + 1) = cs := by
  constructor
  · have := List.getElem?_drop (xs := l) (i := i) (j := 0)
    rw [h] at this
    simpa using this.symm
  · have : (l.drop i).drop 1 = cs := by rw [h]; rfl
    rw [List.drop_drop] at this
    exact this

theorem not_isLeafAddr_multi_nil (cs ls s) : ¬ IsLeafAddr (.multi cs ls s) [] := by
  rintro ⟨k, l, sp, h⟩
  rw [sub_nil] at h
  cases h

mutual
theorem mem_leafAddrs (e : Err) (a : Addr) : a ∈ leafAddrs e ↔ IsLeafAddr e a := by
  cases e with
  | leaf k ls s =>
      simp only [leafAddrs, List.mem_singleton]
      constructor
      · rintro rfl; exact ⟨k, ls, s, rfl⟩
      · rintro ⟨k', ls', s', h⟩
        cases a with
        | nil => rfl
        | cons i b => rw [sub_leaf_cons] at h; cases h
  | multi cs ls s =>
      simp only [leafAddrs]
      rw [mem_leafAddrsFrom cs ls s 0 cs rfl a]
      constructor
      · exact fun h => h.1
      · intro h
        refine ⟨h, ?_⟩
        cases a with
        | nil => exact absurd h (not_isLeafAddr_multi_nil cs ls s)
        | cons j b => exact ⟨j, b, rfl, Nat.zero_le j⟩
theorem mem_leafAddrsFrom (all : List Err) (ls : List String) (s : Option Span) (i : Nat)
    (cs : List Err) (h : all.drop i = cs) (a : Addr) :
    a ∈ leafAddrsFrom i cs ↔ (IsLeafAddr (.multi all ls s) a ∧ ∃ j b, a = j :: b ∧ i ≤ j) := by
  cases cs with
  | nil =>
      simp only [leafAddrsFrom, List.not_mem_nil, false_iff]
      rintro ⟨⟨k, l, sp, hs⟩, j, b, rfl, hij⟩
      have hlen : all.length ≤ j := Nat.le_trans (List.drop_eq_nil_iff.mp h) hij
      rw [sub_multi_cons_none ls s b (List.getElem?_eq_none hlen)] at hs
      cases hs
  | cons c cs' =>
      obtain ⟨hc, hrest⟩ := drop_eq_cons h
      simp only [leafAddrsFrom, List.mem_append, List.mem_map]
      rw [mem_leafAddrsFrom all ls s (i + 1) cs' hrest a]
      constructor
      · rintro (⟨b, hb, rfl⟩ | ⟨hl, j, b, rfl, hij⟩)
        · obtain ⟨k, l, sp, hs⟩ := (mem_leafAddrs c b).1 hb
          exact ⟨⟨k, l, sp, by rw [sub_multi_cons ls s b hc]; exact hs⟩, i, b, rfl, Nat.le_refl i⟩
        · exact ⟨hl, j, b, rfl, Nat.le_of_succ_le hij⟩
      · rintro ⟨hl, j, b, rfl, hij⟩
        by_cases hji : j = i
        · subst hji
          left
          obtain ⟨k, l, sp, hs⟩ := hl
          rw [sub_multi_cons ls s b hc] at hs
          exact ⟨b, (mem_leafAddrs c b).2 ⟨k, l, sp, hs⟩, rfl⟩
        · right
          exact ⟨hl, j, b, rfl, by omega⟩
end

mutual
theorem leafAddrs_sorted (e : Err) : (leafAddrs e).Pairwise (· < ·) := by
  cases e with
  | leaf k ls s => simp only [leafAddrs, List.pairwise_cons, List.not_mem_nil, false_imp_iff,
      implies_true, List.Pairwise.nil, and_self]
  | multi cs ls s => simp only [leafAddrs]; exact (leafAddrsFrom_sorted 0 cs).1
theorem leafAddrsFrom_sorted (i : Nat) (cs : List Err) :
    (leafAddrsFrom i cs).Pairwise (· < ·)
      ∧ ∀ a ∈ leafAddrsFrom i cs, ∃ j b, a = j :: b ∧ i ≤ j := by
  cases cs with
  | nil => simp only [leafAddrsFrom, List.Pairwise.nil, List.not_mem_nil, false_imp_iff,
      implies_true, and_self]
  | cons c cs' =>
      obtain ⟨hs, hhead⟩ := leafAddrsFrom_sorted (i + 1) cs'
      have hc := leafAddrs_sorted c
      simp only [leafAddrsFrom]
      refine ⟨List.pairwise_append.2 ⟨?_, hs, ?_⟩, ?_⟩
      · rw [List.pairwise_map]
        exact hc.imp (fun {x y} hxy => List.cons_lt_cons_iff.2 (Or.inr ⟨rfl, hxy⟩))
      · intro x hx y hy
        obtain ⟨b, _, rfl⟩ := List.mem_map.1 hx
        obtain ⟨j, b', rfl, hij⟩ := hhead y hy
        exact List.cons_lt_cons_iff.2 (Or.inl (by omega))
      · intro a ha
        rcases List.mem_append.1 ha with h | h
        · obtain ⟨b, _, rfl⟩ := List.mem_map.1 h
          exact ⟨i, b, rfl, Nat.le_refl i⟩
        · obtain ⟨j, b, rfl, hij⟩ := hhead a h
          exact ⟨j, b, rfl, Nat.le_of_succ_le hij⟩
end

/-- a strictly increasing list is determined by its members -/
theorem sorted_ext {l₁ l₂ : List Addr} (h₁ : l₁.Pairwise (· < ·)) (h₂ : l₂.Pairwise (· < ·))
    (h : ∀ a, a ∈ l₁ ↔ a ∈ l₂) : l₁ = l₂ := by
  induction l₁ generalizing l₂ with
  | nil =>
      cases l₂ with
      | nil => rfl
      | cons y ys => exact absurd ((h y).2 (List.mem_cons_self ..)) (List.not_mem_nil)
  | cons x xs ih =>
      cases l₂ with
      | nil => exact absurd ((h x).1 (List.mem_cons_self ..)) (List.not_mem_nil)
      | cons y ys =>
          obtain ⟨hx, hxs⟩ := List.pairwise_cons.1 h₁
          obtain ⟨hy, hys⟩ := List.pairwise_cons.1 h₂
          have hxy : x = y := by
            rcases List.mem_cons.1 ((h x).1 (List.mem_cons_self ..)) with e | hxin
            · exact e
            · rcases List.mem_cons.1 ((h y).2 (List.mem_cons_self ..)) with e | hyin
              · exact e.symm
              · exact absurd (hx y hyin) (List.lt_asymm (hy x hxin))
          subst hxy
          congr 1
          apply ih hxs hys
          intro a
          constructor
          · intro ha
            rcases List.mem_cons.1 ((h a).1 (List.mem_cons_of_mem _ ha)) with e | h'
            · subst e; exact absurd (hx a ha) (List.lt_irrefl a)
            · exact h'
          · intro ha
            rcases List.mem_cons.1 ((h a).2 (List.mem_cons_of_mem _ ha)) with e | h'
            · subst e; exact absurd (hy a ha) (List.lt_irrefl a)
            · exact h'

/-- **"Those leaves in left-to-right order" is a well-defined list**: any list that contains
    exactly the leaf positions of `e` and is increasing in the lexicographic order of positions
    is `leafAddrs e`. -/
theorem leafAddrs_canonical (e : Err) (l : List Addr) (hs : l.Pairwise (· < ·))
    (hm : ∀ a, a ∈ l ↔ IsLeafAddr e a) : l = leafAddrs e :=
  sorted_ext hs (leafAddrs_sorted e) (fun a => (hm a).trans (mem_leafAddrs e a).symm)

/-! ## count -/

mutual
theorem len_pos_spec (e : Err) : e.len = (leafAddrs e).length := by
  cases e with
  | leaf k ls s => rfl
  | multi cs ls s => simp only [len_multi, leafAddrs]; exact lenList_pos_spec 0 cs
theorem lenList_pos_spec (i : Nat) (cs : List Err) : lenList cs = (leafAddrsFrom i cs).length := by
  cases cs with
  | nil => rfl
  | cons c cs' =>
      simp only [lenList_cons, leafAddrsFrom, List.length_append, List.length_map]
      rw [len_pos_spec c, lenList_pos_spec (i + 1) cs']
end

/-- **Count.**  For every error tree the reported count is the number of leaf positions … -/
theorem count_spec (e : Err) : e.len = (leafAddrs e).length := len_pos_spec e

/-- … which is at least 1 for every value the public API can produce … -/
theorem count_pos {e : Err} (h : Reachable e) : 1 ≤ (leafAddrs e).length := by
  rw [← count_spec]; exact len_pos h

/-- … and a bundle of one is that one. -/
theorem bundle_of_one (e : Err) : Err.multiple [e] = .ok e := rfl

/-! ## flatten -/

/-- the flattened item for the leaf at `a` when the tree sits under locations `pre` and span `sp` -/
def itemP (pre : List String) (sp : Option Span) (e : Err) (a : Addr) : Err :=
  .leaf (kindAt e a) (pre ++ pathAt e a) ((spanAt e a).or sp)

theorem itemP_nil_none (e : Err) (a : Addr) : itemP [] none e a = leafAt e a := by
  simp only [itemP, leafAt, List.nil_append, Option.or_none]

theorem inheritSpan_leaf_eq (k ls s sp) : (Err.leaf k ls s).inheritSpan sp = .leaf k ls (s.or sp) := by
  cases sp <;> cases s <;> rfl

theorem itemP_multi_cons {cs : List Err} {c : Err} {i : Nat} (pre sp ls s) (b : Addr)
    (h : cs[i]? = some c) :
    itemP pre sp (.multi cs ls s) (i :: b) = itemP (pre ++ ls) (s.or sp) c b := by
  simp only [itemP, kindAt_multi_cons ls s b h, pathAt_multi_cons ls s b h,
    spanAt_multi_cons ls s b h, List.append_assoc, Option.or_assoc]

mutual
theorem intoVecP_pos (pre : List String) (sp : Option Span) (e : Err) :
    intoVecP pre sp e = (leafAddrs e).map (itemP pre sp e) := by
  cases e with
  | leaf k ls s =>
      simp only [intoVecP_leaf, leafAddrs, List.map_cons, List.map_nil, itemP, kindAt_leaf_nil,
        pathAt_nil, spanAt_nil, Err.locs, Err.span, inheritSpan_leaf_eq]
  | multi cs ls s =>
      simp only [intoVecP_multi, leafAddrs]
      exact intoVecListP_pos pre sp cs ls s 0 cs rfl
theorem intoVecListP_pos (pre : List String) (sp : Option Span) (all : List Err) (ls : List String)
    (s : Option Span) (i : Nat) (cs : List Err) (h : all.drop i = cs) :
    intoVecListP (pre ++ ls) (s.or sp) cs
      = (leafAddrsFrom i cs).map (itemP pre sp (.multi all ls s)) := by
  cases cs with
  | nil => rfl
  | cons c cs' =>
      obtain ⟨hc, hrest⟩ := drop_eq_cons h
      simp only [intoVecListP_cons, leafAddrsFrom, List.map_append, List.map_map]
      rw [intoVecP_pos (pre ++ ls) (s.or sp) c, intoVecListP_pos pre sp all ls s (i + 1) cs' hrest]
      congr 1
      apply List.map_congr_left
      intro b _
      exact (itemP_multi_cons pre sp ls s b hc).symm
end

/-- **Flatten, the list.**  `into_vec` of any tree is: for each leaf position, in left-to-right
    order, the leaf's kind with the full outer-to-inner path of all its ancestors followed by its
    own (and the innermost span that applies to it). -/
theorem intoVec_spec (e : Err) : intoVec e = (leafAddrs e).map (leafAt e) := by
  have hf : itemP [] none e = leafAt e := funext (itemP_nil_none e)
  rw [intoVec, intoVecP_pos, hf]

/-- `flatten` of any tree bundles exactly that list -/
theorem flatten_eq (e : Err) : e.flatten = Err.multiple ((leafAddrs e).map (leafAt e)) := by
  rw [Err.flatten, intoVec_spec]

/-- **Flatten, end to end** (side condition: the tree has at least one leaf — the text's
    "always at least 1"; see `flatten_positional` for the discharge on every reachable value and
    `empty_bundle_flatten_panics` for what happens without it).
    The value returned by `flatten` has no location and no span of its own, and iterating it
    yields, for each leaf position in left-to-right order, that leaf with its full path. -/
theorem flatten_positional_partial {e : Err} (h : 1 ≤ e.len) :
    ∃ f, e.flatten = .ok f
      ∧ f.intoIter = (leafAddrs e).map (leafAt e)
      ∧ ((∃ a, leafAddrs e = [a] ∧ f = leafAt e a)
          ∨ (2 ≤ e.len ∧ f = .multi ((leafAddrs e).map (leafAt e)) [] none)) := by
  rw [flatten_eq]
  rw [count_spec] at h ⊢
  generalize leafAddrs e = l at h
  match l, h with
  | [a], _ => exact ⟨leafAt e a, rfl, rfl, Or.inl ⟨a, rfl, rfl⟩⟩
  | a :: b :: r, _ =>
      refine ⟨.multi ((a :: b :: r).map (leafAt e)) [] none, rfl, rfl, Or.inr ⟨?_, rfl⟩⟩
      simp only [List.length_cons]; omega

theorem flatten_positional {e : Err} (h : Reachable e) :
    ∃ f, e.flatten = .ok f
      ∧ f.intoIter = (leafAddrs e).map (leafAt e)
      ∧ ((∃ a, leafAddrs e = [a] ∧ f = leafAt e a)
          ∨ (2 ≤ e.len ∧ f = .multi ((leafAddrs e).map (leafAt e)) [] none)) :=
  flatten_positional_partial (len_pos h)

/-- the count is unchanged by flattening -/
theorem flatten_count {e f : Err} (hf : e.flatten = .ok f) : f.len = (leafAddrs e).length := by
  rw [flatten_len hf, count_spec]

/-- **Flattening twice equals flattening once**, for every tree (also when the first flatten
    panics: then so does the composition). -/
theorem flatten_twice (e : Err) : (e.flatten).bind Err.flatten = e.flatten := by
  cases hf : e.flatten with
  | ok f => exact flatten_idem hf
  | err x => rfl
  | panic m => rfl

/-! ## Display -/

/-- ` at a/b/c` when a path exists, nothing otherwise -/
def atSuffix : List String → String
  | [] => ""
  | path => " at " ++ "/".intercalate path

/-- the kind-specific message of a node: the leaf kind's message, or for a bundle the
    parenthesised list of what its children show -/
def kindMessage : Err → String
  | .leaf k _ _ => k.msg
  | .multi cs _ _ => "Multiple errors: (" ++ ", ".intercalate (cs.map Err.display) ++ ")"

/-- not a bundle of exactly one child (no public operation builds such a value) -/
def NotBundleOfOne : Err → Prop
  | .leaf _ _ _ => True
  | .multi cs _ _ => cs.length ≠ 1

theorem locSuffix_eq (ls : List String) : locSuffix ls = atSuffix ls := by
  cases ls <;> rfl

theorem displayList_eq_map (cs : List Err) : displayList cs = cs.map Err.display := by
  induction cs with
  | nil => simp only [displayList, List.map_nil]
  | cons c cs ih => simp only [displayList, List.map_cons, ih]

theorem display_leaf_eq (k ls s) : (Err.leaf k ls s).display = k.msg ++ locSuffix ls := by
  rw [Err.display]

theorem display_multi_eq (cs ls s) :
    (Err.multi cs ls s).display = kindMulti (displayList cs) ++ locSuffix ls := by
  rw [Err.display]

/-- **Display** (side condition: not a bundle of one). -/
theorem display_spec_partial {e : Err} (h : NotBundleOfOne e) :
    e.display = kindMessage e ++ atSuffix e.locs := by
  cases e with
  | leaf k ls s => rw [display_leaf_eq, locSuffix_eq]; rfl
  | multi cs ls s =>
      rw [display_multi_eq, locSuffix_eq, displayList_eq_map]
      show _ = "Multiple errors: (" ++ ", ".intercalate (cs.map Err.display) ++ ")" ++ atSuffix ls
      congr 1
      match cs, h with
      | [], _ => rfl
      | _ :: _ :: _, _ => rfl
      | [c], h => exact absurd rfl h

theorem WF_notBundleOfOne {e : Err} (h : Spec.C04.WF e) : NotBundleOfOne e := by
  cases h with
  | leaf k ls s => trivial
  | multi cs ls s h2 _ => simp only [NotBundleOfOne]; omega

/-- **Display, every reachable value**: the kind-specific message, then ` at a/b/c` when a path
    exists. -/
theorem display_spec {e : Err} (h : Reachable e) : e.display = kindMessage e ++ atSuffix e.locs :=
  display_spec_partial (WF_notBundleOfOne (reachable_WF h))

/-- what each item of a flattened error shows: the leaf's message and its full path -/
theorem display_leafAt (e : Err) (a : Addr) :
    (leafAt e a).display = (kindAt e a).msg ++ atSuffix (pathAt e a) := by
  rw [leafAt, display_leaf_eq, locSuffix_eq]

/-! ## conversion to compiler diagnostics -/

/-- the diagnostic the leaf at `a` must produce: placed at the span that applies to the leaf with
    the leaf's bare message, or, when no span applies, unplaced with the message and full path -/
def diagAt (e : Err) (a : Addr) : Option Span × String :=
  match spanAt e a with
  | some sp => (some sp, (kindAt e a).msg)
  | none => (none, (kindAt e a).msg ++ atSuffix (pathAt e a))

theorem synRow_leafAt (e : Err) (a : Addr) : synRow (leafAt e a) = diagAt e a := by
  rw [synRow, diagAt, leafAt, display_leaf_eq, locSuffix_eq]
  show (match spanAt e a with
    | some s => (some s, (kindAt e a).msg)
    | none => (none, (kindAt e a).msg ++ atSuffix (pathAt e a))) = _
  rfl

/-- **Diagnostics** (side condition: a value that counts one error is a leaf). -/
theorem toSyn_spec_partial {e : Err} (h : e.len = 1 → e.isLeaf = true) :
    e.toSyn = (leafAddrs e).map (diagAt e) := by
  have hrows : (intoVec e).map synRow = (leafAddrs e).map (diagAt e) := by
    rw [intoVec_spec, List.map_map]
    apply List.map_congr_left
    intro a _
    exact synRow_leafAt e a
  unfold Err.toSyn
  split
  · rename_i h1
    have hl := h h1
    cases e with
    | multi cs ls s => simp only [isLeaf] at hl; cases hl
    | leaf k ls s =>
        rw [← hrows]
        simp only [intoVec, intoVecP_leaf, List.nil_append, inheritSpan, List.map_cons, List.map_nil]
  · exact hrows

theorem WF_len_one_isLeaf {e : Err} (h : Spec.C04.WF e) : e.len = 1 → e.isLeaf = true := by
  intro h1
  cases e with
  | leaf k ls s => rfl
  | multi cs ls s => have := WF_multi_len h; omega

/-- **Diagnostics, every reachable value**: exactly one diagnostic per leaf position, in
    left-to-right order. -/
theorem toSyn_spec {e : Err} (h : Reachable e) : e.toSyn = (leafAddrs e).map (diagAt e) :=
  toSyn_spec_partial (WF_len_one_isLeaf (reachable_WF h))

theorem toSyn_count {e : Err} (h : Reachable e) : e.toSyn.length = (leafAddrs e).length := by
  rw [toSyn_spec h, List.length_map]

/-- reading 1 of "with the leaf's message": the bare kind-specific message.  Holds when every
    leaf to which no span applies has an empty full path. -/
theorem toSyn_bare_messages_partial {e : Err} (h : Reachable e)
    (hs : ∀ a ∈ leafAddrs e, spanAt e a = none → pathAt e a = []) :
    e.toSyn.map (·.2) = (leafAddrs e).map (fun a => (kindAt e a).msg) := by
  rw [toSyn_spec h, List.map_map]
  apply List.map_congr_left
  intro a ha
  simp only [Function.comp, diagAt]
  cases hsp : spanAt e a with
  | some sp => rfl
  | none => simp only [hs a ha hsp, atSuffix, String.append_empty]

/-- reading 2 of "with the leaf's message": what the flattened leaf displays (message and full
    path).  Holds when every leaf to which a span applies has an empty full path. -/
theorem toSyn_display_messages_partial {e : Err} (h : Reachable e)
    (hs : ∀ a ∈ leafAddrs e, spanAt e a ≠ none → pathAt e a = []) :
    e.toSyn.map (·.2) = (leafAddrs e).map (fun a => (leafAt e a).display) := by
  rw [toSyn_spec h, List.map_map]
  apply List.map_congr_left
  intro a ha
  simp only [Function.comp, diagAt, display_leafAt]
  cases hsp : spanAt e a with
  | none => rfl
  | some sp =>
      have := hs a ha (by rw [hsp]; exact Option.some_ne_none sp)
      simp only [this, atSuffix, String.append_empty]

/-! ## the builders, read positionally -/

theorem nodesAlong_cons_dead {e : Err} {i : Nat} (b : Addr) (h : ∀ p, sub e (i :: p) = none) :
    nodesAlong e (i :: b) = [e] := by
  have hf : (sub e ∘ fun x => i :: x) = fun _ => none := funext h
  simp only [nodesAlong, prefixes, List.filterMap_cons, sub_nil, List.filterMap_map, hf]
  congr 1
  induction prefixes b with
  | nil => rfl
  | cons x xs ih => simp only [List.filterMap_cons, ih]

theorem leafAddrs_at (e : Err) (l : String) : leafAddrs (e.at l) = leafAddrs e := by
  cases e <;> rfl

theorem sub_at_cons (e : Err) (l : String) (i : Nat) (p : Addr) :
    sub (e.at l) (i :: p) = sub e (i :: p) := by
  cases e <;> rfl

theorem kindAt_at (e : Err) (l : String) (a : Addr) : kindAt (e.at l) a = kindAt e a := by
  cases a with
  | nil => cases e <;> rfl
  | cons i p => simp only [kindAt, sub_at_cons]

/-- **`at` locates**: the new segment goes in front of the full path of every node -/
theorem pathAt_at (e : Err) (l : String) (a : Addr) : pathAt (e.at l) a = l :: pathAt e a := by
  cases a with
  | nil => rw [pathAt_nil, pathAt_nil]; cases e <;> rfl
  | cons i b =>
      cases e with
      | leaf k ls s =>
          have d1 : ∀ p, sub (Err.leaf k (l :: ls) s) (i :: p) = none := fun _ => rfl
          have d2 : ∀ p, sub (Err.leaf k ls s) (i :: p) = none := fun _ => rfl
          simp only [Err.at, pathAt, nodesAlong_cons_dead b d1, nodesAlong_cons_dead b d2,
            List.flatMap_cons, List.flatMap_nil, Err.locs, List.append_nil]
      | multi cs ls s =>
          cases hc : cs[i]? with
          | some c =>
              simp only [Err.at, pathAt_multi_cons _ s b hc, List.cons_append]
          | none =>
              have d1 : ∀ p, sub (Err.multi cs (l :: ls) s) (i :: p) = none :=
                fun p => sub_multi_cons_none _ s p hc
              have d2 : ∀ p, sub (Err.multi cs ls s) (i :: p) = none :=
                fun p => sub_multi_cons_none _ s p hc
              simp only [Err.at, pathAt, nodesAlong_cons_dead b d1, nodesAlong_cons_dead b d2,
                List.flatMap_cons, List.flatMap_nil, Err.locs, List.append_nil]

/-- **`multiple` bundles**: of two or more errors it makes a node without location or span whose
    `i`-th child is the `i`-th error, so every leaf keeps its kind, path and span and the leaves
    of the bundle are those of the first error, then those of the second, … -/
theorem multiple_positional {es : List Err} (h : 2 ≤ es.length) :
    ∃ f, Err.multiple es = .ok f
      ∧ leafAddrs f = leafAddrsFrom 0 es
      ∧ ∀ i c, es[i]? = some c → ∀ a, sub f (i :: a) = sub c a ∧ kindAt f (i :: a) = kindAt c a
          ∧ pathAt f (i :: a) = pathAt c a ∧ spanAt f (i :: a) = spanAt c a := by
  refine ⟨.multi es [] none, multiple_many es h, rfl, ?_⟩
  intro i c hc a
  refine ⟨sub_multi_cons _ _ a hc, kindAt_multi_cons _ _ a hc, ?_, ?_⟩
  · rw [pathAt_multi_cons _ _ a hc, List.nil_append]
  · rw [spanAt_multi_cons _ _ a hc, Option.or_none]

/-- `with_span` moves no leaf and changes no kind or path -/
theorem withSpan_positional (e : Err) (sp : Span) :
    leafAddrs (e.withSpan sp) = leafAddrs e
      ∧ (e.withSpan sp).locs = e.locs
      ∧ (e.withSpan sp).span = e.span.or (some sp)
      ∧ ∀ i p, sub (e.withSpan sp) (i :: p) = sub e (i :: p) := by
  cases e with
  | leaf k ls s => cases s <;> exact ⟨rfl, rfl, rfl, fun _ _ => rfl⟩
  | multi cs ls s => cases s <;> exact ⟨rfl, rfl, rfl, fun _ _ => rfl⟩

/-! ## examples: non-vacuity of every hypothesis, and the discrepancies -/

/-- depth 3, three kinds, locations on three levels, spans on a leaf and on an inner bundle -/
def t : Err :=
  .multi [ .leaf (.custom "a") ["x"] none,
           .multi [ .leaf (.missingField "f") [] (some ⟨1, 6⟩),
                    .leaf (.tooFewItems 1) ["q"] none ] ["m"] (some ⟨8, 12⟩) ] ["top"] none

theorem t_reachable : Reachable t := by
  have a : Reachable (.leaf (.custom "a") ["x"] none) := Reachable.at "x" (Reachable.new _)
  have f : Reachable (.leaf (.missingField "f") [] (some ⟨1, 6⟩)) :=
    Reachable.withSpan ⟨1, 6⟩ (Reachable.new _)
  have q : Reachable (.leaf (.tooFewItems 1) ["q"] none) := Reachable.at "q" (Reachable.new _)
  have m0 : Reachable (.multi [.leaf (.missingField "f") [] (some ⟨1, 6⟩),
      .leaf (.tooFewItems 1) ["q"] none] [] none) :=
    Reachable.multiple (es := [_, _])
      (by intro x hx; simp only [List.mem_cons, List.not_mem_nil, or_false] at hx
          rcases hx with h | h <;> subst h <;> assumption) rfl
  have m : Reachable (.multi [.leaf (.missingField "f") [] (some ⟨1, 6⟩),
      .leaf (.tooFewItems 1) ["q"] none] ["m"] (some ⟨8, 12⟩)) :=
    Reachable.withSpan ⟨8, 12⟩ (Reachable.at "m" m0)
  have t0 := Reachable.multiple (es := [_, _]) (e := .multi [.leaf (.custom "a") ["x"] none,
      .multi [.leaf (.missingField "f") [] (some ⟨1, 6⟩), .leaf (.tooFewItems 1) ["q"] none]
        ["m"] (some ⟨8, 12⟩)] [] none)
    (by intro x hx; simp only [List.mem_cons, List.not_mem_nil, or_false] at hx
        rcases hx with h | h <;> subst h <;> assumption) rfl
  exact Reachable.at "top" t0

-- the positional reading of `t`
example : leafAddrs t = [[0], [1, 0], [1, 1]] := by decide
example : (leafAddrs t).map (pathAt t) = [["top", "x"], ["top", "m"], ["top", "m", "q"]] := by decide
example : (leafAddrs t).map (spanAt t) = [none, some ⟨1, 6⟩, some ⟨8, 12⟩] := by decide
example : (leafAddrs t).map (kindAt t) = [.custom "a", .missingField "f", .tooFewItems 1] := by decide
example : nodesAlong t [1, 1] =
    [t, .multi [.leaf (.missingField "f") [] (some ⟨1, 6⟩), .leaf (.tooFewItems 1) ["q"] none]
          ["m"] (some ⟨8, 12⟩), .leaf (.tooFewItems 1) ["q"] none] := rfl
-- what the theorems then give on `t` (all confirmed on the real library, see the audit report)
example : t.len = 3 := by decide
example : t.toSyn = [(none, "a at top/x"), (some ⟨1, 6⟩, "Missing field `f`"),
    (some ⟨8, 12⟩, "Too few items: Expected at least 1")] := by decide
example : t.display = "Multiple errors: (a at x, Multiple errors: (Missing field `f`, " ++
    "Too few items: Expected at least 1 at q) at m) at top" := by decide

-- hypotheses of `flatten_positional`, `display_spec`, `toSyn_spec`, `count_pos`: `Reachable e`
example : ∃ e, Reachable e ∧ 2 ≤ e.len := ⟨t, t_reachable, by decide⟩
example : ∃ e, Reachable e ∧ e.len = 1 := ⟨Err.new (.custom "a"), Reachable.new _, rfl⟩
-- hypothesis of `flatten_positional_partial`
example : 1 ≤ t.len := by decide
-- hypothesis of `flatten_count`, and the premise used inside `flatten_twice`
example : ∃ f, t.flatten = .ok f := ⟨_, rfl⟩
-- hypothesis of `display_spec_partial`
example : NotBundleOfOne t := by simp only [NotBundleOfOne, t]; decide
example : NotBundleOfOne (.multi [] [] none) := by simp only [NotBundleOfOne]; decide
-- hypothesis of `toSyn_spec_partial`, both ways of meeting it
example : t.len = 1 → t.isLeaf = true := by decide
example : (Err.leaf (.custom "a") [] none).len = 1 → (Err.leaf (.custom "a") [] none).isLeaf = true := by decide
-- hypotheses of `leafAddrs_canonical`
example : ∃ l : List Addr, l.Pairwise (· < ·) ∧ ∀ a, a ∈ l ↔ IsLeafAddr t a :=
  ⟨leafAddrs t, leafAddrs_sorted t, mem_leafAddrs t⟩
-- hypothesis of `multiple_positional`
example : 2 ≤ [Err.new (.custom "a"), Err.new (.custom "b")].length := by decide
-- hypothesis of `kindAt_spec`
example : IsLeafAddr t [1, 1] := ⟨_, _, _, rfl⟩

/-- a reachable tree on which the side condition of `toSyn_bare_messages_partial` holds with both
    of its cases exercised: a located leaf under a span, an unlocated leaf under none -/
def tBare : Err :=
  .multi [.leaf (.custom "a") ["x"] (some ⟨1, 6⟩), .leaf (.custom "b") [] none] [] none

theorem tBare_reachable : Reachable tBare := by
  have a : Reachable (.leaf (.custom "a") ["x"] (some ⟨1, 6⟩)) :=
    Reachable.at "x" (Reachable.withSpan ⟨1, 6⟩ (Reachable.new _))
  have b : Reachable (.leaf (.custom "b") [] none) := Reachable.new _
  exact Reachable.multiple (es := [_, _])
    (by intro x hx; simp only [List.mem_cons, List.not_mem_nil, or_false] at hx
        rcases hx with h | h <;> subst h <;> assumption) rfl

example : ∀ a ∈ leafAddrs tBare, spanAt tBare a = none → pathAt tBare a = [] := by decide
example : tBare.toSyn.map (·.2) = ["a", "b"] := by decide

/-- … and one for `toSyn_display_messages_partial`: a located leaf under no span, an unlocated
    leaf under a span -/
def tDisp : Err :=
  .multi [.leaf (.custom "a") ["x"] none, .leaf (.custom "b") [] (some ⟨1, 6⟩)] [] none

theorem tDisp_reachable : Reachable tDisp := by
  have a : Reachable (.leaf (.custom "a") ["x"] none) := Reachable.at "x" (Reachable.new _)
  have b : Reachable (.leaf (.custom "b") [] (some ⟨1, 6⟩)) :=
    Reachable.withSpan ⟨1, 6⟩ (Reachable.new _)
  exact Reachable.multiple (es := [_, _])
    (by intro x hx; simp only [List.mem_cons, List.not_mem_nil, or_false] at hx
        rcases hx with h | h <;> subst h <;> assumption) rfl

example : ∀ a ∈ leafAddrs tDisp, spanAt tDisp a ≠ none → pathAt tDisp a = [] := by decide
example : tDisp.toSyn.map (·.2) = ["a at x", "b"] := by decide

/-! ### discrepancy D1 (reproduces on the library): "with the leaf's message" has no uniform reading

The text of a diagnostic is the leaf's bare message when a span applies to the leaf and the
message *with the full path* when none does.  Neither "the kind-specific message" nor "what the
leaf displays" holds for all trees; `toSyn_spec` is the exact statement. -/

/-- reading 1 fails: no span, a path -/
def d1a : Err := .leaf (.custom "a") ["x"] none
example : Reachable d1a := Reachable.at "x" (Reachable.new _)
example : d1a.toSyn.map (·.2) = ["a at x"] := by decide
example : (leafAddrs d1a).map (fun a => (kindAt d1a a).msg) = ["a"] := by decide
example : ¬ (∀ a ∈ leafAddrs d1a, spanAt d1a a = none → pathAt d1a a = []) := by decide

/-- reading 2 fails: a span, a path -/
def d1b : Err := .leaf (.custom "a") ["x"] (some ⟨1, 6⟩)
example : Reachable d1b := Reachable.at "x" (Reachable.withSpan ⟨1, 6⟩ (Reachable.new _))
example : d1b.toSyn.map (·.2) = ["a"] := by decide
example : (leafAddrs d1b).map (fun a => (leafAt d1b a).display) = ["a at x"] := by decide
example : ¬ (∀ a ∈ leafAddrs d1b, spanAt d1b a ≠ none → pathAt d1b a = []) := by decide

/-- the span may be an ancestor's: a span on a bundle silences the paths of all its unspanned
    leaves, also through an unspanned inner bundle -/
def d1c : Err :=
  .multi [ .multi [.leaf (.custom "a") ["x"] none, .leaf (.custom "b") ["y"] none] ["in"] none,
           .leaf (.custom "c") ["z"] none ] [] (some ⟨8, 12⟩)
example : d1c.toSyn = [(some ⟨8, 12⟩, "a"), (some ⟨8, 12⟩, "b"), (some ⟨8, 12⟩, "c")] := by decide
example : (leafAddrs d1c).map (pathAt d1c) = [["in", "x"], ["in", "y"], ["z"]] := by decide

/-! ### model-only cases excluded by the side conditions (no public operation builds them) -/

/-- a bundle of one shows its child, not `Multiple errors: (…)` (`display_spec_partial`) -/
def bundleOfOne : Err := .multi [.leaf (.custom "a") ["x"] none] ["y"] none
example : ¬ NotBundleOfOne bundleOfOne := fun h => h rfl
example : bundleOfOne.display = "a at x at y" := by decide
example : kindMessage bundleOfOne ++ atSuffix bundleOfOne.locs = "Multiple errors: (a at x) at y" := by
  decide
/-- … and converts to one diagnostic whose text is not that of its leaf (`toSyn_spec_partial`) -/
example : bundleOfOne.toSyn = [(none, "a at x at y")] := by decide
example : (leafAddrs bundleOfOne).map (diagAt bundleOfOne) = [(none, "a at y/x")] := by decide
example : ¬ (bundleOfOne.len = 1 → bundleOfOne.isLeaf = true) := by decide

/-- an empty bundle counts 0 and cannot be flattened (`flatten_positional_partial`) -/
theorem empty_bundle_flatten_panics :
    (Err.multi [] [] none).len = 0 ∧ (Err.multi [] [] none).flatten.isPanic = true := ⟨rfl, rfl⟩

end C04
